/- C08 — helper lemmas: building the tree commutes with the layout normal form of the call stream
(`saxTree ∘ layoutNorm = map stripLayout ∘ saxTree ∘ renderDoc`), which ties the stream-level
`indent_ws_only` to the tree-level `lxml_indent_ws_only`. -/
import XsdataModel.Proofs.C08Writer

namespace Xs.Backends
open Py Xs.Bind

/-! ### the normal form as an online transducer -/

structure TState where
  buf : Str := []
  prevOpen : Bool := false

/-- what `NState.flush` appends -/
def tflush (e : Env) (t : TState) (nextClose : Bool) : List Sax :=
  if t.buf.isEmpty then []
  else if W e t.buf && !(t.prevOpen && nextClose) then []
  else [Sax.chars t.buf]

def trun (e : Env) : TState → List ISax → List Sax
  | t, [] => tflush e t false
  | t, .ws s :: r => trun e { t with buf := t.buf ++ s } r
  | t, .sax (.chars s) :: r => trun e { t with buf := t.buf ++ s } r
  | t, .sax (.open q a) :: r => tflush e t false ++ (Sax.open q a :: trun e ⟨[], true⟩ r)
  | t, .sax (.close q) :: r => tflush e t true ++ (Sax.close q :: trun e ⟨[], false⟩ r)

theorem flush_emitted (e : Env) (n : NState) (c : Bool) :
    (n.flush e c).emitted = n.emitted ++ tflush e ⟨n.buf, n.prevOpen⟩ c := by
  unfold NState.flush tflush
  by_cases h1 : n.buf.isEmpty = true
  · simp [h1]
  · simp only [h1, Bool.false_eq_true, if_false, W]
    split <;> simp

theorem trun_feedAll (e : Env) (S : List ISax) (n : NState) :
    ((feedAll e n S).flush e false).emitted = n.emitted ++ trun e ⟨n.buf, n.prevOpen⟩ S := by
  induction S generalizing n with
  | nil => exact flush_emitted e n false
  | cons x r ih =>
    rw [feedAll_cons, ih]
    cases x with
    | ws s => simp [NState.feed, trun]
    | sax y =>
      cases y with
      | chars s => simp [NState.feed, trun]
      | «open» q a =>
        have k := flush_keeps e n false
        simp only [NState.feed, trun, k.2.2.2, flush_emitted, List.append_assoc, List.cons_append,
          List.nil_append]
      | close q =>
        have k := flush_keeps e n true
        simp only [NState.feed, trun, k.2.2.2, flush_emitted, List.append_assoc, List.cons_append,
          List.nil_append]

theorem layoutNorm_trun (e : Env) (S : List ISax) : layoutNorm e S = trun e {} S := by
  have := trun_feedAll e S {}
  simpa [layoutNorm, normState, feedAll] using this

/-! ### stripping frames -/

/-- what `stripLayoutKids` does to one child -/
def kidStrip (e : Env) (k : Tree) : Tree :=
  if wsOnly e (treeTail (stripLayout e k)) then treeSetTail (stripLayout e k) none else stripLayout e k

theorem stripLayoutKids_map (e : Env) (ks : List Tree) : stripLayoutKids e ks = ks.map (kidStrip e) := by
  induction ks with
  | nil => simp [stripLayoutKids]
  | cons k ks ih => simp [stripLayoutKids, kidStrip, ih]

def stripText (e : Env) (t : Option Str) : Option Str := if wsOnly e t then none else t

/-- a finished child whose tail is still pending -/
def kidBase (e : Env) (k : Tree) : Tree := treeSetTail (stripLayout e k) none

/-- an open element that has, or is getting, a child -/
def stripFrame (e : Env) (f : Frame) : Frame := ⟨f.q, f.attrs, stripText e f.text, f.kids.map (kidStrip e)⟩

def optOf (b : Str) : Option Str := if b.isEmpty then none else some b

theorem appendText_optOf (b s : Str) (hs : s ≠ []) : appendText (optOf b) s = optOf (b ++ s) := by
  unfold optOf appendText
  by_cases hb : b.isEmpty = true
  · have : b = [] := by simpa [List.isEmpty_iff] using hb
    subst this
    cases s with
    | nil => exact absurd rfl hs
    | cons c cs => simp
  · cases b with
    | nil => simp at hb
    | cons c cs => simp

theorem setTail_tail (t : Tree) : treeSetTail t (treeTail t) = t := by cases t; rfl

theorem kidBase_setTail (e : Env) (k : Tree) (x : Option Str) : kidBase e (treeSetTail k x) = kidBase e k := by
  unfold kidBase
  rw [stripLayout_setTail, setTail_setTail]

/-- the stripped child, from its base and its (final) tail -/
theorem kidStrip_of_tail (e : Env) (k : Tree) :
    kidStrip e k = if wsOnly e (treeTail k) then kidBase e k else treeSetTail (kidBase e k) (treeTail k) := by
  unfold kidStrip kidBase
  rw [treeTail_stripLayout]
  split
  · rfl
  · rw [setTail_setTail]
    conv => lhs; rw [← setTail_tail (stripLayout e k), treeTail_stripLayout]

end Xs.Backends

namespace Xs.Backends
open Py Xs.Bind

/-! ### the two readers, step by step -/

/-- the top frame of the reader of the rendered stream (`fS`) against the top frame of the reader of
the normal form (`fN`), with the run `t.buf` still pending in the transducer -/
def TopRel (e : Env) (fS fN : Frame) (t : TState) : Prop :=
  if t.prevOpen then fS.kids = [] ∧ fS.text = optOf t.buf ∧ fN = { fS with text := none }
  else fN.q = fS.q ∧ fN.attrs = fS.attrs ∧ fN.text = stripText e fS.text ∧
    ∃ k rest, fS.kids = k :: rest ∧ treeTail k = optOf t.buf ∧ fN.kids = kidBase e k :: rest.map (kidStrip e)

def StackRel (e : Env) (stS stN : List Frame) (t : TState) : Prop :=
  match stS, stN with
  | [], [] => W e t.buf = true
  | fS :: rS, fN :: rN => TopRel e fS fN t ∧ rN = rS.map (stripFrame e)
  | _, _ => False

/-- what the bridge needs of a call stream: character calls are not empty and inside an element,
`ignorableWhitespace` content is whitespace -/
def bridgeOK (e : Env) : Nat → List ISax → Bool
  | _, [] => true
  | d, .sax (.open _ _) :: r => bridgeOK e (d + 1) r
  | d, .sax (.close _) :: r => bridgeOK e (d - 1) r
  | d, .sax (.chars s) :: r => d != 0 && !s.isEmpty && bridgeOK e d r
  | d, .ws c :: r => W e c && bridgeOK e d r

theorem setLastTail_cons (s : Str) (x : Tree) (rest : List Tree) :
    setLastTail s (x :: rest) = treeSetTail x (appendText (treeTail x) s) :: rest := by
  cases x; rfl

theorem treeTail_kidBase (e : Env) (k : Tree) : treeTail (kidBase e k) = none := by
  unfold kidBase; rw [treeTail_setTail]

theorem setTail_none_of_tail (t : Tree) (h : treeTail t = none) : treeSetTail t none = t := by
  cases t; simp [treeTail] at h; subst h; rfl

theorem wsOnly_optOf (e : Env) (b : Str) : wsOnly e (optOf b) = W e b := by
  unfold optOf
  by_cases h : b.isEmpty = true
  · have : b = [] := by simpa [List.isEmpty_iff] using h
    subst this; simp [wsOnly, W]
  · simp [h, wsOnly, W]

theorem stripLayout_node_nonempty (e : Env) (q : QN) (a : List (QN × Str)) (n : NsMap) (t : Option Str)
    (c : List Tree) (tl : Option Str) (h : c ≠ []) :
    stripLayout e (.node q a n t c tl) = .node q a n (stripText e t) (c.map (kidStrip e)) tl := by
  cases c with
  | nil => exact absurd rfl h
  | cons k ks => simp only [stripLayout, stripText, stripLayoutKids_map]

/-- flushing in front of a tag where layout is dropped: the frame is the stripped frame afterwards -/
theorem flush_nonleaf (e : Env) (m : NsMap) (fS fN : Frame) (t : TState) (c : Bool) (rN : List Frame)
    (dn : Option Tree) (rest : List Sax) (h : TopRel e fS fN t) (hc : (t.prevOpen && c) = false) :
    saxTree m (tflush e t c ++ rest) (fN :: rN) dn = saxTree m rest (stripFrame e fS :: rN) dn := by
  unfold TopRel at h
  by_cases hp : t.prevOpen = true
  · simp only [hp, if_true] at h
    obtain ⟨hk, ht, hf⟩ := h
    subst hf
    unfold tflush
    by_cases hb : t.buf.isEmpty = true
    · have hb' : t.buf = [] := by simpa [List.isEmpty_iff] using hb
      simp only [hb, if_true, List.nil_append]
      congr 2
      simp [stripFrame, hk, ht, hb', optOf, stripText, wsOnly]
    · simp only [hb, Bool.false_eq_true, if_false, hc, Bool.not_false, Bool.and_true]
      by_cases hw : W e t.buf = true
      · simp only [hw, if_true, List.nil_append]
        congr 2
        have : wsOnly e (optOf t.buf) = true := by rw [wsOnly_optOf]; exact hw
        simp [stripFrame, hk, ht, stripText, this]
      · simp only [hw, Bool.false_eq_true, if_false, List.cons_append, List.nil_append]
        rw [saxTree]
        simp only [hk]
        congr 2
        have : wsOnly e (some t.buf) = false := by simpa [wsOnly, W] using hw
        simp [stripFrame, hk, ht, stripText, this, appendText, optOf, hb]
  · simp only [hp, Bool.false_eq_true, if_false] at h
    obtain ⟨hq, ha, htx, k, rk, hk, htl, hkn⟩ := h
    have hstrip : stripFrame e fS = ⟨fN.q, fN.attrs, fN.text,
        (if wsOnly e (treeTail k) then kidBase e k else treeSetTail (kidBase e k) (treeTail k))
          :: rk.map (kidStrip e)⟩ := by
      simp [stripFrame, hq, ha, htx, hk, kidStrip_of_tail]
    rw [hstrip, htl, wsOnly_optOf]
    unfold tflush
    by_cases hb : t.buf.isEmpty = true
    · have hb' : t.buf = [] := by simpa [List.isEmpty_iff] using hb
      simp only [hb, if_true, List.nil_append]
      congr 2
      cases fN
      simp_all [W]
    · simp only [hb, Bool.false_eq_true, if_false, hc, Bool.not_false, Bool.and_true]
      by_cases hw : W e t.buf = true
      · simp only [hw, if_true, List.nil_append]
        congr 2
        cases fN
        simp_all
      · simp only [hw, Bool.false_eq_true, if_false, List.cons_append, List.nil_append]
        rw [saxTree]
        simp only [hkn, setLastTail_cons, treeTail_kidBase]
        congr 2
        cases fN
        simp_all [appendText, optOf]

/-- flushing in front of the end tag of an element without children: the text is kept -/
theorem flush_leaf (e : Env) (m : NsMap) (fS fN : Frame) (t : TState) (rN : List Frame)
    (dn : Option Tree) (rest : List Sax) (h : TopRel e fS fN t) (hp : t.prevOpen = true) :
    saxTree m (tflush e t true ++ rest) (fN :: rN) dn = saxTree m rest (fS :: rN) dn := by
  unfold TopRel at h
  simp only [hp, if_true] at h
  obtain ⟨hk, ht, hf⟩ := h
  subst hf
  unfold tflush
  by_cases hb : t.buf.isEmpty = true
  · have hb' : t.buf = [] := by simpa [List.isEmpty_iff] using hb
    simp only [hb, if_true, List.nil_append]
    congr 2
    cases fS
    simp_all [optOf]
  · simp only [hb, Bool.false_eq_true, if_false, hp, Bool.and_self, Bool.not_true, Bool.and_false,
      List.cons_append, List.nil_append]
    rw [saxTree]
    simp only [hk]
    congr 2
    cases fS
    simp_all [appendText, optOf]

end Xs.Backends

namespace Xs.Backends
open Py Xs.Bind

/-- a character run arriving inside an open element: the rendered stream's reader stores it, the
transducer buffers it -/
theorem chars_step (e : Env) (m : NsMap) (fS : Frame) (rS stN : List Frame) (t : TState) (s : Str)
    (hs : s ≠ []) (dnS : Option Tree) (X : List Sax) (h : StackRel e (fS :: rS) stN t) :
    ∃ fS', saxTree m (Sax.chars s :: X) (fS :: rS) dnS = saxTree m X (fS' :: rS) dnS ∧
      StackRel e (fS' :: rS) stN { t with buf := t.buf ++ s } := by
  cases stN with
  | nil => simp [StackRel] at h
  | cons fN rN =>
    obtain ⟨htop, hrest⟩ := h
    unfold TopRel at htop
    by_cases hp : t.prevOpen = true
    · simp only [hp, if_true] at htop
      obtain ⟨hk, ht, hf⟩ := htop
      refine ⟨{ fS with text := appendText fS.text s }, ?_, ?_, hrest⟩
      · rw [saxTree]; simp only [hk]
      · unfold TopRel
        simp only [hp, if_true]
        refine ⟨hk, ?_, ?_⟩
        · show appendText fS.text s = optOf (t.buf ++ s)
          rw [ht, appendText_optOf _ _ hs]
        · rw [hf]
    · simp only [hp, Bool.false_eq_true, if_false] at htop
      obtain ⟨hq, ha, htx, k, rk, hk, htl, hkn⟩ := htop
      refine ⟨{ fS with kids := setLastTail s fS.kids }, ?_, ?_, hrest⟩
      · rw [saxTree]; simp only [hk]
      · unfold TopRel
        simp only [hp, Bool.false_eq_true, if_false]
        refine ⟨hq, ha, htx, treeSetTail k (appendText (treeTail k) s), rk, ?_, ?_, ?_⟩
        · show setLastTail s fS.kids = _
          rw [hk, setLastTail_cons]
        · rw [treeTail_setTail, htl, appendText_optOf _ _ hs]
        · rw [kidBase_setTail]; exact hkn

theorem W_append (e : Env) (a b : Str) : W e (a ++ b) = (W e a && W e b) := by
  simp [W, List.all_append]

/-- **the bridge**: reading the rendered call stream and stripping the layout of the tree is reading
the layout normal form of the stream -/
theorem bridge (e : Env) (m : NsMap) :
    ∀ (S : List ISax) (d : Nat) (stS : List Frame) (dnS : Option Tree) (stN : List Frame) (t : TState),
      bridgeOK e d S = true → d = stS.length → StackRel e stS stN t →
      (saxTree m (renderDoc d S) stS dnS).map (stripLayout e)
        = saxTree m (trun e t S) stN (dnS.map (stripLayout e)) := by
  intro S
  induction S with
  | nil =>
    intro d stS dnS stN t _ _ hrel
    simp only [renderDoc, trun]
    cases stS with
    | nil =>
      cases stN with
      | nil =>
        have hw : W e t.buf = true := hrel
        have : tflush e t false = [] := by
          unfold tflush
          by_cases hb : t.buf.isEmpty = true
          · simp [hb]
          · simp [hb, hw]
        rw [this]; simp [saxTree]
      | cons fN rN => simp [StackRel] at hrel
    | cons fS rS =>
      cases stN with
      | nil => simp [StackRel] at hrel
      | cons fN rN =>
        have : saxTree m (tflush e t false) (fN :: rN) (dnS.map (stripLayout e)) = none := by
          unfold tflush
          split
          · simp [saxTree]
          · split
            · simp [saxTree]
            · rw [saxTree]; split <;> simp [saxTree]
        rw [this]; simp [saxTree]
  | cons x r ih =>
    intro d stS dnS stN t hok hd hrel
    cases x with
    | ws c =>
      simp only [bridgeOK, Bool.and_eq_true] at hok
      obtain ⟨hwc, hokr⟩ := hok
      by_cases hskip : (d = 0 || c.isEmpty) = true
      · -- outside the root element, or nothing written: not part of the rendered stream
        simp only [renderDoc, hskip, if_true, trun]
        apply ih d stS dnS stN _ hokr hd
        by_cases hce : c.isEmpty = true
        · have : c = [] := by simpa [List.isEmpty_iff] using hce
          subst this
          simpa using hrel
        · have hd0 : d = 0 := by simpa [hce] using hskip
          subst hd0
          cases stS with
          | nil =>
            cases stN with
            | nil =>
              have hw : W e t.buf = true := hrel
              show W e (t.buf ++ c) = true
              rw [W_append, hw, hwc]; rfl
            | cons fN rN => simp [StackRel] at hrel
          | cons fS rS => simp at hd
      · have hd0 : d ≠ 0 := by
          intro h0; simp [h0] at hskip
        have hcne : c ≠ [] := by
          intro h0; simp [h0] at hskip
        simp only [renderDoc, hskip, Bool.false_eq_true, if_false, trun]
        cases stS with
        | nil => exact absurd hd hd0
        | cons fS rS =>
          obtain ⟨fS', hstep, hrel'⟩ := chars_step e m fS rS stN t c hcne dnS (renderDoc d r) hrel
          rw [hstep]
          exact ih d (fS' :: rS) dnS stN _ hokr (by simpa using hd) hrel'
    | sax y =>
      cases y with
      | chars s =>
        simp only [bridgeOK, Bool.and_eq_true, bne_iff_ne, ne_eq, Bool.not_eq_true'] at hok
        obtain ⟨⟨hd0, hse⟩, hokr⟩ := hok
        have hsne : s ≠ [] := by intro h0; simp [h0] at hse
        simp only [renderDoc, trun]
        cases stS with
        | nil => exact absurd hd hd0
        | cons fS rS =>
          obtain ⟨fS', hstep, hrel'⟩ := chars_step e m fS rS stN t s hsne dnS (renderDoc d r) hrel
          rw [hstep]
          exact ih d (fS' :: rS) dnS stN _ hokr (by simpa using hd) hrel'
      | «open» q a =>
        simp only [bridgeOK] at hok
        simp only [renderDoc, trun]
        cases stS with
        | nil =>
          cases stN with
          | cons fN rN => simp [StackRel] at hrel
          | nil =>
            have hw : W e t.buf = true := hrel
            have hfl : tflush e t false = [] := by
              unfold tflush
              by_cases hb : t.buf.isEmpty = true
              · simp [hb]
              · simp [hb, hw]
            rw [hfl, List.nil_append, saxTree, saxTree]
            cases dnS with
            | some x => simp
            | none =>
              simp only [Option.isSome_none, Bool.false_eq_true, if_false, Option.map_none]
              have := ih (d + 1) [⟨q, a, none, []⟩] none [⟨q, a, none, []⟩] ⟨[], true⟩ hok (by simp [hd])
                (by
                  refine ⟨?_, rfl⟩
                  unfold TopRel; simp [optOf])
              simpa using this
        | cons fS rS =>
          cases stN with
          | nil => simp [StackRel] at hrel
          | cons fN rN =>
            obtain ⟨htop, hrest⟩ := hrel
            rw [flush_nonleaf e m fS fN t false rN _ _ htop (by simp), saxTree, saxTree]
            cases dnS with
            | some x => simp
            | none =>
              simp only [Option.isSome_none, Bool.false_eq_true, if_false, Option.map_none]
              have := ih (d + 1) (⟨q, a, none, []⟩ :: fS :: rS) none
                (⟨q, a, none, []⟩ :: stripFrame e fS :: rN) ⟨[], true⟩ hok (by simp [hd])
                (by
                  refine ⟨?_, by simp [hrest]⟩
                  unfold TopRel; simp [optOf])
              simpa using this
      | close q =>
        simp only [bridgeOK] at hok
        simp only [renderDoc, trun]
        cases stS with
        | nil =>
          cases stN with
          | cons fN rN => simp [StackRel] at hrel
          | nil =>
            have : saxTree m (tflush e t true ++ Sax.close q :: trun e ⟨[], false⟩ r) []
                (dnS.map (stripLayout e)) = none := by
              unfold tflush
              split
              · simp [saxTree]
              · split <;> simp [saxTree]
            rw [this]; simp [saxTree]
        | cons fS rS =>
          cases stN with
          | nil => simp [StackRel] at hrel
          | cons fN rN =>
            obtain ⟨htop, hrest⟩ := hrel
            have hd' : d - 1 = rS.length := by simp [hd]
            by_cases hp : t.prevOpen = true
            · -- an element without children: its text is kept
              rw [flush_leaf e m fS fN t rN _ _ htop hp, saxTree, saxTree]
              have hk : fS.kids = [] := by
                unfold TopRel at htop; simp only [hp, if_true] at htop; exact htop.1
              by_cases hq : fS.q ≠ q
              · simp [hq]
              · simp only [hq, if_false]
                have hleaf : stripLayout e (Tree.node fS.q fS.attrs m fS.text fS.kids.reverse none)
                    = Tree.node fS.q fS.attrs m fS.text fS.kids.reverse none := by
                  simp [hk, stripLayout]
                cases rS with
                | nil =>
                  subst hrest
                  have := ih (d - 1) [] (some (Tree.node fS.q fS.attrs m fS.text fS.kids.reverse none)) []
                    ⟨[], false⟩ hok hd' (by show W e [] = true; simp [W])
                  simpa [hleaf] using this
                | cons p ps =>
                  subst hrest
                  have := ih (d - 1)
                    ({ p with kids := Tree.node fS.q fS.attrs m fS.text fS.kids.reverse none :: p.kids } :: ps)
                    dnS
                    ({ stripFrame e p with kids := Tree.node fS.q fS.attrs m fS.text fS.kids.reverse none
                        :: (stripFrame e p).kids } :: ps.map (stripFrame e))
                    ⟨[], false⟩ hok hd'
                    (by
                      refine ⟨?_, rfl⟩
                      unfold TopRel
                      simp only [Bool.false_eq_true, if_false]
                      refine ⟨rfl, rfl, rfl, _, _, rfl, by simp [treeTail, optOf], ?_⟩
                      simp only [stripFrame, kidBase, hleaf, treeSetTail])
                  simpa using this
            · -- an element with children: layout in front of its end tag is dropped
              have hp' : t.prevOpen = false := by simpa using hp
              rw [flush_nonleaf e m fS fN t true rN _ _ htop (by simp [hp']), saxTree, saxTree]
              have hkne : fS.kids.reverse ≠ [] := by
                unfold TopRel at htop
                simp only [hp, Bool.false_eq_true, if_false] at htop
                obtain ⟨_, _, _, k, rk, hk, _, _⟩ := htop
                simp [hk]
              have hq' : (stripFrame e fS).q = fS.q := rfl
              have ha' : (stripFrame e fS).attrs = fS.attrs := rfl
              by_cases hq : fS.q ≠ q
              · simp [hq, hq']
              · simp only [hq, hq', ha', if_false]
                have hnode : stripLayout e (Tree.node fS.q fS.attrs m fS.text fS.kids.reverse none)
                    = Tree.node fS.q fS.attrs m (stripFrame e fS).text (stripFrame e fS).kids.reverse none := by
                  rw [stripLayout_node_nonempty e _ _ _ _ _ _ hkne]
                  simp [stripFrame, List.map_reverse]
                cases rS with
                | nil =>
                  subst hrest
                  have := ih (d - 1) [] (some (Tree.node fS.q fS.attrs m fS.text fS.kids.reverse none)) []
                    ⟨[], false⟩ hok hd' (by show W e [] = true; simp [W])
                  simpa [hnode] using this
                | cons p ps =>
                  subst hrest
                  have := ih (d - 1)
                    ({ p with kids := Tree.node fS.q fS.attrs m fS.text fS.kids.reverse none :: p.kids } :: ps)
                    dnS
                    ({ stripFrame e p with kids := Tree.node fS.q fS.attrs m (stripFrame e fS).text (stripFrame e fS).kids.reverse none :: (stripFrame e p).kids } :: ps.map (stripFrame e))
                    ⟨[], false⟩ hok hd'
                    (by
                      refine ⟨?_, rfl⟩
                      unfold TopRel
                      simp only [Bool.false_eq_true, if_false]
                      refine ⟨rfl, rfl, rfl, _, _, rfl, by simp [treeTail, optOf], ?_⟩
                      simp only [stripFrame, kidBase, hnode, treeSetTail])
                  simpa using this

end Xs.Backends

namespace Xs.Backends
open Py Xs.Bind

/-! ### the writer's streams satisfy the bridge's side conditions -/

def Sax.charsNE : Sax → Bool
  | .chars s => !s.isEmpty
  | _ => true

/-- no empty `characters` call -/
def charsNE (xs : List Sax) : Bool := xs.all Sax.charsNE

theorem flush_charsNE (w : WState) (b : Bool) (h : charsNE w.out = true) : charsNE (w.flush b).out = true := by
  unfold WState.flush
  cases w.pending with
  | none => exact h
  | some q => simp [charsNE, List.all_append, Sax.charsNE] at h ⊢; exact h

theorem step_charsNE (m : NsMap) (isDt : Str → Bool) (w w' : WState) (ev : Ev)
    (hs : w.step m isDt ev = .ok w') (h : charsNE w.out = true) : charsNE w'.out = true := by
  cases ev with
  | start q =>
    simp only [WState.step, Except.ok.injEq] at hs
    subst hs
    exact flush_charsNE w false h
  | attr q d =>
    simp only [WState.step] at hs
    split at hs
    · cases hs
    · split at hs
      · simp only [Except.ok.injEq] at hs; subst hs; exact h
      · cases hs
      · cases hs
  | data d =>
    simp only [WState.step] at hs
    split at hs
    · cases hs
    · rename_i value _
      simp only [Except.ok.injEq] at hs
      subst hs
      have hf := flush_charsNE w value.isNone h
      cases value with
      | none => exact hf
      | some s =>
        by_cases hse : s.isEmpty = true
        · simpa [hse] using hf
        · simp only [hse, Bool.false_eq_true, if_false]
          simp only [charsNE, List.all_append, Bool.and_eq_true] at hf ⊢
          exact ⟨hf, by simp [Sax.charsNE, hse]⟩
  | «end» q =>
    simp only [WState.step, Except.ok.injEq] at hs
    subst hs
    have hf := flush_charsNE w true h
    cases htl : (w.flush true).tail with
    | none =>
      simp only [htl]
      simp only [charsNE, List.all_append, Bool.and_eq_true] at hf ⊢
      exact ⟨hf, by simp [Sax.charsNE]⟩
    | some t =>
      by_cases hte : t.isEmpty = true
      · simp only [htl, hte, if_true]
        simp only [charsNE, List.all_append, Bool.and_eq_true] at hf ⊢
        exact ⟨hf, by simp [Sax.charsNE]⟩
      · simp only [htl, hte, Bool.false_eq_true, if_false]
        simp only [charsNE, List.all_append, Bool.and_eq_true] at hf ⊢
        exact ⟨⟨hf, by simp [Sax.charsNE]⟩, by simp [Sax.charsNE, hte]⟩

theorem run_charsNE (m : NsMap) (isDt : Str → Bool) (evs : List Ev) (w wf : WState)
    (h : evs.foldlM (WState.step m isDt) w = .ok wf) (hw : charsNE w.out = true) : charsNE wf.out = true := by
  induction evs generalizing w with
  | nil =>
    have h' : (Except.ok w : Except Err WState) = .ok wf := h
    cases h'; exact hw
  | cons ev evs ih =>
    cases hst : w.step m isDt ev with
    | error x => rw [foldlM_cons_err _ _ _ _ _ hst] at h; cases h
    | ok w1 =>
      rw [foldlM_cons_ok _ _ _ _ _ hst] at h
      exact ih w1 h (step_charsNE m isDt w w1 ev hst hw)

/-- every `ignorableWhitespace` content is whitespace -/
def wsAllW (e : Env) : List ISax → Bool
  | [] => true
  | .ws c :: r => W e c && wsAllW e r
  | .sax _ :: r => wsAllW e r

theorem wsAllW_append (e : Env) (xs ys : List ISax) : wsAllW e (xs ++ ys) = (wsAllW e xs && wsAllW e ys) := by
  induction xs with
  | nil => simp [wsAllW]
  | cons x xs ih => cases x <;> simp [wsAllW, ih, Bool.and_assoc]

theorem wsAllW_map_sax (e : Env) (d : List Sax) : wsAllW e (d.map ISax.sax) = true := by
  induction d with
  | nil => rfl
  | cons x xs ih => simpa [wsAllW] using ih

theorem super_wsAllW (e : Env) (m : NsMap) (isDt : Str → Bool) (s s' : IState) (ev : Ev)
    (h : s.super m isDt ev = .ok s') (hw : wsAllW e s.out = true) : wsAllW e s'.out = true := by
  unfold IState.super at h
  cases hst : s.w.step m isDt ev with
  | error x => rw [hst] at h; cases h
  | ok w' =>
    rw [hst] at h
    cases h
    simp only [wsAllW_append, hw, wsAllW_map_sax, Bool.and_self]

theorem ignorableWs_wsAllW (e : Env) (s : IState) (c : Str) (hc : W e c = true) (hw : wsAllW e s.out = true) :
    wsAllW e (s.ignorableWs c).out = true := by
  simp [IState.ignorableWs, wsAllW_append, hw, wsAllW, hc]

theorem step_wsAllW (e : Env) (m : NsMap) (isDt : Str → Bool) (indent : Option Str)
    (hind : ∀ i, indentOn indent = some i → W e i = true)
    (s s' : IState) (ev : Ev) (h : s.step m isDt indent ev = .ok s') (hw : wsAllW e s.out = true) :
    wsAllW e s'.out = true := by
  cases ev with
  | attr q d => exact super_wsAllW e m isDt s s' _ (by simpa only [IState.step] using h) hw
  | data d => exact super_wsAllW e m isDt s s' _ (by simpa only [IState.step] using h) hw
  | start q =>
    simp only [IState.step] at h
    cases h1 : s.super m isDt (.start q) with
    | error x => rw [h1] at h; cases h
    | ok s1 =>
      rw [h1] at h
      have hw1 := super_wsAllW e m isDt s s1 _ h1 hw
      cases hi : indentOn indent with
      | none => simp only [hi] at h; cases h; exact hw1
      | some i =>
        simp only [hi] at h
        have hWi := hind i hi
        cases h
        split
        · exact ignorableWs_wsAllW e _ _ (W_strMul e i _ hWi) (ignorableWs_wsAllW e _ _ (W_newline e) hw1)
        · exact hw1
  | «end» q =>
    simp only [IState.step] at h
    cases hi : indentOn indent with
    | none => simp only [hi] at h; exact super_wsAllW e m isDt s s' _ h hw
    | some i =>
      simp only [hi] at h
      have hWi := hind i hi
      generalize hs0 : ({ (if (s.pendingEnd && !s.afterChars) = true then
          (({ s with level := s.level - 1 } : IState).ignorableWs ['\n']).ignorableWs (strMul i (s.level - 1))
          else { s with level := s.level - 1 }) with afterChars := false } : IState) = s0 at h
      have hw0 : wsAllW e s0.out = true := by
        rw [← hs0]
        split
        · exact ignorableWs_wsAllW e _ _ (W_strMul e i _ hWi) (ignorableWs_wsAllW e _ _ (W_newline e) hw)
        · exact hw
      cases h1 : s0.super m isDt (.end q) with
      | error x => rw [h1] at h; cases h
      | ok s1 =>
        rw [h1] at h
        have hw1 := super_wsAllW e m isDt s0 s1 _ h1 hw0
        cases h
        split
        · exact ignorableWs_wsAllW e _ _ (W_newline e) hw1
        · exact hw1

theorem run_wsAllW (e : Env) (m : NsMap) (isDt : Str → Bool) (indent : Option Str)
    (hind : ∀ i, indentOn indent = some i → W e i = true)
    (evs : List Ev) (s sf : IState) (h : evs.foldlM (IState.step m isDt indent) s = .ok sf)
    (hw : wsAllW e s.out = true) : wsAllW e sf.out = true := by
  induction evs generalizing s with
  | nil =>
    have h' : (Except.ok s : Except Err IState) = .ok sf := h
    cases h'; exact hw
  | cons ev evs ih =>
    cases h1 : s.step m isDt indent ev with
    | error x => rw [foldlM_cons_err _ _ _ _ _ h1] at h; cases h
    | ok s1 =>
      rw [foldlM_cons_ok _ _ _ _ _ h1] at h
      exact ih s1 h (step_wsAllW e m isDt indent hind s s1 ev h1 hw)

/-- the sax part of `bridgeOK` -/
def saxOK : Nat → List Sax → Bool
  | _, [] => true
  | d, .open _ _ :: r => saxOK (d + 1) r
  | d, .close _ :: r => saxOK (d - 1) r
  | d, .chars s :: r => d != 0 && !s.isEmpty && saxOK d r

theorem bridgeOK_split (e : Env) (S : List ISax) (d : Nat) :
    bridgeOK e d S = (wsAllW e S && saxOK d (eraseWs S)) := by
  induction S generalizing d with
  | nil => rfl
  | cons x r ih =>
    cases x with
    | ws c => simp [bridgeOK, wsAllW, eraseWs, ih, Bool.and_assoc]
    | sax y =>
      cases y with
      | chars s =>
        simp only [bridgeOK, wsAllW, eraseWs, saxOK, ih]
        cases wsAllW e r <;> simp
      | «open» q a => simp [bridgeOK, wsAllW, eraseWs, saxOK, ih]
      | close q => simp [bridgeOK, wsAllW, eraseWs, saxOK, ih]

/-- a stream without empty runs that builds a tree satisfies `saxOK` -/
theorem saxTree_saxOK (m : NsMap) (xs : List Sax) :
    ∀ (stack : List Frame) (done : Option Tree) (t : Tree),
      saxTree m xs stack done = some t → charsNE xs = true → saxOK stack.length xs = true := by
  induction xs with
  | nil => intro _ _ _ _ _; rfl
  | cons x r ih =>
    intro stack done t h hne
    have hner : charsNE r = true := by
      simp only [charsNE, List.all_cons, Bool.and_eq_true] at hne; exact hne.2
    cases x with
    | «open» q a =>
      simp only [saxTree] at h
      split at h
      · cases h
      · simpa [saxOK] using ih _ _ _ h hner
    | chars s =>
      have hs : s.isEmpty = false := by
        simp only [charsNE, List.all_cons, Bool.and_eq_true, Sax.charsNE, Bool.not_eq_true'] at hne
        exact hne.1
      cases stack with
      | nil => simp [saxTree] at h
      | cons f st =>
        simp only [saxTree] at h
        simp only [saxOK, hs, Bool.not_false, Bool.and_true, Bool.and_eq_true, bne_iff_ne, ne_eq]
        refine ⟨by simp, ?_⟩
        split at h
        · have := ih _ _ _ h hner; simpa using this
        · have := ih _ _ _ h hner; simpa using this
    | close q =>
      cases stack with
      | nil => simp [saxTree] at h
      | cons f st =>
        simp only [saxTree] at h
        split at h
        · cases h
        · simp only [saxOK]
          cases st with
          | nil => simpa using ih _ _ _ h hner
          | cons p ps => simpa using ih _ _ _ h hner

end Xs.Backends
