/- C18 — Python-code rendering evaluates back to the object: property theorems,
for the code as it is after the fix commits 1242bcb (enum members by
`__qualname__`), e20b710 (tuples keep their brackets), 3837894 (QName text
through `json.dumps`).

Reading guide (definitions in Code/Pycode.lean and Code/PycodeWF.lean):
  `render W v`      the expression `PycodeSerializer.repr_object` emits for `v`
  `importsEnv W v`  the names the emitted `from m import n` lines bind
  `run W v`         that expression evaluated in that namespace
  `pyEq a b`        Python `a == b`
  `wf W v`          `v` is built from classes that exist in world `W`
  `domOK W v`       the property's own domain (no NaN, hashable keys,
                    `init=False` attributes at their default)
  `renders W v`     `render` returns instead of raising SerializerError: no
                    outermost name belongs to classes of two modules
-/
import XsdataModel.Proofs.PycodeLit

namespace Props.C18
open Py Xs.Code

/-! ## The formats the model reads off the code (re-checked against Tables.lean) -/

/-- `literal_value` writes non-finite floats as `float("…")` and QNames as
`QName("…")` — a call of the bare names `float` / `QName` with one
double-quoted literal; `build_imports` writes `from M import N\n`; an enum
member is written `Qual.Name.MEMBER`; `float`, `set`, `frozenset` are builtins
and `QName` is not. -/
theorem literal_formats :
    Tables.floatLitPre = cs!"float(\"" ∧ Tables.floatLitPost = cs!"\")" ∧
    Tables.qnameLitPre = cs!"QName(\"" ∧ Tables.qnameLitPost = cs!"\")" ∧
    Tables.importPre = cs!"from " ∧ Tables.importMid = cs!" import " ∧ Tables.importPost = cs!"\n" ∧
    Tables.enumStrSep = cs!"." ∧ Tables.enumNestedProbe = cs!"O7.E7.A7" ∧ Tables.qnameName = cs!"QName" ∧
    Tables.builtinNames.contains cs!"float" = true ∧ Tables.builtinNames.contains cs!"set" = true ∧
    Tables.builtinNames.contains cs!"frozenset" = true ∧ Tables.builtinNames.contains cs!"QName" = false := by
  decide

/-- the text the live `repr_object` gives for `(1,)`, `[1]`, `{1}`,
`frozenset({1})`, `()`, `[]`, `set()`, `frozenset()`, `{}`, `{1: 1}` is what
the model prints: every array kind keeps its own display -/
theorem layout_probes :
    Tables.reprProbes =
      [Val.tuple [.int 1], .list [.int 1], .set false [.int 1], .set true [.int 1], .tuple [], .list [],
       .set false [], .set true [], .dict [], .dict [(.int 1, .int 1)]].map (fun v => (render [] v).text 0) := by
  decide

/-- for each of the 128 ASCII characters, what the live `literal_value` puts
between `QName("` and `")` is the model's `json.dumps` escape -/
theorem qname_escapes_ascii :
    Tables.qnameEscAscii = (List.range 128).map (fun i => jsonEscChar (Char.ofNat i)) := by
  decide

/-- a lone surrogate in a QName text is written as its `\udXXX` escape -/
theorem qname_escapes_surrogates :
    Tables.qnameEscSurrogates = [0xD800, 0xDBFF, 0xDC00, 0xDFFF].map escapeCp := by
  decide

/-- `repr()` of the probe strings and bytes, as the interpreter prints them
today, is what the model computes (quote choice, `\\x`/`\\u`/`\\U` escapes, the
printability table) -/
theorem repr_probes :
    Tables.strReprProbes.all (fun p => pyReprStr tblPrintable p.1 == p.2) = true ∧
    Tables.bytesReprProbes.all (fun p => pyReprBytes p.1 == p.2) = true := by
  decide +kernel

/-! ## What holds of the code as it is -/

/-- **str_repr_roundtrips**: for every string of scalar values and *every*
printability table, the parser reads `repr(s)` — whichever quote it picked,
with `\\x`, `\\u`, `\\U` escapes for what it found unprintable — back as `s`.
This discharges the hypothesis `domOK` makes about the `repr` of a `str`. -/
theorem str_repr_roundtrips (pr : Char → Bool) (s : Str) : decodeStrLit (pyReprStr pr s) = some s :=
  decodeStrLit_pyReprStr pr s

/-- **float_repr_evaluates_back**: for every value of the binary64 format
(zeros of both signs, subnormal and normal numbers, ±inf, NaN) the token
`repr(x)` / the argument of `float("…")` is read back as exactly `x` - C05's
`float_repr_rt` at the place where the code serializer relies on it. This
discharges what `domOK` asks of a float (`r = x.repr`, `x` canonical). -/
theorem float_repr_evaluates_back (x : Xs.Conv.F64) (hx : f64Canonical x = true) :
    readFloat x.repr = some x :=
  Props.C05.float_repr_rt Py.Env.ascii x (canonical_of_B hx)

/-- **decimal_repr_evaluates_back**: for every `Decimal` (any sign, coefficient
and exponent - `1E+3`, `-0E-7`, `0.000001`, `1.50` -, the infinities, quiet and
signaling NaN with payload) `repr(d)` = `Decimal('<str(d)>')` is read back as
exactly `d`: the string literal denotes `str(d)` and `Decimal(str)` (C05's
`decimalParse`) recovers sign, digits and exponent. -/
theorem decimal_repr_evaluates_back (d : Xs.Conv.Dec) : readDecimal (decRepr d) = some d :=
  readDecimal_decRepr d

theorem decimal_str_parse (e : Py.Env) (d : Xs.Conv.Dec) : Xs.Conv.decimalParse e (decStr d) = some d :=
  decimalParse_decStr e d

example : f64Canonical (.fin true 6755399441055744 (-52)) = true ∧
    (Xs.Conv.F64.fin true 6755399441055744 (-52)).repr = cs!"-1.5" ∧
    decRepr (.fin true 0 (-7)) = cs!"Decimal('-0E-7')" ∧ decRepr (.fin false 12345 (-10)) = cs!"Decimal('0.0000012345')" := by
  decide +kernel

/-- **bytes_repr_roundtrips**: likewise for `repr(b)` of any bytes value -/
theorem bytes_repr_roundtrips (bs : List Nat) (h : ∀ b ∈ bs, b < 256) :
    decodeBytesLit (pyReprBytes bs) = some bs :=
  decodeBytesLit_pyReprBytes bs h

example : decodeStrLit (pyReprStr tblPrintable (cs!"a'b\"c\\\n" ++ [Char.ofNat 0x80, Char.ofNat 0xE9, Char.ofNat 0x2028, Char.ofNat 0xE0001]))
    = some (cs!"a'b\"c\\\n" ++ [Char.ofNat 0x80, Char.ofNat 0xE9, Char.ofNat 0x2028, Char.ofNat 0xE0001]) ∧
    decodeBytesLit (pyReprBytes [97, 39, 0, 255, 92]) = some [97, 39, 0, 255, 92] := by decide +kernel


/-- **qname_text_roundtrips**: whatever the text of a QName — quotes,
backslashes, control characters, any Unicode scalar value — the Python parser
reads the literal that `json.dumps(text, ensure_ascii=False)` wrote back as
exactly that text. (Lone surrogates are not `Char`s; see NOTES.) -/
theorem qname_text_roundtrips (t : Str) : decodeDq .normal (jsonBody t) = some t :=
  decodeDq_jsonBody t

/-- **qname_codepoints_roundtrip**: the same for *every* Python string — a
sequence of code points below U+110000, lone surrogates included: what
`literal_value` writes (`json.dumps`, then surrogates as `\udXXX`) is read
back by the parser as exactly those code points; and on strings of scalar
values it writes what `json.dumps` writes. -/
theorem qname_codepoints_roundtrip (cps : List Nat) (h : ∀ n ∈ cps, n < 0x110000) :
    decodeCp .normal (qnameLitBody cps) = some cps :=
  decodeCp_qnameLitBody cps h

theorem qname_literal_scalar (t : Str) : qnameLitBody (t.map Char.toNat) = jsonBody t :=
  qnameLitBody_scalar t

example : decodeCp .normal (qnameLitBody [97, 0xD800, 0x1F600, 34, 0xDFFF])
    = some [97, 0xD800, 0x1F600, 34, 0xDFFF] := by decide

/-- **imports_exact**: the import block binds exactly the outermost names of
the non-builtin classes collected while rendering — nothing is missing, nothing
else is imported. -/
theorem imports_exact (ts : List ClsRef) (m n : Str) :
    (m, n) ∈ imports ts ↔ ∃ t ∈ ts, t.module ≠ builtinsMod ∧ m = t.module ∧ n = t.path.headD [] := by
  rw [mem_imports]
  constructor
  · rintro ⟨t, ht, hi⟩
    unfold importOf at hi
    split at hi
    · cases hi
    · rename_i hnb
      simp only [Option.some.injEq, Prod.mk.injEq] at hi
      exact ⟨t, ht, by simpa using hnb, hi.1.symm, hi.2.symm⟩
  · rintro ⟨t, ht, hnb, rfl, rfl⟩
    refine ⟨t, ht, ?_⟩
    have : (t.module == builtinsMod) = false := by simpa using hnb
    simp [importOf, this]

/-- **imports_sufficient**: for every world and every value in the property's
domain for which `render` returns, each dotted name the emitted expression
uses — class constructors at any nesting depth, enum members of nested enums,
`QName`, `Decimal`, `float`, `set`, `frozenset` — resolves, in the namespace
created by the emitted import lines alone, to exactly the class it was written
for. -/
theorem imports_sufficient (W : World) (v : Val)
    (hwf : wf W v = true) (hdom : domOK W v = true) (hr : renders W v = true) :
    EnvGood W (importsEnv W v) (render W v).refs := by
  intro pc hpc
  have hg := refs_good W v hwf hdom pc hpc
  have hmem := refs_sub_types (render W v) pc hpc
  apply resolve_of_good hg hmem
  intro t ht
  have := importsOK_of_renders W v hwf hdom hr
  simp only [importsOK, importsOKe, List.all_eq_true] at this
  have h := this pc hpc t ht
  simp only [Bool.or_eq_true, beq_iff_eq, bne_iff_ne] at h
  rcases h with (h | h) | h
  · exact Or.inl h
  · exact Or.inr (Or.inl h)
  · exact Or.inr (Or.inr h)

/-- **code_rt (partial)**: whenever `render` returns and the rendered
expression stays within the parser's bracket-nesting limit, executing the
rendered source — the emitted import lines, then the emitted expression —
succeeds and yields a value Python-equal to the original, for all classes
(nested, frozen, with `init=False` fields and default factories) and all
instances in the domain: members of nested enums, tuples (also as dict keys),
sets and frozensets, strings and bytes with any content, QNames with any text,
±inf, Decimals, date/time values, empty and nested collections, attribute
maps. Fields elided because they equal their default are restored by the
constructor to a value equal to the original's. -/
theorem code_rt_partial (W : World) (v : Val)
    (hwf : wf W v = true) (hdom : domOK W v = true) (hinit : initFalseAtDefault W v = true) (hr : renders W v = true)
    (hn : nestingOK W v = true) :
    ∃ v', run W v = .ok v' ∧ pyEq v' v = true := by
  obtain ⟨v', h1, h2, _⟩ := rt W (importsEnv W v) v hwf (valOK_of_dom W v hdom hinit)
    (imports_sufficient W v hwf hdom hr)
  exact ⟨v', by simp [run, hn, h1], h2⟩

/-- the same, phrased on the outcome class that the correspondence check
compares with the real `exec` -/
theorem outcome_equal_partial (W : World) (v : Val)
    (hwf : wf W v = true) (hdom : domOK W v = true) (hinit : initFalseAtDefault W v = true) (hr : renders W v = true)
    (hn : nestingOK W v = true) (hq : comparesQuietly W v = true) :
    outcome W v = cs!"equal" := by
  obtain ⟨v', hrun, he⟩ := code_rt_partial W v hwf hdom hinit hr hn
  have hrisk := no_risk W v hdom
  have hq' : cmpRaises W v = some false := by simpa [comparesQuietly] using hq
  simp [outcome, hq', hr, hrisk, hrun, he]

/-- **render either refuses or round-trips**: `PycodeSerializer.render` raises
`SerializerError` exactly when one outermost name belongs to two modules among
the types it collected; otherwise it returns the source text, and (within the
nesting limit) that source evaluates back to an equal object. It never returns
source that builds something else. -/
theorem render_refuses_or_round_trips (W : World) (v : Val) (var : Str)
    (hwf : wf W v = true) (hdom : domOK W v = true) (hinit : initFalseAtDefault W v = true) (hn : nestingOK W v = true) (hq : comparesQuietly W v = true) :
    (sourceE W v var = .error .serializerError ∧ clashFree (render W v).types = false) ∨
    (sourceE W v var = .ok (source W v var) ∧ ∃ v', run W v = .ok v' ∧ pyEq v' v = true) := by
  have hq' : cmpRaises W v = some false := by simpa [comparesQuietly] using hq
  cases hr : renders W v
  · left
    exact ⟨by simp [sourceE, hq', hr], by simpa [renders] using hr⟩
  · right
    exact ⟨by simp [sourceE, hq', hr], code_rt_partial W v hwf hdom hinit hr hn⟩

/-- **code_rt for any adequate namespace**: the round trip does not depend on
how the names got bound — any namespace in which the references resolve will do
(e.g. the source pasted into a module that already imports the classes; this is
also the way around an import name clash). -/
theorem code_rt_any_env (W : World) (env : Xs.Code.Env) (v : Val)
    (hwf : wf W v = true) (hdom : domOK W v = true) (hinit : initFalseAtDefault W v = true) 
    (henv : EnvGood W env (render W v).refs) :
    ∃ v', eval W env (render W v) = .ok v' ∧ pyEq v' v = true := by
  obtain ⟨v', h1, h2, _⟩ := rt W env v hwf (valOK_of_dom W v hdom hinit) henv
  exact ⟨v', h1, h2⟩

/-! The hypotheses are satisfiable by a non-trivial input: nested model
classes three deep, a non-empty tuple, an `init=False` attribute at its
default, a default elided across types (`0 == False`), `inf`, a Decimal, a
QName whose text has a backslash and a double quote, a member of a nested enum,
a dict with an enum key and one with a tuple key, a frozenset of tuples, an
empty set. -/

def mA : Str := cs!"pkg.mod_a"
def mB : Str := cs!"pkg.mod_b"
def outerR : ClsRef := ⟨mA, [cs!"Outer"]⟩
def in2R : ClsRef := ⟨mA, [cs!"Outer", cs!"In2"]⟩
def deepR : ClsRef := ⟨mA, [cs!"Outer", cs!"In2", cs!"Deep"]⟩
def innerR : ClsRef := ⟨mA, [cs!"Outer", cs!"Inner"]⟩
def topR : ClsRef := ⟨mA, [cs!"Top"]⟩
def decR : ClsRef := ⟨cs!"decimal", [cs!"Decimal"]⟩
def en : Val := .str cs!"en" cs!"'en'"

def W1 : World := [
  ⟨outerR, .model [⟨cs!"x", true, .value .none⟩, ⟨cs!"t", true, .factory (.tuple [])⟩,
                   ⟨cs!"lang", false, .value en⟩, ⟨cs!"n", true, .value (.int 0)⟩]⟩,
  ⟨innerR, .enum [cs!"A"]⟩, ⟨topR, .enum [cs!"A", cs!"B"]⟩,
  ⟨in2R, .model [⟨cs!"z", true, .missing⟩]⟩,
  ⟨deepR, .model [⟨cs!"w", true, .factory (.list [])⟩]⟩]

def good : Val :=
  .model outerR [
    .list [.model deepR [.list [.float (.inf false) cs!"inf", .decimal (.fin false 150 (-2)) cs!"Decimal('1.50')", .float (.fin true 6755399441055744 (-52)) cs!"-1.5",
             .decimal (.fin true 1 3) cs!"Decimal('-1E+3')"]],
           .model in2R [.dict [(.enum topR cs!"B", .qname cs!"{a\\b}\"x")]]],
    .tuple [.enum innerR cs!"A", .dict [(.tuple [.int 1, .int 2], .set true [.tuple [.int 3], .none]), (.int 0, .set false [])]], en, .bool false]

example : wf W1 good = true ∧ domOK W1 good = true ∧ initFalseAtDefault W1 good = true ∧ renders W1 good = true ∧
    nestingOK W1 good = true ∧ comparesQuietly W1 good = true := by decide +kernel
example : outcome W1 good = cs!"equal" := by decide +kernel

/-! ## Full-strength statements and why they still fail -/

/-! ## The property at full strength

`render` is partial since the fix `c18c-01`: it refuses (SerializerError) an
object graph in which one outermost name belongs to classes of two modules,
instead of emitting source in which the later import shadows the earlier one.
The second half of C18 (imports) holds of every object it does render; the
first half still fails for one reason: CPython's tokenizer accepts at most
`Tables.parserMaxNesting` (200) open brackets, and every level of a collection
or of a model adds one. -/

/-- C18, first half, at full strength: every instance in the domain that
`render` accepts round-trips. **False**: deep nesting. -/
def CodeRoundTrips : Prop :=
  ∀ (W : World) (v : Val), wf W v = true → domOK W v = true → renders W v = true →
    ∃ v', run W v = .ok v' ∧ pyEq v' v = true

/-- C18, second half: the emitted imports make every name the source uses
denote the class it means. -/
def ImportsSufficient : Prop :=
  ∀ (W : World) (v : Val), wf W v = true → domOK W v = true → renders W v = true →
    EnvGood W (importsEnv W v) (render W v).refs

theorem importsSufficient : ImportsSufficient := imports_sufficient

/-- `[[…[1]…]]`, `n` brackets deep -/
def nestedList : Nat → Val
  | 0 => .int 1
  | n + 1 => .list [nestedList n]

/-- decidable form of "running the source fails with `e`" -/
def failsWith (W : World) (v : Val) (e : Err) : Bool :=
  match run W v with
  | .error e' => e' == e
  | .ok _ => false

theorem not_rt_of_fails {W : World} {v : Val} {e : Err} (h : failsWith W v e = true) :
    ¬ ∃ v', run W v = .ok v' ∧ pyEq v' v = true := by
  rintro ⟨v', hr, _⟩
  simp [failsWith, hr] at h

/-- **Defect — nesting beyond the parser's limit.** A list nested 201 deep (or
101 levels of a model holding a list of models) is rendered, but the source
does not compile: "too many nested parentheses". 200 deep still works. -/
theorem deep_nesting_does_not_compile :
    wf [] (nestedList 201) = true ∧ domOK [] (nestedList 201) = true ∧ renders [] (nestedList 201) = true ∧
    (render [] (nestedList 201)).depth = 201 ∧ failsWith [] (nestedList 201) .syntaxError = true ∧
    outcome [] (nestedList 200) = cs!"equal" := by
  decide +kernel

/-- decidable form of "running the source gives a value unequal to the original" -/
def givesUnequal (W : World) (v : Val) : Bool :=
  match run W v with
  | .ok v' => !pyEq v' v
  | .error _ => false

theorem not_rt_of_unequal {W : World} {v : Val} (h : givesUnequal W v = true) :
    ¬ ∃ v', run W v = .ok v' ∧ pyEq v' v = true := by
  rintro ⟨v', hr, he⟩
  simp [givesUnequal, hr, he] at h

/-- **Defect — an `init=False` attribute changed after construction is not
restored.** `repr_model` skips `init=False` fields (the constructor would not
accept them) and emits nothing else, so the evaluated object holds the class
default again: `Outer(lang="en")` with `obj.lang = "fr"` comes back with
`lang == "en"`. -/
def movedInitFalseWitness : Val := .model outerR [.none, .tuple [], .str cs!"fr" cs!"'fr'", .int 0]

theorem init_false_attribute_not_restored :
    wf W1 movedInitFalseWitness = true ∧ domOK W1 movedInitFalseWitness = true ∧
    renders W1 movedInitFalseWitness = true ∧ nestingOK W1 movedInitFalseWitness = true ∧
    comparesQuietly W1 movedInitFalseWitness = true ∧ initFalseAtDefault W1 movedInitFalseWitness = false ∧
    source W1 movedInitFalseWitness cs!"obj" = cs!"from pkg.mod_a import Outer\n\n\nobj = Outer(\n\n)\n" ∧
    givesUnequal W1 movedInitFalseWitness = true ∧ outcome W1 movedInitFalseWitness = cs!"unequal" := by
  decide

theorem not_codeRoundTrips_init_false : ¬ CodeRoundTrips := fun h =>
  not_rt_of_unequal init_false_attribute_not_restored.2.2.2.2.2.2.2.1
    (h W1 movedInitFalseWitness init_false_attribute_not_restored.1 init_false_attribute_not_restored.2.1
      init_false_attribute_not_restored.2.2.1)

/-- **Defect — a signaling NaN makes `render` itself fail.** `repr_model` tests
`default == value`; a number compared with `Decimal('sNaN')` raises
`decimal.InvalidOperation` and nothing catches it. With a non-numeric default
(`None`) the value is rendered and evaluates back, but then `restored ==
original` raises in turn (no `==` exists for such a value). -/
def snan : Val := .decimal (.nan false true 0) cs!"Decimal('sNaN')"
def snanWitness : Val := .model outerR [.none, .tuple [], en, snan]
def snanRendered : Val := .model outerR [snan, .tuple [], en, .int 0]

theorem snan_default_comparison_raises :
    wf W1 snanWitness = true ∧ renders W1 snanWitness = true ∧ comparesQuietly W1 snanWitness = false ∧
    outcome W1 snanWitness = cs!"refused:InvalidOperation" ∧
    comparesQuietly W1 snanRendered = true ∧ outcome W1 snanRendered = cs!"eqexc:InvalidOperation" ∧
    domOK W1 snanWitness = false := by
  decide

theorem not_codeRoundTrips : ¬ CodeRoundTrips := fun h =>
  not_rt_of_fails deep_nesting_does_not_compile.2.2.2.2.1
    (h [] (nestedList 201) deep_nesting_does_not_compile.1 deep_nesting_does_not_compile.2.1
      deep_nesting_does_not_compile.2.2.1)

/-- The former defect (one class name imported from two modules: wrong class
built, or TypeError for an unknown keyword) is now refused; a class named like
a builtin the source calls (`float`) next to such a value is refused too. -/
def addrA : ClsRef := ⟨mA, [cs!"Address"]⟩
def addrB : ClsRef := ⟨mB, [cs!"Address"]⟩
def floatCls : ClsRef := ⟨mA, [cs!"float"]⟩
def W2 : World := [
  ⟨addrA, .model [⟨cs!"x", true, .value .none⟩, ⟨cs!"y", true, .value (.int 0)⟩]⟩,
  ⟨addrB, .model [⟨cs!"x", true, .value .none⟩, ⟨cs!"w", true, .value (.int 0)⟩]⟩,
  ⟨floatCls, .model [⟨cs!"v", true, .value .none⟩]⟩]
def clashWitness1 : Val := .model addrA [.model addrB [.none, .int 1], .int 0]
def clashWitness2 : Val := .model addrB [.model addrA [.none, .int 1], .int 0]
def shadowWitness : Val := .model floatCls [.float (.inf false) cs!"inf"]

theorem name_clash_is_refused :
    wf W2 clashWitness1 = true ∧ domOK W2 clashWitness1 = true ∧
    renders W2 clashWitness1 = false ∧ renders W2 clashWitness2 = false ∧
    outcome W2 clashWitness1 = cs!"refused:SerializerError" ∧
    wf W2 shadowWitness = true ∧ domOK W2 shadowWitness = true ∧
    renders W2 shadowWitness = false := by
  decide

/-- an instance of one of the two `Address` classes alone, or a clashing value
that is elided because it equals the field default, is rendered -/
example : renders W2 (.model addrA [.none, .int 3]) = true ∧
    renders W2 (.model addrA [.none, .int 0]) = true ∧
    outcome W2 (.model addrB [.model addrB [.none, .int 1], .int 0]) = cs!"equal" := by decide

/-! ## The repaired defects stay repaired

The witnesses of the former counterexample theorems (`nested_enum_name_error`,
`tuple_rendered_as_list`, `qname_text_unescaped`, `set_rendered_as_list`) now
fall under `code_rt_partial`; their emitted text and outcome, for the record. -/

def nestedEnumWitness : Val := .model outerR [.enum innerR cs!"A", .tuple [], en, .int 0]
def tupleWitness : Val := .model outerR [.none, .tuple [.int 1, .int 2], en, .int 0]
def tupleKeyWitness : Val := .dict [(.tuple [.int 1, .int 2], .int 3)]
def setWitness : Val := .model outerR [.set false [.int 1, .int 2], .tuple [], en, .int 0]
def frozensetWitness : Val := .model outerR [.set true [.int 1], .tuple [], en, .int 0]
def qnameWitness : Val := .model outerR [.qname cs!"{a\\b}\"x", .tuple [], en, .int 0]

theorem repaired_witnesses :
    outcome W1 nestedEnumWitness = cs!"equal" ∧ outcome W1 tupleWitness = cs!"equal" ∧
    outcome W1 tupleKeyWitness = cs!"equal" ∧ outcome W1 qnameWitness = cs!"equal" ∧
    outcome W1 setWitness = cs!"equal" ∧ outcome W1 frozensetWitness = cs!"equal" ∧
    source W1 setWitness cs!"obj"
      = cs!"from pkg.mod_a import Outer\n\n\nobj = Outer(\n    x={\n        1,\n        2,\n    }\n)\n" ∧
    source W1 frozensetWitness cs!"obj"
      = cs!"from pkg.mod_a import Outer\n\n\nobj = Outer(\n    x=frozenset({\n        1,\n    })\n)\n" ∧
    source W1 nestedEnumWitness cs!"obj"
      = cs!"from pkg.mod_a import Outer\n\n\nobj = Outer(\n    x=Outer.Inner.A\n)\n" ∧
    source W1 tupleWitness cs!"obj"
      = cs!"from pkg.mod_a import Outer\n\n\nobj = Outer(\n    t=(\n        1,\n        2,\n    )\n)\n" ∧
    source W1 qnameWitness cs!"obj"
      = cs!"from pkg.mod_a import Outer\nfrom xml.etree.ElementTree import QName\n\n\nobj = Outer(\n    x=QName(\"{a\\\\b}\\\"x\")\n)\n" := by
  decide

/-! ## the hypotheses of the theorems above are satisfiable (concrete non-trivial instances) -/

-- code_rt_any_env: the hypothesis henv is satisfiable (by the import block's own namespace)
example : EnvGood W1 (importsEnv W1 good) (render W1 good).refs :=
  imports_sufficient W1 good (by decide) (by decide) (by decide)

end Props.C18
