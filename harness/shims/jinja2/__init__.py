"""Import shim: module import only; rendering is never used by the checks."""


class Environment:
    def __init__(self, *a, **k):
        self.filters = {}
        self.globals = {}
        self.tests = {}

    def get_template(self, name):
        raise RuntimeError("jinja2 is not installed in this sandbox")


class FileSystemLoader:
    def __init__(self, *a, **k):
        pass


class Template:
    pass
