/-
L0 — the Python/stdlib primitives the modelled xsdata code relies on.

Strings are `List Char`.  Every builtin whose non-ASCII behaviour is a big
Unicode table is a field of `Env`; the ASCII part is hard-coded and consulted
first, so ASCII facts hold for every `Env` by construction.
-/
namespace Py

abbrev Str := List Char

/-- Non-ASCII behaviour of CPython's Unicode database, supplied by the driver
from tables generated at run time (`Tables.lean`). Theorems quantify over it. -/
structure Env where
  /-- `unicodedata.decimal(c)` for non-ASCII `c` (category Nd) -/
  decValNA : Char → Option Nat
  /-- `c.isspace()` for non-ASCII `c` -/
  isSpaceNA : Char → Bool
  /-- `c.isdigit()` for non-ASCII `c` -/
  isDigitNA : Char → Bool

/-- an `Env` that knows no non-ASCII characters -/
def Env.ascii : Env := ⟨fun _ => none, fun _ => false, fun _ => false⟩

def isAscii (c : Char) : Bool := c.toNat < 128

def isAsciiDigit (c : Char) : Bool := 48 ≤ c.toNat && c.toNat ≤ 57

/-- ASCII characters for which `str.isspace()` is true: \t \n \v \f \r FS GS RS US space -/
def isAsciiSpace (c : Char) : Bool :=
  (9 ≤ c.toNat && c.toNat ≤ 13) || (28 ≤ c.toNat && c.toNat ≤ 32)

/-- `str.isspace()` for a single character -/
def Env.isSpace (e : Env) (c : Char) : Bool :=
  if isAscii c then isAsciiSpace c else e.isSpaceNA c

/-- `unicodedata.decimal(c, None)` -/
def Env.decVal (e : Env) (c : Char) : Option Nat :=
  if isAscii c then (if isAsciiDigit c then some (c.toNat - 48) else none) else e.decValNA c

/-- `c.isdigit()` -/
def Env.isDigit (e : Env) (c : Char) : Bool :=
  if isAscii c then isAsciiDigit c else e.isDigitNA c

/-- `s.lstrip()` -/
def Env.lstrip (e : Env) (s : Str) : Str := s.dropWhile e.isSpace

/-- `s.rstrip()` -/
def Env.rstrip (e : Env) (s : Str) : Str := (s.reverse.dropWhile e.isSpace).reverse

/-- `s.strip()` -/
def Env.strip (e : Env) (s : Str) : Str := e.rstrip (e.lstrip s)

/-- `s[a:b]` for `0 ≤ a`, `0 ≤ b` (out-of-range indices are clipped, as Python does) -/
def slice (s : Str) (a b : Nat) : Str := (s.drop a).take (b - a)

/-- value of a list of decimal digit values, most significant first -/
def digitsVal (ds : List Nat) : Nat := ds.foldl (fun acc d => acc * 10 + d) 0

/-- the white space `int(str)` removes: CPython maps *non-ASCII* Unicode spaces to ' '
(`_PyUnicode_TransformDecimalAndSpaceToASCII` copies ASCII characters unchanged) and
`PyLong_FromString` then skips `Py_ISSPACE` characters, i.e. \t \n \v \f \r and space —
not the ASCII separators FS/GS/RS/US that `str.isspace()` also accepts -/
def Env.isIntSpace (e : Env) (c : Char) : Bool :=
  if isAscii c then (9 ≤ c.toNat && c.toNat ≤ 13) || c.toNat = 32 else e.isSpaceNA c

def Env.intStrip (e : Env) (s : Str) : Str :=
  ((s.dropWhile e.isIntSpace).reverse.dropWhile e.isIntSpace).reverse

/-- The digit/underscore body accepted by `int(s, 10)` after sign and white
space removal: nonempty, starts and ends with a digit, underscores only singly
between digits. Returns the digit values. -/
def intBody (e : Env) : Str → Bool → Option (List Nat)
  | [], prevDigit => if prevDigit then some [] else none
  | c :: cs, prevDigit =>
    if c = '_' then
      (if prevDigit && !cs.isEmpty then
        match cs with
        | d :: _ => if d = '_' then none else intBody e cs false
        | [] => none
       else none)
    else match e.decVal c with
      | some v => (intBody e cs true).map (v :: ·)
      | none => none

/-- `int(s)` for a `str` argument, base 10. `none` = `ValueError`.
CPython first maps Unicode spaces to ASCII space and Unicode decimals to ASCII
digits, strips, then parses `[+-]? digit (_? digit)*`. -/
def Env.pyInt (e : Env) (s : Str) : Option Int :=
  let t := e.intStrip s
  match t with
  | [] => none
  | c :: cs =>
    let (neg, body) := if c = '-' then (true, cs) else if c = '+' then (false, cs) else (false, t)
    match body with
    | [] => none
    | _ =>
      match intBody e body false with
      | some ds => some (if neg then -(Int.ofNat (digitsVal ds)) else Int.ofNat (digitsVal ds))
      | none => none

/-- decimal digits of a natural number, most significant first; `0 ↦ "0"` (`str(n)`) -/
def natDigitsAux : Nat → Nat → List Char → List Char
  | 0, _, acc => acc
  | fuel+1, n, acc =>
    let acc' := Char.ofNat (48 + n % 10) :: acc
    if n / 10 = 0 then acc' else natDigitsAux fuel (n / 10) acc'

def natStr (n : Nat) : Str := natDigitsAux (n + 1) n []

/-- `str(i)` for an int -/
def intStr (i : Int) : Str :=
  if i < 0 then '-' :: natStr i.natAbs else natStr i.natAbs

/-- `s.rjust(w, c)` -/
def rjust (s : Str) (w : Nat) (c : Char) : Str := List.replicate (w - s.length) c ++ s

/-- `s.ljust(w, c)` -/
def ljust (s : Str) (w : Nat) (c : Char) : Str := s ++ List.replicate (w - s.length) c

/-- `f"{n:0{w}d}"` for a non-negative `n` -/
def zpad (n w : Nat) : Str := rjust (natStr n) w '0'

/-- `f"{i:0{w}d}"` for any int: the sign counts towards the width -/
def zpadInt (i : Int) (w : Nat) : Str :=
  if i < 0 then '-' :: rjust (natStr i.natAbs) (w - 1) '0' else zpad i.natAbs w

/-- `s.startswith(p)` -/
def startsWith (s p : Str) : Bool := p.isPrefixOf s

/-- `s.find(c)` for a single character; `none` = -1 -/
def findChar (s : Str) (c : Char) : Option Nat := s.findIdx? (· = c)

/-- `s.rfind(c)` for a single character; `none` = -1 -/
def rfindChar (s : Str) (c : Char) : Option Nat :=
  match s.reverse.findIdx? (· = c) with
  | some i => some (s.length - 1 - i)
  | none => none

/-- Python floor division and modulo on ints (`divmod`) -/
def pyDiv (a b : Int) : Int := Int.fdiv a b
def pyMod (a b : Int) : Int := Int.fmod a b

end Py
