/- C04 — fields outside `__init__` (fixed values) in `DictDecoder.bind_dataclass`, and defaults under
`ignore_default_attributes` in `DictEncoder.next_value`: property theorems (only).

The value given for a fixed field is bound like any other value (`bind_value`: conversion by the
field's types, token lists, enumerations, …) and only then compared with the field default by
`ParserUtils.validate_fixed_value`; it never reaches the constructor. -/
import XsdataModel.Proofs.C04RoundTrip
import XsdataModel.Proofs.C04Witness

namespace Props.C04
open Py Xs.Bind Xs.Dict Proofs.C04 Proofs.C04Witness

/-- **fixed_bound_then_compared**: one step of the key loop for a var with `init = False`: the outcome
is that of `bind_value` on the given value followed by the comparison of the *bound* value with the
default; the parameters for the constructor stay as they are. -/
theorem fixed_bound_then_compared (e : DEnv) (rec : Rec) (Γ : Ctx) (cfg : ParserConfig) (m : XmlMeta)
    (vars : List XmlVar) (key : Str) (value value' : J) (rest : List (Str × J)) (P : Params) (var : XmlVar)
    (hf : findVar vars key value = some var) (hu : unwrapFor var key value = .ok value')
    (hn : (value'.isNull && var.listElement) = false) (hi : var.init = false) :
    bindPairsWith e rec Γ cfg m vars ((key, value) :: rest) P =
      ND.bind (bindValueWith e rec Γ cfg m var value') fun v =>
        match validateFixed e.py var.toVarCore v with
        | .error err => ND.fail err
        | .ok () => bindPairsWith e rec Γ cfg m vars rest P := by
  simp only [bindPairsWith, hf, hu, hn, hi, Bool.false_eq_true, if_false]
  rfl

/-- the fixed attributes `a: int = 3`, `b: bool = True` of the witness class `F` given as lexical
variants of their values: the document decodes (the raw literals `" 3 "` and `"1"` are not equal to
the defaults, the bound values are) -/
example : decode benv0 fixwCtx {} 3 (.cls "F".toList)
      (.obj [("s".toList, .str "x".toList), ("a".toList, .str " 3 ".toList), ("b".toList, .str "1".toList)])
    = ND.pure fixw_value := by rfl

/-- … and a value that differs after binding is rejected -/
example : decode benv0 fixwCtx {} 3 (.cls "F".toList) (.obj [("a".toList, .num 4)])
    = ND.fail (.parser "Fixed value mismatch") := by rfl

/-- the hypotheses of `fixed_bound_then_compared` on that document: the key is found, its var is
outside `__init__` -/
example : (match metaOf fixwCtx "F".toList with
    | .ok m => ((findVar (allVars m) "a".toList (.str " 3 ".toList)).map (·.init)) == some false
    | .error _ => false) = true := by rfl

/-! ### defaults under `ignore_default_attributes` (`XmlVar.is_optional`, `DictEncoder.next_value`) -/

/-- **is_optional_list**: a list value equals the default of a var exactly when the var is not
required, the default is the plain `list` / `tuple` factory and the list is empty. In particular an
empty list is NOT the default of a var whose factory builds a non-empty list (`DefaultV.other`). -/
theorem is_optional_list (var : XmlVar) (xs : List Val) :
    isOptional var (.list xs) = (!var.required && decide (var.default = .listFactory) && xs.isEmpty) := by
  unfold isOptional
  cases hd : var.default <;> cases xs <;> simp [defaultEq]

/-- **is_optional_prim**: a primitive value equals the default exactly when the var is not required and
the default is that very value (a falsy value is not a default by itself). -/
theorem is_optional_prim (var : XmlVar) (p : PVal) :
    isOptional var (.prim p) = (!var.required && decide (var.default = .val p)) := by
  unfold isOptional
  cases hd : var.default <;> simp [defaultEq, eq_comm]

/-- **non_default_key_kept**: `next_value` yields the key of every var whose value is not its default,
whatever the options: the pairs are the encoded value followed by the pairs of the remaining vars. -/
theorem non_default_key_kept (fac : Factory) (cfg : SerCfg) (rec : Val → Except Err J) (fields : List (Str × Val))
    (var : XmlVar) (rest : List XmlVar) (value : Val) (j : J) (ps : List (Str × J))
    (hg : getField fields var.name = .ok value) (ho : isOptional var value = false)
    (hj : encVarWith fac rec var value = .ok j) (hr : encPairsWith fac cfg rec fields rest = .ok ps) :
    encPairsWith fac cfg rec fields (var :: rest) = .ok ((keyOf var.toVarCore, j) :: ps) := by
  simp [encPairsWith, hg, ho, hj, hr]

/-- **empty_list_kept_for_other_factory**: an empty list held by an attribute whose default is not the
plain `list` factory is encoded under `ignore_default_attributes` too (the decoder would otherwise
put the non-empty default back). -/
theorem empty_list_kept_for_other_factory (fac : Factory) (cfg : SerCfg) (rec : Val → Except Err J)
    (fields : List (Str × Val)) (var : XmlVar) (rest : List XmlVar) (j : J) (ps : List (Str × J))
    (hg : getField fields var.name = .ok (.list [])) (hd : var.default ≠ .listFactory)
    (hj : encVarWith fac rec var (.list []) = .ok j) (hr : encPairsWith fac cfg rec fields rest = .ok ps) :
    encPairsWith fac cfg rec fields (var :: rest) = .ok ((keyOf var.toVarCore, j) :: ps) :=
  non_default_key_kept fac cfg rec fields var rest _ j ps hg
    (by rw [is_optional_list]; simp [hd]) hj hr

/-- **default_attribute_dropped**: under `ignore_default_attributes` an attribute holding its default
yields no key. -/
theorem default_attribute_dropped (fac : Factory) (cfg : SerCfg) (rec : Val → Except Err J) (fields : List (Str × Val))
    (var : XmlVar) (rest : List XmlVar) (value : Val)
    (hg : getField fields var.name = .ok value) (ha : var.isAttribute = true)
    (hc : cfg.ignoreDefaultAttributes = true) (ho : isOptional var value = true) :
    encPairsWith fac cfg rec fields (var :: rest) = encPairsWith fac cfg rec fields rest := by
  simp [encPairsWith, hg, ha, hc, ho]

end Props.C04
