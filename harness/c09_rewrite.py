"""C09 — meaning-preserving respellings of a document.

Input is the infoset of a document as the framework's Tree JSON
(`{"q","a","ns","t","c","tl"}`) plus annotations computed from the *real*
metadata (`annotate`): which nodes have element-only content, which attribute
and text values are QName typed, which are non-string typed.  `respell`
prints that infoset again with a different spelling and returns

    (main document bytes, {file name: bytes} for XInclude parts,
     the Tree JSON of the respelled document (new prefix maps, new lexical
     QNames, padded values), info)

Everything is driven by the `rng` passed in.  Nothing here uses the parser
under test; `annotate` only uses `XmlContext.build/fetch` (the metadata the
model also takes as input).
"""
from __future__ import annotations

import copy
from xml.etree.ElementTree import QName

XSI = "http://www.w3.org/2001/XMLSchema-instance"
XSI_TYPE = "{%s}type" % XSI
XI = "http://www.w3.org/2001/XInclude"
XML_NS = "http://www.w3.org/XML/1998/namespace"

ALL_KINDS = [
    "prefix", "default", "decl_place", "unused_decl", "attrs", "ws", "comment", "pi", "comment_text", "pi_text",
    "cdata", "charref", "encoding", "value_ws", "empty", "quote", "doctype", "xinclude", "xinclude_subdir", "bigpad",
]


class Skip(Exception):
    """the document cannot be respelled by this module (e.g. unresolvable QName content)"""


def split_clark(q):
    if q.startswith("{"):
        u, _, l = q[1:].partition("}")
        return u, l
    return None, q


# --------------------------------------------------------------------------
# annotations from the real metadata
# --------------------------------------------------------------------------
def annotate(uni, tree, clazz="Root"):
    """path -> {"elem_only": bool, "qattrs": set, "qtext": bool, "padattrs": set, "padtext": bool}"""
    from xsdata.formats.dataclass.context import XmlContext

    ctx = XmlContext(models_package=uni.modname)
    ann = {}

    def is_q(var):
        return QName in var.types

    def paddable(var):
        # converters of every type strip (int, bool, QName) or the value is split on whitespace
        return bool(var.tokens) or all(t in (int, bool, QName) for t in var.types)

    def xsi_of(node):
        for k, v in node["a"]:
            if k == XSI_TYPE and v:
                ns = {p: u for p, u in node["ns"]}
                v = v.strip()
                if v.startswith("{"):
                    return v
                if ":" in v:
                    p, _, l = v.partition(":")
                    if p not in ns:
                        return None
                    return "{%s}%s" % (ns[p], l)
                d = ns.get(None)
                return "{%s}%s" % (d, v) if d else v
        return None

    def opaque(node, path):
        ann[path] = {"elem_only": False, "qattrs": set(), "qtext": False, "padattrs": set(), "padtext": False, "opaque": True}
        for i, ch in enumerate(node["c"]):
            opaque(ch, path + (i,))

    def walk_el(node, path, meta):
        info = ann[path] = {
            "elem_only": meta.text is None and not meta.wildcards,
            "qattrs": set(), "qtext": False, "padattrs": set(), "padtext": False,
        }
        for k, _ in node["a"]:
            var = meta.find_attribute(k)
            if var is not None:
                if is_q(var):
                    info["qattrs"].add(k)
                if paddable(var) and var.init:
                    info["padattrs"].add(k)
        if meta.text is not None:
            info["qtext"] = is_q(meta.text)
            info["padtext"] = paddable(meta.text) and meta.text.init and not node["c"]
        assigned = set()  # like ElementNode.assigned: a non-list element field takes one child only
        for i, ch in enumerate(node["c"]):
            child(ch, path + (i,), meta, None, assigned)

    def child(ch, path, meta, wrapper, assigned):
        q = ch["q"]
        if wrapper is None and q in meta.wrappers:
            ann[path] = {"elem_only": True, "qattrs": set(), "qtext": False, "padattrs": set(), "padtext": False, "wrapper": True}
            for j, g in enumerate(ch["c"]):
                child(g, path + (j,), meta, q, assigned)
            return
        cands = []
        for v in meta.find_children(q):
            if wrapper is not None and v.wrapper_qname != wrapper:
                continue
            unique = 0 if (not v.is_element or v.list_element) else v.index
            if unique and unique in assigned:
                continue
            cands.append(v)
        if not cands:
            return opaque(ch, path)
        var = cands[0]
        if var.is_element and not var.list_element:
            assigned.add(var.index)
        try:
            if var.clazz:
                return walk_el(ch, path, ctx.fetch(var.clazz, meta.namespace, xsi_of(ch)))
            if var.any_type or var.is_wildcard:
                xt = xsi_of(ch)
                cl = (ctx.find_type(xt) if xt else None) or ctx.find_type(q)
                if cl is not None:
                    return walk_el(ch, path, ctx.fetch(cl, meta.namespace, xt))
                return opaque(ch, path)
        except Exception:  # noqa: BLE001
            return opaque(ch, path)
        ann[path] = {
            "elem_only": False, "qattrs": set(), "qtext": is_q(var), "padattrs": set(),
            "padtext": paddable(var) and not ch["c"], "leaf": True,
        }
        for j, g in enumerate(ch["c"]):
            opaque(g, path + (j,))

    try:
        meta = ctx.fetch(uni.classes[clazz], None, xsi_of(tree))
        walk_el(tree, (), meta)
    except Exception:  # noqa: BLE001
        opaque(tree, ())
    return ann


# --------------------------------------------------------------------------
# lexical helpers
# --------------------------------------------------------------------------
def esc_text(s, mode, rng, encodable):
    """character data: `mode` in plain|charref|cdata|mix"""
    out = []
    i = 0
    n = len(s)
    while i < n:
        c = s[i]
        m = mode if mode != "mix" else rng.choice(["plain", "plain", "charref", "cdata"])
        if m == "cdata" and c != "\r":
            # a run of characters as a CDATA section; never contains "]]>" or "\r"
            j = i
            run = []
            while j < n and len(run) < rng.randint(1, 6) and s[j] != "\r" and encodable(s[j]):
                if s[j] == ">" and "".join(run).endswith("]]"):
                    break
                run.append(s[j])
                j += 1
            if run:
                out.append("<![CDATA[" + "".join(run) + "]]>")
                i = j
                continue
        if m == "charref" or c == "\r" or not encodable(c):
            out.append("&#%d;" % ord(c) if rng.random() < 0.5 else "&#x%X;" % ord(c))
        elif c == "&":
            out.append("&amp;")
        elif c == "<":
            out.append("&lt;")
        elif c == ">":
            out.append(rng.choice(["&gt;", "&gt;"]))
        else:
            out.append(c)
        i += 1
    return "".join(out)


def esc_attr(s, mode, rng, encodable, quote):
    out = []
    for c in s:
        m = mode if mode not in ("mix", "cdata") else rng.choice(["plain", "plain", "charref"])
        if m == "charref" or c in "\r\n\t" or not encodable(c):
            out.append("&#%d;" % ord(c) if rng.random() < 0.5 else "&#x%X;" % ord(c))
        elif c == "&":
            out.append("&amp;")
        elif c == "<":
            out.append("&lt;")
        elif c == quote:
            out.append("&quot;" if c == '"' else "&apos;")
        else:
            out.append(c)
    return "".join(out)


WS_CHOICES = ["\n", "\n  ", " ", "\t", "\n\n    ", "  \n"]
# XML white space only (#x20 #x9 #xD #xA): the property's own notion of surrounding white space
PAD_CHOICES = [" ", "  ", "\n", "\t", " \n ", "\r", "\r\n"]
COMMENTS = ["<!---->", "<!-- c -->", "<!--<a>&amp;-->", "<!-- é -->", "<!--x\ny-->"]
PIS = ["<?pi?>", "<?target some data?>", "<?xml-stylesheet href='a.xsl'?>"]
PREFIX_POOL = ["p", "q", "x", "tns", "a", "xs", "xsd", "ns0", "ns1", "ns2", "ns3", "xsi", "n-1", "_u", "é"]


# --------------------------------------------------------------------------
# respelling
# --------------------------------------------------------------------------
def resolve_lex(lex, nsd):
    """one lexical QName under the prefix map of the original element -> (uri|None, local)"""
    v = lex
    if v.startswith("{"):
        return ("clark", v)
    if ":" in v:
        p, _, l = v.partition(":")
        if p not in nsd or not l:
            raise Skip("unresolvable QName content " + lex)
        return (nsd[p], l)
    return (nsd.get(None) or None, v)


def respell(tree, ann, rng, kinds):
    """returns (main_bytes, files, new_tree, info)"""
    kinds = set(kinds)
    info = {"kinds": sorted(kinds), "comment_in_text": False, "pi_in_text": False, "xinclude": False}

    # ---------------- encoding
    enc = "utf-8"
    decl = rng.random() < 0.5
    if "encoding" in kinds:
        enc = rng.choice(["utf-16", "iso-8859-1", "us-ascii", "utf-8", "utf-16-be", "utf-16-le"])
        decl = True
    py_enc = {"utf-16-be": "utf-16-be", "utf-16-le": "utf-16-le"}.get(enc, enc)

    def encodable(c):
        if enc.startswith("utf"):
            return True
        try:
            c.encode(py_enc)
            return True
        except UnicodeEncodeError:
            return False

    # ---------------- prefixes
    uris = []  # every namespace name the document uses

    def note(u):
        if u and u != XML_NS and u not in uris:
            uris.append(u)

    orig_prefix = {}

    def scan(n):
        nsd = {p: u for p, u in n["ns"]}
        for p, u in n["ns"]:
            if p and u not in orig_prefix and p != "xml":
                orig_prefix[u] = p
        note(split_clark(n["q"])[0])
        for k, _ in n["a"]:
            note(split_clark(k)[0])
        for c in n["c"]:
            scan(c)

    scan(tree)
    # QName content
    qn_uris = set()
    has_local_qname = [False]

    def scan_q(n, path):
        a = ann.get(path, {})
        nsd = {p: u for p, u in n["ns"]}
        vals = []
        for k, v in n["a"]:
            if k == XSI_TYPE or k in a.get("qattrs", ()):
                vals += v.split()
        if a.get("qtext") and n["t"]:
            vals += n["t"].split()
        for lex in vals:
            r = resolve_lex(lex, nsd)
            if r[0] == "clark":
                continue
            if r[0] is None:
                has_local_qname[0] = True
            else:
                note(r[0])
                qn_uris.add(r[0])
        for i, c in enumerate(n["c"]):
            scan_q(c, path + (i,))

    scan_q(tree, ())

    prefix_of = {}
    used = set()
    pool = PREFIX_POOL if encodable("é") else [p for p in PREFIX_POOL if p.isascii()]
    for u in uris:
        if "prefix" in kinds:
            cands = [p for p in pool + list(orig_prefix.values()) if p not in used]
            p = rng.choice(cands) if cands else "g%d" % len(used)
        else:
            p = orig_prefix.get(u)
            if p is None or p in used:
                p = next(f"ns{i}" for i in range(100) if f"ns{i}" not in used)
        used.add(p)
        prefix_of[u] = p

    el_uris = []

    def scan_el(n):
        u = split_clark(n["q"])[0]
        if u and u not in el_uris:
            el_uris.append(u)
        for c in n["c"]:
            scan_el(c)

    scan_el(tree)
    default_uri = None
    if "default" in kinds and el_uris and not has_local_qname[0]:
        default_uri = rng.choice(el_uris)
    decl_root = rng.random() < 0.5 if "decl_place" in kinds else True
    unused = None
    if "unused_decl" in kinds:
        free = [p for p in ["p", "x", "zz", "unused"] if p not in used]
        unused = (rng.choice(free), rng.choice(["urn:p", "urn:unused", "http://example.com/x"]))

    quote_mode = "quote" in kinds
    text_mode = "mix" if ("cdata" in kinds and "charref" in kinds) else "cdata" if "cdata" in kinds else "charref" if "charref" in kinds else "plain"
    big = "bigpad" in kinds

    # ---------------- xinclude target
    paths = []

    def all_paths(n, path):
        if path:
            paths.append(path)
        for i, c in enumerate(n["c"]):
            all_paths(c, path + (i,))

    all_paths(tree, ())
    inc_paths = set()
    if "xinclude" in kinds and paths:
        first = rng.choice(paths)
        inc_paths.add(first)
        if rng.random() < 0.3:
            other = rng.choice(paths)
            # not nested in each other (single level keeps the file bookkeeping simple)
            if other[: len(first)] != first and first[: len(other)] != other:
                inc_paths.add(other)
        info["xinclude"] = True
    files = {}
    counter = [0]

    # ---------------- printing
    def filler(eligible):
        """ignorable material between the children of element-only content: (markup, its character data)"""
        out = []
        cd = []
        if not eligible:
            return "", ""
        if "ws" in kinds and rng.random() < 0.8:
            w = rng.choice(WS_CHOICES)
            out.append(w)
            cd.append(w)
        if "comment" in kinds and rng.random() < 0.4:
            out.append(rng.choice(COMMENTS) if encodable("é") else "<!-- c -->")
            if "ws" in kinds and rng.random() < 0.5:
                w = rng.choice(WS_CHOICES)
                out.append(w)
                cd.append(w)
        if "pi" in kinds and rng.random() < 0.4:
            out.append(rng.choice(PIS))
        return "".join(out), "".join(cd)

    def chars(s, in_text_ok=True):
        """character data with optional runs of comments / PIs in front, in the middle and behind"""
        if s is None or s == "":
            return ""
        allowed = [k for k in ("comment_text", "pi_text") if k in kinds]
        if not (in_text_ok and allowed and rng.random() < 0.5):
            return esc_text(s, text_mode, rng, encodable)

        def run():
            out = []
            for _ in range(rng.choice([1, 1, 2, 3])):   # adjacent nodes: each is the other's sibling
                if rng.choice(allowed) == "comment_text":
                    out.append("<!--t-->")
                    info["comment_in_text"] = True
                else:
                    out.append("<?t x?>")
                    info["pi_in_text"] = True
            return "".join(out)

        cuts = sorted({rng.randint(0, len(s)) for _ in range(rng.choice([1, 1, 2, 3]))})
        parts, last = [], 0
        for c in cuts:
            parts.append(esc_text(s[last:c], text_mode, rng, encodable))
            parts.append(run())
            last = c
        parts.append(esc_text(s[last:], text_mode, rng, encodable))
        return "".join(parts)

    def pad(v):
        return rng.choice(PAD_CHOICES) * rng.randint(0, 1) + v + rng.choice(PAD_CHOICES) * rng.randint(0, 1)

    def emit(n, path, scope, is_root, new_parent_children):
        """returns the text of the element; appends the respelled node to new_parent_children"""
        a = ann.get(path, {})
        nsd = {p: u for p, u in n["ns"]}
        scope = dict(scope)
        decls = []  # (prefix or None, uri)

        def declare(p, u):
            scope[p] = u
            decls.append((p, u))

        if is_root:
            if decl_root:
                for u in uris:
                    if u == default_uri and u not in attr_uris_all and u not in qn_uris and rng.random() < 0.7:
                        continue
                    declare(prefix_of[u], u)
            if unused and unused[0] not in scope:
                declare(*unused)
        elif unused and rng.random() < 0.5:
            # a fresh, unused declaration on an inner element: its own prefix map is not empty, the
            # ancestors' declarations must still be in scope
            counter[0] += 1
            up = "u%d" % counter[0]
            if up not in scope and up not in used:
                declare(up, "urn:unused:%d" % counter[0])

        def prefix_for(u):
            p = prefix_of[u]
            if scope.get(p) != u:
                declare(p, u)
            return p

        # element name
        u, local = split_clark(n["q"])
        # a childless element with QName content may carry a default namespace of its own, chosen
        # for the content: `<p:e xmlns="urn:q">n1</p:e>` says {urn:q}n1
        local_default = None
        if "default" in kinds and not n["c"] and u is not None and u != XML_NS:
            toks = []
            for k, v in n["a"]:
                if k == XSI_TYPE or k in a.get("qattrs", ()):
                    toks += v.split()
            if a.get("qtext") and n["t"]:
                toks += n["t"].split()
            rs = [resolve_lex(t_, nsd) for t_ in toks]
            cands = [r[0] for r in rs if r[0] not in ("clark", None)]
            if cands and all(r[0] is not None for r in rs) and rng.random() < 0.6:
                local_default = rng.choice(cands)
                if scope.get(None) != local_default:
                    declare(None, local_default)
        if u is None:
            if scope.get(None):
                declare(None, "")
            name = local
        elif u == XML_NS:
            name = "xml:" + local
        elif local_default is not None:
            name = local if u == local_default else prefix_for(u) + ":" + local
        elif default_uri == u:
            # lazily: an element of the chosen namespace (re)declares it as the default
            if scope.get(None) != u:
                declare(None, u)
            name = local
        else:
            name = prefix_for(u) + ":" + local

        # attribute values (QName content respelled, non-string values padded)
        new_attrs = []
        for k, v in n["a"]:
            nv = v
            if (k == XSI_TYPE or k in a.get("qattrs", ())) and v.strip():
                toks = []
                for lex in v.split():
                    r = resolve_lex(lex, nsd)
                    if r[0] == "clark":
                        toks.append(lex)
                    elif r[0] is None:
                        if scope.get(None):
                            raise Skip("local QName under a default namespace")
                        toks.append(r[1])
                    elif scope.get(None) == r[0] and rng.random() < (0.9 if local_default else 0.5):
                        toks.append(r[1])
                    else:
                        toks.append(prefix_for(r[0]) + ":" + r[1])
                nv = " ".join(toks)
                # (xsi:type is also caught verbatim by `##any` Attributes fields: never padded)
                if "value_ws" in kinds and k != XSI_TYPE and rng.random() < 0.5:
                    nv = pad(nv)
            elif "value_ws" in kinds and k in a.get("padattrs", ()) and v.strip() and rng.random() < 0.6:
                nv = pad(v)
            new_attrs.append([k, nv])
        # text
        nt = n["t"]
        if a.get("qtext") and nt and nt.strip():
            toks = []
            for lex in nt.split():
                r = resolve_lex(lex, nsd)
                if r[0] == "clark":
                    toks.append(lex)
                elif r[0] is None:
                    if scope.get(None):
                        raise Skip("local QName under a default namespace")
                    toks.append(r[1])
                elif scope.get(None) == r[0] and rng.random() < (0.9 if local_default else 0.5):
                    toks.append(r[1])
                else:
                    toks.append(prefix_for(r[0]) + ":" + r[1])
            nt = " ".join(toks)
            if "value_ws" in kinds and rng.random() < 0.5:
                nt = pad(nt)
        elif "value_ws" in kinds and a.get("padtext") and nt and nt.strip() and rng.random() < 0.6:
            nt = pad(nt)

        # attribute names
        attr_items = []
        for k, v in new_attrs:
            au, al = split_clark(k)
            if au is None:
                an = al
            elif au == XML_NS:
                an = "xml:" + al
            else:
                an = prefix_for(au) + ":" + al
            attr_items.append((an, v, k))
        decl_items = [("xmlns" if p is None else "xmlns:" + p, u, None) for p, u in decls]
        if "attrs" in kinds:
            allitems = attr_items + decl_items
            rng.shuffle(allitems)
        else:
            allitems = decl_items + attr_items

        def q():
            return rng.choice(['"', "'"]) if quote_mode else '"'

        parts = ["<" + name]
        for an, v, _k in allitems:
            qu = q()
            sep = " " if "ws" not in kinds else rng.choice([" ", "  ", "\n ", "\t"])
            parts.append(sep + an + ("=" if "ws" not in kinds else rng.choice(["=", " = ", "= "])) + qu + esc_attr(v, text_mode, rng, encodable, qu) + qu)
        if "ws" in kinds and rng.random() < 0.3:
            parts.append(rng.choice([" ", "\n"]))

        new_ns = [[p, u] for p, u in scope.items() if not (p is None and u == "")]
        new_node = {"q": n["q"], "a": [[k, v] for _an, v, k in allitems if k is not None], "ns": new_ns, "t": nt, "c": [], "tl": n["tl"],
                    # the declarations written on this start tag, in document order ("" = the default namespace)
                    "_d": [["" if an == "xmlns" else an[6:], v] for an, v, k in allitems if k is None]}
        new_parent_children.append(new_node)

        eligible = bool(a.get("elem_only")) and bool(n["c"]) and not (nt or "").strip()
        for c in n["c"]:
            if (c["tl"] or "").strip():
                eligible = False
        rewrite_ws = eligible and bool(kinds & {"ws", "comment", "pi"})
        body = []
        if n["c"]:
            if rewrite_ws:
                f, cd = filler(True)
                body.append(f)
                new_node["t"] = cd or None
            else:
                body.append(chars(nt, in_text_ok=not eligible))
            for i, c in enumerate(n["c"]):
                cpath = path + (i,)
                if cpath in inc_paths:
                    # the subtree goes to a file of its own, with its own declarations
                    fname = ("sub/" if "xinclude_subdir" in kinds else "") + "part%d.xml" % len(files)
                    files[fname] = None
                    holder = []
                    files[fname] = emit(c, cpath, {}, False, holder)
                    inc = holder[0]

                    def inherit(m):
                        own = {p: u for p, u in m["ns"]}
                        merged = {p: u for p, u in scope.items() if not (p is None and u == "")}
                        merged.update(own)
                        m["ns"] = [[p, u] for p, u in merged.items()]
                        for g in m["c"]:
                            inherit(g)

                    inherit(inc)
                    if "/" in fname:
                        # libxml2's XInclude (base URI fixup) adds xml:base to a root included from another directory
                        inc["_xml_base"] = fname
                    new_node["c"].append(inc)
                    xi_decl = "" if scope.get("xi") == XI else ' xmlns:xi="%s"' % XI
                    sub = '<xi:include%s href="%s"/>' % (xi_decl, fname)
                else:
                    sub = emit(c, cpath, scope, False, new_node["c"])
                body.append(sub)
                if rewrite_ws:
                    f, cd = filler(True)
                    body.append(f)
                    new_node["c"][-1]["tl"] = cd or None
                else:
                    body.append(chars(c["tl"], in_text_ok=not eligible))
        else:
            body.append(chars(nt))
        inner = "".join(body)
        if inner == "" and not ("empty" in kinds and rng.random() < 0.5):
            parts.append("/>")
            return "".join(parts)
        parts.append(">")
        parts.append(inner)
        parts.append("</" + name + (rng.choice(["", " ", "\n"]) if "ws" in kinds else "") + ">")
        return "".join(parts)

    attr_uris_all = set()

    def scan_attr(n):
        for k, _ in n["a"]:
            u = split_clark(k)[0]
            if u:
                attr_uris_all.add(u)
        for c in n["c"]:
            scan_attr(c)

    scan_attr(tree)

    holder = []
    body = emit(tree, (), {}, True, holder)
    new_tree = holder[0]
    new_tree["tl"] = None

    prolog = []
    if decl:
        qd = "'" if quote_mode and rng.random() < 0.5 else '"'
        prolog.append("<?xml version=%s1.0%s encoding=%s%s%s?>" % (qd, qd, qd, {"utf-16-be": "UTF-16", "utf-16-le": "UTF-16"}.get(enc, enc.upper()), qd))
        if rng.random() < 0.5:
            prolog.append("\n")
    if "doctype" in kinds:
        rootname = body[1:].split(None, 1)[0].split(">")[0].rstrip("/")
        prolog.append("<!DOCTYPE %s>" % rootname)
    if "comment" in kinds and rng.random() < 0.5:
        prolog.append("<!-- before -->\n")
    if "pi" in kinds and rng.random() < 0.5:
        prolog.append("<?before x?>")
    if big:
        # a long comment moves the rest of the document across the read-chunk boundaries of the handlers
        prolog.append("<!--" + "c" * rng.choice([16 * 1024, 32 * 1024, 64 * 1024, 16 * 1024 - rng.randint(0, 400), 32 * 1024 - rng.randint(0, 400)]) + "-->")
    epilog = []
    if "comment" in kinds and rng.random() < 0.5:
        epilog.append("\n<!-- after -->")
    if "pi" in kinds and rng.random() < 0.3:
        epilog.append("<?after?>")
    if "ws" in kinds and rng.random() < 0.5:
        epilog.append("\n")
    text = "".join(prolog) + body + "".join(epilog)

    def encode(s, with_bom=True):
        if enc == "utf-16":
            return s.encode("utf-16")
        if enc == "utf-16-be":
            return b"\xfe\xff" + s.encode("utf-16-be")
        if enc == "utf-16-le":
            return b"\xff\xfe" + s.encode("utf-16-le")
        return s.encode(py_enc)

    data = encode(text)
    files = {k: encode(("<?xml version=\"1.0\" encoding=\"%s\"?>" % {"utf-16-be": "UTF-16", "utf-16-le": "UTF-16"}.get(enc, enc.upper()) if decl else "") + v)
             for k, v in files.items()}
    info["encoding"] = enc
    info["default_uri"] = default_uri

    def xtree(m):
        return {"d": m.get("_d", []), "q": m["q"], "a": m["a"], "s": "passed", "t": m["t"] or None,
                "c": [xtree(c) for c in m["c"]], "tl": m["tl"] or None}

    # the infoset with the declarations where they are written (the model's `XTree`); a document split
    # with XInclude has no single tree of declarations
    info["xtree"] = None if files else xtree(new_tree)
    return data, files, new_tree, info


def infoset(data: bytes):
    """Independent reading of a document (expat, namespace processing done here):
    the Tree JSON with character data merged across comments, PIs, CDATA sections."""
    import xml.parsers.expat as expat

    p = expat.ParserCreate()
    p.buffer_text = False
    p.ordered_attributes = True
    stack = []
    root = []

    def qn(name, scope, is_attr):
        if ":" in name:
            pfx, _, l = name.partition(":")
            if pfx == "xml":
                return "{%s}%s" % (XML_NS, l)
            return "{%s}%s" % (scope[pfx], l)
        if is_attr:
            return name
        d = scope.get(None)
        return "{%s}%s" % (d, name) if d else name

    def start(name, attrs):
        scope = dict(stack[-1]["_scope"]) if stack else {}
        pairs = list(zip(attrs[0::2], attrs[1::2]))
        for k, v in pairs:
            if k == "xmlns":
                scope[None] = v
            elif k.startswith("xmlns:"):
                scope[k[6:]] = v
        node = {
            "q": qn(name, scope, False),
            "a": [[qn(k, scope, True), v] for k, v in pairs if k != "xmlns" and not k.startswith("xmlns:")],
            "ns": [[pf, u] for pf, u in scope.items() if not (pf is None and u == "")],
            "t": None, "c": [], "tl": None, "_scope": scope,
        }
        if stack:
            stack[-1]["c"].append(node)
        else:
            root.append(node)
        stack.append(node)

    def end(name):
        stack.pop()

    def data_(s):
        if not stack:
            return
        top = stack[-1]
        if top["c"]:
            top["c"][-1]["tl"] = (top["c"][-1]["tl"] or "") + s
        else:
            top["t"] = (top["t"] or "") + s

    p.StartElementHandler = start
    p.EndElementHandler = end
    p.CharacterDataHandler = data_
    p.Parse(data, True)

    def strip(n):
        n.pop("_scope")
        for c in n["c"]:
            strip(c)
        return n

    return strip(root[0])
