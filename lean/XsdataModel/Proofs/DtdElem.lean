/-
Lemmas for C16: element declarations (`Gen/DtdElem`). The shape lemmas restate cases of
`dtdClassFields` (they are tied to the code by the op `gen.dtd_elem`, not by a proof);
`dtd_mixed_choices_core` relates the choices of a mixed class to the names of the declaration.
-/
import XsdataModel.Gen.DtdElem
import XsdataModel.Proofs.OccursDtd

namespace Xs.Gen
open Py

/-- `ANY`: the extension of `xs:anyType`, i.e. one optional wildcard field -/
theorem dtd_any_single_wildcard_shape (c : Option DtdContent) :
    dtdClassFields .any c = .anyTypeWildcard := by
  cases c <;> rfl

/-- … which is not a mixed wildcard list (finding `C16-any-drops-text`: the loss of character data
after a child is shown by the replay on the real parser, not by this label) -/
theorem dtd_any_not_mixed_shape (c : Option DtdContent) :
    (dtdClassFields .any c).keepsMixedContent = false := by
  cases c <;> rfl

theorem dtd_empty_no_fields_shape (c : Option DtdContent) : dtdClassFields .empty c = .plain [] := by
  cases c <;> rfl

theorem dtd_pcdata_value_shape (o : Occur) : dtdClassFields .mixed (some (.pcdata o)) =
    .plain [{ name := "value".toList, index := 0, min := (buildOccurs o).1, max := (buildOccurs o).2 }] := by
  cases o <;> decide

theorem dtd_element_content_shape (c : DtdContent) :
    dtdClassFields .element (some c) = .plain (occurs (dtdSites c)) := rfl

theorem dtd_mixed_choices_core (o o' : Occur) (r : Option DtdContent)
    (hd : (dtdNames (.or o none r)).Nodup) :
    dtdClassFields .mixed (some (.or o (some (.pcdata o')) r)) =
      .mixedWildcard (dtdNames (.or o none r)) := by
  have hn : (occurs (dtdSites (.or o none r))).map (·.name) = dtdNames (.or o none r) := by
    rw [occurs_dtdSites _ hd, ← calculatePaths_eq_map, calculatePaths_names, dtdSites_names]
  simp only [dtdClassFields, buildMixedContent, isPcdata, if_true]
  rw [hn]

end Xs.Gen
