"""C09 — parsing depends only on the XML infoset.

Correspondence: documents are *respelled* (harness/c09_rewrite.py: other
prefixes, default namespace, attribute order, ignorable white space, comments,
PIs, CDATA / character references, encodings, padded non-string values, empty
element tags, quotes, DOCTYPE, XInclude parts) and parsed from BYTES by the
real XmlParser with both handlers; the model (`bind.parse`) is run on the
infoset of the respelled document.

Oracle: the property itself on the real parsers only: original spelling and
respelling must give equal objects (Python equality: dict order ignored) with
both handlers.
"""
import base64
import io
import copy
import json
import os
import pathlib
import random
import re
import shutil
import tempfile
import warnings

import bindgen as G
import bindlib as B
import c09_rewrite as R
from framework import Corr, Oracle

PROP_ID = "C09"
DESIGN_REF = "6/C09"

from bindcases import *  # noqa: F401,F403,E402
from bindcases import _UNIS, CONFIGS, documents, n_cases, new_universe, uni_of, unsupported  # noqa: F401,E402


def b64(b: bytes) -> str:
    return base64.b64encode(b).decode("ascii")


def unb64(s: str) -> bytes:
    return base64.b64decode(s)


# ------------------------------------------------------------------ running the real parsers
class ChunkedSource(io.RawIOBase):
    """a byte source whose `read()` hands the document out in the given pieces: the read chunks of
    the tokenisers (16 KiB / 32 KiB in practice) end exactly where the test wants them to"""

    def __init__(self, data: bytes, cuts):
        pos = [0] + sorted(c for c in set(cuts) if 0 < c < len(data)) + [len(data)]
        self.pieces = [data[i:j] for i, j in zip(pos, pos[1:])]

    def readable(self):
        return True

    def read(self, n=-1):
        return self.pieces.pop(0) if self.pieces else b""


def real_parse(uni, clazz, data: bytes, handler: str, config=None, files=None, xinclude=False, cuts=None):
    """XmlParser(handler).from_bytes, or .from_path on a scratch directory when the
    document is split with XInclude, or .parse of a source that is read in the pieces given
    by `cuts`.  Returns the canonical {"ok"| "err"} shape."""
    from xsdata.exceptions import ConverterWarning
    from xsdata.formats.dataclass.context import XmlContext
    from xsdata.formats.dataclass.parsers import XmlParser
    from xsdata.formats.dataclass.parsers.config import ParserConfig
    from xsdata.formats.dataclass.parsers.handlers import LxmlEventHandler, XmlEventHandler

    h = XmlEventHandler if handler == "native" else LxmlEventHandler
    cfg = dict(config or {})
    if xinclude:
        cfg["process_xinclude"] = True
    p = XmlParser(context=XmlContext(models_package=uni.modname), config=ParserConfig(**cfg), handler=h)
    d = None
    try:
        with warnings.catch_warnings(record=True) as w:
            warnings.simplefilter("always")
            try:
                if xinclude:
                    d = tempfile.mkdtemp(prefix="c09-xi-")
                    with open(os.path.join(d, "main.xml"), "wb") as f:
                        f.write(data)
                    for name, content in (files or {}).items():
                        with open(os.path.join(d, name), "wb") as f:
                            f.write(content)
                    obj = p.from_path(pathlib.Path(d) / "main.xml", uni.classes[clazz])
                elif cuts:
                    obj = p.parse(ChunkedSource(data, cuts), uni.classes[clazz])
                else:
                    obj = p.from_bytes(data, uni.classes[clazz])
            except Exception as e:  # noqa: BLE001
                return B.classify_exc(e)
        n = sum(1 for x in w if issubclass(x.category, ConverterWarning))
        return {"ok": {"value": uni.to_val(obj), "warnings": n}}
    finally:
        if d is not None:
            shutil.rmtree(d, ignore_errors=True)


def py_eq_canon(v):
    """Python equality of the parsed objects: dicts compare without order"""
    if isinstance(v, dict):
        out = {}
        for k, x in v.items():
            if k == "attrs" and isinstance(x, list):
                out[k] = sorted(([a, b] for a, b in x), key=lambda kv: kv[0])
            else:
                out[k] = py_eq_canon(x)
        return out
    if isinstance(v, list):
        return [py_eq_canon(x) for x in v]
    return v


# ------------------------------------------------------------------ which respellings stay clear of the listed findings
def prefix_sensitive(t, ann, path=()):
    a = ann.get(path, {})
    for k, v in t["a"]:
        if k == R.XSI_TYPE or ":" in v or k in a.get("qattrs", ()):
            return True
    if a.get("qtext") and (t["t"] or "").strip():
        return True
    return any(prefix_sensitive(c, ann, path + (i,)) for i, c in enumerate(t["c"]))


def any_attr_colon(t):
    return any(":" in v for _, v in t["a"]) or any(any_attr_colon(c) for c in t["c"])


SAFE_KINDS = [k for k in R.ALL_KINDS if k not in ("bigpad", "pi_text", "comment_text", "xinclude", "unused_decl")]


def pick_kinds(rng, tree, ann):
    kinds = [k for k in SAFE_KINDS if rng.random() < 0.35]
    r = rng.random()
    if r < 0.12:
        kinds.append("xinclude")
    elif r < 0.2:
        kinds.append("pi_text")
    elif r < 0.3:
        kinds.append("comment_text")
    if rng.random() < 0.08:
        kinds.append("bigpad")
    if rng.random() < 0.15:
        kinds.append("unused_decl")
    # (documents with wildcard attribute values `p:rest` are respelled like all others: the model reproduces
    # finding c09-any-attr-prefix, so model and code must agree on them too)
    return kinds


def pick_cuts(rng, data: bytes):
    """where the read chunks of the tokeniser end: preferably right after a tag or inside the
    character data that follows it"""
    if len(data) < 2 or rng.random() < 0.45:
        return []
    ends = [i + 1 for i, b in enumerate(data) if b == 0x3E and i + 1 < len(data)]
    cuts = []
    for _ in range(rng.randint(1, 3)):
        if ends and rng.random() < 0.7:
            cuts.append(min(len(data) - 1, rng.choice(ends) + rng.choice([0, 0, 1, 2, 3])))
        else:
            cuts.append(rng.randint(1, len(data) - 1))
    return sorted(set(cuts))


def handlers_for(kinds, info, tree, ann, new_tree):
    hs = ["native", "lxml"]
    if info["xinclude"] and prefix_sensitive(tree, ann):
        hs.remove("native")  # finding c09-native-xinclude-prefixes
    return hs


def norm_tree(t):
    return {"q": t["q"], "a": t["a"], "ns": sorted(([p or "", u] for p, u in t["ns"])), "t": t["t"] or None,
            "c": [norm_tree(c) for c in t["c"]], "tl": t["tl"] or None}


# ------------------------------------------------------------------ bind.parse on respelled documents
def gen_respelled(rng, tier):
    for u, ctx, desc, tree, kind in documents(rng, tier, n_cases(tier, 110, 1500), 3, mutate=True):
        if kind not in ("valid", "ws", "corrupt_text", "corrupt_attr", "unknown_attr", "drop_attr", "bad_xsi_nil", "reorder", "delete", "duplicate"):
            continue
        if kind != "valid" and rng.random() < 0.5:
            continue
        try:
            orig = G.tree_xml(tree)
            tree = R.infoset(orig)  # what the original spelling says, read independently
        except Exception:  # noqa: BLE001
            continue
        ann = R.annotate(u, tree)
        if kind == "valid":
            padded = pad_ctrl(tree, ann, rng)
            if padded is not None:
                yield {
                    "ctx": ctx, "tree": padded, "clazz": "Root", "config": rng.choice(CONFIGS), "desc": desc, "_uni": u.modname,
                    "_kind": kind, "_kinds": ["ctrl_pad"], "_doc": "", "_files": {}, "_handlers": ["events"], "_orig": b64(orig),
                    "_xinclude": False, "_encoding": "utf-8",
                }
        for _ in range(3 if kind == "valid" else 1):
            kinds = pick_kinds(rng, tree, ann)
            try:
                data, files, new_tree, info = R.respell(tree, ann, rng, kinds)
            except R.Skip:
                continue
            hs = handlers_for(kinds, info, tree, ann, new_tree)
            if not hs:
                continue
            if not info["xinclude"] and norm_tree(R.infoset(data)) != norm_tree(new_tree):
                # self-test of the harness: the respeller's own account of what it wrote
                # against an independent (expat) reading of the bytes
                raise RuntimeError("c09_rewrite: respelled document does not have the reported infoset: %r" % data[:400])
            cuts = [] if info["xinclude"] else pick_cuts(rng, data)
            yield {
                "ctx": ctx, "tree": new_tree, "clazz": "Root", "config": rng.choice(CONFIGS), "desc": desc, "_uni": u.modname,
                "_kind": kind, "_kinds": info["kinds"] + (["chunks"] if cuts else []), "_doc": b64(data),
                "_files": {k: b64(v) for k, v in files.items()},
                "_handlers": hs, "_orig": b64(orig), "_xinclude": info["xinclude"], "_encoding": info["encoding"], "_cuts": cuts,
            }


CTRL_PADS = ["\x1c", "\x1f", "\x1d ", " \x1e", "\x1c\x1f"]


def pad_ctrl(tree, ann, rng):
    """Pad int / bool / QName / token values with the ASCII separators FS..US: `str.isspace()` accepts
    them (bool, QName, `str.split()` ignore them) but `int()` does not.  They are not XML characters,
    so these cases go to the real NodeParser as events (no document), never to the oracle."""
    t = copy.deepcopy(tree)
    n_padded = [0]

    def pad(v):
        n_padded[0] += 1
        return rng.choice(CTRL_PADS) * rng.randint(0, 1) + v + rng.choice(CTRL_PADS)

    def go(n, path):
        a = ann.get(path, {})
        for kv in n["a"]:
            if kv[0] in a.get("padattrs", ()) and kv[1].strip() and rng.random() < 0.7:
                kv[1] = pad(kv[1])
        if a.get("padtext") and n["t"] and n["t"].strip() and rng.random() < 0.7:
            n["t"] = pad(n["t"])
        for i, c in enumerate(n["c"]):
            go(c, path + (i,))

    go(t, ())
    return t if n_padded[0] else None


def impl_respelled(a):
    u = uni_of(a)
    if a["_handlers"] == ["events"]:
        return B.real_parse_tree(u, a["clazz"], a["tree"], a["config"])
    outs = []
    for h in a["_handlers"]:
        outs.append(real_parse(u, a["clazz"], unb64(a["_doc"]), h, a["config"], {k: unb64(v) for k, v in a["_files"].items()},
                               a["_xinclude"], a.get("_cuts")))
    if all(o == outs[0] for o in outs):
        return outs[0]
    return {"err": "HANDLERS-DISAGREE", "outs": outs}


def cmp_respelled(mo, io, a):
    if unsupported(mo):
        return True
    return mo == io


def classify_respelled(a, o):
    r = "ok" if "ok" in o else o.get("err", "unsupported")
    ks = a.get("_kinds", [])
    tag = "ctrlpad" if "ctrl_pad" in ks else "xinclude" if "xinclude" in ks else "encoding" if "encoding" in ks else "prefix" if ("prefix" in ks or "default" in ks) else "other"
    return f"{a.get('_kind', '?')}:{tag}:{'+'.join(a.get('_handlers', []))}:{r}"


# ------------------------------------------------------------------ c09.tails: the tails the handlers pass, per read chunk layout
_TAILS_DESC = {"classes": [{"name": "Root", "fields": [
    {"name": "content", "type": {"list": "object"}, "metadata": {"type": "Wildcard", "namespace": "##any", "mixed": True},
     "default": {"factory": "list"}}]}]}
_TAILS_UNI = []


def gen_tails(rng, tier):
    """token streams of small mixed-content documents, cut into read chunks at token boundaries and inside
    character data"""
    texts = ["TAIL", "x", " ", "a&b", "é", "\n  ", "0"]

    def element(depth):
        q = rng.choice(["t", "u", "v"])
        toks = [["s", q]]
        for _ in range(rng.randint(0, 3)):
            r = rng.random()
            if r < 0.45:
                toks.append(["c", rng.choice(texts)])
            elif depth < 3:
                toks += element(depth + 1)
        toks.append(["e", q])
        return toks

    for _ in range(n_cases(tier, 400, 6000)):
        toks = [["s", "Root"]]
        for _ in range(rng.randint(1, 4)):
            toks += element(1) if rng.random() < 0.7 else [["c", rng.choice(texts)]]
        toks.append(["e", "Root"])
        # split some character runs so that a chunk can end in the middle of a tail
        split = []
        for t in toks:
            if t[0] == "c" and len(t[1]) > 1 and rng.random() < 0.5:
                i = rng.randint(1, len(t[1]) - 1)
                split += [["c", t[1][:i]], ["c", t[1][i:]]]
            else:
                split.append(t)
        cuts = sorted({rng.randint(1, len(split) - 1) for _ in range(rng.randint(0, 4))}) if len(split) > 2 else []
        pos = [0] + cuts + [len(split)]
        yield {"chunks": [split[i:j] for i, j in zip(pos, pos[1:]) if i < j]}


def _tok_bytes(t):
    if t[0] == "s":
        return ("<%s>" % t[1]).encode()
    if t[0] == "e":
        return ("</%s>" % t[1]).encode()
    return t[1].replace("&", "&amp;").replace("<", "&lt;").encode()


def impl_tails(a):
    from xsdata.formats.dataclass.context import XmlContext
    from xsdata.formats.dataclass.parsers.bases import RecordParser
    from xsdata.formats.dataclass.parsers.handlers import LxmlEventHandler, XmlEventHandler

    if not _TAILS_UNI:
        _TAILS_UNI.append(B.Universe(_TAILS_DESC))
    u = _TAILS_UNI[0]
    pieces = [b"".join(_tok_bytes(t) for t in c) for c in a["chunks"]]
    data = b"".join(pieces)
    cuts, n = [], 0
    for pc in pieces[:-1]:
        n += len(pc)
        cuts.append(n)
    outs = []
    for h in (XmlEventHandler, LxmlEventHandler):
        p = RecordParser(context=XmlContext(models_package=u.modname), handler=h)
        try:
            p.parse(ChunkedSource(data, cuts), u.classes["Root"])
        except Exception as e:  # noqa: BLE001
            outs.append(B.classify_exc(e))
            continue
        outs.append({"ok": [ev[3] for ev in p.events if ev[0] == "end"]})
    if outs[0] == outs[1]:
        return outs[0]
    return {"err": "HANDLERS-DISAGREE", "outs": outs}


def classify_tails(a, o):
    return f"{min(len(a['chunks']), 4)} chunks:{'ok' if 'ok' in o else o.get('err')}"


CORRS = [
    Corr("c09.tails", gen_tails, impl_tails, classify=classify_tails,
         describe="the tail passed to parser.end for every element by XmlEventHandler and LxmlEventHandler reading a source in given pieces "
                  "vs the model's deferredReads"),
    Corr("bind.parse", gen_respelled, impl_respelled, compare=cmp_respelled, classify=classify_respelled,
         describe="XmlParser.from_bytes/from_path with XmlEventHandler and LxmlEventHandler on respelled documents vs the model on the respelled infoset"),
]


# ------------------------------------------------------------------ the property on the implementation alone
# hand-written documents inside the region of c09-native-xinclude-prefixes (QName content whose prefix the ElementTree
# walk forgets, or happens to re-invent): what the native handler does there with process_xinclude must stay exactly
# what the finding describes (oracle_covered replays it independently)
XI_DESC = {"classes": [
    {"name": "Leaf", "meta": {"namespace": "urn:a"}, "fields": [
        {"name": "q", "type": {"opt": "qname"}, "metadata": {"type": "Element"}, "default": {"value": None}},
        {"name": "r", "type": {"opt": "qname"}, "metadata": {"type": "Attribute"}, "default": {"value": None}}]},
    {"name": "Root", "meta": {"namespace": "urn:a"}, "fields": [
        {"name": "item", "type": {"list": {"cls": "Leaf"}}, "metadata": {"type": "Element"}, "default": {"factory": "list"}}]},
]}
_XI_ITEMS = [
    '<ns0:item xmlns:ns0="urn:a" xmlns:ns1="urn:q"><ns0:q>ns1:n2</ns0:q></ns0:item>',
    '<ns0:item xmlns:ns0="urn:a"><ns0:q>ns0:n1</ns0:q></ns0:item>',
    '<ns0:item xmlns:ns0="urn:a" xmlns:ns1="urn:q" xmlns:ns2="urn:r" r="ns2:k"><ns0:q>ns1:n2</ns0:q></ns0:item>',
    '<p:item xmlns:p="urn:a" xmlns:xs="urn:q"><p:q>xs:n3</p:q></p:item>',
]


def gen_xi_corpus():
    u = uni_of({"desc": XI_DESC})
    for item in _XI_ITEMS:
        orig = ('<ns0:Root xmlns:ns0="urn:a">%s%s</ns0:Root>' % (item, item)).encode()
        main = ('<ns0:Root xmlns:ns0="urn:a" xmlns:xi="http://www.w3.org/2001/XInclude"><xi:include href="part0.xml"/>'
                '<xi:include href="part0.xml"/></ns0:Root>').encode()
        for doc, files in ((main, {"part0.xml": item.encode()}), (orig, {})):
            yield {"desc": XI_DESC, "_uni": u.modname, "clazz": "Root", "config": {}, "orig": b64(orig), "doc": b64(doc),
                   "files": {k: b64(v) for k, v in files.items()}, "xinclude": True, "kinds": ["corpus", "xinclude"],
                   "encoding": "utf-8", "cuts": []}


def gen_oracle(rng, tier):
    yield from gen_xi_corpus()
    for u, ctx, desc, tree, kind in documents(rng, tier, n_cases(tier, 60, 600), 3, mutate=False):
        try:
            orig = G.tree_xml(tree)
            tree = R.infoset(orig)
        except Exception:  # noqa: BLE001
            continue
        ann = R.annotate(u, tree)
        sens = prefix_sensitive(tree, ann)
        for i in range(4):
            kinds = [k for k in R.ALL_KINDS if rng.random() < 0.3]
            if sens and i == 0 and "xinclude" not in kinds:
                # the region of c09-native-xinclude-prefixes is visited for every document that has one: what happens
                # there must stay what the finding describes (oracle_covered replays it), nothing else
                kinds.append("xinclude")
            try:
                data, files, _new_tree, info = R.respell(tree, ann, rng, kinds)
            except R.Skip:
                continue
            cuts = [] if info["xinclude"] else pick_cuts(rng, data)
            yield {
                "desc": desc, "_uni": u.modname, "clazz": "Root", "config": {}, "orig": b64(orig), "doc": b64(data),
                "files": {k: b64(v) for k, v in files.items()}, "xinclude": info["xinclude"],
                "kinds": info["kinds"] + (["chunks"] if cuts else []), "encoding": info["encoding"], "cuts": cuts,
            }


def adapt_corr_case(op, a):
    if a.get("_handlers") == ["events"]:
        return None  # control-character padding is not a respelling of an XML document
    return {
        "desc": a["desc"], "_uni": a.get("_uni"), "clazz": a["clazz"], "config": a.get("config", {}), "orig": a["_orig"],
        "doc": a["_doc"], "files": a["_files"], "xinclude": a["_xinclude"], "kinds": a["_kinds"], "encoding": a["_encoding"],
        "cuts": a.get("_cuts") or [],
    }


def four_results(a):
    u = uni_of(a)
    files = {k: unb64(v) for k, v in a["files"].items()}
    out = {}
    for h in ("native", "lxml"):
        out["orig/" + h] = py_eq_canon(real_parse(u, a["clazz"], unb64(a["orig"]), h, a["config"]))
        out["new/" + h] = py_eq_canon(real_parse(u, a["clazz"], unb64(a["doc"]), h, a["config"], files, a["xinclude"], a.get("cuts")))
    return out


def oracle_check(a):
    r = four_results(a)
    ref = r["orig/native"]
    bad = [k for k, v in r.items() if v != ref]
    if not bad:
        return None
    if "value_ws" in a["kinds"] and not all("ok" in r[k] and r[k]["ok"]["warnings"] == 0 for k in ("orig/native", "orig/lxml")):
        # padding is a respelling of a *valid* lexical value only: a value that does not convert is kept
        # as the raw string, padding included (the property quantifies over documents valid for the model)
        return None
    k = bad[0]
    return (f"respelling {a['kinds']}: {k} differs from orig/native: "
            f"{json.dumps(r[k], ensure_ascii=False)[:300]} vs {json.dumps(ref, ensure_ascii=False)[:300]}")


def any_attr_outcomes(docs):
    """What the unchanged `ParserUtils.parse_any_attribute` makes of the attribute values of these documents (finding
    c09-any-attr-prefix), read off an independent (expat) infoset: the Clark names it produces from `p:rest` values
    whose prefix is in scope where the attribute stands, and the `p:rest` values it leaves alone.  `docs[0]` is the
    main document; the others are XInclude parts: where they end up, the declarations of the including document are
    in scope as well for a handler that works on the merged tree (lxml), and are not for one that does not, so for a
    prefix declared only there both outcomes are the finding's."""
    rewritten, kept = set(), set()
    outer = {}

    def go(n, part):
        ns = {p: u for p, u in n["ns"]}
        if not part:
            outer.update({p: u for p, u in ns.items() if p and u})
        for _, v in n["a"]:
            left, sep, right = v.partition(":")
            if sep and left and right and not right.startswith("//"):
                if ns.get(left):
                    rewritten.add("{%s}%s" % (ns[left], right))
                else:
                    kept.add(v)
                    if part and outer.get(left):
                        rewritten.add("{%s}%s" % (outer[left], right))
            elif sep and left and right:
                kept.add(v)
        for c in n["c"]:
            go(c, part)

    for i, data in enumerate(docs):
        go(R.infoset(data), i > 0)
    return rewritten, kept


def _local(b):
    return b.split("}", 1)[1] if b.startswith("{") and "}" in b else b.split(":", 1)[1] if ":" in b else b


def mask_any_attrs(v, outcomes=None):
    """forget WHICH name a wildcard attribute value spells, where the listed finding explains the spelling: a Clark
    name the unchanged code produces from a prefixed value of this very document, or a prefixed value it leaves alone
    there (`outcomes`); the part after the prefix / namespace is kept.  Without `outcomes` (infoset not available)
    every name-like value is forgotten."""
    if isinstance(v, dict):
        out = {}
        for k, x in v.items():
            if k == "attrs" and isinstance(x, list):
                row = []
                for a, b in x:
                    if outcomes is None:
                        b = "<name>" if (":" in b or b.startswith("{") or a == R.XSI_TYPE) else b
                    elif a == R.XSI_TYPE:
                        # a captured xsi:type is a QName the respeller may spell with another prefix or through the
                        # default namespace; the rewriting turns only the prefixed spellings into Clark names
                        b = "<name>:" + _local(b)
                    elif b in outcomes[0]:
                        b = "<name>:" + b.split("}", 1)[1]
                    elif b in outcomes[1]:
                        b = "<name>:" + b.split(":", 1)[1]
                    row.append([a, b])
                out[k] = row
            else:
                out[k] = mask_any_attrs(x, outcomes)
        return out
    if isinstance(v, list):
        return [mask_any_attrs(x, outcomes) for x in v]
    return v


# ---- finding c09-native-xinclude-prefixes, stated independently of XmlEventHandler.parse / iterwalk
_STD_PREFIX = None


def _std_prefix(uri):
    global _STD_PREFIX
    if _STD_PREFIX is None:
        from xsdata.models.enums import Namespace

        _STD_PREFIX = {ns.uri: ns.prefix for ns in Namespace}
    return _STD_PREFIX.get(uri)


def prefixes_forgotten(main: bytes, files: dict) -> bytes:
    """The document the finding says the native handler effectively reads with process_xinclude=True: the includes
    resolved by the standard library (ElementTree + ElementInclude, which keep no prefix declarations, comments or
    PIs), every namespaced ELEMENT declaring a prefix for its own namespace on itself (one prefix per namespace for the
    whole document: the conventional one of a well-known namespace if free, else ns<number of prefixes so far>), and
    nothing else in scope.  Attribute namespaces get private prefixes no content can refer to."""
    import xml.etree.ElementInclude as EI
    import xml.etree.ElementTree as ET
    from xml.sax.saxutils import escape, quoteattr

    d = tempfile.mkdtemp(prefix="c09-xr-")
    try:
        with open(os.path.join(d, "main.xml"), "wb") as f:
            f.write(main)
        for name, content in files.items():
            with open(os.path.join(d, name), "wb") as f:
                f.write(content)
        root = ET.parse(os.path.join(d, "main.xml")).getroot()
        EI.include(root, base_url=os.path.join(d, "main.xml"))
    finally:
        shutil.rmtree(d, ignore_errors=True)
    alloc = {}      # prefix -> uri, document wide, in allocation order
    out = []

    def prefix_for(uri):
        for p, u in alloc.items():
            if u == uri:
                return p
        p = _std_prefix(uri)
        n = len(alloc)
        while p is None or p in alloc:
            p = "ns%d" % n
            n += 1
        alloc[p] = uri
        return p

    def walk(el):
        uri, local = R.split_clark(el.tag)
        decls, name = [], local
        if uri:
            p = prefix_for(uri)
            decls.append(' xmlns:%s=%s' % (p, quoteattr(uri)))
            name = p + ":" + local
        attrs, k = [], 0
        for an, av in el.attrib.items():
            au, al = R.split_clark(an)
            if au == R.XML_NS:
                an2 = "xml:" + al
            elif au:
                ap = "zzc09a%d" % k
                k += 1
                decls.append(' xmlns:%s=%s' % (ap, quoteattr(au)))
                an2 = ap + ":" + al
            else:
                an2 = al
            attrs.append(" %s=%s" % (an2, quoteattr(av, {"\n": "&#10;", "\r": "&#13;", "\t": "&#9;"})))
        out.append("<" + name + "".join(decls) + "".join(attrs) + ">")
        if el.text:
            out.append(escape(el.text, {"\r": "&#13;"}))
        for c in el:
            walk(c)
            if c.tail:
                out.append(escape(c.tail, {"\r": "&#13;"}))
        out.append("</" + name + ">")

    walk(root)
    return "".join(out).encode("utf-8")


def oracle_covered(a, msg):
    """Attribute a failing input to the listed findings, result by result; every differing result
    needs an explanation; the first finding id is returned."""
    u = uni_of(a)
    r = four_results(a)
    found = []
    if r["orig/native"] != r["orig/lxml"]:
        return None  # the two handlers disagree on the original spelling: nothing listed explains that
    ref = r["orig/native"]
    files = {k: unb64(v) for k, v in a["files"].items()}
    try:
        out_orig = any_attr_outcomes([unb64(a["orig"])])
        out_new = any_attr_outcomes([unb64(a["doc"])] + list(files.values()))
    except Exception:  # noqa: BLE001
        out_orig = out_new = None

    def m(k, v):
        return mask_any_attrs(v, out_orig if k.startswith("orig/") else out_new)

    bad_plain = {k for k, v in r.items() if v != ref}
    bad = {k for k in bad_plain if m(k, r[k]) != m("orig/native", ref)}
    if bad_plain - bad:
        found.append("c09-any-attr-prefix")

    def explain(k):
        if k == "new/native" and a["xinclude"]:
            # with process_xinclude the native handler walks an ElementTree and invents the prefixes: documents whose
            # content uses prefixes (QName values, xsi:type, name-like wildcard attribute values) are affected, also
            # without any include in them.  The finding covers the result only if it is what the parser makes of the
            # document with the prefixes forgotten in exactly that way (read the ordinary way, no XInclude processing)
            try:
                t = R.infoset(unb64(a["orig"]))
                if not prefix_sensitive(t, R.annotate(u, t)):
                    return None
                flat = prefixes_forgotten(unb64(a["doc"]), files)
                want = py_eq_canon(real_parse(u, a["clazz"], flat, "native", a["config"]))
                if want == r[k]:
                    return "c09-native-xinclude-prefixes"
            except Exception:  # noqa: BLE001
                pass
        return None

    for k in sorted(bad):
        e = explain(k)
        if e is None:
            return None
        found.append(e)
    return found[0] if found else None


def oracle_chunking(a):
    """the same document read in one piece and in the given pieces: same tails, both handlers"""
    whole = impl_tails({"chunks": [[t for c in a["chunks"] for t in c]]})
    cut = impl_tails(a)
    if "ok" not in whole:
        return f"reading the document in one piece: {whole}"
    if cut != whole:
        return f"read in {len(a['chunks'])} pieces the tails are {json.dumps(cut, ensure_ascii=False)[:300]}, in one piece {json.dumps(whole, ensure_ascii=False)[:300]}"
    return None


ORACLES = [
    Oracle("respelling-invariance", gen_oracle, oracle_check, covered=oracle_covered, from_ops=("bind.parse",), adapt=adapt_corr_case),
    Oracle("chunking-invariance", gen_tails, oracle_chunking, from_ops=("c09.tails",)),
]


# ------------------------------------------------------------------ known findings: fixed replays on the real code
def _mini(fields, extra_classes=()):
    return {"classes": list(extra_classes) + [{"name": "Root", "fields": fields}]}


_ATTRS = {"name": "attrs", "type": {"dict": 1}, "metadata": {"type": "Attributes", "namespace": "##any"}, "default": {"factory": "dict"}}
_Q = {"name": "q", "type": {"opt": "qname"}, "metadata": {"type": "Element"}, "default": {"value": None}}


def _vals(desc, docs, handler, xinclude=False):
    u = B.Universe(desc)
    try:
        return [real_parse(u, "Root", d, handler, {}, {}, xinclude) for d in docs]
    finally:
        u.close()


def finding_any_attr_prefix():
    outs = []
    for h in ("native", "lxml"):
        a, b = _vals(_mini([_ATTRS]), [b'<Root xmlns:p="urn:p" k="p:bar"/>', b'<Root xmlns:pp="urn:p" k="p:bar"/>'], h)
        outs.append((a, b))
    still = all(a != b for a, b in outs)
    return still, f"{json.dumps(outs[0][0])} vs {json.dumps(outs[0][1])}"


def finding_native_xinclude():
    doc = b'<Root xmlns:z="urn:z"><q>z:n1</q></Root>'
    a = _vals(_mini([_Q]), [doc], "native")[0]
    b = _vals(_mini([_Q]), [doc], "native", xinclude=True)[0]
    return a != b, f"process_xinclude off: {json.dumps(a)}; on (same file, no include in it): {json.dumps(b)}"


FINDINGS = {
    "c09-any-attr-prefix": finding_any_attr_prefix,
    "c09-native-xinclude-prefixes": finding_native_xinclude,
}

TRUSTED = [
    "metadata (XmlMeta/XmlVar) is exported from the real XmlContext.build and is an input of the model",
    "the tokenisers (expat via xml.etree, libxml2 via lxml) are not modelled: comments, PIs, CDATA, character references, encodings, "
    "attribute-value normalisation and XInclude are resolved before the event stream the model starts from; they are covered by the "
    "byte-level correspondence (both handlers on respelled documents vs the model on the respelled infoset) only",
    "harness/c09_rewrite.py (the respeller and its expat-based infoset reader) is trusted to produce documents with the infoset it reports; "
    "the two are cross-checked against each other on every generated case",
    "primitive converters restricted to str/int/bool/QName in this layer",
]
ASSUMPTIONS = [
    "class universes keep every class under one parent namespace (the metadata cache is the subject of C14)",
    "union-typed class fields are outside the modelled fragment (model answers `unsupported`, not compared)",
]
LEVEL_TEXT = "proof (model: attribute order, ignorable white space, padded values, prefix maps) + correspondence (tokeniser-level respellings)"
LEVEL_NOTE = (
    "Theorems in Props/C09.lean are about the Lean model of NodeParser on the infoset Tree; the respellings that the tokenisers resolve "
    "(comments, PIs, CDATA, character references, encodings, XInclude) are invisible to that interface by construction and are checked by "
    "sampling only, except for the read chunks of the tokeniser (Backends/Chunks.lean, section 6). Two listed findings are excluded regions."
)
