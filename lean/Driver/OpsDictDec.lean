import Driver.Proto
import Driver.OpsBind
import XsdataModel.DictDec.Keys
open Lean Proto Py Xs.Bind Xs.DictDec

namespace OpsDictDec
open OpsBind (dStr dOptStr dBool dNat dList dPair dCfg field jErr)

def dShape (j : Json) : Except String JShape :=
  match j with
  | .str "null" => .ok .null
  | .str "scalar" => .ok .scalar
  | .str "array" => .ok .array
  | _ => match j.getObjVal? "object" with
    | .ok ms => (dList (dPair dStr dBool) ms).map .object
    | .error _ => .error s!"bad shape {j.compress}"

def dDVar (j : Json) : Except String DVar := do
  pure { name := ← dStr (field j "name"), localName := ← dStr (field j "local_name"),
         wrapper := ← dOptStr (field j "wrapper"), isList := ← dBool (field j "is_list"),
         listElement := ← dBool (field j "list_element"),
         init := ← dBool (field j "init") }

def dCand (j : Json) : Except String Cand := do
  let att ← match field j "attempt" with
    | .null => pure none
    | x => (dNat x).map some
  pure { id := ← dStr (field j "id"), localNames := ← dList dStr (field j "local_names"), attempt := att }

def run (op : String) (a : Json) : Option (Except String Json) :=
  match op with
  | "dict.bindkeys" => some do
      let vars ← dList dDVar (field a "vars")
      let data ← dList (dPair dStr dShape) (field a "data")
      let dk ← dList dStr (field a "derived_keys")
      -- the value bound to a var is represented by the key it came from
      pure <| match bindDataclass (fun _ k v => .ok (if v.isNull then none else some k)) (dCfg (field a "config")) dk vars data with
        | .ok .derived => ok (jObj [("derived", jBool true), ("params", jList id [])])
        | .ok (.plain ps) => ok (jObj [("derived", jBool false),
            ("params", jList (fun (kv : Str × Option Str) => Json.arr #[jStr kv.1, jOpt jStr kv.2]) ps)])
        | .error e => jErr e
  | "dict.best" => some do
      let keys ← dList dStr (field a "keys")
      let cands ← dList dCand (field a "cands")
      pure <| match bindBest (dCfg (field a "config")) keys cands with
        | .ok c => ok (jStr c)
        | .error e => jErr e
  | "dict.bestcfg" => some do
      -- one best-match item under the given configuration, then one failing conversion:
      -- candidates carry their attempt under a strict and under a lenient configuration
      let keys ← dList dStr (field a "keys")
      let cs ← asArr (field a "cands")
      let cands ← cs.mapM (fun j => do
        let att (k : String) : Except String (Option Nat) := match field j k with
          | .null => pure none
          | x => (dNat x).map some
        let st ← att "attempt_strict"
        let le ← att "attempt_lenient"
        pure ({ id := ← dStr (field j "id"), localNames := ← dList dStr (field j "local_names"),
                attempt := fun c => if c.failOnConverterWarnings then st else le } : CandC))
      let cfg := dCfg (field a "config")
      let r := workAll cfg [.best keys cands, .convert true]
      let jDone : Except Err Done → Json := fun d => match d with
        | .ok (.chose c) => ok (jStr c)
        | .ok .kept => ok (Json.str "kept")
        | .ok .warned => ok (Json.str "warned")
        | .error e => jErr e
      pure <| ok (jObj [("steps", jList jDone r.1),
        ("after", Json.arr #[jBool r.2.failOnUnknownProperties, jBool r.2.failOnUnknownAttributes, jBool r.2.failOnConverterWarnings])])
  | _ => none

end OpsDictDec
