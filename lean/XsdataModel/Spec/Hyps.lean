/-
Spec — the decidable hypotheses of the C03 theorems: which user prefix maps,
names and values lie inside the region where the writer is proved correct.
Every predicate is a `Bool`-valued function of the *input*.
-/
import XsdataModel.Spec.XmlNs
import XsdataModel.Spec.EventTree
import XsdataModel.Xml.TblNsEnv

namespace Spec.Hyps
open Py Xs.Ns Xs.Sax Xs.Writer Spec.XmlNs Spec.EventTree

/-- a namespace name that may be bound to a prefix: non-empty, no character
that would need escaping inside `xmlns:p="…"`, not the xmlns namespace -/
def uriOK (u : Str) : Bool := !u.isEmpty && uriSafe u && u != xmlnsNsUri

/-! ### the constant tables -/

def enumEntryOK (e : Str × Str) : Bool :=
  isNCName e.2 && e.2 != xmlnsPrefix && uriOK e.1 && ((e.2 == xmlPrefix) == (e.1 == xmlNsUri))

/-- what the proofs need from `Namespace` / `XMLGenerator`: standard prefixes are
NCNames, `xml` ↔ the XML namespace -/
def envOK (env : NsEnv) : Bool :=
  env.saxXmlNs == xmlNsUri && dget env.enum xmlNsUri == some xmlPrefix && env.enum.all enumEntryOK
  && env.xmlUri == xmlNsUri && env.xmlPrefix == xmlPrefix

/-! ### user prefix map (after `clean_prefixes`) -/

/-- every entry of the cleaned user map is a legal namespace declaration: NCName
prefix other than `xmlns`, `xml` only for the XML namespace, a namespace name that
needs no escaping.  (Since a086d5b `generate_prefix` never rebinds a key, so
prefixes of the form `ns<digits>` and standard prefixes bound elsewhere are fine.) -/
def userMapOK (env : NsEnv) (m : List (Pfx × Str)) : Bool :=
  (serializerNsMap m).all declOK && prefixesValid env (serializerNsMap m)

/-- the user's default namespace, if any -/
def userDefault (m : List (Pfx × Str)) : Option Str := dget (serializerNsMap m) none

/-! ### names and values -/

/-- namespace part of a name is absent or declarable -/
def nsPartOK : Option Str → Bool
  | none => true
  | some u => uriOK u

/-- QName text: Clark notation with a declarable namespace, or a bare NCName -/
def qnameTextOK (t : Str) : Bool :=
  match clark t with
  | some (some u, _) => uriOK u
  | some (none, _) => true
  | none => false

/-- atoms the event generator produces (str, QName) with XML characters only -/
def atomOK : Atom → Bool
  | .str s => xmlChars s
  | .qname t => qnameTextOK t
  | .int _ => false
  | .bool _ => false

def valOK : Val → Bool
  | .none => true
  | .atom a => atomOK a
  | .list xs => xs.all atomOK

/-- character data (since the repair of c03-cr-in-text carriage returns are fine) -/
def dataValOK (v : Val) : Bool := valOK v

def hasValue : Val → Bool
  | .none => false
  | .list [] => false
  | _ => true

/-- element name in Clark notation: NCName local part, declarable namespace -/
def elemNameOK (q : Str) : Bool :=
  match clark q with
  | some n => nsPartOK n.1
  | none => false

/-- an attribute name the writer can write correctly: local part an NCName
(not the bare `xmlns`), namespace declarable.  (Attributes in the user's default
namespace are fine since the repair of c03-default-ns-attribute.) -/
def attrNameOK (_d : Option Str) (n : EName) : Bool :=
  isNCName n.2 && (match n.1 with
    | none => n.2 != xmlnsPrefix
    | some u => uriOK u)

def attrOK (env : NsEnv) (d : Option Str) (a : Str × Val) : Bool :=
  (match clark a.1 with
    | some n => attrNameOK d n
    | none => false)
  && valOK (xsiTypeValue env a.1 a.2) && hasValue (xsiTypeValue env a.1 a.2)

/-- the lexical conditions on an event forest -/
def contentOK (env : NsEnv) (d : Option Str) : Content → Bool
  | .nil => true
  | .data v rest => dataValOK v && contentOK env d rest
  | .child q attrs kids rest =>
    elemNameOK q && attrs.all (attrOK env d) && contentOK env d kids && contentOK env d rest

end Spec.Hyps

namespace Spec.Hyps
open Py Xs.Ns Xs.Sax Xs.Writer Spec.XmlNs Spec.EventTree

/-! ### structure of the event sequence -/

/-- encoding this atom cannot create a prefix: a QName atom has no namespace -/
def atomNoNs : Atom → Bool
  | .qname t => (match clark t with
    | some (none, _) => true
    | _ => false)
  | _ => true

def valNoNs : Val → Bool
  | .none => true
  | .atom a => atomNoNs a
  | .list xs => xs.all atomNoNs

/-- Structural condition on a forest.  `first`: the enclosing element's start
tag is still pending (nothing of its content seen yet).  A DATA event that is
not the first content event must not carry a QName with a namespace (its prefix
would be created after the declarations were written).  Consecutive DATA events
are fine since the repair of c03-consecutive-text. -/
def shapeOK : Bool → Content → Bool
  | _, .nil => true
  | first, .data v rest => (first || valNoNs v) && shapeOK false rest
  | _, .child _ _ kids rest => shapeOK true kids && shapeOK false rest

end Spec.Hyps

namespace Spec.Hyps
open Py Xs.Ns Xs.Sax Xs.Writer Spec.XmlNs Spec.EventTree

/-! ### the same conditions on a flat event list -/

/-- lexical condition on one event (cf. `contentOK`) -/
def evLexOK (env : NsEnv) (d : Option Str) : Ev → Bool
  | .start q => elemNameOK q
  | .attr q v => attrOK env d (q, v)
  | .data v => dataValOK v
  | .end_ _ => true
  | .unknown => false

/-- every ATTR event directly follows a START or another ATTR event
(`p`: the previous event was one of those) -/
def attrsFollow : Bool → List Ev → Bool
  | _, [] => true
  | p, .attr _ _ :: r => p && attrsFollow true r
  | _, .start _ :: r => attrsFollow true r
  | _, .data _ :: r => attrsFollow false r
  | _, .end_ _ :: r => attrsFollow false r
  | _, .unknown :: r => attrsFollow false r

/-- a DATA event that is not the first content event of its element carries no QName with a
namespace (cf. `shapeOK`; `first`: the previous event was a START or ATTR) -/
def lateOK : Bool → List Ev → Bool
  | _, [] => true
  | first, .data v :: r => (first || valNoNs v) && lateOK false r
  | _, .start _ :: r => lateOK true r
  | _, .attr _ _ :: r => lateOK true r
  | _, .end_ _ :: r => lateOK false r
  | _, .unknown :: r => lateOK false r

/-- the decidable conditions on the event list of a document under which the writer theorems apply -/
def eventsOK (env : NsEnv) (d : Option Str) (es : List Ev) : Bool :=
  es.all (evLexOK env d) && attrsFollow false es && lateOK false es

end Spec.Hyps
