"""Stand-in for the Jinja2 half of xsdata's DataclassGenerator (jinja2 and ruff are
not installed in this sandbox).  `StandinGenerator` subclasses the real generator and
replaces only the three template renderings by line-for-line Python transliterations
of templates/{module,class,enum,service,package,imports}.jinja2 (docstrings omitted).
Everything else is the real code: Filters (names, types, field definitions, defaults,
imports), DependenciesResolver (imports, class order), group_by_module/package,
validate_imports.
"""
from __future__ import annotations

import itertools

from xsdata.codegen.models import Class
from xsdata.codegen.resolver import DependenciesResolver
from xsdata.formats.dataclass.generator import DataclassGenerator


def indent(text: str, n: int = 4, first: bool = False) -> str:
    pad = " " * n
    lines = text.split("\n")
    out = []
    for i, l in enumerate(lines):
        if (i == 0 and not first) or not l.strip():
            out.append(l if i == 0 or l.strip() else "")
        else:
            out.append(pad + l)
    return "\n".join(out)


class StandinGenerator(DataclassGenerator):
    def ruff_code(self, file_paths):  # ruff is not installed
        return None

    # ---------------------------------------------------------------- imports.jinja2
    def _imports(self, imports, module):
        f = self.filters
        out = []
        for source, items in itertools.groupby(sorted(imports, key=lambda x: x.source), key=lambda x: x.source):
            items = list(items)
            if len(items) == 1:
                out.append(f"from {f.import_module(source, module)} import {f.import_class(items[0].name, alias=items[0].alias)}\n")
            else:
                out.append(f"from {f.import_module(source, module)} import (")
                for it in items:
                    out.append(f"\n    {f.import_class(it.name, alias=it.alias)},")
                out.append("\n)\n")
        return "".join(out)

    # ---------------------------------------------------------------- package.jinja2
    def render_package(self, classes, module):
        from xsdata.codegen.models import Import

        imports = [Import(qname=obj.qname, source=obj.target_module) for obj in sorted(classes, key=lambda x: x.name)]
        DependenciesResolver.resolve_conflicts(imports, set())
        f = self.filters
        out = [self._imports(imports, module), "__all__ = ["]
        for source, items in itertools.groupby(sorted(imports, key=lambda x: x.source), key=lambda x: x.source):
            for it in items:
                out.append(f'\n    "{f.class_name(it.alias) if it.alias else f.class_name(it.name)}",')
        out.append("\n]\n")
        return "".join(out)

    # ---------------------------------------------------------------- module.jinja2
    def render_module(self, resolver, classes):
        if len({x.target_namespace for x in classes}) == 1:
            module_namespace = classes[0].target_namespace
        else:
            module_namespace = None
        resolver.process(classes)
        imports = resolver.sorted_imports()
        classes = resolver.sorted_classes()
        output = self.render_classes(classes, module_namespace)
        module = classes[0].target_module
        parts = [self.filters.default_imports(output), "\n", self._imports(imports, module)]
        if module_namespace:
            parts.append(f'\n__NAMESPACE__ = "{module_namespace}"\n')
        parts.append("\n\n" + output + "\n")
        return "".join(parts)

    def render_classes(self, classes, module_namespace):
        def render_class(obj: Class) -> str:
            if obj.is_enumeration:
                return self._enum(obj, 0).strip()
            if obj.is_service:
                return self._service(obj).strip()
            return self._class(obj, 0, None, module_namespace).strip()

        return "\n".join(map(render_class, classes))

    # ---------------------------------------------------------------- service.jinja2
    def _service(self, obj):
        f = self.filters
        out = [f"class {f.class_name(obj.name)}:"]
        for attr in obj.attrs:
            out.append(f"\n    {f.field_name(attr.name, obj.name)} = {f.constant_value(attr)}")
        return "".join(out)

    # ---------------------------------------------------------------- enum.jinja2
    def _enum(self, obj, level):
        f = self.filters
        out = [f"\nclass {f.class_name(obj.name)}(Enum):"]
        for attr in obj.attrs:
            out.append(f"\n    {f.constant_name(attr.name, obj.name)} = {f.field_default_value(attr, obj.ns_map)}")
        return "".join(out)

    # ---------------------------------------------------------------- class.jinja2
    def _class(self, obj, level, parent_namespace, module_namespace):
        f = self.filters
        parent_namespace = obj.namespace if obj.namespace is not None else parent_namespace
        class_name = f.class_name(obj.name)
        class_annotations = f.class_annotations(obj, class_name)
        global_type = level == 0 and not obj.local_type
        local_name = obj.meta_name or obj.name
        local_name = None if class_name == local_name or not global_type else local_name
        base_classes = ", ".join(f.class_bases(obj, class_name))
        post_meta_output = f.post_meta_hook(obj)
        target_namespace = obj.target_namespace if global_type and module_namespace != obj.target_namespace else None
        out = ["\n" + "\n".join(class_annotations), f"\nclass {class_name}{'(%s)' % base_classes if base_classes else ''}:"]
        if local_name or obj.is_nillable or obj.namespace is not None or target_namespace or (obj.local_type and level == 0):
            out.append("\n    class Meta:")
            if obj.local_type:
                out.append("\n        global_type = False")
            if local_name:
                out.append(f'\n        name = "{local_name}"')
            if obj.is_nillable:
                out.append("\n        nillable = True")
            if obj.namespace is not None:
                out.append(f'\n        namespace = "{obj.namespace}"')
            if target_namespace and target_namespace != obj.namespace:
                out.append(f'\n        target_namespace = "{target_namespace}"')
            out.append("\n")
        elif len(obj.attrs) == 0:
            out.append("\n    pass")
        if post_meta_output:
            out.append("\n" + indent(post_meta_output, 4, first=True))
        for attr in obj.attrs:
            field_typing = f.field_type(obj, attr)
            field_definition = f.field_definition(obj, attr, parent_namespace)
            out.append(f"\n    {f.field_name(attr.name, obj.name)}: {field_typing} = {field_definition}")
        for inner in obj.inner:
            sub = self._enum(inner, level + 1) if inner.is_enumeration else self._class(inner, level + 1, parent_namespace, module_namespace)
            out.append(indent(sub, 4))
        return "".join(out)
