/- C06 — the five g* types: every XSD-valid gYear / gYearMonth / gMonth /
   gMonthDay / gDay lexical form (`Spec/XsdDate.lean`), with XSD white space around
   it, is accepted by `XmlPeriod(value)`, is dispatched to the right shape, and
   yields the components XSD assigns.  The value's string form (`data`) is the
   lexical form itself, hence XSD-valid, and (take `pre = post = []`) parses
   back to an equal period.  Helper lemmas: `XsdataModel.Proofs.PeriodAccept`. -/
import XsdataModel.Proofs.PeriodAccept

namespace Props.C06
open Py Xs.Dates Xs.Spec Proofs.PeriodAccept Proofs.DatesAccept Proofs.DatesFormatParse
open Xs.Conv (AllXsdSpace strip_xsd_pad)

/-- **period_accepts_valid (gDay)** -/
theorem period_accepts_gDay (e : Env) (pre post s : Str) (d : Nat) (o : Option Int)
    (hpre : AllXsdSpace pre) (hpost : AllXsdSpace post) (h : XsdGDay s d o) :
    XmlPeriod.ofString e (pre ++ s ++ post) = some (s, ⟨none, none, some d, o⟩) := by
  obtain ⟨ds, zs, ⟨hd, hd1, hd31⟩, hz, rfl⟩ := h
  obtain ⟨rfl, hd100⟩ := twoDigits_zpad hd
  apply ofString_tight e pre post _ hpre hpost
  · exact tight_of e ⟨'-', _, rfl, Or.inr rfl⟩
      (((lastOK_with_tz (lastOK_zpad d 2) hz).cons '-').cons '-' |>.cons '-')
  · have hv : validateDate 0 1 (d : Int) = true :=
      validateDate_spec 0 1 d (by decide) (by decide) hd1 (by simpa [daysInMonth] using hd31)
    simp [parsePeriod, startsWith, List.isPrefixOf, args_gDay e d zs o hd100 hz, hv]

/-- **period_accepts_valid (gMonth)** -/
theorem period_accepts_gMonth (e : Env) (pre post s : Str) (m : Nat) (o : Option Int)
    (hpre : AllXsdSpace pre) (hpost : AllXsdSpace post) (h : XsdGMonth s m o) :
    XmlPeriod.ofString e (pre ++ s ++ post) = some (s, ⟨none, some m, none, o⟩) := by
  obtain ⟨ms, zs, ⟨hm, hm1, hm12⟩, hz, rfl⟩ := h
  obtain ⟨a, b, rfl, ha, hb, hn⟩ := hm
  obtain ⟨hzp, hm100⟩ := twoDigits_zpad ⟨a, b, rfl, ha, hb, hn⟩
  obtain ⟨hlen, _, htake, _⟩ := tz_facts hz
  apply ofString_tight e pre post _ hpre hpost
  · exact tight_of e ⟨'-', _, rfl, Or.inr rfl⟩
      (((lastOK_with_tz ⟨[a], b, rfl, Or.inl hb⟩ hz).cons '-').cons '-')
  · have hv : validateDate 0 (m : Int) 1 = true :=
      validateDate_spec 0 m 1 hm1 hm12 (by decide) (daysInMonth_pos 0 m)
    have hna : ¬ '-' = a := fun h => Proofs.PeriodAccept.digit_ne_dash ha h.symm
    have hargs := args_gMonth e m zs o hm100 hz
    rw [← hzp] at hargs
    have hsl : slice ('-' :: '-' :: ([a, b] ++ zs)) 4 6 = zs.take 2 := by simp [slice]
    unfold parsePeriod
    simp only [hsl, htake, decide_false, Bool.false_and, Bool.false_eq_true, if_false]
    have hs3 : startsWith ('-' :: '-' :: ([a, b] ++ zs)) ['-', '-', '-'] = false := by
      simp [startsWith, List.isPrefixOf, hna]
    have hs2 : startsWith ('-' :: '-' :: ([a, b] ++ zs)) ['-', '-'] = true := by
      simp [startsWith, List.isPrefixOf]
    have hl' : (decide (('-' :: '-' :: ([a, b] ++ zs)).length = 4) ||
        decide (('-' :: '-' :: ([a, b] ++ zs)).length = 5) ||
        decide (('-' :: '-' :: ([a, b] ++ zs)).length = 10)) = true := by
      simp only [List.length_cons, List.length_append, List.length_nil, Bool.or_eq_true,
        decide_eq_true_eq]
      omega
    simp only [hs3, hs2, hl', Bool.false_eq_true, if_false, if_true, hargs]
    simp [hv]

/-- **period_accepts_valid (gMonthDay)**: the day must exist in the month of a leap year -/
theorem period_accepts_gMonthDay (e : Env) (pre post s : Str) (m d : Nat) (o : Option Int)
    (hpre : AllXsdSpace pre) (hpost : AllXsdSpace post) (h : XsdGMonthDay s m d o) :
    XmlPeriod.ofString e (pre ++ s ++ post) = some (s, ⟨none, some m, some d, o⟩) := by
  obtain ⟨ms, ds, zs, ⟨hm, hm1, hm12⟩, ⟨hd, hd1, _⟩, hz, hdim, rfl⟩ := h
  obtain ⟨a, b, rfl, ha, hb, hn⟩ := hm
  obtain ⟨c, f, rfl, hc, hf, hn'⟩ := hd
  obtain ⟨hzp, hm100⟩ := twoDigits_zpad ⟨a, b, rfl, ha, hb, hn⟩
  obtain ⟨hzd, hd100⟩ := twoDigits_zpad ⟨c, f, rfl, hc, hf, hn'⟩
  obtain ⟨hlen, _, _, _⟩ := tz_facts hz
  apply ofString_tight e pre post _ hpre hpost
  · exact tight_of e ⟨'-', _, rfl, Or.inr rfl⟩
      ((((lastOK_with_tz ⟨[c], f, rfl, Or.inl hf⟩ hz).cons '-').prepend [a, b]).cons '-' |>.cons '-')
  · have hv : validateDate 0 (m : Int) (d : Int) = true := validateDate_spec 0 m d hm1 hm12 hd1 hdim
    have hna : ¬ '-' = a := fun h => Proofs.PeriodAccept.digit_ne_dash ha h.symm
    have hnc : ¬ c = '-' := Proofs.PeriodAccept.digit_ne_dash hc
    have hargs := args_gMonthDay e m d zs o hm100 hd100 hz
    rw [← hzp, ← hzd] at hargs
    have hsl : slice ('-' :: '-' :: ([a, b] ++ '-' :: ([c, f] ++ zs))) 4 6 = ['-', c] := by simp [slice]
    have hne : (['-', c] : Str) ≠ ['-', '-'] := by simp [hnc]
    have hl' : (decide (('-' :: '-' :: ([a, b] ++ '-' :: ([c, f] ++ zs))).length = 4) ||
        decide (('-' :: '-' :: ([a, b] ++ '-' :: ([c, f] ++ zs))).length = 5) ||
        decide (('-' :: '-' :: ([a, b] ++ '-' :: ([c, f] ++ zs))).length = 10)) = false := by
      simp only [List.length_cons, List.length_append, List.length_nil, Bool.or_eq_false_iff,
        decide_eq_false_iff_not]
      omega
    have hs3 : startsWith ('-' :: '-' :: ([a, b] ++ '-' :: ([c, f] ++ zs))) ['-', '-', '-'] = false := by
      simp [startsWith, List.isPrefixOf, hna]
    have hs2 : startsWith ('-' :: '-' :: ([a, b] ++ '-' :: ([c, f] ++ zs))) ['-', '-'] = true := by
      simp [startsWith, List.isPrefixOf]
    unfold parsePeriod
    simp only [hsl, hne, decide_false, Bool.false_and, if_false, hs3, hs2, hl', Bool.false_eq_true, if_true, hargs]
    simp [hv]

/-- **period_accepts_valid (gYear)**: a negative timezone is not taken for a month separator -/
theorem period_accepts_gYear (e : Env) (pre post s : Str) (y : Int) (o : Option Int)
    (hpre : AllXsdSpace pre) (hpost : AllXsdSpace post) (h : XsdGYear s y o) :
    XmlPeriod.ofString e (pre ++ s ++ post) = some (s, ⟨some y, none, none, o⟩) := by
  obtain ⟨ys, zs, hy, hz, rfl⟩ := h
  apply ofString_tight e pre post _ hpre hpost
  · exact tight_of e ((headOK_year hy).append _) (lastOK_with_tz (lastOK_year hy) hz)
  · obtain ⟨t, ht, hhead⟩ := period_head ys zs o hz (year_no_colon hy)
    have hrf := rfind_year hy t ht
    have hv : validateDate 0 1 1 = true := by decide
    unfold parsePeriod
    simp only [year_not_dashdashdash hy zs, year_not_dashdash hy zs, Bool.false_eq_true, if_false,
      hhead, args_gYear e hy zs o hz]
    rcases hrf with h | h <;> rw [h] <;> simp [hv]

/-- **period_accepts_valid (gYearMonth)** -/
theorem period_accepts_gYearMonth (e : Env) (pre post s : Str) (y : Int) (m : Nat) (o : Option Int)
    (hpre : AllXsdSpace pre) (hpost : AllXsdSpace post) (h : XsdGYearMonth s y m o) :
    XmlPeriod.ofString e (pre ++ s ++ post) = some (s, ⟨some y, some m, none, o⟩) := by
  obtain ⟨ys, ms, zs, hy, ⟨hm, hm1, hm12⟩, hz, rfl⟩ := h
  obtain ⟨rfl, hm100⟩ := twoDigits_zpad hm
  apply ofString_tight e pre post _ hpre hpost
  · exact tight_of e ((headOK_year hy).append _)
      (((lastOK_with_tz (lastOK_zpad m 2) hz).cons '-').prepend ys)
  · have hcol : ':' ∉ ys ++ '-' :: zpad m 2 := by
      simp only [List.mem_append, List.mem_cons, not_or]
      exact ⟨year_no_colon hy, by decide, colon_notin_digits (zpad_AllD m 2)⟩
    obtain ⟨t, ht, hhead⟩ := period_head (ys ++ '-' :: zpad m 2) zs o hz hcol
    have hrf : rfindChar (ys ++ '-' :: (zpad m 2 ++ t)) '-' = some ys.length :=
      rfindChar_split ys (zpad m 2 ++ t) '-' (by
        simp only [List.mem_append, not_or]
        exact ⟨dash_notin_digits (zpad_AllD m 2), ht⟩)
    have h4 := year_length hy
    have hv : validateDate 0 (m : Int) 1 = true :=
      validateDate_spec 0 m 1 hm1 hm12 (by decide) (daysInMonth_pos 0 m)
    have hargs := args_gYearMonth e hy m zs o hm100 hz
    unfold parsePeriod
    simp only [year_not_dashdashdash hy _, year_not_dashdash hy _, Bool.false_eq_true, if_false]
    simp only [List.append_assoc, List.cons_append] at hhead
    simp only [hhead, hargs]
    rw [hrf]
    have h3 : 3 < ys.length := by omega
    simp [hv, h3]

/-! the hypotheses are satisfiable: one form per shape, among them the gYear with a
negative timezone that a seeded change once misread as gYearMonth -/

example : XsdGYear "2001-05:00".toList 2001 (some (-300)) :=
  ⟨"2001".toList, "-05:00".toList, ⟨false, "2001".toList, rfl, allDigits_of_all (by decide), by decide, by decide, rfl⟩,
    Or.inr (Or.inr ⟨'-', "05".toList, "00".toList, 5, 0, Or.inr rfl, ⟨'0', '5', rfl, rfl, rfl, rfl⟩,
      ⟨'0', '0', rfl, rfl, rfl, rfl⟩, Or.inl ⟨by decide, by decide⟩, rfl, rfl⟩), rfl⟩

example : XsdGYearMonth "-12345-12Z".toList (-12345) 12 (some 0) :=
  ⟨"-12345".toList, "12".toList, "Z".toList,
    ⟨true, "12345".toList, rfl, allDigits_of_all (by decide), by decide, by decide, rfl⟩,
    ⟨⟨'1', '2', rfl, rfl, rfl, rfl⟩, by decide, by decide⟩, Or.inr (Or.inl ⟨rfl, rfl⟩), rfl⟩

example : XsdGMonthDay "--02-29".toList 2 29 none :=
  ⟨"02".toList, "29".toList, [], ⟨⟨'0', '2', rfl, rfl, rfl, rfl⟩, by decide, by decide⟩,
    ⟨⟨'2', '9', rfl, rfl, rfl, rfl⟩, by decide, by decide⟩, Or.inl ⟨rfl, rfl⟩, by decide, rfl⟩

example : XsdGMonth "--12+14:00".toList 12 (some 840) :=
  ⟨"12".toList, "+14:00".toList, ⟨⟨'1', '2', rfl, rfl, rfl, rfl⟩, by decide, by decide⟩,
    Or.inr (Or.inr ⟨'+', "14".toList, "00".toList, 14, 0, Or.inl rfl, ⟨'1', '4', rfl, rfl, rfl, rfl⟩,
      ⟨'0', '0', rfl, rfl, rfl, rfl⟩, Or.inr ⟨rfl, rfl⟩, rfl, rfl⟩), rfl⟩

example : XsdGDay "---31".toList 31 none :=
  ⟨"31".toList, [], ⟨⟨'3', '1', rfl, rfl, rfl, rfl⟩, by decide, by decide⟩, Or.inl ⟨rfl, rfl⟩, rfl⟩

end Props.C06
