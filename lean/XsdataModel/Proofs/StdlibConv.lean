/-
Helper lemmas for C06: the conversions between the xsdata date/time types and
the record model of the standard library (`Lex/Stdlib.lean`).  Core Lean only.
-/
import XsdataModel.Lex.Stdlib
import XsdataModel.Proofs.Timeline
import XsdataModel.Proofs.DatesFormatParse

namespace Proofs.StdlibConv
open Py Xs.Dates Proofs.Timeline

theorem tz_ok {o tz : Option Int} (h : calculateTimezone o = .ok tz) :
    (o = none ∧ tz = none) ∨ ∃ x, o = some x ∧ tz = some (x * 60000000) ∧ -1440 < x ∧ x < 1440 := by
  unfold calculateTimezone at h
  cases o with
  | none => simp at h; exact Or.inl ⟨rfl, h.symm⟩
  | some x =>
    right
    simp only at h
    split at h
    · rename_i h0; subst h0; cases h; exact ⟨0, rfl, rfl, by omega, by omega⟩
    · split at h
      · cases h
      · split at h
        · cases h
        · rename_i hr
          cases h
          simp at hr
          exact ⟨x, rfl, rfl, hr.1, hr.2⟩

theorem tz_of_std {o : Option Int} (h : stdOffset o) :
    calculateTimezone o = .ok (o.map (· * 60000000)) := by
  unfold calculateTimezone
  cases o with
  | none => rfl
  | some x =>
    obtain ⟨h1, h2⟩ := h x rfl
    simp only [Option.map_some]
    split
    · rename_i h0; subst h0; rfl
    · rw [pyDiv_pos x 1440 (by omega)]
      have ha : ¬ (x / 1440 < -999999999 ∨ x / 1440 > 999999999) := by omega
      have hb : -1440 < x ∧ x < 1440 := ⟨h1, h2⟩
      simp [ha, hb]

theorem offset_back (x : Int) : pyDiv (x * 60000000) 60000000 = x := by
  rw [pyDiv_pos _ _ (by omega)]; omega

theorem bool_and {a b : Bool} (h : (a && b) = true) : a = true ∧ b = true := by
  simpa using h

theorem cInt_of {i : Int} (h1 : -2147483648 ≤ i) (h2 : i ≤ 2147483647) : cInt i = true := by
  simp [cInt, h1, h2]

theorem dateOk_of {y m d : Int} (h1 : 1 ≤ y) (h2 : y ≤ 9999) (h3 : validateDate y m d = true) :
    pyDateFieldsOk y m d = true := by simp [pyDateFieldsOk, h1, h2, h3]

theorem timeOk_of {h mi s us : Int} (a1 : 0 ≤ h) (a2 : h ≤ 23) (a3 : 0 ≤ mi) (a4 : mi ≤ 59)
    (a5 : 0 ≤ s) (a6 : s ≤ 59) (a7 : 0 ≤ us) (a8 : us ≤ 999999) : pyTimeFieldsOk h mi s us = true := by
  simp [pyTimeFieldsOk, a1, a2, a3, a4, a5, a6, a7, a8]

theorem dt_ok {v : XmlDateTime} {d : PyDateTime} (h : v.toDatetime = .ok d) :
    ∃ tz, calculateTimezone v.offset = .ok tz ∧
      d = ⟨v.year, v.month, v.day, v.hour, v.minute, v.second, pyDiv v.frac 1000, tz⟩ ∧
      pyDateFieldsOk v.year v.month v.day = true ∧
      pyTimeFieldsOk v.hour v.minute v.second (pyDiv v.frac 1000) = true := by
  unfold XmlDateTime.toDatetime at h
  split at h
  · cases h
  · rename_i tz htz
    unfold pyDateTimeNew at h
    split at h
    · cases h
    · split at h
      · cases h
      · rename_i _ hf
        cases h
        have := bool_and (by simpa using hf)
        exact ⟨tz, htz, rfl, this.1, this.2⟩

theorem validateTime_of {h mi s f : Int} (a1 : 0 ≤ h) (a2 : h ≤ 23) (a3 : 0 ≤ mi) (a4 : mi ≤ 59)
    (a5 : 0 ≤ s) (a6 : s ≤ 59) (a7 : 0 ≤ f) (a8 : f ≤ 999999999) : validateTime h mi s f = true := by
  have a9 : ¬ h = 24 := by omega
  have b2 : h ≤ 24 := by omega
  simp [validateTime, a1, b2, a3, a4, a5, a6, a7, a8, a9]

theorem time_ok {v : XmlTime} {t : PyTime} (h : v.toTime = .ok t) :
    ∃ tz, calculateTimezone v.offset = .ok tz ∧
      t = ⟨v.hour, v.minute, v.second, pyDiv v.frac 1000, tz⟩ ∧
      pyTimeFieldsOk v.hour v.minute v.second (pyDiv v.frac 1000) = true := by
  unfold XmlTime.toTime at h
  split at h
  · cases h
  · rename_i tz htz
    unfold pyTimeNew at h
    split at h
    · cases h
    · split at h
      · cases h
      · rename_i _ hf
        cases h
        exact ⟨tz, htz, rfl, by simpa using hf⟩

theorem date_dt_ok {v : XmlDate} {d : PyDateTime} (h : v.toDatetime = .ok d) :
    ∃ tz, calculateTimezone v.offset = .ok tz ∧ d = ⟨v.year, v.month, v.day, 0, 0, 0, 0, tz⟩ := by
  unfold XmlDate.toDatetime at h
  split at h
  · cases h
  · rename_i tz htz
    unfold pyDateTimeNew at h
    split at h
    · cases h
    · split at h
      · cases h
      · cases h; exact ⟨tz, htz, rfl⟩

end Proofs.StdlibConv
