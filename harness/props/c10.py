"""C10 — strictness options do what they say (fail_on_unknown_properties /
fail_on_unknown_attributes / fail_on_converter_warnings; XML parser and dict/JSON decoder)."""
import copy
import itertools
import json
import random

import bindgen as G
import bindlib as B
from framework import Corr, Oracle

PROP_ID = "C10"
DESIGN_REF = "6/C10"

from bindcases import *  # noqa: F401,F403
from bindcases import _UNIS  # noqa: F401
import c10_lib as L

RULE = (
    "bind.parse: generated universes x real documents x (every child position of every element x 5 unknown-subtree shapes, "
    "every element x 6 attribute names, every element x 5 non-convertible values) x the 8 flag combinations, the full product on "
    "the first documents and a seeded sample of it afterwards; dict.bindkeys / dict.best: real metadata + bounded key sets; "
    "distinct = distinct canonical (op,args); non-trivial = the case carries an injection"
)


# =========================================================================
# bind.parse on documents with injected content
# =========================================================================
def injection_points(tree):
    """every (kind, detail) single-point change of C10 on this document"""
    shapes = L.unknown_shapes(tree)
    for path, node in G.tree_paths(tree):
        for pos in range(len(node["c"]) + 1):
            for sname, sub in shapes:
                yield {"kind": "element", "path": list(path), "pos": pos, "shape": sname, "sub": sub}
        for aname, q, v in L.UNKNOWN_ATTRS:
            yield {"kind": "attr", "path": list(path), "name": aname, "q": q, "v": v}
        for aname, q, v in L.XSI_ATTRS:
            yield {"kind": "xsi-attr", "path": list(path), "name": aname, "q": q, "v": v}
        if not node["c"]:
            for bad in L.BAD_VALUES:
                yield {"kind": "text", "path": list(path), "v": bad}
        for k, _ in node["a"]:
            if not k.startswith("{" + L.XSI):
                for bad in L.BAD_VALUES[:3]:
                    yield {"kind": "attr-value", "path": list(path), "q": k, "v": bad}
    # a copy of an existing element somewhere else: its name is known elsewhere, maybe here too
    paths = list(G.tree_paths(tree))
    for path, node in paths[:6]:
        for opath, other in paths[1:4]:
            sub = copy.deepcopy(other)
            sub["tl"] = None
            yield {"kind": "known-copy", "path": list(path), "pos": len(node["c"]), "shape": "copy", "sub": sub}


def apply_injection(tree, inj):
    k = inj["kind"]
    if k in ("element", "known-copy"):
        return L.insert_child(tree, inj["path"], inj["pos"], inj["sub"])
    if k in ("attr", "xsi-attr", "attr-value"):
        return L.set_attr(tree, inj["path"], inj["q"], inj["v"])
    if k == "text":
        return L.set_text(tree, inj["path"], inj["v"])
    raise ValueError(k)


FEATURE_SETS = [
    None,  # everything
    {"elem", "list", "wrapper", "child", "attr", "ns"},  # wrapper elements
    {"elem", "child", "attr", "list", "nillable", "inherit", "sequence", "fixed"},  # plain element classes, no wildcard anywhere
    {"attr", "text", "elem", "child", "tokens", "qname", "attributes"},
]


def stratified(rng, combos, labels, limit):
    """round-robin over (kind, label of the touched element, config) so that rare situations
    (wrapper parents, simple-typed parents, ...) are present for every document"""
    groups = {}
    for inj, cfg in combos:
        lab = labels.get(tuple(inj["path"]))
        groups.setdefault((inj["kind"], lab[0] if lab else None, L.cfg_key(cfg)), []).append((inj, cfg))
    keys = sorted(groups, key=str)
    rng.shuffle(keys)
    for k in keys:
        rng.shuffle(groups[k])
    out = []
    while len(out) < limit and keys:
        for k in list(keys):
            if groups[k]:
                out.append(groups[k].pop())
                if len(out) >= limit:
                    break
            else:
                keys.remove(k)
    return out


# classes that declare a wildcard field NEXT TO declared attributes / a text var, with and without character data in the
# element: the random universes hardly ever produce this combination (the region of C10-wild-text-takes-unknown-attrs and
# its surroundings); every attribute injection x the 8 flag combinations on each document
def _wfield(name, typ):
    return {"name": name, "type": typ, "metadata": {"type": "Wildcard", "namespace": "##any"},
            "default": {"value": None} if "opt" in typ else {"factory": "list"}}


def _afield(name, pt):
    return {"name": name, "type": {"opt": pt}, "metadata": {"type": "Attribute"}, "default": {"value": None}}


WILD_DESCS = [
    {"classes": [
        {"name": "Item", "fields": [_afield("i", "int"), _afield("s", "str"), _wfield("w", {"opt": "object"})]},
        {"name": "Items", "fields": [_afield("j", "int"), _wfield("ws", {"list": "object"})]},
        {"name": "Root", "fields": [
            _afield("k", "int"), _afield("b", "bool"),
            {"name": "item", "type": {"list": {"cls": "Item"}}, "metadata": {"type": "Element"}, "default": {"factory": "list"}},
            {"name": "items", "type": {"opt": {"cls": "Items"}}, "metadata": {"type": "Element"}, "default": {"value": None}},
            _wfield("w", {"opt": "object"})]},
    ]},
]


def _n(q, a=(), t=None, c=(), tl=None):
    return {"q": q, "a": [list(x) for x in a], "ns": [], "t": t, "c": list(c), "tl": tl}


WILD_DOCS = [
    _n("Root", [("k", "3")], "t"),
    _n("Root", [("k", "3"), ("b", "true")]),
    _n("Root", [("k", "3")], None, [_n("item", [("i", "7"), ("s", "x")], "txt"), _n("item", [("i", "8")]), _n("item", [("s", "y")], None, [_n("g", [("p", "q")], "u")])]),
    _n("Root", [("b", "false")], None, [_n("items", [("j", "1")], "lead", [_n("g"), _n("h", [], "v")]), _n("free", [("z", "1")], "w")]),
]


def gen_wild_corpus():
    for desc in WILD_DESCS:
        u = uni_of({"desc": desc})
        ctx = u.export_ctx()
        for tree in WILD_DOCS:
            for inj in injection_points(tree):
                if inj["kind"] not in ("attr", "xsi-attr", "attr-value"):
                    continue
                for cfg in L.CFG8:
                    yield {"ctx": ctx, "tree": apply_injection(tree, inj), "clazz": "Root", "config": cfg, "desc": desc, "_uni": u.modname,
                           "_kind": inj["kind"], "_inj": inj, "_orig": tree}


# classes whose Wildcard / Attributes fields carry NO namespace metadata (or ##local / an empty one): such a field takes the
# names without a namespace only (a Wildcard field first inherits the namespace of its class), so namespace-qualified unknown
# content next to them is unknown and has to obey the fail_on_* options.  Generated universes always spell ##any/##other/...
def _bare_desc(class_ns, wild_ns, attrs_ns, single):
    def md(typ, ns):
        return {"type": typ} if ns is None else {"type": typ, "namespace": ns}

    item = {"name": "Item", "fields": [
        {"name": "name", "type": {"opt": "str"}, "metadata": {"type": "Element"}, "default": {"value": None}},
        _afield("code", "int"),
        {"name": "extra", "type": {"dict": 1}, "metadata": md("Attributes", attrs_ns), "default": {"factory": "dict"}}]}
    wild = ({"name": "rest", "type": {"opt": "object"}, "metadata": md("Wildcard", wild_ns), "default": {"value": None}} if single else
            {"name": "rest", "type": {"list": "object"}, "metadata": md("Wildcard", wild_ns), "default": {"factory": "list"}})
    root = {"name": "Root", "fields": [
        {"name": "label", "type": {"opt": "str"}, "metadata": {"type": "Element"}, "default": {"value": None}},
        {"name": "item", "type": {"opt": {"cls": "Item"}}, "metadata": {"type": "Element"}, "default": {"value": None}},
        _afield("k", "int"), wild]}
    if class_ns:
        root["meta"] = {"namespace": class_ns}
    return {"classes": [item, root]}


BARE_DESCS = [
    (None, _bare_desc(None, None, None, False)),       # the demo's shape: nothing declared anywhere
    (None, _bare_desc(None, None, None, True)),
    (None, _bare_desc(None, "", "", False)),           # an empty namespace string
    (None, _bare_desc(None, "##local", "##local", False)),
    ("urn:t", _bare_desc("urn:t", None, None, False)),  # the Wildcard field inherits urn:t, the Attributes field nothing
    ("urn:t", _bare_desc("urn:t", "##local", None, True)),
]


def _bare_docs(ns):
    q = (lambda n: "{%s}%s" % (ns, n)) if ns else (lambda n: n)
    free = q("free") if ns else "free"
    return [
        _n(q("Root"), [("k", "3")], None, [_n(q("label"), [], "a"), _n(q("item"), [("code", "7"), ("local", "x")], None, [_n(q("name"), [], "n")]), _n(free, [("z", "1")], "1")]),
        _n(q("Root"), [], None, [_n(q("item"), [("code", "7")]), _n(q("label"), [], "b")]),
    ]


def gen_bare_corpus(rng, limit=90):
    for ns, desc in BARE_DESCS:
        u = uni_of({"desc": desc})
        ctx = u.export_ctx()
        for k, tree in enumerate(_bare_docs(ns)):
            if ns == "urn:t" and desc["classes"][1]["fields"][3]["metadata"].get("namespace") == "##local":
                tree = copy.deepcopy(tree)
                tree["c"] = [c for c in tree["c"] if not c["q"].endswith("free")] + ([_n("free", [], "1")] if k == 0 else [])
            combos = [(inj, cfg) for inj in injection_points(tree) if inj["kind"] in ("element", "attr", "xsi-attr") for cfg in L.CFG8]
            combos = stratified(rng, combos, L.desc_labels(desc, "Root", tree)[0], limit)
            for inj, cfg in combos:
                yield {"ctx": ctx, "tree": apply_injection(tree, inj), "clazz": "Root", "config": cfg, "desc": desc, "_uni": u.modname,
                       "_kind": "bare:" + inj["kind"], "_inj": inj, "_orig": tree}


def gen_inject(rng, tier):
    yield from gen_wild_corpus()
    yield from gen_bare_corpus(random.Random(rng.random()), 40 if tier == "quick" else 400)
    n_uni = n_cases(tier, 9, 20)
    full_docs = n_cases(tier, 2, 12)
    per_doc = n_cases(tier, 50, 100)
    ndoc = 0
    for feats in FEATURE_SETS:
        for _ in range(n_uni):
            u, desc, ctx = new_universe(rng, feats)
            for _ in range(2):
                try:
                    obj = G.gen_instance(rng, u, "Root")
                    tree = G.xml_tree(G.real_serialize(u, obj, writer=rng.choice(["native", "lxml"])).encode())
                except Exception:  # noqa: BLE001
                    continue
                ndoc += 1
                combos = [(inj, cfg) for inj in injection_points(tree) for cfg in L.CFG8]
                if ndoc > full_docs and len(combos) > per_doc:
                    combos = stratified(rng, combos, L.label_elements(u, "Root", tree), per_doc)
                yield {"ctx": ctx, "tree": tree, "clazz": "Root", "config": L.CFG8[ndoc % 8], "desc": desc, "_uni": u.modname, "_kind": "original"}
                for inj, cfg in combos:
                    yield {
                        "ctx": ctx, "tree": apply_injection(tree, inj), "clazz": "Root", "config": cfg, "desc": desc, "_uni": u.modname,
                        "_kind": inj["kind"], "_inj": inj, "_orig": tree,
                    }


def classify_inject(a, o):
    r = "ok" if "ok" in o else o.get("err", "unsupported")
    if "ok" in o and o["ok"].get("warnings"):
        r = "ok+warn"
    return f"{a.get('_kind', '?')}:{L.cfg_key(a['config'])}:{r}"


# =========================================================================
# dict.bindkeys / dict.best
# =========================================================================
def gen_bindkeys(rng, tier):
    from xsdata.formats.dataclass.context import XmlContext

    derived = sorted(XmlContext().class_type.derived_keys)
    for _ in range(n_cases(tier, 25, 300)):
        u, desc, ctx = new_universe(rng)
        xctx = XmlContext(models_package=u.modname)
        for cname, cls in u.classes.items():
            meta = xctx.build(cls)
            dvars = L.export_dvars(meta)
            if not dvars:
                continue
            names = [v["local_name"] for v in dvars] + [v["wrapper"] for v in dvars if v["wrapper"]]
            for _ in range(n_cases(tier, 8, 24)):
                keys = []
                for _ in range(rng.randint(0, 4)):
                    r = rng.random()
                    if r < 0.6:
                        keys.append(rng.choice(names))
                    elif r < 0.8:
                        keys.append(rng.choice([L.UNKNOWN_KEY, "zz", "Value", ""]))
                    else:
                        keys.append(rng.choice(derived))
                if rng.random() < 0.15:
                    keys = list(derived) if rng.random() < 0.5 else list(derived)[:2] + [rng.choice(names + [L.UNKNOWN_KEY])]
                keys = list(dict.fromkeys(keys))
                data = []
                for k in keys:
                    r = rng.random()
                    if r < 0.12:
                        shape = "null"
                    elif r < 0.4:
                        shape = "scalar"
                    elif r < 0.7:
                        shape = "array"
                    else:
                        members = list(dict.fromkeys(rng.choice(names + ["m"]) for _ in range(rng.randint(0, 2))))
                        shape = {"object": [[m, rng.random() < 0.5] for m in members] + [["__k", False]]}
                    data.append([k, shape])
                for cfg in ({"fail_on_unknown_properties": True}, {"fail_on_unknown_properties": False}):
                    yield {"vars": dvars, "data": data, "derived_keys": derived, "config": cfg, "desc": desc, "_uni": u.modname, "_cls": cname}


def impl_bindkeys(a):
    u = uni_of(a)
    data = {k: L.shape_value(shape, k) for k, shape in a["data"]}
    return L.real_bindkeys(u.classes[a["_cls"]], data, a["config"])


def classify_bindkeys(a, o):
    if "err" in o:
        return "err:" + o["err"]
    return "derived" if o["ok"]["derived"] else f"plain:{len(o['ok']['params'])}of{len(a['data'])}"


def gen_best(rng, tier):
    names = ["f0", "f1", "f2", "f3"]
    for i in range(n_cases(tier, 400, 4000)):
        cands = []
        for j in range(rng.randint(1, 4)):
            ln = sorted(rng.sample(names, rng.randint(0, 4)))
            if rng.random() < 0.2 or not ln:
                att, mix = None, None
                if ln and rng.random() < 0.5:
                    att, mix = 0, [0, 0]
            else:
                n_str = rng.randint(0, len(ln))
                n_other = rng.randint(0, len(ln) - n_str)
                att, mix = 2 * n_str + 3 * n_other, [n_str, n_other]
            cands.append({"id": f"K{j}", "local_names": ln, "attempt": att, "_mix": mix})
        keys = sorted(rng.sample(names, rng.randint(0, 3)))
        if rng.random() < 0.3:
            keys.insert(rng.randint(0, len(keys)), L.UNKNOWN_KEY)
        yield {"keys": keys, "cands": cands, "config": {"fail_on_unknown_properties": i % 2 == 0}}


def gen_bestcfg(rng, tier):
    names = ["f0", "f1", "f2", "f3"]
    n = 0
    for _ in range(n_cases(tier, 120, 1200)):
        cands = []
        for j in range(rng.randint(1, 3)):
            ln = sorted(rng.sample(names, rng.randint(1, 4)))
            c = {"id": f"K{j}", "local_names": ln}
            for which in ("strict", "lenient"):
                if rng.random() < 0.25:
                    c["attempt_" + which], c["_mix_" + which] = None, None
                else:
                    n_str = rng.randint(0, len(ln))
                    n_other = rng.randint(0, len(ln) - n_str)
                    c["attempt_" + which], c["_mix_" + which] = 2 * n_str + 3 * n_other, [n_str, n_other]
            cands.append(c)
        keys = sorted(rng.sample(names, rng.randint(0, 2)))
        n += 1
        yield {"keys": keys, "cands": cands, "config": L.CFG8[n % 8]}


def impl_bestcfg(a):
    return L.real_bestcfg(a["keys"], a["cands"], a["config"])


def impl_best(a):
    return L.real_best(a["keys"], a["cands"], a.get("config"))


CORRS = [
    Corr("bind.parse", gen_inject, impl_parse, compare=cmp_parse, classify=classify_inject,
         nontrivial=lambda a, o: "_inj" in a,
         describe="NodeParser(EventsHandler) vs parseRoot on documents with injected unknown elements / attributes / non-convertible values, 8 configs"),
    Corr("dict.bindkeys", gen_bindkeys, impl_bindkeys, classify=classify_bindkeys,
         describe="the key loop of DictDecoder.bind_dataclass (real find_var, derived-keys shortcut, unknown keys) vs bindDataclass"),
    Corr("dict.bestcfg", gen_bestcfg, impl_bestcfg,
         describe="bind_best_dataclass followed by a failing conversion on the same decoder: candidates see the strict copy, the caller's "
                  "configuration is untouched (workAll)"),
    Corr("dict.best", gen_best, impl_best,
         describe="candidate selection of DictDecoder.bind_best_dataclass (real local_names_match / score_object) vs bindBest"),
]


# =========================================================================
# oracles: the property statement on the real parser / decoder
# =========================================================================
def _same(r1, r2):
    return r1 == r2


def _short(r):
    return json.dumps(r, ensure_ascii=False, default=str)[:160]


import collections

STATS = collections.Counter()  # claims actually evaluated, per kind (debugging aid)
_CACHE = {}


def _cached(key, fn):
    if key not in _CACHE:
        if len(_CACHE) > 4000:
            _CACHE.clear()
        _CACHE[key] = fn()
    return _CACHE[key]


def check_injection(a, routes=L.ROUTES):
    """a = a bind.parse case produced by gen_inject (needs _inj/_orig)"""
    inj = a.get("_inj")
    if not inj:
        return None
    u = uni_of(a)
    desc, cfg, clazz = a["desc"], a["config"], a["clazz"]
    orig, tree = a["_orig"], a["tree"]
    okey = (u.modname, json.dumps(orig, sort_keys=True))
    if a.get("_union_classes") is not None:
        # subtrees bound by a UnionNode are labelled the way the class they were written from binds them
        labels, inside = _cached(("ulab",) + okey, lambda: L.desc_labels(desc, clazz, orig, a["_union_classes"]))
    else:
        # decided from the class description alone: a defect in child/build_node cannot relabel an element and silence its claim
        labels, inside = _cached(("lab",) + okey, lambda: L.desc_labels(desc, clazz, orig))
    lab = labels.get(tuple(inj["path"]))
    if lab is None or lab[0] == "union":
        return None
    in_union = tuple(inj["path"]) in inside
    kind = inj["kind"]
    if in_union and kind in ("text", "attr-value"):
        # which candidate class "declares" a value is itself decided by converting it (the replay is
        # strict about conversions to tell the candidates apart): no claim inside a union element
        return None
    if kind in ("attr", "xsi-attr") and any(k == "{%s}nil" % L.XSI for k, _ in G.tree_at(orig, inj["path"])["a"]):
        return None  # a nil element is built without looking at its attributes at all
    for route in routes:
        r0 = _cached(("r0", route, L.cfg_key(cfg)) + okey, lambda: L.parse_route(u, clazz, orig, cfg, route))
        if "ok" not in r0:
            continue  # the document itself is not accepted on this route: nothing to compare with
        r1 = L.parse_route(u, clazz, tree, cfg, route)
        STATS[kind + ":" + lab[0]] += 1
        where = f"[{route}, cfg={L.cfg_key(cfg)}, parent={lab[0]}:{lab[1] if len(lab) > 1 else ''}{', inside a union element' if in_union else ''}]"
        if kind == "element":
            if lab[0] in ("element", "wrapper"):
                if L.wildcard_takes(desc, lab[1], lab[2], inj["sub"]["q"]) is not False:
                    continue  # a wildcard field takes the element (or the constraint does not settle it): not an unknown property
                if not cfg["fail_on_unknown_properties"]:
                    if not _same(r0, r1):
                        return f"{where} lenient: unknown <{inj['sub']['q']}> ({inj['shape']}) at child position {inj['pos']} changed the result: {_short(r0)} -> {_short(r1)}"
                elif r1 != {"err": "ParserError"}:
                    return f"{where} strict: unknown <{inj['sub']['q']}> ({inj['shape']}) at child position {inj['pos']} did not raise ParserError: {_short(r1)}"
            elif lab[0] in ("primitive", "standard"):
                if in_union:
                    # with unknown properties failing no candidate can take the element: the one that declares the
                    # simple-typed element rejects the child, the others do not know the element at all; when they
                    # are skipped any other candidate may bind the (then empty) element: no claim
                    if cfg["fail_on_unknown_properties"] and r1.get("err") not in ("ParserError", "XmlContextError"):
                        return f"{where} child element inside a simple-typed element was accepted: {_short(r1)}"
                elif r1 != {"err": "XmlContextError"}:
                    return f"{where} child element inside a simple-typed element did not raise XmlContextError: {_short(r1)}"
        elif kind == "xsi-attr":
            if lab[0] in ("element", "primitive") and inj["q"] not in [k for k, _ in G.tree_at(orig, inj["path"])["a"]]:
                if lab[0] == "element" and L.attributes_take(desc, lab[1], lab[2], inj["q"]) is not False:
                    continue  # an Attributes field takes it
                if not _same(r0, r1):
                    return f"{where} xsi attribute {inj['q']} is not tolerated / changes the result [wild={lab[0] == 'element' and L.declares_wildcard(desc, lab[1])}]: {_short(r0)} -> {_short(r1)}"
        elif kind == "attr":
            if inj["q"] in [k for k, _ in G.tree_at(orig, inj["path"])["a"]]:
                continue
            if lab[0] == "element":
                if L.attributes_take(desc, lab[1], lab[2], inj["q"]) is not False:
                    continue  # an Attributes field takes it
                if not cfg["fail_on_unknown_attributes"]:
                    if not _same(r0, r1):
                        return f"{where} unknown attribute {inj['q']} changed the result [wild={L.declares_wildcard(desc, lab[1])}]: {_short(r0)} -> {_short(r1)}"
                elif r1 != {"err": "ParserError"}:
                    # the option is on: the attribute must fail, also inside a union-bound element.  Region of the
                    # listed finding C10-union-strict-attr-rebinds: the attribute sits on a descendant of the union
                    # element and unknown properties are skipped, so another candidate may skip that descendant.
                    region = (in_union and tuple(inj["path"][:-1]) in inside and not cfg["fail_on_unknown_properties"]
                              and "ok" in r1 and not _same(r0, r1))
                    return (f"{where} fail_on_unknown_attributes: unknown attribute {inj['q']} did not raise ParserError"
                            f"{' [union-rebind]' if region else ''}: {_short(r1)}")
            elif lab[0] == "primitive" and not cfg["fail_on_unknown_attributes"]:
                if not _same(r0, r1):
                    return f"{where} unknown attribute {inj['q']} on a simple-typed element changed the result: {_short(r0)} -> {_short(r1)}"
        elif kind == "text":
            msg = check_conversion(a, lab, r0, r1, where)
            if msg:
                return msg
        elif kind == "attr-value":
            msg = check_attr_conversion(a, lab, r0, r1, where, u)
            if msg:
                return msg
    return None


def _replace_field(val, name, new):
    out = copy.deepcopy(val)
    for kv in out["fields"]:
        if kv[0] == name:
            kv[1] = new
            return out
    return None


def check_conversion(a, lab, r0, r1, where):
    """a direct, single-valued, int/bool typed child of the root whose text is replaced by a non-convertible string"""
    inj, cfg = a["_inj"], a["config"]
    if len(inj["path"]) != 1 or lab[0] != "primitive":
        return None
    _, vname, types, is_list, tokens, init, owner = lab
    if is_list or tokens or not init or not set(types) <= {"int", "bool"}:
        return None
    node = G.tree_at(a["_orig"], inj["path"])
    if node["a"] or inj["v"].strip() in ("0", "1", "true", "false") or inj["v"].strip().lstrip("+-").isdigit():
        return None
    if inj["v"] == "" :
        return None  # empty text is `None` text for the handlers: not a conversion
    if cfg["fail_on_converter_warnings"]:
        if r1 != {"err": "ParserError"}:
            return f"{where} fail_on_converter_warnings: <{node['q']}>{inj['v']!r} ({types}) did not raise ParserError: {_short(r1)}"
        return None
    if "ok" not in r1:
        return f"{where} lenient conversion: <{node['q']}>{inj['v']!r} ({types}) failed: {_short(r1)}"
    mixed = any(f.get("metadata", {}).get("type") == "Wildcard" and f["metadata"].get("mixed") for f in L.desc_fields(a["desc"], owner))
    if mixed:
        # a class with a mixed wildcard binds ALL its children into that list as generic elements (the declared field stays
        # empty, also in the original document): the value is kept in the generic element's text
        want = json.loads(json.dumps(r0["ok"]["value"]).replace(json.dumps(node["t"]), json.dumps(inj["v"]))) if node["t"] else None
        if want is None or json.dumps(r0["ok"]["value"]).count(json.dumps(node["t"])) != 1:
            want = r1["ok"]["value"] if json.dumps(inj["v"]) in json.dumps(r1["ok"]["value"]) else None
    else:
        want = _replace_field(r0["ok"]["value"], vname, {"str": inj["v"]})
    if want is None:
        return None
    if r1["ok"]["value"] != want:
        return f"{where} lenient conversion: value of field {vname} is not kept as given ({inj['v']!r}): {_short(r1['ok']['value'])}"
    if r1["ok"]["warnings"] != r0["ok"]["warnings"] + 1:
        return f"{where} lenient conversion: expected exactly one more ConverterWarning, got {r1['ok']['warnings']} (was {r0['ok']['warnings']})"
    return None


def check_attr_conversion(a, lab, r0, r1, where, u):
    inj, cfg = a["_inj"], a["config"]
    if inj["path"] or lab[0] != "element":
        return None
    from xsdata.formats.dataclass.context import XmlContext

    meta = XmlContext(models_package=u.modname).build(u.classes[lab[1]])
    var = meta.attributes.get(inj["q"])
    if var is None or var.tokens or not var.init or not set(var.types) <= {int, bool}:
        return None
    v = inj["v"]
    if v.strip() in ("0", "1", "true", "false") or v.strip().lstrip("+-").isdigit():
        return None
    if cfg["fail_on_converter_warnings"]:
        if r1 != {"err": "ParserError"}:
            return f"{where} fail_on_converter_warnings: attribute {inj['q']}={v!r} did not raise ParserError: {_short(r1)}"
        return None
    if "ok" not in r1:
        return f"{where} lenient conversion: attribute {inj['q']}={v!r} failed: {_short(r1)}"
    want = _replace_field(r0["ok"]["value"], var.name, {"str": v})
    if want is not None and r1["ok"]["value"] != want:
        return f"{where} lenient conversion: attribute value of {var.name} is not kept as given ({v!r}): {_short(r1['ok']['value'])}"
    if r1["ok"]["warnings"] != r0["ok"]["warnings"] + 1:
        return f"{where} lenient conversion: expected exactly one more ConverterWarning, got {r1['ok']['warnings']}"
    return None


def _without_generic_attr(v, q):
    """the value with attribute `q` removed from the name-less generic elements (the AnyElement that
    ElementNode.bind_wild_text builds for the text of an element whose class has a wildcard field)"""
    if isinstance(v, dict):
        if isinstance(v.get("any"), dict) and not v["any"].get("qname"):
            g = dict(v["any"])
            g["attrs"] = [kv for kv in g.get("attrs", []) if kv[0] != q]
            return {**{k: _without_generic_attr(x, q) for k, x in v.items() if k != "any"}, "any": {k: (x if k == "attrs" else _without_generic_attr(x, q)) for k, x in g.items()}}
        return {k: _without_generic_attr(x, q) for k, x in v.items()}
    if isinstance(v, list):
        return [_without_generic_attr(x, q) for x in v]
    return v


def covered_injection(a, msg, routes=L.ROUTES):
    """C10-wild-text-takes-unknown-attrs describes exactly one effect: the injected attribute shows up among the attributes of
    the name-less generic element that holds the element's text (bind_wild_text copies all raw attributes).  The failure is
    attributed to it only if, on every route, the result with the attribute is the result without it once the attribute is
    taken out of those generic elements again; anything else that changes is a different violation."""
    inj = a.get("_inj") or {}
    u = uni_of(a)
    if "[union-rebind]" in msg and inj.get("kind") == "attr" and a.get("ctx") is not None:
        # attributed to the finding only while the code still answers what the union model (Bind/Union.lean, which
        # reproduces the rebinding: Props.C10.union_strict_attr_rebinds) answers on this very document
        import framework

        if framework.behaves_as_modelled(CORR_PARSE_U, a) is True:
            return "C10-union-strict-attr-rebinds"
        return None
    if inj.get("kind") == "attr-value" and "lenient conversion: attribute value" in msg and a.get("_union_classes") is None:
        # the same copy of the raw attributes, seen from a declared attribute: the generic element mirrors its raw value;
        # with the mirrored entry taken out on both sides the statement about the conversion must hold as it stands
        lab = L.desc_labels(a["desc"], a["clazz"], a["_orig"])[0].get(tuple(inj["path"]))
        if not lab or lab[0] != "element" or not L.declares_wildcard(a["desc"], lab[1]):
            return None
        for route in routes:
            r0 = L.parse_route(u, a["clazz"], a["_orig"], a["config"], route)
            r1 = L.parse_route(u, a["clazz"], a["tree"], a["config"], route)
            if "ok" not in r0:
                continue
            if "ok" not in r1 or check_attr_conversion(a, lab, _without_generic_attr(r0, inj["q"]), _without_generic_attr(r1, inj["q"]), "", u):
                return None
        return "C10-wild-text-takes-unknown-attrs"
    if not ("[wild=True]" in msg and ("changed the result" in msg or "changes the result" in msg) and inj.get("kind") in ("attr", "xsi-attr")):
        return None
    for route in routes:
        r0 = L.parse_route(u, a["clazz"], a["_orig"], a["config"], route)
        if "ok" not in r0:
            continue
        r1 = L.parse_route(u, a["clazz"], a["tree"], a["config"], route)
        if "ok" not in r1 or _without_generic_attr(r1, inj["q"]) != _without_generic_attr(r0, inj["q"]):
            return None
    return "C10-wild-text-takes-unknown-attrs"


def gen_oracle_inject(rng, tier):
    yield from gen_union_xml(random.Random(rng.random()), tier)
    for a in gen_inject(rng, tier):
        if "_inj" in a:
            yield a


# ---- dictionaries
def gen_dict_cases(rng, tier):
    for _ in range(n_cases(tier, 40, 400)):
        u, desc, ctx = new_universe(rng, {"attr", "elem", "child", "list", "nillable", "tokens", "wrapper", "sequence", "inherit", "ns", "fixed", "text"})
        for _ in range(2):
            try:
                obj = G.gen_instance(rng, u, "Root")
                marked = L.encode_marked(u, obj)
            except Exception:  # noqa: BLE001
                continue
            for path, cname in L.marked_paths(marked):
                n = len(L.dict_at(marked, path))
                for val in rng.sample(L.UNKNOWN_VALUES, 3):
                    for flag in (False, True):
                        yield {
                            "desc": desc, "_uni": u.modname, "clazz": "Root", "data": L.strip_marks(marked), "path": list(path), "cls": cname,
                            "key": L.UNKNOWN_KEY, "value": val, "pos": rng.randint(0, n), "config": {"fail_on_unknown_properties": flag},
                        }


def check_dict(a):
    u = uni_of(a)
    cfg = a["config"]
    for via in ("dict", "json"):
        r0 = L.real_decode(u, a["clazz"], a["data"], cfg, via)
        if "ok" not in r0:
            continue
        data = L.inject_key(a["data"], a["path"], a["key"], a["value"], a["pos"])
        r1 = L.real_decode(u, a["clazz"], data, cfg, via)
        where = f"[{via}, fail_on_unknown_properties={cfg['fail_on_unknown_properties']}, class={a['cls']}, path={a['path']}]"
        if not cfg["fail_on_unknown_properties"]:
            if "ok" not in r1 or r1["ok"] != r0["ok"]:
                return f"{where} unknown key {a['key']!r}: {json.dumps(a['value'])} changed the result: {_short(r1)}"
        elif r1.get("err") != "ParserError":
            return f"{where} unknown key {a['key']!r} did not raise ParserError: {_short(r1)}"
    return None


def covered_dict(a, msg):
    return None


ORACLES = [
    Oracle("conversion-family", lambda rng, tier: gen_convert_family(rng, tier), lambda a: check_convert_family(a), from_ops=("c10.convert_family",)),
    Oracle("dict-documents-and-sequences", lambda rng, tier: gen_dict_seq(rng, tier), lambda a: check_dict_seq(a), from_ops=("c10.dict_seq",)),
    Oracle("shared-metadata", lambda rng, tier: gen_metastate(rng, tier), lambda a: check_metastate(a), from_ops=("bind.metastate",)),
    Oracle("unknown-content-in-documents", gen_oracle_inject, check_injection, covered=covered_injection,
           from_ops=("bind.parse", "c10.xml_e2e", "c10.union_xml"), adapt=lambda op, a: a if "_inj" in a else None),
    Oracle("unknown-keys-in-dictionaries", gen_dict_cases, check_dict, covered=covered_dict),
]


# =========================================================================
# spec-level ops: whole decodes / parses against the property statement itself
# =========================================================================
DICT_FEATS = {"attr", "elem", "child", "list", "nillable", "tokens", "sequence", "inherit", "ns", "fixed", "text", "compound", "anytype"}
BAD = {"int": ["many", " 12x "], "bool": ["maybe", "truee"]}


def dict_documents(rng, tier):
    """(universe, desc, [ (data, positions) x2 ]) : hand-made polymorphic universes and random ones"""
    for i in range(n_cases(tier, 20, 160)):
        try:
            if i % 4 != 3:
                desc = L.poly_desc(rng)
                u = uni_of({"desc": desc})
                objs = [L.poly_instance(rng, u) for _ in range(2)]
            else:
                u, desc, _ = new_universe(rng, DICT_FEATS)
                objs = [G.gen_instance(rng, u, "Root") for _ in range(2)]
            docs = []
            for o in objs:
                marked = L.encode_marked(u, o)
                docs.append((L.strip_marks(marked), L.dict_positions(u, marked)))
        except Exception:  # noqa: BLE001
            continue
        yield u, desc, docs


def dict_injections(rng, positions):
    out = []
    for p in positions:
        for pos in sorted({0, p["size"]}):
            out.append({"kind": "key", "path": p["path"], "key": L.UNKNOWN_KEY, "value": rng.choice(L.UNKNOWN_VALUES), "pos": pos,
                        "inside_best": p["inside_best"], "cls": p["cls"]})
        for k, t in p["scalars"]:
            for bad in BAD[t]:
                out.append({"kind": "value", "path": p["path"], "key": k, "bad": bad, "inside_best": p["inside_best"], "cls": p["cls"]})
    return out


def gen_dict_seq(rng, tier):
    cap = n_cases(tier, 120, 400)
    n = 0
    for u, desc, docs in dict_documents(rng, tier):
        (dA, pA), (dB, pB) = docs
        injA, injB = dict_injections(rng, pA), dict_injections(rng, pB)
        base = {"desc": desc, "_uni": u.modname, "clazz": "Root"}
        singles = [(inj, cfg) for inj in injA for cfg in L.CFG8]
        if len(singles) > cap:
            groups = {}
            for inj, cfg in singles:
                groups.setdefault((inj["kind"], inj["inside_best"], L.cfg_key(cfg)), []).append((inj, cfg))
            singles = []
            while len(singles) < cap and groups:
                for k in list(groups):
                    singles.append(groups[k].pop(rng.randrange(len(groups[k]))))
                    if not groups[k]:
                        del groups[k]
        for inj, cfg in singles:
            n += 1
            yield {**base, "config": cfg, "via": ("dict", "json")[n % 2], "share": "decoder", "docs": [{"orig": dA, "inj": inj}]}
        # the same decoder / the same ParserConfig instance over several documents
        for cfg in L.CFG8:
            for share in ("decoder", "config"):
                n += 1
                via = ("dict", "json")[n % 2]
                if injB:
                    yield {**base, "config": cfg, "via": via, "share": share, "docs": [{"orig": dA, "inj": None}, {"orig": dB, "inj": rng.choice(injB)}]}
                if injA and injB:
                    yield {**base, "config": cfg, "via": via, "share": share,
                           "docs": [{"orig": dA, "inj": rng.choice(injA)}, {"orig": dA, "inj": None}, {"orig": dB, "inj": rng.choice(injB)}]}


def impl_dict_seq(a):
    u = uni_of(a)
    docs = [L.apply_dict_injection(d["orig"], d["inj"]) for d in a["docs"]]
    return {"ok": L.run_dict_sequence(u, a["clazz"], docs, a["config"], a["via"], a["share"])}


def spec_dict_seq(a):
    """the statement: every document decodes as it would on its own with a fresh decoder —
    unknown key ignored / ParserError, unconvertible value kept as given with exactly one more
    ConverterWarning / ParserError — and the caller's ParserConfig is what it was"""
    u = uni_of(a)
    cfg = a["config"]
    want = []
    for d in a["docs"]:
        base = L.run_dict_sequence(u, a["clazz"], [d["orig"]], cfg, a["via"], "decoder")["docs"][0]
        inj = d["inj"]
        if "ok" not in base:
            want.append({"any": "the document without the injection is not decodable"})
        elif inj is None:
            want.append(base)
        elif inj["kind"] == "key":
            if cfg["fail_on_unknown_properties"]:
                want.append({"err": "ParserError"})
            else:
                want.append(base)
        else:
            val = L.replace_in_val(u, base["ok"]["value"], inj["path"], inj["key"], {"str": inj["bad"]})
            if val is None and not cfg["fail_on_unknown_properties"]:
                # the object decoded to a class that does not declare the key (a subclass instance under a
                # compound choice of its base class): the key is an unknown property, ignored with its value
                want.append(base)
            elif cfg["fail_on_converter_warnings"]:
                want.append({"err": "ParserError"})
            elif val is None:
                want.append({"any": "position not addressable in the decoded value"})
            else:
                want.append({"ok": {"value": val, "warnings": base["ok"]["warnings"] + 1}})
    return {"ok": {"docs": want, "config_after": {k: cfg[k] for k in L.FLAGS}}}


def diff_dict_seq(mo, io, a):
    """None when the observed run meets the expectation, else a description"""
    if "ok" not in io:
        return f"harness error {io}"
    if "ok" not in mo:
        return None
    got, want = io["ok"], mo["ok"]
    for i, (g, w) in enumerate(zip(got["docs"], want["docs"])):
        if "any" in w:
            continue
        inj = a["docs"][i]["inj"]
        what = "no injection" if inj is None else (f"unknown key at {inj['path']}" if inj["kind"] == "key" else f"{inj['key']}={inj['bad']!r} at {inj['path']} ({inj['cls']})")
        if "err" in w:
            if g.get("err") != w["err"]:
                return f"document #{i} ({what}): expected {w['err']}, observed {_short(g)}"
        elif g != w:
            return f"document #{i} ({what}): expected {_short(w)}, observed {_short(g)}"
    if got["config_after"] != want["config_after"]:
        return f"the caller's ParserConfig changed: {want['config_after']} -> {got['config_after']}"
    return None


def check_dict_seq(a):
    msg = diff_dict_seq(spec_dict_seq(a), impl_dict_seq(a), a)
    if msg:
        return f"[{a['via']}, share={a['share']}, cfg={L.cfg_key(a['config'])}] {msg}"
    return None


def classify_dict_seq(a, o):
    kinds = "+".join("none" if d["inj"] is None else d["inj"]["kind"] + ("@best" if d["inj"]["inside_best"] else "") for d in a["docs"])
    res = "+".join("ok" if "ok" in r else r.get("err", "?") for r in o["ok"]["docs"]) if "ok" in o else "harness"
    return f"{kinds}:{L.cfg_key(a['config'])}:{res}"


XML_ROUTES = ("native", "lxml")


def gen_xml_e2e(rng, tier):
    n_uni = n_cases(tier, 3, 10)
    per_doc = n_cases(tier, 24, 80)
    for feats in FEATURE_SETS:
        for _ in range(n_uni):
            u, desc, ctx = new_universe(rng, feats)
            for _ in range(2):
                try:
                    obj = G.gen_instance(rng, u, "Root")
                    tree = G.xml_tree(G.real_serialize(u, obj, writer=rng.choice(["native", "lxml"])).encode())
                except Exception:  # noqa: BLE001
                    continue
                combos = [(inj, cfg) for inj in injection_points(tree) for cfg in L.CFG8]
                if len(combos) > per_doc:
                    combos = stratified(rng, combos, L.label_elements(u, "Root", tree), per_doc)
                for inj, cfg in combos:
                    yield {"tree": apply_injection(tree, inj), "clazz": "Root", "config": cfg, "desc": desc, "_uni": u.modname,
                           "_kind": inj["kind"], "_inj": inj, "_orig": tree}


def impl_xml_e2e(a):
    msg = check_injection(a, XML_ROUTES)
    return {"ok": "as stated"} if msg is None else {"err": msg}


def cmp_xml_e2e(mo, io, a):
    return "ok" in io or covered_injection(a, io["err"]) is not None


def gen_metastate(rng, tier):
    lenient = [c for c in L.CFG8 if not c["fail_on_unknown_properties"]]
    strict = [c for c in L.CFG8 if c["fail_on_unknown_properties"]]
    n = 0
    for a in gen_inject(random.Random(rng.random()), tier):
        inj = a.get("_inj")
        if not inj:
            continue
        n += 1
        if inj["kind"] not in ("element", "known-copy") and n % 5:
            continue
        if n % 4 and tier == "quick":
            continue
        if n % 2 and tier != "quick":
            continue
        le, st = rng.choice(lenient), rng.choice(strict)
        order = [[le, st], [st, le, st], [le, le], [le, rng.choice(L.CFG8), st]][n % 4]
        yield {"ctx": a["ctx"], "clazz": a["clazz"], "desc": a["desc"], "_uni": a["_uni"], "_orig": a["_orig"], "_kind": inj["kind"],
               "calls": [{"tree": a["tree"], "config": c} for c in order]}


def impl_metastate(a):
    return L.real_metastate(uni_of(a), a["clazz"], a["_orig"], a["calls"])


def cmp_metastate(mo, io, a):
    if "ok" not in mo or "ok" not in io:
        return mo == io
    if mo["ok"]["changed"] != io["ok"]["changed"]:
        return False
    return all(unsupported(m) or m == i for m, i in zip(mo["ok"]["results"], io["ok"]["results"]))


def check_metastate(a):
    """the statement on the real parser alone: every call on the shared context returns what
    it returns on a fresh context, and the metadata objects are what they were"""
    u = uni_of(a)
    got = L.real_metastate(u, a["clazz"], a["_orig"], a["calls"])["ok"]
    if got["changed"]:
        return f"the XmlMeta of {got['changed']} differs after the parses (configs {[L.cfg_key(c['config']) for c in a['calls']]})"
    for i, c in enumerate(a["calls"]):
        fresh = B.real_parse_tree(u, a["clazz"], c["tree"], c["config"])
        if got["results"][i] != fresh:
            return (f"call #{i} (cfg={L.cfg_key(c['config'])}) after {[L.cfg_key(x['config']) for x in a['calls'][:i]]} on the shared context: "
                    f"{_short(got['results'][i])}, on a fresh context: {_short(fresh)}")
    return None


def gen_union_xml(rng, tier):
    per_doc = n_cases(tier, 40, 100)
    for i in range(n_cases(tier, 12, 50)):
        desc = L.union_desc(rng)
        u = uni_of({"desc": desc})
        try:
            obj = L.union_instance(rng, u)
            tree = G.xml_tree(G.real_serialize(u, obj, writer=rng.choice(["native", "lxml"])).encode())
            occ = L.union_occurrences(u, obj)
            labels, inside = L.resolve_union_labels(u, "Root", tree, occ)  # spreads the samples only; the oracle labels from the description
            ctx = u.export_ctx()
        except Exception:  # noqa: BLE001
            continue
        combos = [(inj, cfg) for inj in injection_points(tree) for cfg in L.CFG8]
        # two thirds of the budget on/below the union elements, the rest elsewhere in the same document
        inner = [c for c in combos if tuple(c[0]["path"]) in inside]
        outer = [c for c in combos if tuple(c[0]["path"]) not in inside]
        picked = stratified(rng, inner, labels, 2 * per_doc // 3) + stratified(rng, outer, labels, per_doc // 3)
        for inj, cfg in picked:
            yield {"tree": apply_injection(tree, inj), "clazz": "Root", "config": cfg, "desc": desc, "_uni": u.modname,
                   "_kind": inj["kind"] + ("@union" if tuple(inj["path"]) in inside else ""), "_inj": inj, "_orig": tree, "_union_classes": occ, "ctx": ctx}


def impl_union_xml(a):
    msg = check_injection(a, L.ROUTES)
    return {"ok": "as stated"} if msg is None else {"err": msg}


def gen_unioncfg(rng, tier):
    for cfg in L.CFG8:
        for doc in ("plain", "unknown-attr", "bad-value"):
            yield {"config": cfg, "doc": doc}


def impl_unioncfg(a):
    return L.real_unioncfg(a["config"], a["doc"])


def gen_matchns(rng, tier):
    uris = ["urn:t", "urn:c10:unknown", L.XSI, "u"]
    nss_pool = [[], [""], ["##any"], ["urn:t"], ["!urn:t"], ["!"], ["", "urn:t"], ["urn:t", "!urn:c10:unknown"], ["##any", ""], ["!", ""]]
    names = ["j", "free"] + ["{%s}%s" % (u, n) for u in uris for n in ("j", "type")] + ["{}j", "{u}"]
    for nss in nss_pool:
        for q in names:
            yield {"namespaces": nss, "qname": q}


CORR_PARSE_U = Corr("bind.parse_u", lambda rng, tier: (a for a in gen_union_xml(rng, tier)), impl_parse, compare=cmp_parse,
                    classify=classify_inject, nontrivial=lambda a, o: "_inj" in a,
                    describe="NodeParser(EventsHandler) vs parseRootU (Bind/Union.lean) on the union universes of C10 with every injection kind, "
                             "8 configs: the rebinding of C10-union-strict-attr-rebinds and the strict conversions of the trials included")

# ---- conversion failures over the whole converter family (bytes base16/base64, float, Decimal, xml date/time types,
# enums, ...: types and formats the binding-layer universes do not have), ASCII and non-ASCII garbage, every kind of
# position, five entry points: the statement itself — kept as given + exactly one ConverterWarning, or ParserError
def gen_convert_family(rng, tier):
    n = 0
    for key, (tp, extra, good, bads) in L._conv_types().items():
        for pos in L.CONV_POSITIONS:
            for bad in bads:
                routes = L.CONV_ROUTES if tier != "quick" else [L.CONV_ROUTES[n % 5]]
                for route in routes:
                    n += 1
                    other = L.CFG8[n % 8]
                    for strict in (False, True):
                        yield {"key": key, "pos": pos, "bad": bad, "route": route,
                               "config": {**other, "fail_on_converter_warnings": strict}}


def impl_convert_family(a):
    return L.conv_parse(a["key"], a["pos"], a["bad"], a["config"], a["route"])


def spec_convert_family(a):
    if a["config"]["fail_on_converter_warnings"]:
        return {"err": "ParserError"}
    good = L._conv_types()[a["key"]][2]
    return {"ok": {"at": f"{good} {a['bad']}" if a["pos"] == "k" else a["bad"], "warnings": 1, "rest_ok": True}}


def check_convert_family(a):
    got, want = impl_convert_family(a), spec_convert_family(a)
    if got != want:
        return (f"[{a['route']}, cfg={L.cfg_key(a['config'])}] {a['key']} value {a['bad']!r} at position {a['pos']}: expected "
                f"{'ParserError' if 'err' in want else 'the value kept as given with exactly one ConverterWarning'}, observed {_short(got)}")
    return None


def gen_conv_de(rng, tier):
    """the converters behind the family, against the Lean model of formats/converter.py (Conv/*.lean, C05's op `conv.de`):
    an unconvertible value is a ConverterError there — `none` of the total function `deserialize` — and nothing else"""
    from props import c05 as P5

    tmap = {"hex": (["bytes"], "base16"), "b64": (["bytes"], "base64"), "int": (["int"], None), "float": (["float"], None),
            "decimal": (["Decimal"], None), "bool": (["bool"], None)}
    for key, (types, fmt) in tmap.items():
        tp, extra, good, bads = L._conv_types()[key]
        for s_ in [good] + bads + [good + b for b in bads[:4]] + [b + good for b in bads[:4]]:
            yield P5.de_case(s_, types, P5.KW(format=fmt))


def impl_conv_de(a):
    from props import c05 as P5

    return P5.impl_de(a)


CORRS += [
    Corr("conv.de", gen_conv_de, impl_conv_de,
         describe="ConverterFactory.deserialize vs the converter model on the bad values of the conversion family (bytes base16/base64 with "
                  "non-ASCII garbage, int, float, Decimal, bool): ConverterError, never another exception"),
    Corr("c10.convert_family", gen_convert_family, impl_convert_family, spec=spec_convert_family,
         classify=lambda a, o: f"{a['key']}:{a['pos']}:{a['route']}:{'strict' if a['config']['fail_on_converter_warnings'] else 'lenient'}:" + ("ok" if "ok" in o else o.get("err", "?")),
         describe="spec-level: unconvertible values (ASCII and non-ASCII) for 13 value types / formats at attribute, element, list item, token and "
                  "simple-content positions through XmlParser (3 handlers), DictDecoder and JsonParser: kept as given + one ConverterWarning / ParserError"),
    Corr("bind.matchns", gen_matchns, lambda a: L.real_match_namespace(a["namespaces"], a["qname"]),
         describe="XmlVar._match_namespace vs matchNamespace, bounded-exhaustive over namespace lists (empty, ##local, ##any, names, !names) "
                  "x qualified / unqualified names"),
    CORR_PARSE_U,
    Corr("bind.unioncfg", gen_unioncfg, impl_unioncfg,
         describe="the ParserConfig UnionNode.bind hands to the parsers that replay the recorded events for the candidate classes, and the "
                  "caller's ParserConfig afterwards, vs strictCfg (Bind/Union.lean)"),
    Corr("c10.union_xml", gen_union_xml, impl_union_xml, spec=lambda a: {"ok": "as stated"}, compare=cmp_xml_e2e,
         classify=lambda a, o: f"{a['_kind']}:{L.cfg_key(a['config'])}:{'ok' if 'ok' in o else 'deviates'}",
         describe="spec-level: documents of universes with fields that are unions of dataclasses (single, list, inside a child class; "
                  "UnionNode replay): unknown elements / attributes / xsi attributes on and below the union-bound elements and elsewhere, "
                  "8 configs, EventsHandler + both byte handlers, vs the statement"),
    Corr("bind.metastate", gen_metastate, impl_metastate, compare=cmp_metastate,
         classify=lambda a, o: f"{a['_kind']}:{'+'.join(L.cfg_key(c['config']) for c in a['calls'])}:"
                               + ("changed" if o.get("ok", {}).get("changed") else "same"),
         describe="sequences of parser calls (lenient and strict, documents with unknown content) on ONE XmlContext vs parseSeqS: "
                  "outcomes call by call, and every slot of the XmlMeta/XmlVar objects before/after (namespace_matches by soundness)"),
    Corr("c10.dict_seq", gen_dict_seq, impl_dict_seq, spec=spec_dict_seq, compare=lambda mo, io, a: diff_dict_seq(mo, io, a) is None,
         classify=classify_dict_seq, nontrivial=lambda a, o: any(d["inj"] for d in a["docs"]),
         describe="spec-level: real DictDecoder / JsonParser over documents of universes with best-match fields (base class with subclasses, "
                  "compound, dataclass union, anyType), unknown keys and unconvertible values at every position, single documents and "
                  "sequences sharing one decoder / one ParserConfig instance, 8 configs; expected per the statement, config unchanged"),
    Corr("c10.xml_e2e", gen_xml_e2e, impl_xml_e2e, spec=lambda a: {"ok": "as stated"}, compare=cmp_xml_e2e,
         classify=lambda a, o: f"{a['_kind']}:{L.cfg_key(a['config'])}:{'ok' if 'ok' in o else 'deviates'}",
         describe="spec-level: XmlParser with XmlEventHandler and LxmlEventHandler on the bytes of the injected documents vs the statement "
                  "(injected == original / ParserError / value kept + one warning), caller's ParserConfig unchanged"),
]


# =========================================================================
# known findings (replayed on the real code)
# =========================================================================
def _mk(name, flds, bases=()):
    from dataclasses import field, make_dataclass

    return make_dataclass(name, [(n, t, field(default=None, metadata=md)) for n, t, md in flds], bases=bases, kw_only=bool(bases))


def finding_wild_text():
    from typing import Optional

    from xsdata.formats.dataclass.parsers import XmlParser
    from xsdata.formats.dataclass.parsers.config import ParserConfig

    W = _mk("W", [("w", Optional[object], {"type": "Wildcard", "namespace": "##any"})])
    p = XmlParser(config=ParserConfig(fail_on_unknown_attributes=False))
    a = p.from_string("<W>t</W>", W)
    b = p.from_string('<W z="v">t</W>', W)
    try:
        XmlParser(config=ParserConfig(fail_on_unknown_attributes=True)).from_string('<W z="v">t</W>', W)
        strict = "accepted"
    except Exception as e:  # noqa: BLE001
        strict = type(e).__name__
    still = a != b and b.w.attributes == {"z": "v"}
    return still, f"<W>t</W> -> {a}; <W z=\"v\">t</W> -> {b}; with fail_on_unknown_attributes: {strict}"


def finding_dict_derived():
    from typing import Optional

    from xsdata.formats.dataclass.parsers import DictDecoder
    from xsdata.formats.dataclass.parsers.config import ParserConfig

    R = _mk("R", [("qname", Optional[str], {"type": "Element"}), ("type", Optional[str], {"type": "Element"})])
    out = []
    still = True
    for flag in (False, True):
        d = DictDecoder(config=ParserConfig(fail_on_unknown_properties=flag))
        a = d.decode({"qname": "a", "type": "b"}, R)
        try:
            b = d.decode({"qname": "a", "type": "b", "value": {}}, R)
        except Exception as e:  # noqa: BLE001
            b = type(e).__name__
        out.append(f"flag={flag}: {a} / with unknown key 'value': {b}")
        still = still and type(b).__name__ == "DerivedElement"
    return still, "; ".join(out)


def finding_union_rebind():
    from typing import Optional, Union

    from xsdata.formats.dataclass.parsers import XmlParser
    from xsdata.formats.dataclass.parsers.config import ParserConfig

    Lc = _mk("L", [("k", Optional[str], {"type": "Attribute"})])
    T = _mk("T", [("i", Optional[Lc], {"type": "Element"})])
    S = _mk("S", [("s", Optional[str], {"type": "Attribute"})])
    R = _mk("R", [("u", Optional[Union[T, S]], {"type": "Element"})])
    doc = '<R><u><i z="1"/></u></R>'
    out = {}
    for props in (False, True):
        for attrs in (False, True):
            try:
                out[(props, attrs)] = XmlParser(config=ParserConfig(fail_on_unknown_properties=props, fail_on_unknown_attributes=attrs)).from_string(doc, R)
            except Exception as e:  # noqa: BLE001
                out[(props, attrs)] = type(e).__name__
    still = (type(out[(False, False)].u).__name__ == "T" and not isinstance(out[(False, True)], str)
             and type(out[(False, True)].u).__name__ == "S" and out[(True, True)] == "ParserError")
    return still, f"{doc}: lenient {out[(False, False)]}; fail_on_unknown_attributes with unknown properties skipped: {out[(False, True)]}; both strict: {out[(True, True)]}"


FINDINGS = {
    "C10-union-strict-attr-rebinds": finding_union_rebind,
    "C10-wild-text-takes-unknown-attrs": finding_wild_text,
    "C10-dict-derived-keys": finding_dict_derived,
}

TRUSTED = [
    "metadata (XmlMeta/XmlVar) is exported from the real XmlContext.build and is an input of the parser model (builders.py is not modelled here)",
    "primitive converters restricted to str/int/bool/QName in this layer; `convFails` is the model's notion of ConverterError",
    "expat/lxml tokenisers only through the oracle (XmlParser with both handlers on bytes printed by lxml from the same tree)",
    "dictionary decoder: only the key decisions are modelled (find_var, unknown keys, derived-keys shortcut, bind_best candidate selection); bind_value is a parameter of the theorems and a recorder stub in the correspondence",
]
ASSUMPTIONS = [
    "an element is 'unknown' for a class when find_children yields nothing for its name and the name is not a wrapper (unknownFor); the oracle decides it independently: a name in a fresh namespace under a class that declares no wildcard field in the generated description",
    "a child element inside a simple-typed element (PrimitiveNode/StandardNode) is invalid content rather than an unknown property: the code raises XmlContextError under all 8 configurations (theorem child_in_primitive_rejected; the oracle expects exactly that)",
    "unknown attributes on simple-typed elements are never looked at (PrimitiveNode ignores attributes), so fail_on_unknown_attributes cannot fail there; the statement 'fail only when enabled' is kept",
    "warnings are compared by count of ConverterWarning",
]
LEVEL_TEXT = "proof"
LEVEL_NOTE = (
    "Theorems over the line-by-line parser model (all inputs, all 8 flag combinations as a universally quantified config): SkipNode swallows any "
    "subtree; an unknown element at any child position, any depth (InjectedKids), leaves parseKids/parseNode/parseRoot unchanged when "
    "fail_on_unknown_properties is off and gives ParserError when it is on; children of simple-typed elements give XmlContextError; decision "
    "table of bind_attrs for unknown / xsi attributes; conversion failures keep the given string with exactly one warning or raise ParserError. "
    "Dictionary decoder: same two theorems for the key loop of bind_dataclass, and for bind_best_dataclass (keys no candidate declares are ignored / "
    "rejected by the flag; strict trial first, lenient ranking when fail_on_converter_warnings is off). The full-strength statements that are still false "
    "of the code (derived-keys shortcut, wildcard text) are proved false with witnesses that reproduce on the real library (known findings); "
    "their partial versions are proved."
)
