/-
`toposort.toposort_flatten(data, sort=True)` as used by
`DependenciesResolver.create_class_list` and
`DesignateClassPackages.sort_classes`: repeatedly emit the *sorted* set of
items that have no remaining dependency.

`data` is the dict item ↦ set of dependencies as an association list (dict
order); each dependency set is a list in arbitrary order, duplicates allowed.
-/
import XsdataModel.Codegen.Basic

namespace Xs.Codegen
open Py

abbrev Deps := List (Str × List Str)

/-- `v.discard(k)` for every item, then add every dependency that is not itself
an item with an empty dependency set (`extra`). -/
def toposortPrep (data : Deps) : Deps :=
  let d := data.map (fun kv => (kv.1, kv.2.filter (· != kv.1)))
  let extra := dedup ((d.flatMap (·.2)).filter (fun x => !dhas d x))
  d ++ extra.map (fun x => (x, []))

/-- the `while True` loop. `none` = `CircularDependencyError`. -/
def toposortLoop : Nat → Deps → List Str → Option (List Str)
  | 0, data, acc => if data.isEmpty then some acc else none
  | n + 1, data, acc =>
    let ordered := (data.filter (·.2.isEmpty)).map (·.1)
    if ordered.isEmpty then (if data.isEmpty then some acc else none)
    else
      let rest := (data.filter (fun kv => !kv.2.isEmpty)).map
        (fun kv => (kv.1, kv.2.filter (fun x => !ordered.contains x)))
      toposortLoop n rest (acc ++ pySorted ordered)

/-- `toposort_flatten(data)`; `none` = `CircularDependencyError` -/
def toposortFlatten (data : Deps) : Option (List Str) :=
  let d := toposortPrep data
  toposortLoop (d.length + 1) d []

end Xs.Codegen
