/-
C15 — xsdata/formats/dataclass/parsers/dict.py (`DictDecoder`) and json.py
(`JsonParser.parse = decode(load_json(source))`), as far as the *outcome class* of a
decode is concerned: which exception type comes out, or none.

Modelled line by line: `decode`, `verify_type` (for a class or `list[class]` target),
`bind_dataclass`, `bind_derived_dataclass`, `find_var`, `bind_value`, `bind_text`,
`bind_complex_type`, `bind_best_dataclass`, `bind_derived_value`, `class_factory`,
`ParserUtils.parse_var` / `validate_fixed_value` (shared with the XML side).
Outside the fragment (`Err.unsupported`): compound fields, wildcards / anyType fields,
unions of classes, generic `AnyElement` dictionaries.

The values built are placeholders (`Val.obj cls []` for a bound object): only
`validate_fixed_value` looks at a bound value, and it looks at primitives.
Recursion is by fuel (each call level spends one unit); the driver supplies more than
the nesting depth of the document.
-/
import XsdataModel.Bind.Parse

namespace Xs.Fault
open Py Xs.Bind

/-- what `json.load` returns -/
inductive J
  | null
  | bool (b : Bool)
  | int (i : Int)
  | float (text : Str)          -- with `FloatConverter.serialize(value)` as text
  | str (s : Str)
  | arr (xs : List J)
  | obj (kvs : List (Str × J))   -- `dict` in insertion order, keys distinct
deriving Repr

def J.isArr : J → Bool | .arr _ => true | _ => false
def J.isObj : J → Bool | .obj _ => true | _ => false
def J.isNull : J → Bool | .null => true | _ => false

/-- Python truthiness of a loaded JSON value -/
def J.truthy : J → Bool
  | .null => false
  | .bool b => b
  | .int i => i ≠ 0
  | .float t => t ≠ "0.0".toList && t ≠ "-0.0".toList
  | .str s => !s.isEmpty
  | .arr xs => !xs.isEmpty
  | .obj kvs => !kvs.isEmpty

def J.get (kvs : List (Str × J)) (k : Str) : Option J := (kvs.find? (·.1 = k)).map (·.2)

/-- `set(data.keys()) == {..}` for a list of distinct names -/
def keysAre (kvs : List (Str × J)) (names : List Str) : Bool :=
  kvs.length = names.length && names.all (fun n => kvs.any (·.1 = n))

/-- `DictDecoder.is_generic`: the keys are field names of the generic class and the fields that
do not default to `None` are all there -/
def isGeneric (kvs : List (Str × J)) (required all : List Str) : Bool :=
  required.all (fun n => kvs.any (·.1 = n)) && kvs.all (fun kv => all.contains kv.1)

def derivedRequired : List Str := ["qname".toList, "value".toList]
def anyRequired : List Str := ["children".toList, "attributes".toList]
def derivedKeys : List Str := ["qname".toList, "type".toList, "value".toList]
def anyKeys : List Str := ["qname".toList, "text".toList, "tail".toList, "children".toList, "attributes".toList]

/-- `XmlMeta.get_all_vars` -/
def allVars (m : XmlMeta) : List XmlVar :=
  sortByIndex (m.wildcards ++ m.choices ++ m.anyAttributes ++ m.attributes.map (·.2)
    ++ (m.elements.map (·.2)).flatten ++ m.text.toList)

/-- `XmlVar.wrapper` (the local part of the exported `wrapper_qname`) -/
def wrapperName (v : XmlVar) : Option Str := v.wrapperQName.map localName

/-- `DictDecoder.find_var` -/
def findVar (vars : List XmlVar) (key : Str) (value : J) : Option XmlVar :=
  vars.findSome? fun var =>
    let varIsList := var.listElement || var.tokens
    if var.localName = key then
      (if value.isNull || value.isArr = varIsList then some var else none)   -- `value is None or …`
    else if wrapperName var = some key then
      match value with
      | .obj kvs =>
        match J.get kvs var.localName with
        | some v => if v.isArr = varIsList then some var else none
        | none => none
      | _ => none
    else none

mutual
/-- `converter.serialize(value)` for a loaded JSON value.
`ok none` = `None`; a `None` inside a list makes `" ".join` raise `TypeError`;
a dict has no converter (`ConverterError`). -/
def serializeJ : J → Except Err (Option Str)
  | .null => .ok none
  | .bool b => .ok (some (if b then "true".toList else "false".toList))
  | .int i => .ok (some (intStr i))
  | .float t => .ok (some t)
  | .str s => .ok (some s)
  | .obj _ => .error .converter
  | .arr xs =>
    match serializeJs xs with
    | .error err => .error err
    | .ok parts =>
      if parts.any Option.isNone then .error (.leaked "TypeError")
      else .ok (some (" ".toList.intercalate (parts.filterMap id)))
/-- the generator `self.serialize(val) for val in value`, consumed left to right by `join` -/
def serializeJs : List J → Except Err (List (Option Str))
  | [] => .ok []
  | x :: xs =>
    match serializeJ x with
    | .error err => .error err
    | .ok p =>
      match serializeJs xs with
      | .error err => .error err
      | .ok ps => .ok (p :: ps)
end

/-- `dict(value)` for the `xs:anyAttribute` field -/
def dictOf : J → Except Err Val
  | .obj _ => .ok (.attrs [])
  | .str [] => .ok (.attrs [])
  | .arr [] => .ok (.attrs [])
  | .arr _ => .error (.unsupported "dict(list)")  -- never reached: `find_var` keeps arrays away
  -- `except (TypeError, ValueError): raise ParserError` around `dict(value)`:
  -- "'int' object is not iterable", "dictionary update sequence element #0 has length 1"
  | _ => .error (.parser "Failed to bind value to the attributes field")

/-- `DictDecoder.bind_text` -/
def bindTextJ (e : BEnv) (cfg : ParserConfig) (var : XmlVar) (value : J) : Except Err Val := do
  if var.isElements then throw (.unsupported "compound field")
  if var.anyType || var.isWildcard then throw (.unsupported "anyType field")
  -- `if not var.tokens and type(value) in var.types: return value`
  let own : Option (TypeRef × Val) := match value with
    | .str s => some (.prim .str, .prim (.str s))
    | .int i => some (.prim .int, .prim (.int i))
    | .bool b => some (.prim .bool, .prim (.bool b))
    | .float t => some (.other "float".toList, .prim (.str t))
    | _ => none
  match own with
  | some (t, v) => if !var.tokens && var.types.contains t then return v
  | none => pure ()
  -- `try: value = converter.serialize(value) except TypeError: raise ParserError`
  let s ← match serializeJ value with
    | .error (.leaked "TypeError") => .error (.parser "Failed to bind value: null item in a list of tokens")
    | r => r
  let r ← parseVar e cfg var.toVarCore s []
  return r.val

/-- classes of the universe that are proper subclasses of `c` (`context.get_subclasses`) -/
def subclassesOf (Γ : Ctx) (c : ClassId) : List ClassId :=
  (Γ.classes.filter (fun ci => ci.id ≠ c && ci.mro.contains c)).map (·.id)

/-- `context.local_names_match(keys, clazz)` -/
def localNamesMatch (Γ : Ctx) (kvs : List (Str × J)) (c : ClassId) : Bool :=
  match (Γ.find c).bind (·.metaFor none) with
  | none => false
  -- the local names, and the wrapper names of the wrapped vars
  | some m => kvs.all (fun kv => (allVars m).any (fun v => v.localName = kv.1 || wrapperName v = some kv.1))

/-- `XmlMeta.element_types` restricted to model classes -/
def elementClasses (m : XmlMeta) : List ClassId :=
  ((m.elements.map (·.2)).flatten.map (·.types)).flatten.filterMap (fun t => match t with | .cls c => some c | _ => none)

/-- the `xsi_type` slot of a derived dictionary handed to `context.find_type` -/
def findTypeJ (Γ : Ctx) : J → Except Err (Option ClassId)
  | .str s => .ok (Γ.findType s)
  | _ => .ok none      -- `find_type` is only asked for a `str` (a list/dict would be unhashable)

/-- `DictDecoder.bind_complex_type`, with the two recursive entry points passed in
(`best` = `bind_best_dataclass`, `one` = `bind_dataclass`) -/
def bindComplexWith (best : List (Str × J) → List ClassId → Except Err Val) (one : J → ClassId → Except Err Val)
    (Γ : Ctx) (var : XmlVar) (kvs : List (Str × J)) : Except Err Val :=
  if var.isClazzUnion then .error (.unsupported "union of classes")
  else if !var.elements.isEmpty then .error (.unsupported "compound field")
  else if var.anyType || var.isWildcard then .error (.unsupported "anyType field")
  else
    match var.clazz with
    | none => .error (.parser "Failed to bind object to a field of primitive type")  -- `if var.clazz is None: raise ParserError`
    | some c =>
      let subs := subclassesOf Γ c
      if !subs.isEmpty then best kvs (subs ++ [c])
      else one (.obj kvs) c

mutual

/-- `DictDecoder.bind_dataclass(data, clazz)` -/
def bindDataclass (e : BEnv) (Γ : Ctx) (cfg : ParserConfig) : Nat → J → ClassId → Except Err Val
  | 0, _, _ => .error (.unsupported "fuel")
  | fuel + 1, data, clazz =>
    match data with
    | .obj kvs =>
      if keysAre kvs derivedKeys then
        -- bind_derived_dataclass, `clazz` is not the generic DerivedElement
        bindDataclass e Γ cfg fuel ((J.get kvs "value".toList).getD .null) clazz
      else
        match (Γ.find clazz).bind (·.metaFor none) with
        | none => .error (.context "unknown class")
        | some m => do
          let params ← kvs.foldlM (fun (params : Params) (kv : Str × J) => do
            match findVar (allVars m) kv.1 kv.2 with
            | none =>
              if cfg.failOnUnknownProperties then throw (.parser "Unknown property") else pure params
            | some var =>
              -- `if var.wrapper and var.local_name != key: value = value[var.local_name]`
              -- (then `find_var` matched through the wrapper key: `value` is an object that
              -- has the key; the two failing subscripts are kept as Python would raise them and
              -- proved unreachable)
              let value ← if (wrapperName var).isSome && var.localName ≠ kv.1 then
                  (match kv.2 with
                   | .obj inner =>
                     (match J.get inner var.localName with
                      | some v => pure v
                      | none => throw (.leaked "KeyError"))
                   | _ => throw (.leaked "TypeError"))
                else pure kv.2
              -- `if value is None and var.list_element: continue` : a null stands for no items
              if value.isNull && var.listElement then pure params else
              let v ← bindValue e Γ cfg fuel m var value false
              if var.init then pure (params.set var.name v)
              else do validateFixed e.py var.toVarCore v; pure params) []
          classFactory Γ clazz params
    | _ => .error (.parser "Expected an object")          -- `if not isinstance(data, dict): raise ParserError`

/-- `DictDecoder.bind_value(meta, var, value, recursive)` with `bind_complex_type` and
`bind_derived_value` inlined (`bind_complex_type` is `bindComplexWith`) -/
def bindValue (e : BEnv) (Γ : Ctx) (cfg : ParserConfig) : Nat → XmlMeta → XmlVar → J → Bool → Except Err Val
  | 0, _, _, _, _ => .error (.unsupported "fuel")
  | fuel + 1, m, var, value, recursive =>
    if var.isAttributes then dictOf value
    else
      match value, (!recursive && var.listElement) with
      | .arr xs, true => do
        let vs ← xs.mapM (fun x => bindValue e Γ cfg fuel m var x true)
        return .list vs
      | .obj kvs, _ =>
        if isGeneric kvs anyRequired anyKeys then .error (.unsupported "generic AnyElement")
        else if isGeneric kvs derivedRequired derivedKeys then
          -- bind_derived_value
          let xsiType := (J.get kvs "type".toList).getD .null
          let params := (J.get kvs "value".toList).getD .null
          if !var.elements.isEmpty then .error (.unsupported "compound field")
          else
            -- the bound value comes back wrapped: `DerivedElement(qname, value, type)`
            (fun v => Val.derived [] v none) <$>
            (match params with
            | .obj pk =>
              if xsiType.truthy then do
                match ← findTypeJ Γ xsiType with
                | none => throw (.parser "Unable to locate xsi:type")
                | some c => bindDataclass e Γ cfg fuel params c
              else if var.clazz.isSome then bindComplexWith (bindBest e Γ cfg fuel) (bindDataclass e Γ cfg fuel) Γ var pk
              else bindBest e Γ cfg fuel pk (elementClasses m)
            | _ => bindTextJ e cfg var params)
        else bindComplexWith (bindBest e Γ cfg fuel) (bindDataclass e Γ cfg fuel) Γ var kvs
      | v, _ => bindTextJ e cfg var v

/-- `DictDecoder.bind_best_dataclass(data, classes)`: every candidate is tried with
`fail_on_converter_warnings=True` under `suppress(Exception)`; any success wins -/
def bindBest (e : BEnv) (Γ : Ctx) (cfg : ParserConfig) : Nat → List (Str × J) → List ClassId → Except Err Val
  | 0, _, _ => .error (.unsupported "fuel")
  | fuel + 1, kvs, classes =>
    let strict := { cfg with failOnConverterWarnings := true }
    -- with `fail_on_unknown_properties` off the keys none of the classes declares do not count
    let keys := if cfg.failOnUnknownProperties then kvs
      else kvs.filter fun kv => classes.any (localNamesMatch Γ [kv])
    let matching := classes.filter (localNamesMatch Γ keys)
    let results := matching.map fun c => (c, bindDataclass e Γ strict fuel (.obj kvs) c)
    -- a candidate that leaves the modelled fragment makes the whole outcome unknown
    match results.find? (fun r => match r.2 with | .error (.unsupported _) => true | _ => false) with
    | some _ => .error (.unsupported "candidate outside the fragment")
    | none =>
      match results.find? (fun r => match r.2 with | .ok _ => true | .error _ => false) with
      | some (c, _) => .ok (.obj c [])
      | none =>
        if cfg.failOnConverterWarnings then .error (.parser "Failed to bind object")
        else
          -- no class converts every value: the classes are ranked again with the caller's configuration
          let lenient := matching.map fun c => (c, bindDataclass e Γ cfg fuel (.obj kvs) c)
          match lenient.find? (fun r => match r.2 with | .error (.unsupported _) => true | _ => false) with
          | some _ => .error (.unsupported "candidate outside the fragment")
          | none =>
            match lenient.find? (fun r => match r.2 with | .ok _ => true | .error _ => false) with
            | some (c, _) => .ok (.obj c [])
            | none => .error (.parser "Failed to bind object")

end

/-- the documents of `JsonParser.from_bytes` before `json.load` had its say -/
inductive Loaded
  | value (j : J)
  | decodeError                  -- json.JSONDecodeError
  | unicodeError                 -- UnicodeDecodeError
  | recursionError               -- RecursionError (nesting deeper than the interpreter allows)
  | intLimit                     -- ValueError: Exceeds the limit (4300 digits)
deriving Repr

/-- `DictDecoder.decode(data, clazz)` for `clazz` a model class (`listOf = false`) or
`list[clazz]` (`listOf = true`) -/
def decode (e : BEnv) (Γ : Ctx) (cfg : ParserConfig) (fuel : Nat) (clazz : ClassId) (listOf : Bool) (data : J) :
    Except Err Val :=
  -- verify_type
  if listOf ≠ data.isArr then
    .error (.parser (if listOf then "Document is object, expected array" else "Document is array, expected object"))
  else
    match data with
    | .arr xs => do
      let vs ← xs.mapM (fun x => bindDataclass e Γ cfg fuel x clazz)
      return .list vs
    | d => bindDataclass e Γ cfg fuel d clazz

/-- `XmlContext.find_type_by_fields(set(keys))`: among the classes that have all the keys as
local names, the one with the fewest other local names, ties broken by class name -/
def findTypeByFields (Γ : Ctx) (kvs : List (Str × J)) : Option ClassId :=
  let cands := Γ.classes.filterMap fun ci =>
    if localNamesMatch Γ kvs ci.id then
      match ci.metaFor none with
      | some m => some (ci.id, ((((allVars m).map (·.localName)).eraseDups).filter (fun n => !kvs.any (·.1 = n))).length)
      | none => none
    else none
  (cands.foldl (fun (best : Option (ClassId × Nat)) c =>
    match best with
    | none => some c
    | some b => if c.2 < b.2 || (c.2 = b.2 && c.1 < b.1) then some c else some b) none).map (·.1)

/-- the tail of `decode`: one `bind_dataclass`, or one per item of an array -/
def bindAll (e : BEnv) (Γ : Ctx) (cfg : ParserConfig) (fuel : Nat) (clazz : ClassId) : J → Except Err Val
  | .arr xs => do
    let vs ← xs.mapM (fun x => bindDataclass e Γ cfg fuel x clazz)
    return .list vs
  | d => bindDataclass e Γ cfg fuel d clazz

/-- `DictDecoder.decode(data)` without a target class: `verify_type` → `detect_type`, then as
before.  (ca8f47f: a first document that is not an object is a ParserError.) -/
def decodeAuto (e : BEnv) (Γ : Ctx) (cfg : ParserConfig) (fuel : Nat) (data : J) : Except Err Val :=
  if !data.truthy then .error (.parser "Document is empty, can not detect type")
  else
    let first := match data with
      | .arr (x :: _) => x
      | d => d
    match first with
    | .obj kvs =>
      match findTypeByFields Γ kvs with
      | none => .error (.parser "Unable to locate model")
      | some clazz => bindAll e Γ cfg fuel clazz data
    | _ => .error (.parser "Document is not an object, can not detect type")

/-- `JsonParser.parse`: `load_json` runs under `except ValueError: raise ParserError`, which
covers `json.JSONDecodeError`, `UnicodeDecodeError` and the bare `ValueError` of the integer
digit limit; and (since the follow-up repair) `RecursionError` -/
def parseJson (e : BEnv) (Γ : Ctx) (cfg : ParserConfig) (fuel : Nat) (clazz : ClassId) (listOf : Bool) :
    Loaded → Except Err Val
  | .value j => decode e Γ cfg fuel clazz listOf j
  | .decodeError => .error (.parser "JSONDecodeError")
  | .unicodeError => .error (.parser "UnicodeDecodeError")
  | .intLimit => .error (.parser "ValueError")
  | .recursionError => .error (.parser "RecursionError")

/-- `JsonParser.parse(source)` without a target class -/
def parseJsonAuto (e : BEnv) (Γ : Ctx) (cfg : ParserConfig) (fuel : Nat) : Loaded → Except Err Val
  | .value j => decodeAuto e Γ cfg fuel j
  | .decodeError => .error (.parser "JSONDecodeError")
  | .unicodeError => .error (.parser "UnicodeDecodeError")
  | .intLimit => .error (.parser "ValueError")
  | .recursionError => .error (.parser "RecursionError")

end Xs.Fault
