import Driver.Proto
import XsdataModel.Tables
import XsdataModel.Xml.Writer
import XsdataModel.Xml.TblNsEnv
import XsdataModel.Spec.XmlNs
import XsdataModel.Spec.ObjectTree
open Lean Proto Py Xs.Ns Xs.Sax Xs.Writer Spec.XmlNs Spec.ObjectTree

namespace OpsXml

def asAtom (j : Json) : Except String Atom :=
  match j with
  | .str s => .ok (.str s.toList)
  | .bool b => .ok (.bool b)
  | .obj _ => match j.getObjValD "q" with
    | .str s => .ok (.qname s.toList)
    | _ => .error "bad atom object"
  | _ => match j.getInt? with
    | .ok i => .ok (.int i)
    | .error _ => .error "bad atom"

def asVal (j : Json) : Except String Val :=
  match j with
  | .null => .ok .none
  | .arr a => do
      let xs ← a.toList.mapM asAtom
      pure (.list xs)
  | _ => do
      let a ← asAtom j
      pure (.atom a)

def asEv (j : Json) : Except String Ev := do
  let a ← asArr j
  match a with
  | [.str "start", .str q] => pure (.start q.toList)
  | [.str "end", .str q] => pure (.end_ q.toList)
  | [.str "attr", .str q, v] => do
      let v' ← asVal v
      pure (.attr q.toList v')
  | [.str "data", v] => do
      let v' ← asVal v
      pure (.data v')
  | _ => pure .unknown

def asPfx (j : Json) : Except String Pfx :=
  match j with
  | .null => .ok none
  | .str s => .ok (some s.toList)
  | _ => .error "bad prefix"

def asNsMap (j : Json) : Except String (List (Pfx × Str)) := do
  let a ← asArr j
  a.mapM fun e => do
    let kv ← asArr e
    match kv with
    | [k, .str v] => do
        let k' ← asPfx k
        pure (k', v.toList)
    | _ => .error "bad ns_map entry"

def getCfg (j : Json) : Except String Cfg := do
  let c := j.getObjValD "cfg"
  let sl ← getOptStr c "schema_location"
  let nn ← getOptStr c "no_ns"
  let ind ← getOptStr c "indent"
  let ind' := match ind with
    | some s => if s.isEmpty then none else some s
    | none => none
  let decl := match c.getObjValD "decl" with
    | .bool b => b
    | _ => false
  pure { schemaLocation := sl, noNsSchemaLocation := nn, indent := ind', xmlDeclaration := decl }

def jPfx : Pfx → Json := jOpt jStr
def jEName (n : EName) : List Json := [jOpt jStr n.1, jStr n.2]

partial def jNode : Node → Json
  | .text s => Json.arr #[Json.str "t", jStr s]
  | .elem n attrs kids =>
    Json.arr #[Json.str "e", jOpt jStr n.1, jStr n.2,
      jList (fun (a : EName × Str) => Json.arr (jEName a.1 ++ [jStr a.2]).toArray) attrs,
      Json.arr (kids.map jNode).toArray]

def jCall : Call → Json
  | .startPrefix p u => Json.arr #[Json.str "startPrefix", jPfx p, jStr u]
  | .endPrefix p => Json.arr #[Json.str "endPrefix", jPfx p]
  | .startElem n attrs => Json.arr #[Json.str "startElem", Json.arr (jEName n).toArray,
      jList (fun (a : EName × Option Str) => Json.arr (jEName a.1 ++ [jOpt jStr a.2]).toArray) attrs]
  | .endElem n => Json.arr #[Json.str "endElem", Json.arr (jEName n).toArray]
  | .chars s => Json.arr #[Json.str "chars", jStr s]
  | .ws s => Json.arr #[Json.str "ws", jStr s]

def jNsMap (m : NsMap) : Json := jList (fun (e : Pfx × Str) => Json.arr #[jPfx e.1, jStr e.2]) m

partial def asModelD (j : Json) : Except String ModelD := do
  let cls ← getStr j "cls"
  let metaName ← getOptStr j "meta_name"
  let hasNs ← getBool j "has_ns"
  let ns ← getOptStr j "namespace"
  let fs ← getArr j "fields"
  let fields ← fs.mapM fun f => do
    let name ← getStr f "name"
    let kind ← getStr f "kind"
    match String.ofList kind with
    | "attribute" => do
        let loc ← getOptStr f "local"
        let ans ← getOptStr f "namespace"
        pure (FieldD.attr name loc ans)
    | "text" => pure (FieldD.text name)
    | _ => do
        let loc ← getOptStr f "local"
        let fns ← getOptStr f "namespace"
        let isList ← getBool f "list"
        let nillable ← getBool f "nillable"
        let wrapper ← getOptStr f "wrapper"
        let typ ← match f.getObjValD "type" with
          | .str _ => pure none
          | t => do
              let m ← asModelD t
              pure (some m)
        pure (FieldD.elem name loc fns isList nillable wrapper typ)
  let ownMeta := match j.getObjValD "own_meta" with | .bool b => b | _ => true
  let base ← match j.getObjValD "base" with
    | .null => pure none
    | b => do
        let bm ← asModelD b
        pure (some bm)
  pure (ModelD.mk cls metaName hasNs ns fields ownMeta base)

partial def asIV (j : Json) : Except String IV :=
  match j with
  | .null => .ok .none
  | .str s => .ok (.str s.toList)
  | .arr a => do
      let xs ← a.toList.mapM asIV
      pure (.list xs)
  | .obj kvs => do
      let fs ← kvs.toList.mapM fun (k, v) => do
        let v' ← asIV v
        pure (k.toList, v')
      pure (.obj fs)
  | _ => .error "bad instance value"

def getEvents (a : Json) : Except String (List Ev) := do
  let es ← getArr a "events"
  es.mapM asEv

def run (op : String) (a : Json) : Option (Except String Json) :=
  match op with
  | "writer.native" => some do
      let es ← getEvents a
      let m ← asNsMap (a.getObjValD "ns_map")
      let cfg ← getCfg a
      pure <| match nativeWrite tblNsEnv cfg m es with
        | .error e => err e.name
        | .ok toks =>
          let text := (if cfg.xmlDeclaration then xmlDecl else []) ++ render toks
          ok (jObj [("text", jStr text), ("infoset", jOpt jNode (infoset toks))])
  | "writer.sax" => some do
      let es ← getEvents a
      let m ← asNsMap (a.getObjValD "ns_map")
      let cfg ← getCfg a
      let (calls, e) := handlerRun tblNsEnv cfg false m es
      pure <| ok (jObj [("calls", jList jCall calls), ("err", jOpt (fun (x : Err) => Json.str x.name) e)])
  | "writer.lxml" => some do
      let es ← getEvents a
      let m ← asNsMap (a.getObjValD "ns_map")
      let cfg ← getCfg a
      let (calls, e) := handlerRun tblNsEnv cfg false m es
      pure <| ok (jObj [("err", jOpt (fun (x : Err) => Json.str x.name) e),
                        ("tree", jOpt jNode (if e.isNone then saxTree calls else none))])
  | "writer.events_tree" => some do
      let es ← getEvents a
      let cfg ← getCfg a
      pure <| ok (jOpt jNode (eventsTree tblNsEnv cfg es))
  | "ser.object" => some do
      let m ← asModelD (a.getObjValD "model")
      let inst ← asIV (a.getObjValD "inst")
      match inst with
      | .obj fs => pure <| ok (jNode (specRoot 16 m fs))
      | _ => .error "instance must be an object"
  | "ns.clean" => some do
      let m ← asNsMap (a.getObjValD "ns_map")
      pure <| ok (jNsMap (serializerNsMap m))
  | "xml.split_qname" => some do
      let q ← getStr a "q"
      pure <| match splitQName q with
        | .ok (u, l) => ok (Json.arr #[jOpt jStr u, jStr l])
        | .error e => err e.name
  | "ns.load_prefix" => some do
      let m ← asNsMap (a.getObjValD "ns_map")
      let u ← getStr a "uri"
      let (p, m') := loadPrefix tblNsEnv u m
      pure <| ok (Json.arr #[jPfx p, jNsMap m'])
  | "ns.generate_prefix" => some do
      let m ← asNsMap (a.getObjValD "ns_map")
      let u ← getStr a "uri"
      let (p, m') := generatePrefix tblNsEnv u m
      pure <| ok (Json.arr #[jStr p, jNsMap m'])
  | "sax.escape" => some do
      let s ← getStr a "s"
      pure <| ok (Json.arr #[jStr (escape s), jStr (quoteattr s)])
  | "xml.ncname" => some do
      let s ← getStr a "s"
      pure <| ok (jBool (isNCName s))
  | _ => none

end OpsXml
