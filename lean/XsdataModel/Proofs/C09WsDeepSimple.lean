/- C09 helper lemmas: `ws_invariant_deep` for universes that also have simple-content classes
(a text field and no child elements), under `fail_on_unknown_properties`. -/
import XsdataModel.Proofs.C09WsDeep

namespace Proofs.C09
open Py Xs.Bind

/-- a class with simple content: a text field and no way to take a child element -/
def simpleContent (m : XmlMeta) : Bool :=
  m.elements.isEmpty && m.choices.isEmpty && m.wildcards.isEmpty && m.wrappers.isEmpty
def textlessOrSimple (m : XmlMeta) : Bool := textless m || simpleContent m

theorem parseKids_simple_error (e : BEnv) (Γ : Ctx) (cfg : ParserConfig) (hs : cfg.failOnUnknownProperties = true)
    (m : XmlMeta) (hm : simpleContent m = true) (st : ElState) (kids : List Tree) (hk : kids.isEmpty = false) :
    ∃ err, parseKids e Γ cfg m st none kids = .error err := by
  simp only [simpleContent, Bool.and_eq_true, List.isEmpty_iff] at hm
  obtain ⟨⟨⟨h1, h2⟩, h3⟩, h4⟩ := hm
  cases kids with
  | nil => simp at hk
  | cons k ks =>
    obtain ⟨q, a, n, t, c, tl⟩ := k
    have hfc : m.findChildren q = [] := by
      simp [XmlMeta.findChildren, XmlMeta.findWildcard, findByNamespace, h1, h2, h3]
    refine ⟨.parser "Unknown property", ?_⟩
    simp only [parseKids, h4, List.any_nil, Bool.and_false, Bool.false_eq_true, if_false]
    have : childNode e Γ cfg m st q a n none = .error (.parser "Unknown property") := by
      unfold childNode
      rw [hfc]
      simp [childNode.go, hs]
    rw [this]
    rfl

theorem parseNode_wsRelS (e : BEnv) (Γ : Ctx) (cfg : ParserConfig) (hΓ : ctxAll textlessOrSimple Γ = true) (hs : cfg.failOnUnknownProperties = true) (node : Node) (t : Tree) :
    ∀ t', wsRel e.py t t' = true → nodeMetaOk textlessOrSimple node → parseNode e Γ cfg node t = parseNode e Γ cfg node t' := by
  refine parseNode.induct
    (motive_1 := fun node t => ∀ t', wsRel e.py t t' = true → nodeMetaOk textlessOrSimple node →
      parseNode e Γ cfg node t = parseNode e Γ cfg node t')
    (motive_2 := fun m st w kids => ∀ kids', wsRelL e.py kids kids' = true →
      parseKids e Γ cfg m st w kids = parseKids e Γ cfg m st w kids')
    (motive_3 := fun var kids => ∀ kids', wsRelL e.py kids kids' = true →
      parseWild e Γ cfg var kids = parseWild e Γ cfg var kids')
    ?skip ?wrapper ?prim1 ?prim2 ?std1 ?std2 ?wild ?elem ?knil ?kwrap ?kcons ?wnil ?wcons node t
  case skip => intro q a n t c tl t' _ _; obtain ⟨q', a', n', tx', c', tl'⟩ := t'; simp [parseNode]
  case wrapper => intro q a n t c tl qw t' _ _; obtain ⟨q', a', n', tx', c', tl'⟩ := t'; simp [parseNode]
  case prim1 =>
    intro q a n t c tl pm var ns nil hc t' hr _
    obtain ⟨q', a', n', tx', c', tl'⟩ := t'
    simp only [wsRel, Bool.and_eq_true, decide_eq_true_eq] at hr
    have he := wsRelL_isEmpty e.py _ _ hr.2
    simp only [parseNode, he, hc, if_true]
  case prim2 =>
    intro q a n t c tl pm var ns nil hc t' hr _
    obtain ⟨q', a', n', tx', c', tl'⟩ := t'
    simp only [wsRel, Bool.and_eq_true, Bool.or_eq_true, decide_eq_true_eq] at hr
    obtain ⟨⟨⟨⟨⟨hq, ha⟩, hn⟩, htl⟩, ht⟩, hk⟩ := hr
    subst hq ha hn
    have he := wsRelL_isEmpty e.py _ _ hk
    have htx : t = tx' := by
      rcases ht with h | h
      · exact h
      · simp only [Bool.not_eq_true] at hc
        rw [hc] at h
        simp at h
    subst htx
    rw [parseNode_tail e Γ cfg _ q a n t c tl tl' htl]
    simp only [parseNode, he, hc]
  case std1 =>
    intro q a n t c tl var dt ns nl d mx hc t' hr _
    obtain ⟨q', a', n', tx', c', tl'⟩ := t'
    simp only [wsRel, Bool.and_eq_true, decide_eq_true_eq] at hr
    have he := wsRelL_isEmpty e.py _ _ hr.2
    simp only [parseNode, he, hc, if_true]
  case std2 =>
    intro q a n t c tl var dt ns nl d mx hc t' hr _
    obtain ⟨q', a', n', tx', c', tl'⟩ := t'
    simp only [wsRel, Bool.and_eq_true, Bool.or_eq_true, decide_eq_true_eq] at hr
    obtain ⟨⟨⟨⟨⟨hq, ha⟩, hn⟩, htl⟩, ht⟩, hk⟩ := hr
    subst hq ha hn
    have he := wsRelL_isEmpty e.py _ _ hk
    have htx : t = tx' := by
      rcases ht with h | h
      · exact h
      · simp only [Bool.not_eq_true] at hc
        rw [hc] at h
        simp at h
    subst htx
    rw [parseNode_tail e Γ cfg _ q a n t c tl tl' htl]
    simp only [parseNode, he, hc]
  case wild =>
    intro q a n t c tl var ats ns ih t' hr _
    obtain ⟨q', a', n', tx', c', tl'⟩ := t'
    simp only [wsRel, Bool.and_eq_true, Bool.or_eq_true, decide_eq_true_eq] at hr
    obtain ⟨⟨⟨⟨⟨hq, ha⟩, hn⟩, htl⟩, ht⟩, hk⟩ := hr
    subst hq ha hn
    rw [parseNode_tail e Γ cfg _ q a n t c tl tl' htl]
    simp only [parseNode, ih c' hk]
    rcases ht with h | h
    · subst h; rfl
    · obtain ⟨hne, hnorm⟩ := h
      have hne' : c'.isEmpty = false := by
        rw [wsRelL_isEmpty e.py _ _ hk]; simpa using hne
      cases hw : parseWild e Γ cfg var c' with
      | error err => rfl
      | ok sub =>
        have hs := parseWild_objs e Γ cfg var c' sub hne' hw
        have hs' : (sub.objs.map (·.2)).isEmpty = false := by
          cases hh : sub.objs with
          | nil => simp [hh] at hs
          | cons x xs => rfl
        simp only [bind, Except.bind, hs', Bool.not_false, if_true, hnorm]
  case elem =>
    intro q a n t c tl m ats ns d xt xn ih t' hr hm
    obtain ⟨q', a', n', tx', c', tl'⟩ := t'
    simp only [wsRel, Bool.and_eq_true, Bool.or_eq_true, decide_eq_true_eq] at hr
    obtain ⟨⟨⟨⟨⟨hq, ha⟩, hn⟩, htl⟩, ht⟩, hk⟩ := hr
    subst hq ha hn
    have hnorm : normalizeContent e.py t = normalizeContent e.py tx' := by
      rcases ht with h | h
      · rw [h]
      · exact h.2
    rw [parseNode_tail e Γ cfg _ q a n t c tl tl' htl]
    have hm' : textlessOrSimple m = true := hm
    simp only [textlessOrSimple, Bool.or_eq_true] at hm'
    rcases hm' with hml | hsimple
    · have hmt : m.text = none := by simpa [textless, Option.isNone_iff_eq_none] using hml
      simp only [parseNode, ih c' hk, bindText_textless e cfg m hmt,
        fun w ats' ns' params tail => bindWildText_text e w ats' ns' params t tx' tail hnorm]
    · rcases ht with h | h
      · subst h
        simp only [parseNode, ih c' hk]
      · -- a simple-content class under a strict configuration rejects the first child element
        have hne : c'.isEmpty = false := by
          rw [wsRelL_isEmpty e.py _ _ hk]; simpa using h.1
        obtain ⟨err, herr⟩ := parseKids_simple_error e Γ cfg hs m hsimple {} c' hne
        simp only [parseNode, ih c' hk, herr]
        rfl
  case knil =>
    intro m st w kids' h
    cases kids' with
    | nil => rfl
    | cons k ks => simp [wsRelL] at h
  case kwrap =>
    intro m st w q a n t c tl rest hcond ih1 ih2 kids' h
    cases kids' with
    | nil => simp [wsRelL] at h
    | cons k ks =>
      obtain ⟨q', a', n', t', c', tl'⟩ := k
      simp only [wsRelL, wsRel, Bool.and_eq_true, decide_eq_true_eq] at h
      obtain ⟨⟨⟨⟨⟨⟨hq, ha⟩, hn⟩, htl⟩, ht⟩, hk⟩, hrest⟩ := h
      subst hq ha hn
      simp only [parseKids, hcond, if_true, ih1 _ hk, fun st' => ih2 st' _ hrest]
  case kcons =>
    intro m st w q a n t c tl rest hcond ih1 ih2 kids' h
    cases kids' with
    | nil => simp [wsRelL] at h
    | cons k ks =>
      obtain ⟨q', a', n', t', c', tl'⟩ := k
      have h0 := h
      simp only [wsRelL, Bool.and_eq_true] at h0
      obtain ⟨hhead, hrest⟩ := h0
      have hh := hhead
      simp only [wsRel, Bool.and_eq_true, decide_eq_true_eq] at hh
      obtain ⟨⟨⟨⟨⟨hq, ha⟩, hn⟩, _⟩, _⟩, _⟩ := hh
      subst hq ha hn
      simp only [parseKids, hcond, Bool.false_eq_true, if_false, fun st' => ih2 st' _ hrest]
      cases hch : childNode e Γ cfg m st q a n w with
      | error err => rfl
      | ok p =>
        obtain ⟨nd, st'⟩ := p
        have hnd := childNode_meta textlessOrSimple e Γ hΓ cfg m st q a n w nd st' hch
        simp only [bind, Except.bind, ih1 nd _ hhead hnd]
  case wnil =>
    intro var kids' h
    cases kids' with
    | nil => rfl
    | cons k ks => simp [wsRelL] at h
  case wcons =>
    intro var q a n t c tl rest ih1 ih2 kids' h
    cases kids' with
    | nil => simp [wsRelL] at h
    | cons k ks =>
      obtain ⟨q', a', n', t', c', tl'⟩ := k
      have h0 := h
      simp only [wsRelL, Bool.and_eq_true] at h0
      obtain ⟨hhead, hrest⟩ := h0
      have hh := hhead
      simp only [wsRel, Bool.and_eq_true, decide_eq_true_eq] at hh
      obtain ⟨⟨⟨⟨⟨hq, ha⟩, hn⟩, _⟩, _⟩, _⟩ := hh
      subst hq ha hn
      simp only [parseWild, ih1 _ hhead True.intro, ih2 _ hrest]

theorem parseRoot_wsRelS (e : BEnv) (Γ : Ctx) (cfg : ParserConfig) (hΓ : ctxAll textlessOrSimple Γ = true) (hs : cfg.failOnUnknownProperties = true) (c : ClassId) (t t' : Tree)
    (h : wsRel e.py t t' = true) : parseRoot e Γ cfg c t = parseRoot e Γ cfg c t' := by
  obtain ⟨q, a, n, tx, ch, tl⟩ := t
  obtain ⟨q', a', n', tx', ch', tl'⟩ := t'
  have hh := h
  simp only [wsRel, Bool.and_eq_true, decide_eq_true_eq] at hh
  obtain ⟨⟨⟨⟨⟨hq, ha⟩, hn⟩, _⟩, _⟩, _⟩ := hh
  subst hq ha hn
  simp only [parseRoot, bind, Except.bind]
  cases hx : xsiTypeOf e a n with
  | error err => rfl
  | ok xt =>
    simp only []
    cases hf : Γ.fetch c none xt with
    | error err => rfl
    | ok m =>
      have hm := fetch_all textlessOrSimple Γ hΓ c none xt m hf
      have := parseNode_wsRelS e Γ cfg hΓ hs
        (.element m a n (!(xt.isNone || m.qname = q)) (if (!(xt.isNone || m.qname = q)) = true then xt else none) (xsiNilOf a))
        _ _ h hm
      simp only [this]


end Proofs.C09
