/- C08 — helper lemmas: the source kinds of the native handler. -/
import XsdataModel.Backends.Sources
import XsdataModel.Proofs.C08Handler

namespace Xs.Backends
open Py Xs.Bind

theorem reaches_of_content (W : World) (wk : List (Str × Str)) (src : Src) (b : Bytes)
    (h : src.content W = some b) : reaches W wk src = some (W.tokenise b) := by
  cases src with
  | str s => simp [Src.content] at h; subst h; rfl
  | bytes c => simp [Src.content] at h; subst h; rfl
  | path p => simp [Src.content] at h; simp [reaches, toHSource, nativeContext, h]
  | file c => simp [Src.content] at h; subst h; rfl
  | etTree t => simp [Src.content] at h
  | etElement t => simp [Src.content] at h

theorem core_decls (d : List (Str × Str)) :
    (d.map (fun pu => PEv.registerNs (orNone pu.1) pu.2)).filterMap PEv.core = [] := by
  induction d with
  | nil => rfl
  | cons x d ih => simp [List.filterMap_cons, PEv.core, ih]

mutual
theorem pump_core_tree (t : XTree) (stack : List NsMap) (el : NsMap) (rest : List Tok) :
    (pump stack el (toks t ++ rest)).filterMap PEv.core
      = coreOf t ++ (pump stack [] rest).filterMap PEv.core := by
  match t with
  | .node d q a st tx kids tl =>
    have ih := pump_core_kids kids (mergeParent stack (declMap d el) :: stack) (Tok.end q tx tl :: rest)
    simp only [toks, coreOf, List.append_assoc, List.cons_append, List.nil_append]
    rw [pump_decls, List.filterMap_append, core_decls, List.nil_append]
    simp only [pump, List.filterMap_cons, PEv.core]
    rw [ih]
    simp only [pump, List.filterMap_cons, PEv.core]
theorem pump_core_kids (ks : List XTree) (stack : List NsMap) (rest : List Tok) :
    (pump stack [] (toksKids ks ++ rest)).filterMap PEv.core
      = coreOfKids ks ++ (pump stack [] rest).filterMap PEv.core := by
  match ks with
  | [] => simp [toksKids, coreOfKids]
  | k :: ks' =>
    simp only [toksKids, coreOfKids, List.append_assoc]
    rw [pump_core_tree k stack [] _, pump_core_kids ks' stack rest]
end

mutual
theorem coreOf_redecl (wk : List (Str × Str)) (t : XTree) (m : NsMap) :
    coreOf (redecl wk t m).1 = coreOf t := by
  match t with
  | .node d q a st tx kids tl =>
    have ih := fun m' => coreOfKids_redecl wk kids m'
    cases hu : targetUri q <;> simp [redecl, hu, coreOf, ih]
theorem coreOfKids_redecl (wk : List (Str × Str)) (ks : List XTree) (m : NsMap) :
    coreOfKids (redeclKids wk ks m).1 = coreOfKids ks := by
  match ks with
  | [] => simp [redeclKids]
  | k :: ks' =>
    simp only [redeclKids, coreOfKids]
    rw [coreOf_redecl wk k m, coreOfKids_redecl wk ks' _]
end

/-- the calls on a whole document, prefixes aside -/
theorem pump_core_doc (t : XTree) : (pump [] [] (toks t)).filterMap PEv.core = coreOf t := by
  have := pump_core_tree t [] [] []
  simpa [pump] using this

end Xs.Backends
