/-
Helper definitions and lemmas for C16: `DtdMapper.build_content` (repaired: occurrence
indicators of SEQ / OR nodes go to the restrictions path) against the language of the DTD content
model.

With the path mechanism the fields `DtdMapper` creates for a content tree `c` are *literally* the
element sites `SchemaMapper` would create for the particle `c.toParticleV` (`#PCDATA` read as an
element called `value`): `dtdSites_eq_sites`. The statements of C02 carry over.
-/
import XsdataModel.Gen.Occurs
import XsdataModel.Proofs.OccursBasic
import XsdataModel.Proofs.OccursSound
import XsdataModel.Proofs.OccursList

namespace Xs.Gen
open Py

/-! ### vocabulary of the statements -/

/-- the content tree as a particle, a `#PCDATA` node read as an element called `value`
(`DEFAULT_ATTR_NAME`, the name of the field `build_value` creates) -/
def DtdContent.toParticleV : DtdContent → Particle
  | .pcdata o => .elem "value".toList (occurBounds o).1 (occurBounds o).2
  | .element name o => .elem name (occurBounds o).1 (occurBounds o).2
  | .seq o l r =>
    let a := match l with | some c => [DtdContent.toParticleV c] | none => []
    let b := match r with | some c => [DtdContent.toParticleV c] | none => []
    .seq (occurBounds o).1 (occurBounds o).2 (a ++ b)
  | .or o l r =>
    let a := match l with | some c => [DtdContent.toParticleV c] | none => []
    let b := match r with | some c => [DtdContent.toParticleV c] | none => []
    .choice (occurBounds o).1 (occurBounds o).2 (a ++ b)

/-- the names of the fields: element names, `value` for `#PCDATA`, in document order -/
def dtdNames (c : DtdContent) : List Str := names c.toParticleV

/-- no two nodes of the content tree give a field of the same name -/
def dtdDistinct (c : DtdContent) : Bool := decide (dtdNames c).Nodup

/-- the tree has no `#PCDATA` node. `DtdMapper.build_elements` hands `build_content` an
element-content tree (no `#PCDATA` by the XML grammar), a mixed-content tree whose `#PCDATA` leaf
`build_mixed_content` has removed, or the lone `#PCDATA` node (see `dtd_pcdata_only`). -/
def noPcdata : DtdContent → Bool
  | .pcdata _ => false
  | .element _ _ => true
  | .seq _ l r =>
    (match l with | some c => noPcdata c | none => true) &&
    (match r with | some c => noPcdata c | none => true)
  | .or _ l r =>
    (match l with | some c => noPcdata c | none => true) &&
    (match r with | some c => noPcdata c | none => true)

/-- every `or` node has an alternative -/
def dtdLive (c : DtdContent) : Bool := live c.toParticleV

/-! ### `build_content` = the XSD mapper on the same particle -/

theorem buildContent_eq_sitesAux : (c : DtdContent) → ∀ (path : List PathE) (next : Nat),
    buildContent c path next = sitesAux c.toParticleV path next
  | .pcdata o => by intro path next; simp [buildContent, DtdContent.toParticleV, sitesAux, occurBounds]
  | .element name o => by
    intro path next; simp [buildContent, DtdContent.toParticleV, sitesAux, occurBounds]
  | .seq o l r => by
    intro path next
    cases l with
    | none =>
      cases r with
      | none => simp [buildContent, DtdContent.toParticleV, sitesAux, sitesList, occurBounds]
      | some cr =>
        simp [buildContent, DtdContent.toParticleV, sitesAux, sitesList, occurBounds,
          buildContent_eq_sitesAux cr]
    | some cl =>
      cases r with
      | none =>
        simp [buildContent, DtdContent.toParticleV, sitesAux, sitesList, occurBounds,
          buildContent_eq_sitesAux cl]
      | some cr =>
        simp [buildContent, DtdContent.toParticleV, sitesAux, sitesList, occurBounds,
          buildContent_eq_sitesAux cl, buildContent_eq_sitesAux cr]
  | .or o l r => by
    intro path next
    cases l with
    | none =>
      cases r with
      | none => simp [buildContent, DtdContent.toParticleV, sitesAux, sitesList, occurBounds]
      | some cr =>
        simp [buildContent, DtdContent.toParticleV, sitesAux, sitesList, occurBounds,
          buildContent_eq_sitesAux cr]
    | some cl =>
      cases r with
      | none =>
        simp [buildContent, DtdContent.toParticleV, sitesAux, sitesList, occurBounds,
          buildContent_eq_sitesAux cl]
      | some cr =>
        simp [buildContent, DtdContent.toParticleV, sitesAux, sitesList, occurBounds,
          buildContent_eq_sitesAux cl, buildContent_eq_sitesAux cr]

/-- the fields `DtdMapper` creates are the element sites of the particle -/
theorem dtdSites_eq_sites (c : DtdContent) : dtdSites c = sites c.toParticleV := by
  rw [dtdSites_eq, sites_eq, buildContent_eq_sitesAux]

/-- without `#PCDATA` the particle is the content model `lxml.etree.DTD` validates -/
theorem toParticle_eq_toParticleV : (c : DtdContent) → noPcdata c = true →
    c.toParticle = some c.toParticleV
  | .pcdata o => by intro h; simp [noPcdata] at h
  | .element name o => by intro _; simp [DtdContent.toParticle, DtdContent.toParticleV]
  | .seq o l r => by
    intro h
    cases l with
    | none =>
      cases r with
      | none => simp [DtdContent.toParticle, DtdContent.toParticleV]
      | some cr =>
        simp only [noPcdata, Bool.true_and] at h
        simp [DtdContent.toParticle, DtdContent.toParticleV, toParticle_eq_toParticleV cr h]
    | some cl =>
      cases r with
      | none =>
        simp only [noPcdata, Bool.and_true] at h
        simp [DtdContent.toParticle, DtdContent.toParticleV, toParticle_eq_toParticleV cl h]
      | some cr =>
        simp only [noPcdata, Bool.and_eq_true] at h
        simp [DtdContent.toParticle, DtdContent.toParticleV, toParticle_eq_toParticleV cl h.1,
          toParticle_eq_toParticleV cr h.2]
  | .or o l r => by
    intro h
    cases l with
    | none =>
      cases r with
      | none => simp [DtdContent.toParticle, DtdContent.toParticleV]
      | some cr =>
        simp only [noPcdata, Bool.true_and] at h
        simp [DtdContent.toParticle, DtdContent.toParticleV, toParticle_eq_toParticleV cr h]
    | some cl =>
      cases r with
      | none =>
        simp only [noPcdata, Bool.and_true] at h
        simp [DtdContent.toParticle, DtdContent.toParticleV, toParticle_eq_toParticleV cl h]
      | some cr =>
        simp only [noPcdata, Bool.and_eq_true] at h
        simp [DtdContent.toParticle, DtdContent.toParticleV, toParticle_eq_toParticleV cl h.1,
          toParticle_eq_toParticleV cr h.2]

theorem occurBounds_le (o : Occur) : (occurBounds o).1 ≤ (occurBounds o).2 := by
  cases o <;> simp [occurBounds, buildOccurs] <;> decide

/-- the four occurrence indicators of a DTD describe non-empty ranges -/
theorem wf_toParticleV : (c : DtdContent) → wf c.toParticleV = true
  | .pcdata o => by simp [DtdContent.toParticleV, wf, occurBounds_le]
  | .element name o => by simp [DtdContent.toParticleV, wf, occurBounds_le]
  | .seq o l r => by
    cases l with
    | none =>
      cases r with
      | none => simp [DtdContent.toParticleV, wf, wfList, occurBounds_le]
      | some cr => simp [DtdContent.toParticleV, wf, wfList, occurBounds_le, wf_toParticleV cr]
    | some cl =>
      cases r with
      | none => simp [DtdContent.toParticleV, wf, wfList, occurBounds_le, wf_toParticleV cl]
      | some cr =>
        simp [DtdContent.toParticleV, wf, wfList, occurBounds_le, wf_toParticleV cl, wf_toParticleV cr]
  | .or o l r => by
    cases l with
    | none =>
      cases r with
      | none => simp [DtdContent.toParticleV, wf, wfList, occurBounds_le]
      | some cr => simp [DtdContent.toParticleV, wf, wfList, occurBounds_le, wf_toParticleV cr]
    | some cl =>
      cases r with
      | none => simp [DtdContent.toParticleV, wf, wfList, occurBounds_le, wf_toParticleV cl]
      | some cr =>
        simp [DtdContent.toParticleV, wf, wfList, occurBounds_le, wf_toParticleV cl, wf_toParticleV cr]

/-! ### the statements for `occurs (dtdSites c)` -/

theorem dtdSites_names (c : DtdContent) : (dtdSites c).map (·.name) = dtdNames c := by
  rw [dtdSites_eq_sites, sites_names]; rfl

theorem occurs_dtdSites (c : DtdContent) (hd : (dtdNames c).Nodup) :
    occurs (dtdSites c) = (dtdSites c).map processAttrPath := by
  rw [dtdSites_eq_sites]; exact occurs_sites _ hd

theorem dtd_nonlist_sound_core (c : DtdContent) (hp : noPcdata c = true) (hd : (dtdNames c).Nodup)
    (p : Particle) (hcp : c.toParticle = some p) (w : List Str) (hw : Matches p w)
    (s : Site) (hs : s ∈ occurs (dtdSites c))
    (hl : s.isList = false) : w.count s.name ≤ 1 := by
  rw [toParticle_eq_toParticleV c hp, Option.some.injEq] at hcp
  subst hcp
  rw [dtdSites_eq_sites] at hs
  exact nonlist_sound_core _ hd w hw s hs hl

theorem dtd_required_sound_core (c : DtdContent) (hp : noPcdata c = true) (hd : (dtdNames c).Nodup)
    (p : Particle) (hcp : c.toParticle = some p) (w : List Str) (hw : Matches p w)
    (s : Site) (hs : s ∈ occurs (dtdSites c))
    (hr : 1 ≤ s.min) (hl : s.isList = false) : w.count s.name = 1 := by
  rw [toParticle_eq_toParticleV c hp, Option.some.injEq] at hcp
  subst hcp
  rw [dtdSites_eq_sites] at hs
  exact required_sound_core _ hd (wf_toParticleV c) w hw s hs hr hl

theorem dtd_list_needed_core (c : DtdContent) (hp : noPcdata c = true) (hd : (dtdNames c).Nodup)
    (hlive : dtdLive c = true) (p : Particle) (hcp : c.toParticle = some p)
    (s : Site) (hs : s ∈ occurs (dtdSites c))
    (hl : s.isList = true) : ∃ w, Matches p w ∧ 2 ≤ w.count s.name := by
  rw [toParticle_eq_toParticleV c hp, Option.some.injEq] at hcp
  subst hcp
  rw [dtdSites_eq_sites] at hs
  exact list_needed_core _ hd (wf_toParticleV c) hlive s hs hl

end Xs.Gen
