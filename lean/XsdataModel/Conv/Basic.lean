/-
L1 — xsdata/formats/converter.py : the string-level helpers shared by the
converters, and Bool/Int/Str converters.

`CEnv` extends the Unicode environment of `Py.Env` by the two further
interpreter facts the converters depend on: `str.isalpha()` for non-ASCII
characters (for `is_ncname`) and `repr(float(s))` (CPython's correctly rounded
decimal→binary→shortest-decimal conversion, which is not modelled).
-/
import XsdataModel.Py.Basic
import XsdataModel.Tables

namespace Xs.Conv
open Py

structure CEnv extends Env where
  /-- `c.isalpha()` for non-ASCII `c` -/
  isAlphaNA : Char → Bool
  /-- `repr(float(s))` for a string `s` that `float()` accepts -/
  floatRepr : Str → Str

def isAsciiAlpha (c : Char) : Bool :=
  (65 ≤ c.toNat && c.toNat ≤ 90) || (97 ≤ c.toNat && c.toNat ≤ 122)

/-- `c.isalpha()` -/
def CEnv.isAlpha (e : CEnv) (c : Char) : Bool :=
  if isAscii c then isAsciiAlpha c else e.isAlphaNA c

/-- the four characters XML Schema calls white space -/
def isXsdSpace (c : Char) : Bool := c = ' ' || c = '\t' || c = '\n' || c = '\r'

/-- C `isspace` in the "C" locale (`Py_ISSPACE`): \t \n \v \f \r and space -/
def isCSpace (c : Char) : Bool := (9 ≤ c.toNat && c.toNat ≤ 13) || c.toNat = 32

/-- White space skipped by `int(str)` / `float(str)`: CPython first rewrites
non-ASCII `isspace()` characters to `' '` (`_PyUnicode_TransformDecimalAndSpaceToASCII`)
and then skips `Py_ISSPACE` characters; the ASCII separators FS GS RS US
(`str.isspace()` is true for them) are *not* skipped. -/
def numSpace (e : Env) (c : Char) : Bool :=
  if isAscii c then isCSpace c else e.isSpaceNA c

def numStrip (e : Env) (s : Str) : Str :=
  ((s.dropWhile (numSpace e)).reverse.dropWhile (numSpace e)).reverse

/-- `int(s)` for a `str`, base 10 (same body grammar as `Py.Env.pyInt`, but with
the white space `int()` really skips). -/
def pyIntC (e : Env) (s : Str) : Option Int :=
  let t := numStrip e s
  match t with
  | [] => none
  | c :: cs =>
    let (neg, body) := if c = '-' then (true, cs) else if c = '+' then (false, cs) else (false, t)
    match body with
    | [] => none
    | _ =>
      match intBody e body false with
      | some ds => some (if neg then -(Int.ofNat (digitsVal ds)) else Int.ofNat (digitsVal ds))
      | none => none

/-- `s.partition(c)` for a one-character separator: (left, right) and whether
the separator was found -/
def partitionChar (c : Char) : Str → Str × Bool × Str
  | [] => ([], false, [])
  | x :: xs =>
    if x = c then ([], true, xs)
    else
      let r := partitionChar c xs
      (x :: r.1, r.2.1, r.2.2)

/-- `xsdata.utils.text.split(value, sep)`:
`left, _, right = value.partition(sep); return (left, right) if right else (None, left)` -/
def textSplit (s : Str) (c : Char) : Option Str × Str :=
  let r := partitionChar c s
  if r.2.2.isEmpty then (none, r.1) else (some r.1, r.2.2)

/-- ASCII part of `str.upper()` (the only part `repr(float)` can exercise) -/
def upperAscii (c : Char) : Char :=
  if 97 ≤ c.toNat && c.toNat ≤ 122 then Char.ofNat (c.toNat - 32) else c

/-- `s.replace(old, new)` for a non-empty `old`; the counter is the number of
characters of the current match still to be skipped -/
def replaceAux (old new : Str) : Nat → Str → Str
  | _, [] => []
  | skip + 1, _ :: cs => replaceAux old new skip cs
  | 0, c :: cs =>
    if old.isPrefixOf (c :: cs) then new ++ replaceAux old new (old.length - 1) cs
    else c :: replaceAux old new 0 cs

def replaceAll (old new s : Str) : Str := if old.isEmpty then s else replaceAux old new 0 s

/-- `s.split()` (no argument): maximal runs of non-`isspace()` characters -/
def splitWsAux (e : Env) : Str → Str → List Str
  | [], cur => if cur.isEmpty then [] else [cur.reverse]
  | c :: cs, cur =>
    if e.isSpace c then
      (if cur.isEmpty then splitWsAux e cs [] else cur.reverse :: splitWsAux e cs [])
    else splitWsAux e cs (c :: cur)

def splitWs (e : Env) (s : Str) : List Str := splitWsAux e s []

/-- `" ".join(xs)` -/
def joinSp : List Str → Str
  | [] => []
  | [x] => x
  | x :: xs => x ++ ' ' :: joinSp xs

/-- `re.sub(r"\s+", "", s)` -/
def removeWs (e : Env) (s : Str) : Str := s.filter (fun c => !e.isSpace c)

/-! ### BoolConverter -/

/-- `BoolConverter.deserialize` for a `str`; `none` = `ConverterError` -/
def boolDeserialize (e : Env) (s : Str) : Option Bool :=
  let v := e.strip s
  if Tables.boolTrueLits.contains v then some true
  else if Tables.boolFalseLits.contains v then some false
  else none

/-- `BoolConverter.serialize` -/
def boolSerialize (b : Bool) : Str := if b then Tables.boolTrueStr else Tables.boolFalseStr

/-! ### IntConverter -/

def intDeserialize (e : Env) (s : Str) : Option Int := pyIntC e s
def intSerialize (i : Int) : Str := intStr i

end Xs.Conv
