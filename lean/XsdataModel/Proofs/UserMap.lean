/- `clean_prefixes` output + the decidable `userMapOK` give the map invariant. -/
import XsdataModel.Proofs.Generator

namespace Proofs.UserMap
open Py Xs.Ns Xs.Sax Xs.Writer Spec.XmlNs Spec.EventTree Proofs.MapInv Proofs.Flush Spec.Hyps

theorem cleanLoop_nodup (raw : List (Pfx × Str)) : ∀ acc, NoDupKeys acc → NoDupKeys (cleanLoop raw acc) := by
  induction raw with
  | nil => intro acc h; exact h
  | cons e r ih =>
    obtain ⟨p, ns⟩ := e
    intro acc h
    simp only [cleanLoop]
    by_cases hns : ns.isEmpty = true
    · rw [if_pos hns]; exact ih acc h
    · rw [if_neg hns]
      generalize normPfx p = p'
      by_cases hh : dhas acc p' = true
      · rw [if_pos hh]; exact ih acc h
      · rw [if_neg hh]; exact ih _ (NoDupKeys_dset _ _ _ h)

theorem cleanPrefixes_nodup (raw : List (Pfx × Str)) : NoDupKeys (cleanPrefixes raw) := by
  unfold cleanPrefixes
  have h := cleanLoop_nodup raw [] (by simp [NoDupKeys])
  simp only []
  split
  · split
    · exact NoDupKeys_dpop _ _ h
    · exact h
  · exact h

theorem dget_dpop_same {κ ν : Type} [DecidableEq κ] (m : List (κ × ν)) (k : κ) (h : NoDupKeys m) :
    dget (dpop m k) k = none := by
  induction m with
  | nil => rfl
  | cons e r ih =>
    obtain ⟨k0, v0⟩ := e
    simp only [NoDupKeys] at h
    by_cases h0 : k0 = k
    · subst h0
      simp only [dpop, if_true]
      exact (dget_none_iff r k0).mpr h.1
    · simp [dpop, dget, h0, ih h.2]

/-- after `clean_prefixes`, the default namespace is not also bound to a prefix -/
theorem cleanPrefixes_nodflt (raw : List (Pfx × Str)) (hdecl : (cleanPrefixes raw).all declOK = true) :
    ∀ s u, dget (cleanPrefixes raw) (some s) = some u → dget (cleanPrefixes raw) none ≠ some u := by
  intro s u hs hn
  have hsne : s ≠ [] := by
    have := (List.all_eq_true.mp hdecl) (some s, u) (dget_some_mem _ _ _ hs)
    exact isNCName_ne_nil s (declOK_prefix_ncname s u this)
  have hune : u ≠ [] := declOK_some_ne_nil s u ((List.all_eq_true.mp hdecl) (some s, u) (dget_some_mem _ _ _ hs))
  unfold cleanPrefixes at hs hn
  have hnd := cleanLoop_nodup raw [] (by simp [NoDupKeys])
  generalize cleanLoop raw [] = result at hs hn hnd
  simp only [] at hs hn
  cases hd : dget result none with
  | none =>
    rw [hd] at hs hn
    simp only [] at hn
    rw [hd] at hn; cases hn
  | some dv =>
    rw [hd] at hs hn
    simp only [] at hs hn
    by_cases hcond : (!dv.isEmpty && result.any (fun e => e.1.isSome && e.1 != some [] && e.2 = dv)) = true
    · rw [if_pos hcond] at hn
      rw [dget_dpop_same result none hnd] at hn
      cases hn
    · rw [if_neg hcond] at hs hn
      rw [hd] at hn
      cases hn
      apply hcond
      simp only [Bool.and_eq_true, Bool.not_eq_true', List.any_eq_true, bne_iff_ne, ne_eq, decide_eq_true_eq]
      refine ⟨isEmpty_false_of_ne_nil u hune, (some s, u), dget_some_mem _ _ _ hs, ⟨rfl, ?_⟩, rfl⟩
      simpa using hsne
where
  isEmpty_false_of_ne_nil (u : Str) (h : u ≠ []) : u.isEmpty = false := by
    cases u with
    | nil => exact absurd rfl h
    | cons _ _ => rfl

/-- the cleaned user map never binds its default namespace to a prefix as well -/
theorem serializerNsMap_nodflt (env : NsEnv) (m : List (Pfx × Str)) (h : userMapOK env m = true) :
    ∀ s u, dget (serializerNsMap m) (some s) = some u → dget (serializerNsMap m) none ≠ some u := by
  simp only [userMapOK, Bool.and_eq_true] at h
  replace h := h.1
  unfold serializerNsMap at h ⊢
  split
  · intro s u hs; simp [dget] at hs
  · rename_i hne
    simp only [hne] at h
    exact cleanPrefixes_nodflt m (by simpa using h)

/-- the cleaned user map satisfies the invariant -/
theorem userMapOK_MapOK (env : NsEnv) (m : List (Pfx × Str)) (h : userMapOK env m = true) :
    MapOK env (userDefault m) (serializerNsMap m) := by
  simp only [userMapOK, Bool.and_eq_true] at h
  replace h := h.1
  have hnd : NoDupKeys (serializerNsMap m) := by
    unfold serializerNsMap
    split
    · simp [NoDupKeys]
    · exact cleanPrefixes_nodup m
  refine ⟨hnd, List.all_eq_true.mp h, ?_⟩
  intro u hu
  right
  unfold userDefault
  exact hu.symm

theorem userMapOK_valid (env : NsEnv) (m : List (Pfx × Str)) (h : userMapOK env m = true) :
    prefixesValid env (serializerNsMap m) = true := by
  simp only [userMapOK, Bool.and_eq_true] at h
  exact h.2

end Proofs.UserMap
