/-
L7 — interleaved semantics of threads sharing one `XmlContext` (C19).

Atomic step = one operation on a shared container or slot (`in`, `[]`, `[]=`,
`clear`, reading / writing `sys_modules`, assigning `xsi_cache`) — the
granularity the GIL guarantees.  A thread's state names the operation it is
about to perform.  `self.xsi_cache` is a *reference*: the shared state holds a
heap of dict objects and the number of the one currently published; an
expression like `qname in self.xsi_cache` first reads the reference (at the end
of the thread's previous step) and then operates on that object, even if
another thread has published a different one in between.  `find_types` reads
the reference twice, as the code does.

`build_xsi_cache` (as repaired in 556b985) reads `len(sys.modules)`, builds the
index in a *local* dict — modelled as one thread-local step per binding class,
touching no shared state —, publishes it with one assignment to
`self.xsi_cache` and then writes `self.sys_modules`.

`reset()` (`cache.clear()`, `xsi_cache.clear()`, `sys_modules = 0`) is a third
kind of thread; the positive theorems exclude it, counterexamples show why.
-/
import XsdataModel.Ctx.Spec

namespace Xs.Ctx
open Py

abbrev Index := List (Str × List ClassId)

/-- the shared state with `xsi_cache` as a reference into a heap of dict objects -/
structure CState where
  cache : List (ClassId × Meta)
  /-- every dict object that was ever assigned to `self.xsi_cache`, by object number -/
  heap : List Index
  /-- `self.xsi_cache` -/
  ref : Nat
  sysModules : Nat
  deriving DecidableEq, Repr

def CState.ofState (s : State) : CState := ⟨s.cache, [s.xsi], 0, s.sysModules⟩

/-- the dict object number `d` -/
def CState.dict (s : CState) (d : Nat) : Index := (s.heap[d]?).getD []

/-- what a sequential observer sees -/
def CState.toState (s : CState) : State := ⟨s.cache, s.dict s.ref, s.sysModules⟩

/-- what a thread was asked to do -/
inductive Prog
  | build (c : ClassId) (pns : Option Str)
  | findTypes (q : Str)
  | reset
  deriving DecidableEq, Repr

inductive TState
  /-- `if clazz not in self.cache` -/
  | bCheck (c : ClassId) (p : Option Str)
  /-- the meta has been built (thread-local); `self.cache[clazz] = meta` is pending -/
  | bWrite (c : ClassId) (m : Meta)
  /-- `return self.cache[clazz]` -/
  | bRead (c : ClassId)
  /-- `if len(sys.modules) == self.sys_modules: return` -/
  | xCheck (q : Str)
  /-- thread-local: the next binding class of `todo` goes into the local index `acc` -/
  | xLocal (q : Str) (todo : List ClassId) (acc : Index)
  /-- `self.xsi_cache = xsi_cache` -/
  | xPublish (q : Str) (acc : Index)
  /-- `self.sys_modules = sys_modules` -/
  | xStamp (q : Str)
  /-- `if qname in self.xsi_cache`, the reference already read: object `d` -/
  | xContains (q : Str) (d : Nat)
  /-- `return self.xsi_cache[qname]` on object `d` (a `defaultdict`: a missing key is inserted) -/
  | xGet (q : Str) (d : Nat)
  /-- `self.cache.clear()` -/
  | rCache
  /-- `self.xsi_cache.clear()` on object `d` -/
  | rXsi (d : Nat)
  /-- `self.sys_modules = 0` -/
  | rStamp
  | done (o : Out)
  deriving DecidableEq, Repr

/-- the state after the thread ran up to its first shared operation -/
def Prog.start : Prog → TState
  | .build c p => .bCheck c p
  | .findTypes q => if isDataType q then .done (.gotTypes []) else .xCheck q
  | .reset => .rCache

/-- the binding models `build_xsi_cache` visits, in `get_subclasses(object)` order -/
def bindingClasses (U : Universe) (n : Nat) : List ClassId := (subclassOrder U n).filter (isBinding U)

/-- the loop body for one binding class: `if meta.target_qname: xsi_cache[...].append(clazz)` -/
def localAdd (U : Universe) (acc : Index) (c : ClassId) : Index :=
  match indexKey U c with
  | some k => dictAppend acc k c
  | none => acc

def afterLocal (q : Str) (todo : List ClassId) (acc : Index) : TState :=
  match todo with
  | [] => .xPublish q acc
  | _ => .xLocal q todo acc

/-- perform the pending operation, then run to the next one -/
def stepT (U : Universe) (w : World) (s : CState) : TState → CState × TState
  | .bCheck c p =>
    match s.cache.lookup c with
    | some _ => (s, .bRead c)
    | none =>
      match pureBuild U c p with
      | .ok m => (s, .bWrite c m)
      | .error e => (s, .done (.raised e))
  | .bWrite c m => ({ s with cache := dictSet s.cache c m }, .bRead c)
  | .bRead c =>
    match s.cache.lookup c with
    | some m => (s, .done (.gotMeta m))
    | none => (s, .done (.raised .index))
  | .xCheck q =>
    if w.mods + 1 = s.sysModules then (s, .xContains q s.ref)
    else (s, afterLocal q (bindingClasses U w.loaded) [])
  | .xLocal q [] acc => (s, .xPublish q acc)
  | .xLocal q (c :: rest) acc => (s, afterLocal q rest (localAdd U acc c))
  | .xPublish q acc => ({ s with heap := s.heap ++ [acc], ref := s.heap.length }, .xStamp q)
  | .xStamp q => ({ s with sysModules := w.mods + 1 }, .xContains q s.ref)
  | .xContains q d =>
    match (s.dict d).lookup q with
    | some _ => (s, .xGet q s.ref)
    | none => (s, .done (.gotTypes []))
  | .xGet q d =>
    match (s.dict d).lookup q with
    | some l => (s, .done (.gotTypes l))
    | none => ({ s with heap := s.heap.set d (s.dict d ++ [(q, [])]) }, .done (.gotTypes []))
  | .rCache => ({ s with cache := [] }, .rXsi s.ref)
  | .rXsi d => ({ s with heap := s.heap.set d [] }, .rStamp)
  | .rStamp => ({ s with sysModules := 0 }, .done .done)
  | .done o => (s, .done o)

structure Thread where
  prog : Prog
  st : TState
  deriving DecidableEq, Repr

structure Sys where
  shared : CState
  threads : List Thread
  deriving DecidableEq, Repr

def Sys.start (s : State) (progs : List Prog) : Sys :=
  ⟨CState.ofState s, progs.map fun p => ⟨p, p.start⟩⟩

/-- let thread `i` perform one atomic step (no-op if it does not exist or is finished) -/
def sched (U : Universe) (w : World) (sys : Sys) (i : Nat) : Sys :=
  match sys.threads[i]? with
  | none => sys
  | some th =>
    let (s', st') := stepT U w sys.shared th.st
    ⟨s', sys.threads.set i ⟨th.prog, st'⟩⟩

def runSched (U : Universe) (w : World) : Sys → List Nat → Sys
  | sys, [] => sys
  | sys, i :: rest => runSched U w (sched U w sys i) rest

/-- the thread is inside `XmlContext.build` -/
def TState.isB : TState → Bool
  | .bCheck _ _ => true
  | .bWrite _ _ => true
  | .bRead _ => true
  | _ => false

/-- the thread is inside `build_xsi_cache` / `find_types` -/
def TState.isX : TState → Bool
  | .xCheck _ => true
  | .xLocal _ _ _ => true
  | .xPublish _ _ => true
  | .xStamp _ => true
  | .xContains _ _ => true
  | .xGet _ _ => true
  | _ => false

/-- the thread is inside `reset` -/
def TState.isR : TState → Bool
  | .rCache => true
  | .rXsi _ => true
  | .rStamp => true
  | _ => false

def TState.isDone : TState → Bool
  | .done _ => true
  | _ => false

/-- an upper bound on the number of steps the thread still has to perform
(`n` = number of binding classes a rebuild visits) -/
def TState.remaining (n : Nat) : TState → Nat
  | .bCheck _ _ => 3
  | .bWrite _ _ => 2
  | .bRead _ => 1
  | .xCheck _ => n + 6
  | .xLocal _ todo _ => todo.length + 5
  | .xPublish _ _ => 4
  | .xStamp _ => 3
  | .xContains _ _ => 2
  | .xGet _ _ => 1
  | .rCache => 3
  | .rXsi _ => 2
  | .rStamp => 1
  | .done _ => 0

/-- after the prescribed schedule: let the threads finish one after the other -/
def drainThread (U : Universe) (w : World) (i : Nat) : Nat → Sys → Sys
  | 0, sys => sys
  | fuel + 1, sys =>
    match sys.threads[i]? with
    | some th => if th.st.isDone then sys else drainThread U w i fuel (sched U w sys i)
    | none => sys

def drain (U : Universe) (w : World) (sys : Sys) : Sys :=
  (List.range sys.threads.length).foldl
    (fun acc i => drainThread U w i ((bindingClasses U w.loaded).length + 8) acc) sys

def Sys.results (sys : Sys) : List (Option Out) :=
  sys.threads.map fun th =>
    match th.st with
    | .done o => some o
    | _ => none

/-- the requests of the build threads -/
def progUses : List Prog → List Use
  | [] => []
  | .build c p :: rest => (c, p) :: progUses rest
  | _ :: rest => progUses rest

/-- no thread calls `reset()` -/
def noReset (progs : List Prog) : Prop := ∀ p ∈ progs, p ≠ Prog.reset

instance (progs : List Prog) : Decidable (noReset progs) :=
  inferInstanceAs (Decidable (∀ p ∈ progs, p ≠ Prog.reset))

/-- what the thread returns when it runs alone on a fresh context -/
def Prog.alone (U : Universe) (w : World) : Prog → Out
  | .build c p => outMeta (pureBuild U c p)
  | .findTypes q => .gotTypes (pureTypes U w q)
  | .reset => .done

end Xs.Ctx
