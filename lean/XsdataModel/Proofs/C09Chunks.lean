/- C09 helper lemmas: reading the tail when the next event arrives gives the tail of the infoset,
wherever the read chunks end. -/
import XsdataModel.Backends.Chunks

namespace Xs.Backends
open Py

theorem leadChars_append_of_hasTag (a b : List CTok) (h : hasTag a = true) : leadChars (a ++ b) = leadChars a := by
  induction a with
  | nil => simp [hasTag] at h
  | cons t rest ih =>
    cases t with
    | tag e q => rfl
    | chars s =>
      simp only [hasTag, List.any_cons, CTok.isTag, Bool.false_or] at h
      simp only [List.cons_append, leadChars, ih h]

theorem leadChars_append_of_noTag (a b : List CTok) (h : hasTag a = false) :
    leadChars (a ++ b) = leadChars a ++ leadChars b := by
  induction a with
  | nil => rfl
  | cons t rest ih =>
    cases t with
    | tag e q => simp [hasTag, CTok.isTag] at h
    | chars s =>
      simp only [hasTag, List.any_cons, CTok.isTag, Bool.false_or] at h
      simp only [List.cons_append, leadChars, ih h, List.append_assoc]

theorem leadChars_afterUntilTag (later : List (List CTok)) : ∀ r : List CTok,
    leadChars (afterUntilTag r later) = leadChars (r ++ later.flatten) := by
  induction later with
  | nil => intro r; simp [afterUntilTag]
  | cons c cs ih =>
    intro r
    simp only [afterUntilTag, List.flatten_cons]
    by_cases h : hasTag r = true
    · simp only [h, if_true, leadChars_append_of_hasTag r _ h]
    · have h' : hasTag r = false := by simpa using h
      simp only [h', Bool.false_eq_true, if_false]
      rw [leadChars_append_of_noTag r _ h', leadChars_append_of_noTag r _ h', ih c]

theorem tailOf_congr {a b : List CTok} (h : leadChars a = leadChars b) : tailOf a = tailOf b := by
  unfold tailOf; rw [h]

theorem deferredRead_eq (pv : List CTok → Option Str) (r : List CTok) (later : List (List CTok)) :
    deferredRead pv r later = tailOf (r ++ later.flatten) := by
  unfold deferredRead seenTail
  have := tailOf_congr (leadChars_afterUntilTag later r)
  by_cases h : hasTag (afterUntilTag r later) = true <;> simp [h, this]

/-- the tails of the end tags of `c` when `rest` follows -/
def specChunk (rest : List CTok) : List CTok → List (Option Str)
  | [] => []
  | .tag true _ :: r => tailOf (r ++ rest) :: specChunk rest r
  | _ :: r => specChunk rest r

theorem deferredChunk_eq (pv : List CTok → Option Str) (later : List (List CTok)) (c : List CTok) :
    deferredChunk pv later c = specChunk later.flatten c := by
  induction c with
  | nil => rfl
  | cons t r ih =>
    cases t with
    | tag e q =>
      cases e
      · simp only [deferredChunk, specChunk, ih]
      · simp only [deferredChunk, specChunk, ih, deferredRead_eq]
    | chars s => simp only [deferredChunk, specChunk, ih]

theorem specReads_append (c rest : List CTok) : specReads (c ++ rest) = specChunk rest c ++ specReads rest := by
  induction c with
  | nil => rfl
  | cons t r ih =>
    cases t with
    | tag e q =>
      cases e
      · simp only [List.cons_append, specReads, specChunk, ih]
      · simp only [List.cons_append, specReads, specChunk, ih, List.cons_append]
    | chars s => simp only [List.cons_append, specReads, specChunk, ih]

theorem deferredReads_eq (pv : List CTok → Option Str) (chunks : List (List CTok)) :
    deferredReads pv chunks = specReads chunks.flatten := by
  induction chunks with
  | nil => rfl
  | cons c cs ih =>
    simp only [deferredReads, List.flatten_cons, specReads_append, deferredChunk_eq, ih]

end Xs.Backends
