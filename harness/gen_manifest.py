"""Write /verif/MANIFEST.json from the plug-ins that exist (keeps it valid at all times)."""
import importlib
import json
import os
import sys

HERE = os.path.dirname(os.path.abspath(__file__))
VERIF = os.path.dirname(HERE)
sys.path.insert(0, HERE)
sys.path.insert(0, os.path.join(HERE, "shims"))
sys.path.insert(0, os.environ.get("XSDATA_REPO", "/repo"))
sys.dont_write_bytecode = True

props = [json.loads(l) for l in open(os.path.join(VERIF, "properties.jsonl"))]
checks, na = [], []
for p in props:
    pid = p["id"]
    path = os.path.join(HERE, "props", pid.lower() + ".py")
    if not os.path.exists(path):
        na.append({"property_id": pid, "reason": "no check built yet in this framework (see DESIGN.md section 6 for the plan); not claimed"})
        continue
    m = importlib.import_module("props." + pid.lower())
    if getattr(m, "NOT_CLAIMED", None):
        na.append({"property_id": pid, "reason": m.NOT_CLAIMED})
        continue
    checks.append(
        {
            "property_id": pid,
            "quick_cmd": f"./check {pid} --tier quick",
            "thorough_cmd": f"./check {pid} --tier thorough",
            "evidence_file": f"/verif/evidence/{pid}.json",
            "replay_cmd_template": f"./check {pid} --replay {{path}}",
            "engine": "lean-model+correspondence",
            "level_claimed": {
                "category": "proof",
                "text": m.LEVEL_TEXT,
                "design_ref": getattr(m, "DESIGN_REF", ""),
            },
            "level_note": m.LEVEL_NOTE,
            "technique": getattr(m, "TECHNIQUE", "Lean 4 theorems about a hand-written executable model + differential correspondence check against /repo"),
        }
    )
man = {
    "version": 1,
    "setup_cmd": "/venv/bin/python harness/extract_tables.py && cd lean && lake build",
    "hooks": {
        "guard": "XSDATA_VERIF",
        "enable": "no source hooks are needed so far: checks import /repo's working tree in-process and instrument shared containers from outside (DESIGN.md 3.3)",
        "baseline_off_cmd": "cd /repo && /venv/bin/python -m pytest -ra -q -p no:cacheprovider --timeout=900 --continue-on-collection-errors",
        "source_commits": [],
        "add_only": True,
    },
    "engines": [
        {
            "name": "lean-model+correspondence",
            "path": "check",
            "serves_properties": [c["property_id"] for c in checks],
            "kind_free_text": "Lean 4 model (lean/XsdataModel) with property theorems in Props/Cxx.lean, axiom audit, tables regenerated from /repo, compiled Lean driver compared with the real Python code through a JSON line protocol (harness/)",
        }
    ],
    "checks": checks,
    "not_applicable": na,
    "notes": "VERIF_SEED seeds every random choice. exit 2 = infrastructure failure (never a VIOLATION). known_findings.json lists recorded genuine defects.",
}
json.dump(man, open(os.path.join(VERIF, "MANIFEST.json"), "w"), indent=1)
print("claimed:", [c["property_id"] for c in checks])
