import XsdataModel.Py.Basic
import XsdataModel.Py.TblEnv
import XsdataModel.Tables
import XsdataModel.Lex.Dates
import XsdataModel.Ctx.Names
import XsdataModel.Ctx.Universe
import XsdataModel.Ctx.Context
