/- Helper lemmas: `int(str)` on XSD integer lexical forms. -/
import XsdataModel.Spec.Xsd

namespace Xs.Conv
open Py Xs.Spec

theorem digits_tight (p : Char → Bool) (ds : Str) (hne : ds ≠ []) (hp : ∀ c ∈ ds, p c = false) :
    Tight p ds := by
  right
  constructor
  · cases ds with
    | nil => exact absurd rfl hne
    | cons a r => exact ⟨a, r, rfl, hp a (by simp)⟩
  · obtain ⟨r, z, h⟩ := exists_last ds hne
    exact ⟨r, z, h, hp z (by simp [h])⟩

theorem signed_tight (p : Char → Bool) (sg : Sign) (ds : Str) (hne : ds ≠ [])
    (hp : ∀ c ∈ ds, p c = false) (hplus : p '+' = false) (hminus : p '-' = false) :
    Tight p (sg.str ++ ds) := by
  obtain ⟨r, z, h⟩ := exists_last ds hne
  right
  constructor
  · cases sg with
    | none =>
      cases ds with
      | nil => exact absurd rfl hne
      | cons a r => exact ⟨a, r, rfl, hp a (by simp)⟩
    | plus => exact ⟨'+', ds, rfl, hplus⟩
    | minus => exact ⟨'-', ds, rfl, hminus⟩
  · exact ⟨sg.str ++ r, z, by simp [h], hp z (by simp [h])⟩

theorem digit_ne_minus (c : Char) (h : isAsciiDigit c = true) : c ≠ '-' := by
  intro hx; subst hx; revert h; decide

theorem digit_ne_plus (c : Char) (h : isAsciiDigit c = true) : c ≠ '+' := by
  intro hx; subst hx; revert h; decide

/-- `int()` on a tight signed digit string -/
theorem pyIntC_signed (e : Env) (pre post : Str) (sg : Sign) (ds : Str)
    (hpre : AllXsdSpace pre) (hpost : AllXsdSpace post) (hne : ds ≠ []) (hd : AllDigits ds) :
    pyIntC e (pre ++ (sg.str ++ ds) ++ post) =
      some (if sg.neg then -(Int.ofNat (digitsNat ds)) else Int.ofNat (digitsNat ds)) := by
  have hns : ∀ c ∈ ds, numSpace e c = false := fun c hc => digit_not_numSpace e c (hd c hc)
  have hplus : numSpace e '+' = false := by rw [numSpace_ascii e _ (by decide)]; decide
  have hminus : numSpace e '-' = false := by rw [numSpace_ascii e _ (by decide)]; decide
  unfold pyIntC
  rw [numStrip_xsd_pad e pre _ post hpre hpost (signed_tight _ sg ds hne hns hplus hminus)]
  have hbody := intBody_digits e ds false hd (Or.inl hne)
  cases ds with
  | nil => exact absurd rfl hne
  | cons d ds' =>
    have hdd : isAsciiDigit d = true := hd d (by simp)
    cases sg with
    | none =>
      simp only [Sign.str, List.nil_append, digit_ne_minus d hdd, digit_ne_plus d hdd, if_false, hbody,
        Sign.neg]
      rfl
    | plus =>
      simp [Sign.str, hbody, Sign.neg, digitsNat]
    | minus =>
      simp [Sign.str, hbody, Sign.neg, digitsNat]

end Xs.Conv
