"""Developer tool: evaluate every oracle on the implementation (no model involved) and
report failures that are not covered by a listed finding.
usage: /venv/bin/python harness/tools/c05_oracles.py   (XSDATA_REPO, VERIF_SEED honoured)"""
import collections
import json
import os
import random
import sys

HERE = os.path.dirname(os.path.abspath(__file__))
H = os.path.dirname(HERE)
sys.path[:0] = [H, os.path.join(H, "shims"), os.environ.get("XSDATA_REPO", "/repo")]
from props import c05  # noqa: E402

seed = int(os.environ.get("VERIF_SEED", "0"))
rng = random.Random(seed)
allc = {}
for corr in c05.CORRS:
    sub = random.Random(rng.random())
    allc[corr.op] = list(corr.gen(sub, "quick"))
for orc in c05.ORACLES:
    cov = collections.Counter()
    unc = 0
    seen = 0

    def stream():
        for op in orc.from_ops:
            for a in allc[op]:
                yield orc.adapt(op, a)
        yield from orc.gen(random.Random(seed + 1), "quick")

    for a in stream():
        if a is None:
            continue
        seen += 1
        try:
            msg = orc.check(a)
        except Exception as e:  # noqa: BLE001
            print("CRASH", orc.name, json.dumps(a, ensure_ascii=False, default=str)[:300], type(e).__name__, e)
            continue
        if msg:
            c = orc.covered(a, msg)
            if c:
                cov[c] += 1
            else:
                unc += 1
                if unc <= 12:
                    print("UNCOVERED", orc.name, json.dumps(a, ensure_ascii=False, default=str)[:300], "\n    ", msg)
    print(orc.name, "seen", seen, "covered", dict(cov), "uncovered", unc)
