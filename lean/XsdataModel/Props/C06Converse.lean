/- C06 — converse of acceptance: what the code accepts is an XSD lexical form.
   Together with `parse_accepts_valid_date` this says: after Python's `strip()`
   (which removes more kinds of white space than XSD's four characters — the one
   leniency left), `XmlDate/XmlTime/XmlDateTime.from_string` accept **exactly** the
   lexical spaces of xs:date / xs:time / xs:dateTime (up to nine fraction digits) and
   return exactly XSD's components.  Holds for the code after repairs c06b-02 (ASCII
   digits), c06b-03 (minutes ≤ 59), c06c-01 (offset ≤ 14:00) and c06c-03 (a digit after
   the decimal point).
   Helper lemmas: `XsdataModel.Proofs.DatesConverse`. -/
import XsdataModel.Proofs.DatesConverse
import XsdataModel.Props.C06Accept

namespace Props.C06
open Py Xs.Dates Xs.Spec Proofs.DatesConverse Proofs.DatesAccept Proofs.DatesFormatParse

/-- **date_accepts_only_valid**: for every environment and every string, if
`XmlDate.from_string(s)` succeeds then `s.strip()` is an XSD date lexical form and
the value holds the components XSD assigns to it. -/
theorem date_accepts_only_valid (e : Env) (s : Str) (v : XmlDate)
    (h : XmlDate.fromString e s = some v) :
    ∃ m d : Nat, v.month = m ∧ v.day = d ∧ XsdDate (e.strip s) v.year m d v.offset := by
  unfold XmlDate.fromString parseDateArgs at h
  cases hp : parseLoop e Tables.fmtDate ⟨e.strip s, 0⟩ with
  | none => simp [hp] at h
  | some r =>
    rw [hp] at h
    have hf : Tables.fmtDate = '%' :: 'Y' :: '-' :: '%' :: 'm' :: '-' :: '%' :: 'd' :: ['%', 'z'] := rfl
    rw [hf] at hp
    obtain ⟨y, m, d, ys, ms, ds, j, r', hdrop, hy, hm, hd, hr', rfl⟩ :=
      datePart_inv hp (fun j r' hz => (parseLoop_z_inv hz).choose_spec.2.1)
    obtain ⟨o, rfl, _, hz⟩ := parseLoop_z_inv hr'
    simp only [List.cons_append, List.nil_append, List.drop_zero] at h hdrop
    split at h
    · rename_i hv
      cases h
      obtain ⟨m1, m2, d1, d2⟩ := validateDate_inv hv
      have := daysInMonth_le y m
      exact ⟨m, d, rfl, rfl, ys, ms, ds, _, hy, ⟨hm, m1, m2⟩, ⟨hd, d1, by omega⟩, hz, d2, hdrop⟩
    · cases h

/-- **date_accepts_iff_valid**: acceptance and its converse in one statement, for inputs
without surrounding white space of any kind. -/
theorem date_accepts_iff_valid (e : Env) (s : Str) (hs : e.strip s = s) (y : Int) (m d : Nat)
    (o : Option Int) :
    XmlDate.fromString e s = some ⟨y, m, d, o⟩ ↔ XsdDate s y m d o := by
  constructor
  · intro h
    obtain ⟨m', d', hm, hd, hx⟩ := date_accepts_only_valid e s _ h
    simp only at hm hd hx
    have : m' = m := by omega
    subst this
    have : d' = d := by omega
    subst this
    rw [hs] at hx; exact hx
  · intro hx
    have := Props.C06.parse_accepts_valid_date e [] [] s y m d o (by intro c hc; cases hc)
      (by intro c hc; cases hc) hx
    simpa using this

/-- **time_accepts_only_valid**: whatever `XmlTime.from_string` accepts is, stripped, an XSD time
lexical form with at most nine fraction digits `fr`, and the value holds XSD's components. -/
theorem time_accepts_only_valid (e : Env) (s : Str) (v : XmlTime)
    (h : XmlTime.fromString e s = some v) :
    ∃ (hh mi sec : Nat) (fr : Str), v.hour = hh ∧ v.minute = mi ∧ v.second = sec ∧
      v.frac = fracNs fr ∧ fr.length ≤ 9 ∧ XsdTime (e.strip s) hh mi sec fr v.offset := by
  unfold XmlTime.fromString parseDateArgs at h
  cases hp : parseLoop e Tables.fmtTime ⟨e.strip s, 0⟩ with
  | none => simp [hp] at h
  | some r =>
    rw [hp] at h
    obtain ⟨hh, mi, sec, fr, o, hs, ms, ss, zs, hdrop, hth, htm, hts, hfr, hfl, hz, rfl⟩ := timePart_inv hp
    simp only [List.drop_zero] at hdrop
    simp only at h
    split at h
    · rename_i hv
      cases h
      refine ⟨hh, mi, sec, fr, rfl, rfl, rfl, rfl, hfl,
        hs ++ ':' :: (ms ++ ':' :: (ss ++ (if fr = [] then [] else '.' :: fr))), zs,
        timeBody_of hth htm hts hfr hfl hv, hz, ?_⟩
      rw [hdrop]; simp
    · cases h

/-- **datetime_accepts_only_valid** -/
theorem datetime_accepts_only_valid (e : Env) (s : Str) (v : XmlDateTime)
    (h : XmlDateTime.fromString e s = some v) :
    ∃ (m d hh mi sec : Nat) (fr : Str), v.month = m ∧ v.day = d ∧ v.hour = hh ∧ v.minute = mi ∧
      v.second = sec ∧ v.frac = fracNs fr ∧ fr.length ≤ 9 ∧
      XsdDateTime (e.strip s) v.year m d hh mi sec fr v.offset := by
  unfold XmlDateTime.fromString parseDateArgs at h
  cases hp : parseLoop e Tables.fmtDateTime ⟨e.strip s, 0⟩ with
  | none => simp [hp] at h
  | some r =>
    rw [hp] at h
    have hf : Tables.fmtDateTime =
        '%' :: 'Y' :: '-' :: '%' :: 'm' :: '-' :: '%' :: 'd' :: ('T' :: Tables.fmtTime) := rfl
    rw [hf] at hp
    have hrest : ∀ j r', parseLoop e ('T' :: Tables.fmtTime) ⟨e.strip s, j⟩ = some r' → j ≤ (e.strip s).length := by
      intro j r' hr'
      obtain ⟨p', hs', _⟩ := parseLoop_lit_inv (by decide) hr'
      have := skip_lt hs'; omega
    obtain ⟨y, m, d, ys, ms, ds, j, r', hdrop, hy, hm, hd, hr', rfl⟩ := datePart_inv hp hrest
    obtain ⟨p', hs', hrt⟩ := parseLoop_lit_inv (by decide) hr'
    obtain ⟨rfl, hcT⟩ := skip_inv hs'
    obtain ⟨hh, mi, sec, fr, o, hs, mins, ss, zs, hdropt, hth, htm, hts, hfr, hfl, hz, rfl⟩ := timePart_inv hrt
    simp only [List.cons_append, List.nil_append, List.drop_zero] at h hdrop
    split at h
    · rename_i hv
      cases h
      simp only [Bool.and_eq_true] at hv
      obtain ⟨m1, m2, d1, d2⟩ := validateDate_inv hv.1
      have := daysInMonth_le y m
      refine ⟨m, d, hh, mi, sec, fr, rfl, rfl, rfl, rfl, rfl, rfl, hfl, ys, ms, ds,
        hs ++ ':' :: (mins ++ ':' :: (ss ++ (if fr = [] then [] else '.' :: fr))), zs, hy,
        ⟨hm, m1, m2⟩, ⟨hd, d1, by omega⟩, timeBody_of hth htm hts hfr hfl hv.2, hz, d2, ?_⟩
      rw [hdrop, drop_of_getElem? hcT, hdropt]; simp
    · cases h

/-! the hypotheses are satisfiable (non-canonical but valid forms), and the repaired leniencies are gone -/

example : XmlDate.fromString Env.ascii " -0000-02-29-00:00\n".toList = some ⟨0, 2, 29, some 0⟩ := by decide
example : XmlTime.fromString Env.ascii "24:00:00.00+14:00".toList = some ⟨24, 0, 0, 0, some 840⟩ := by decide
example : XmlDateTime.fromString Env.ascii "12345-12-31T23:59:59.5Z".toList
    = some ⟨12345, 12, 31, 23, 59, 59, 500000000, some 0⟩ := by decide
example : XmlTime.fromString Env.ascii "12:00:00.".toList = none ∧
    XmlTime.fromString Env.ascii "12:00:00+14:01".toList = none ∧
    XmlTime.fromString Env.ascii "12:00:00+05:60".toList = none ∧
    XmlTime.fromString Env.ascii "+1:00:00".toList = none := by decide

/-- **hash follows equality** (repair c06c-02): `__eq__` compares the timeline key and `__hash__` is a
function of that key, so equal values hash equal — for all values, real or not -/
theorem datetime_eq_hash (a b : XmlDateTime) (h : CmpOp.eq.apply a.timeline b.timeline = true) :
    a.hash = b.hash := by
  simp only [CmpOp.apply, decide_eq_true_eq] at h
  unfold XmlDateTime.hash; rw [h]

theorem time_eq_hash (a b : XmlTime) (h : CmpOp.eq.apply a.timeline b.timeline = true) :
    a.hash = b.hash := by
  simp only [CmpOp.apply, decide_eq_true_eq] at h
  unfold XmlTime.hash; rw [h]

example : CmpOp.eq.apply (XmlDateTime.timeline ⟨2001, 1, 1, 0, 0, 0, 0, some 0⟩)
      (XmlDateTime.timeline ⟨2001, 1, 1, 1, 0, 0, 0, some 60⟩) = true ∧
    XmlDateTime.hash ⟨2001, 1, 1, 0, 0, 0, 0, some 0⟩ = XmlDateTime.hash ⟨2001, 1, 1, 1, 0, 0, 0, some 60⟩ := by decide

/-! ### the g* types: the converse fails for one spelling (finding `C06-gmonth-legacy-spelling`)

`XmlPeriod` reads `--MM--`, the spelling xs:gMonth had in the first edition of XML Schema 1.0
(removed by erratum E2-12; `gMonthLexicalRep ::= '--' monthFrag timezoneFrag?` since the second
edition and in 1.1), and — being a `UserString` — keeps that text as its string form. -/

/-- the witness is accepted, with its own text as string form … -/
theorem period_legacy_gmonth_accepted :
    XmlPeriod.ofString Env.ascii "--05--".toList = some ("--05--".toList, ⟨none, some 5, none, none⟩) ∧
    XmlPeriod.ofString Env.ascii "--05---05:00".toList
      = some ("--05---05:00".toList, ⟨none, some 5, none, some (-300)⟩) := by decide

/-- … and is a lexical form of none of the five g* types: "whatever `XmlPeriod` accepts is an XSD
lexical form" is false of the code as it stands -/
theorem period_accepts_only_valid_false :
    ¬ (∀ (s data : Str) (p : TimePeriod), XmlPeriod.ofString Env.ascii s = some (data, p) →
        (∃ y o, XsdGYear data y o) ∨ (∃ y m o, XsdGYearMonth data y m o) ∨ (∃ m o, XsdGMonth data m o) ∨
        (∃ m d o, XsdGMonthDay data m d o) ∨ (∃ d o, XsdGDay data d o)) := by
  intro h
  have hd : ∀ c : Char, c = '-' → isAsciiDigit c = true → False := by
    intro c hc hdg; subst hc; exact absurd hdg (by decide)
  rcases h _ _ _ period_legacy_gmonth_accepted.1 with
    ⟨y, o, ys, zs, hy, _, hs⟩ | ⟨y, m, o, ys, ms, zs, hy, _, _, hs⟩ | ⟨m, o, ms, zs, ⟨⟨a, b, rfl, _, _, _⟩, _⟩, hz, hs⟩ |
    ⟨m, d, o, ms, ds, zs, ⟨⟨a, b, rfl, _, _, _⟩, _⟩, ⟨⟨c, f, rfl, _, _, _⟩, _⟩, _, _, hs⟩ |
    ⟨d, o, ds, zs, ⟨⟨a, b, rfl, ha, _, _⟩, _⟩, _, hs⟩
  · -- gYear: a year fragment has a digit in first or second position
    obtain ⟨neg, ds, rfl, hdig, h4, _, _⟩ := hy
    cases neg
    · match ds, h4 with
      | a :: _, _ => simp at hs; exact hd a hs.1.symm (hdig a (by simp))
    · match ds, h4 with
      | a :: _, _ => simp at hs; exact hd a hs.1.symm (hdig a (by simp))
  · obtain ⟨neg, ds, rfl, hdig, h4, _, _⟩ := hy
    cases neg
    · match ds, h4 with
      | a :: _, _ => simp at hs; exact hd a hs.1.symm (hdig a (by simp))
    · match ds, h4 with
      | a :: _, _ => simp at hs; exact hd a hs.1.symm (hdig a (by simp))
  · -- gMonth: the timezone fragment would have to be "--"
    simp at hs
    obtain ⟨_, _, rfl⟩ := hs
    exact tz_not_dashes hz
  · -- gMonthDay: at least seven characters
    have := congrArg List.length hs
    simp at this
  · -- gDay: third character '-' , but it is '0'
    simp at hs

end Props.C06
