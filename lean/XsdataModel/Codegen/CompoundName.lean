/-
`CreateCompoundFields.choose_name` — the name of a compound field: the names of the
grouped attrs (or of their substitution groups, option `use_substitution_groups`,
project file / API only) in **document order**, joined with `_Or_`; the configured
default name when forced or when there are more than `max_name_parts` parts; an index
is appended while the name is taken in the class.
-/
import XsdataModel.Codegen.Overrides

namespace Xs.Codegen
open Py

structure CompoundCfg where
  defaultName : Str := ['c', 'h', 'o', 'i', 'c', 'e']
  useSubstitutionGroups : Bool := false
  forceDefaultName : Bool := false
  maxNameParts : Nat := 3
deriving Repr, DecidableEq

/-- `"_Or_".join(names)` -/
def joinOr : List Str → Str
  | [] => []
  | [p] => p
  | p :: ps => p ++ ['_', 'O', 'r', '_'] ++ joinOr ps

/-- the name parts: the substitution group names when every attr has one, else the attr
names; `collections.unique_sequence` keeps the first occurrence of each -/
def nameParts (cfg : CompoundCfg) (names substitutions : List Str) : List Str :=
  dedup (if cfg.useSubstitutionGroups && names.length == substitutions.length then substitutions else names)

/-- `choose_name(target, names, substitutions)`; `reserved` = `build_reserved_names` (slugs) -/
def chooseName (cfg : CompoundCfg) (names substitutions reserved : List Str) : Str :=
  let parts := nameParts cfg names substitutions
  let name := if cfg.forceDefaultName || parts.length > cfg.maxNameParts then cfg.defaultName
              else joinOr parts
  uniqueName name reserved

end Xs.Codegen
