"""C11 — generators and real-code adapters for the generic element model.

Trees are the JSON `Tree` of the binding model:
  {"q": clark name, "a": [[k, v]..], "ns": [[prefix|None, uri]..], "t": text|None, "c": [..], "tl": tail|None}
"""
from __future__ import annotations

import copy
import io
import itertools
import warnings

import bindgen as G
import bindlib as B

XSI = "http://www.w3.org/2001/XMLSchema-instance"
XS = "http://www.w3.org/2001/XMLSchema"
XSI_TYPE = "{%s}type" % XSI
XSI_NIL = "{%s}nil" % XSI

# prefixes declared on the root of every generated document (in scope everywhere)
NSMAP = [["p", "urn:a"], ["r", "urn:b"], ["tn", "urn:t"], ["xs", XS], ["xsi", XSI]]
NAMESPACES = [None, "urn:a", "urn:b"]
NAMES = ["x", "y", "z"]
TEXTS = [None, "t", " \n"]
MORE_TEXTS = ["", "a b", " pad ", "x<y&z", "é名", "]]>", "\t"]


def qn(ns, name):
    return "{%s}%s" % (ns, name) if ns else name


def node(q, a=None, t=None, c=None, tl=None, ns=None):
    return {"q": q, "a": [list(x) for x in (a or [])], "ns": [list(x) for x in (NSMAP if ns is None else ns)], "t": t,
            "c": c or [], "tl": tl}


def rebound(ns, prefix, uri):
    """in-scope map `ns` with `prefix` declared (or re-bound) to `uri`"""
    return [list(x) for x in ns if x[0] != prefix] + [[prefix, uri]]


# namespace declarations made BELOW the top captured element, with an attribute that uses them:
# (prefix, uri, attribute, needs_risky)   -- risky = the value triggers C11-anyattr-prefixed-value
SCOPED = [
    ("w", "urn:inner", ["ref", "w:thing"], True),            # new prefix
    ("p", "urn:p2", ["ref", "p:thing"], True),               # the root's `p` (urn:a) re-bound
    ("w", "urn:inner", ["{urn:b}ref", "w:n-1"], True),
    ("x2", XS, [XSI_TYPE, "x2:int"], False),                 # new prefix for the schema namespace, on xsi:type
    ("r", XS, [XSI_TYPE, "r:string"], False),                # the root's `r` (urn:b) re-bound, on xsi:type
    ("tn", "urn:other", [XSI_TYPE, "tn:unknown"], False),
]


# ------------------------------------------------------------------ shapes
def shapes(n):
    """all ordered rooted trees with n nodes, as nested lists of children"""
    if n == 1:
        return [[]]
    out = []
    for forest in forests(n - 1):
        out.append(forest)
    return out


def forests(n):
    """all ordered forests with n nodes"""
    if n == 0:
        return [[]]
    out = []
    for k in range(1, n + 1):
        for first in shapes(k):
            for rest in forests(n - k):
                out.append([first] + rest)
    return out


def label(shape, pick, root=True):
    """label a shape; pick(kind) returns a label component"""
    kids = [label(s, pick, False) for s in shape]
    return node(pick("q"), pick("a"), pick("t"), kids, None if root else pick("tl"))


SAFE_ATTRS = [[], [], [["k", "v"]], [["{urn:b}k", "a b"], ["j", ""]], [["id", "u:v"], ["h", "p://x"]],
              [["k", "{urn:q}bar"]]]      # a value spelled as a Clark name (no datatype): kept literally
# attributes that trigger the listed findings (kept out of the "clean" streams)
RISKY_ATTRS = [
    [["k", "p:bar"]],                       # declared prefix: rewritten to Clark form
    [[XSI_NIL, "true"]],                    # kept: convert_any_element flushes the start tag first
    [["k", "v"], [XSI_NIL, "false"]],
    [["k", "r:x"], ["j", "v"]],
]


def rand_tree(rng, size, clean=True, top_ns=None, depth=0, ns=None):
    """random tree with about `size` nodes; the root namespace is taken from top_ns when given.
    Below the root, elements sometimes declare or re-bind a prefix on themselves (inherited by their
    descendants) and use it in an attribute value (`SCOPED`)."""
    ns = [list(x) for x in (NSMAP if ns is None else ns)]
    uri = rng.choice(top_ns) if (top_ns is not None and depth == 0) else rng.choice(NAMESPACES + ["urn:t"])
    q = qn(uri, rng.choice(NAMES))
    a = copy.deepcopy(rng.choice(SAFE_ATTRS))
    if not clean and rng.random() < 0.25:
        a = copy.deepcopy(rng.choice(RISKY_ATTRS))
    if depth > 0 and rng.random() < 0.08:
        # a nested xsi:type stays an attribute of the generic element
        a = [x for x in a if x[0] != XSI_TYPE] + [[XSI_TYPE, rng.choice(["xs:int", "xs:string", "p:unknown"])]]
    if rng.random() < (0.18 if depth > 0 else 0.1):       # (also on the top captured element itself)
        # (an xsi:type naming a builtin datatype on the top captured element makes it a typed primitive, not
        # generic content: there only the plain attributes are used)
        pool = [x for x in SCOPED if not (clean and x[3]) and not (depth == 0 and x[2][0] == XSI_TYPE)]
        if pool:
            prefix, u2, attr, risky = rng.choice(pool)
            ns = rebound(ns, prefix, u2)
            if rng.random() < 0.85:          # (sometimes only declared, used further down or not at all)
                a = [x for x in a if x[0] != attr[0]] + [list(attr)]
    t = rng.choice(TEXTS + TEXTS + MORE_TEXTS)
    kids = []
    budget = size - 1
    while budget > 0 and depth < 4:
        k = rng.randint(1, budget)
        kids.append(rand_tree(rng, k, clean, None, depth + 1, ns))
        budget -= k
    tl = rng.choice(TEXTS + TEXTS + MORE_TEXTS)
    if depth > 1 and rng.random() < 0.1:
        # a value that uses a prefix declared by an ancestor below the top captured element
        for pfx, u2 in ns:
            if pfx in ("w", "x2") and not (clean and pfx == "w"):
                a = [x for x in a if x[0] not in ("ref", XSI_TYPE)] + [["ref", "w:deep"] if pfx == "w" else [XSI_TYPE, "x2:short"]]
                break
    return node(q, a, t, kids, tl, ns)


XS_QNAME = "{%s}QName" % XS


def qname_leaf(rng, q, tl, allow_default=True):
    """`<q xsi:type="xs:QName" ...>prefix:local</q>` whose prefix is declared where the variant says:
    on the element itself (new prefix `w`, or the root's `p` re-bound), as a default namespace on the
    element itself, on the root only, or nowhere (unprefixed, no default namespace).
    Returns (node, outer) with outer = None | (prefix, uri) to be bound on every *other* element."""
    variants = ["local", "local", "local-outer", "local-outer", "rebind-p", "root-p", "bare"]
    if allow_default and q.startswith("{"):
        variants += ["default", "default"]
    v = rng.choice(variants)
    n = node(q, [[XSI_TYPE, "xs:QName"]], None, [], tl)
    outer = None
    local = rng.choice(["foo", "n-1", "_x"])
    if v in ("local", "local-outer"):
        n["ns"].append(["w", "urn:inner"])
        n["t"] = "w:" + local
        if v == "local-outer":
            outer = ("w", "urn:outer")
    elif v == "rebind-p":
        n["ns"] = [x for x in n["ns"] if x[0] != "p"] + [["p", "urn:inner"]]
        n["t"] = "p:" + local
    elif v == "root-p":
        n["t"] = "p:" + local
    elif v == "default":
        n["ns"].append([None, "urn:dflt"])
        n["t"] = local
    else:
        n["t"] = local
    if rng.random() < 0.15:
        n["t"] = " " + n["t"] + "\n"
    return n, outer


def bind_outer(doc, prefix, uri):
    """bind `prefix` on every element that does not bind it itself (as if declared on the root)"""
    def go(n):
        if not any(x[0] == prefix for x in n["ns"]):
            n["ns"].append([prefix, uri])
        for c in n["c"]:
            go(c)

    go(doc)
    return doc


def valid_qname_content(n):
    """the text of a QName-typed element is a lexical QName whose prefix is in scope"""
    v = (n["t"] or "").strip()
    if not v or " " in v:
        return False
    nsmap = {p: u for p, u in n["ns"]}
    if ":" in v:
        p, local = v.split(":", 1)
        return p in nsmap and bool(local) and ":" not in local
    return True


def exhaustive_small(max_nodes=2):
    """every tree with <= max_nodes nodes over 3 namespaces x 3 names x 3 texts x 3 tails (x 2 attr sets)"""
    labels_q = [qn(ns, nm) for ns in NAMESPACES for nm in NAMES]
    out = []
    for n in range(1, max_nodes + 1):
        for shape in shapes(n):
            slots = []

            def collect(s, root=True):
                slots.append(root)
                for c in s:
                    collect(c, False)

            collect(shape)
            per = []
            for root in slots:
                opts = []
                for q in (labels_q if root else labels_q[::4] + [labels_q[1]]):
                    for t in TEXTS:
                        for tl in ([None] if root else TEXTS):
                            opts.append((q, t, tl))
                per.append(opts)
            for combo in itertools.product(*per):
                it = iter(combo)

                def build(s, root=True):
                    q, t, tl = next(it)
                    return node(q, [], t, [build(c, False) for c in s], tl)

                out.append(build(shape))
    return out


def shape_samples(rng, max_nodes, per_shape):
    """every shape with <= max_nodes nodes, each with `per_shape` random labelings"""
    out = []
    for n in range(1, max_nodes + 1):
        for shape in shapes(n):
            for _ in range(per_shape):
                def pick(kind):
                    if kind == "q":
                        return qn(rng.choice(NAMESPACES), rng.choice(NAMES))
                    if kind == "a":
                        return copy.deepcopy(rng.choice(SAFE_ATTRS))
                    return rng.choice(TEXTS)

                out.append(label(shape, pick))
    return out


# ------------------------------------------------------------------ hosts
KINDS = ["list", "single", "mixed", "choice"]
NSMODES = ["##any", "##other", "##local", "##targetNamespace", "##other ##local", "urn:a ##local"]


def host_desc(kind, nsmode, target, attributes=False, head=False, nillable=False):
    md = {"type": "Wildcard", "namespace": nsmode}
    if nillable:
        md["nillable"] = True
    flds = []
    if head:
        flds.append({"name": "head", "type": {"opt": "str"}, "metadata": {"type": "Element"}, "default": {"value": None}})
    if attributes:
        flds.append({"name": "attrs", "type": {"dict": 1}, "metadata": {"type": "Attributes", "namespace": "##any"},
                     "default": {"factory": "dict"}})
    if kind == "list":
        flds.append({"name": "w", "type": {"list": "object"}, "metadata": md, "default": {"factory": "list"}})
    elif kind == "single":
        flds.append({"name": "w", "type": {"opt": "object"}, "metadata": md, "default": {"value": None}})
    elif kind == "mixed":
        md["mixed"] = True
        flds.append({"name": "w", "type": {"list": "object"}, "metadata": md, "default": {"factory": "list"}})
    elif kind == "choice":
        ch = [{"name": "known", "type": "str"}, {"wildcard": True, "type": "object", "namespace": nsmode}]
        flds.append({"name": "w", "type": {"list": "object"}, "metadata": {"type": "Elements", "choices": ch},
                     "default": {"factory": "list"}})
    c = {"name": "Root", "fields": flds}
    if target:
        c["meta"] = {"namespace": target}
    return {"classes": [c]}


_HOSTS: dict = {}


def host(kind, nsmode, target, attributes=False, head=False, nillable=False):
    key = (kind, nsmode, target, attributes, head, nillable)
    if key not in _HOSTS:
        desc = host_desc(*key)
        u = B.Universe(desc)
        ctx = u.export_ctx()
        from bindcases import _UNIS

        _UNIS[u.modname] = u
        _HOSTS[key] = (u, desc, ctx)
    return _HOSTS[key]


def admitted_namespaces(nsmode, target):
    """namespaces (None = unqualified) of the alphabet that the wildcard admits, per the documented
    meaning of the tokens (NamespaceType docstring)"""
    pool = [None, "urn:a", "urn:b", "urn:t"]
    out = []
    for ns in pool:
        ok = False
        for tok in nsmode.split():
            if tok == "##any":
                ok = True
            elif tok == "##local":
                ok = ok or ns is None
            elif tok == "##targetNamespace":
                ok = ok or (ns == target if target else True)
            elif tok == "##other":
                ok = ok or (ns != target if target else True)
            else:
                ok = ok or ns == tok
        if ok:
            out.append(ns)
    return out


def host_doc(kind, target, forest, text=None, root_attrs=None, head=None):
    kids = []
    if head is not None:
        kids.append(node(qn(target, "head"), [], head, [], None))
    kids += forest
    return node(qn(target, "Root"), root_attrs or [], text, kids, None)


def wildcard_var(u: B.Universe, kind):
    """the real XmlVar of the host's wildcard (for `choice`: the wildcard choice of the compound var)"""
    meta = u.context.build(u.classes["Root"])
    if kind == "choice":
        return meta.choices[0].wildcards[0]
    return meta.wildcards[0]


# ------------------------------------------------------------------ real adapters
def strip_ns(t):
    return {"q": t["q"], "a": t["a"], "ns": [], "t": t["t"], "c": [strip_ns(c) for c in t["c"]], "tl": t["tl"]}


class _VarParser:
    """NodeParser whose root node is a WildcardNode of a given real var (what TreeParser.start does,
    with the var supplied)"""

    def __new__(cls, var):
        from xsdata.formats.dataclass.parsers.bases import NodeParser
        from xsdata.formats.dataclass.parsers.mixins import EventsHandler
        from xsdata.formats.dataclass.parsers.nodes.wildcard import WildcardNode

        class P(NodeParser):
            def start(self, clazz, queue, objects, qname, attrs, ns_map):
                try:
                    item = queue[-1]
                    child = item.child(qname, attrs, ns_map, len(objects))
                except IndexError:
                    child = WildcardNode(var=var, attrs=attrs, ns_map=ns_map, position=0,
                                         factory=self.context.class_type.any_element)
                queue.append(child)

        return P(handler=EventsHandler)


def real_wild_value(var, tree):
    return _VarParser(var).parse(B.tree_events(tree), None)


def real_any_roundtrip(u, var, host_q, pre, trees):
    """real WildcardNode + real convert_any_type + real XmlEventWriter, re-read by lxml"""
    from xsdata.formats.dataclass.context import XmlContext
    from xsdata.formats.dataclass.serializers.config import SerializerConfig
    from xsdata.formats.dataclass.serializers.mixins import EventGenerator, XmlWriterEvent
    from xsdata.formats.dataclass.serializers.writers import XmlEventWriter

    vals = [real_wild_value(var, t) for t in trees]
    gen = EventGenerator(context=XmlContext(models_package=u.modname), config=SerializerConfig())

    def events():
        yield XmlWriterEvent.START, host_q
        if pre == "none":
            yield XmlWriterEvent.DATA, None
        elif isinstance(pre, dict):
            yield XmlWriterEvent.DATA, pre["str"]
        for v in vals:
            yield from gen.convert_any_type(v, var, None)
        yield XmlWriterEvent.END, host_q

    out = {"values": [u.to_val(v) for v in vals]}
    try:
        buf = io.StringIO()
        XmlEventWriter(config=SerializerConfig(), output=buf, ns_map={}).write(events())
        out["tree"] = strip_ns(G.xml_tree(buf.getvalue().encode()))
    except Exception as e:  # noqa: BLE001
        out["tree"] = B.classify_exc(e)
    return out


def _host_element_node(u):
    from xsdata.formats.dataclass.context import XmlContext
    from xsdata.formats.dataclass.parsers.config import ParserConfig
    from xsdata.formats.dataclass.parsers.nodes import ElementNode

    ctx = XmlContext(models_package=u.modname)
    return ElementNode(meta=ctx.build(u.classes["Root"]), attrs={}, ns_map={}, config=ParserConfig(), context=ctx, position=0)


def _write_field(u, var, host_q, value):
    """`<host>` + real convert_value(value, var) + `</host>` through the real writer, re-read by lxml"""
    from xsdata.formats.dataclass.context import XmlContext
    from xsdata.formats.dataclass.parsers.utils import PendingCollection
    from xsdata.formats.dataclass.serializers.config import SerializerConfig
    from xsdata.formats.dataclass.serializers.mixins import EventGenerator, XmlWriterEvent
    from xsdata.formats.dataclass.serializers.writers import XmlEventWriter

    if isinstance(value, PendingCollection):
        value = value.evaluate()
    gen = EventGenerator(context=XmlContext(models_package=u.modname), config=SerializerConfig())

    def events():
        yield XmlWriterEvent.START, host_q
        if value is not None:
            yield from gen.convert_value(value, var, None)
        yield XmlWriterEvent.END, host_q

    buf = io.StringIO()
    XmlEventWriter(config=SerializerConfig(), output=buf, ns_map={}).write(events())
    return strip_ns(G.xml_tree(buf.getvalue().encode()))


def real_field_roundtrip(u, var, host_q, trees):
    """real WildcardNode per tree, real ElementNode.bind_wild_var for every value, real convert_value + writer"""
    node = _host_element_node(u)
    params: dict = {}
    for t in trees:
        node.bind_wild_var(params, var, var.qname, real_wild_value(var, t))
    return _write_field(u, var, host_q, params.get(var.name))


def real_mixed_roundtrip(u, var, host_q, text, trees):
    """real WildcardNode per tree, real bind_mixed_objects + bind_wild_text, real convert_value + writer"""
    node = _host_element_node(u)
    params: dict = {}
    objects = [(var.qname, real_wild_value(var, t)) for t in trees]
    node.bind_mixed_objects(params, var, objects)
    node.bind_wild_text(params, var, text, None)
    return _write_field(u, var, host_q, params.get(var.name))


def real_tree_parse_events(tree):
    from xsdata.formats.dataclass.parsers.mixins import EventsHandler
    from xsdata.formats.dataclass.parsers.tree import TreeParser

    return TreeParser(handler=EventsHandler).parse(B.tree_events(tree), None)


def real_tree_parse_bytes(data: bytes, handler="native"):
    from xsdata.formats.dataclass.parsers.handlers import LxmlEventHandler, XmlEventHandler
    from xsdata.formats.dataclass.parsers.tree import TreeParser

    h = XmlEventHandler if handler == "native" else LxmlEventHandler
    return TreeParser(handler=h).from_bytes(data)


def any_json(v):
    """AnyElement tree -> JSON `Val` (generic values only)"""
    if v is None:
        return None
    if isinstance(v, B.AnyElement):
        return {"any": {"qname": v.qname, "text": v.text, "tail": v.tail,
                        "attrs": [[k, x] for k, x in v.attributes.items()],
                        "children": [any_json(c) for c in v.children]}}
    pv = B.pval(v)
    if pv is not None:
        return pv
    return {"opaque": repr(v)}


# ------------------------------------------------------------------ the property's own reference
def is_blank(s):
    return s is None or s.strip() == ""


def declared_prefixed(v, nsmap):
    """`prefix:local` with the prefix in scope (and not a `scheme://…` value)"""
    if ":" not in v or v.startswith("{"):
        return False
    p, rest = v.split(":", 1)
    return bool(p) and bool(rest) and not rest.startswith("//") and p in nsmap


def denote(v, nsmap):
    """the expanded name an attribute value denotes in the scope `nsmap`, however it is spelled
    (`prefix:local` with the prefix in scope, or Clark form); any other value denotes itself"""
    if declared_prefixed(v, nsmap):
        p, rest = v.split(":", 1)
        return "{%s}%s" % (nsmap[p], rest)
    return v


def norm(t, keep_tail=True, host=False, denoted=False):
    """normal form of `≈ws`, written independently of the Lean model: absent text = empty text,
    whitespace-only text next to child elements is insignificant, prefix maps are not compared,
    attributes are a set, `xsi:type` values are compared as resolved names"""
    kids = [norm(c, denoted=denoted) for c in t["c"]]
    text = t["t"]
    if kids or host:
        # (the host is a typed model: its whitespace-only text is never generic content)
        text = None if is_blank(text) else text
    elif text == "":
        text = None
    tail = t["tl"] if keep_tail else None
    tail = None if is_blank(tail) else tail
    nsmap = {p: u for p, u in t["ns"]}
    attrs = []
    for k, v in t["a"]:
        if k == XSI_TYPE:
            v = resolve(v, nsmap)
            if v == XS_QNAME and not kids and text is not None:
                # QName-typed content: compared as the name it denotes in the scope of this element
                # (the writer may rename the prefix; it may not change the namespace or the type)
                text = resolve(text, nsmap)
        elif denoted:
            v = denote(v, nsmap)
        attrs.append([k, v])
    return {"q": t["q"], "a": sorted(attrs), "t": text, "c": kids, "tl": tail}


def resolve(v, nsmap):
    v = v.strip()
    if ":" in v and not v.startswith("{"):
        p, local = v.split(":", 1)
        if p in nsmap:
            return "{%s}%s" % (nsmap[p], local)
        return v
    if None in nsmap and nsmap[None] and not v.startswith("{"):
        return "{%s}%s" % (nsmap[None], v)
    return v


def first_diff(a, b, path="/"):
    if a["q"] != b["q"]:
        return f"{path}: element name {a['q']!r} became {b['q']!r}"
    p = path + a["q"]
    if a["a"] != b["a"]:
        return f"{p}: attributes {a['a']!r} became {b['a']!r}"
    if a["t"] != b["t"]:
        return f"{p}: text {a['t']!r} became {b['t']!r}"
    if a["tl"] != b["tl"]:
        return f"{p}: tail {a['tl']!r} became {b['tl']!r}"
    if len(a["c"]) != len(b["c"]):
        return f"{p}: {len(a['c'])} children became {len(b['c'])} ({[c['q'] for c in a['c']]} -> {[c['q'] for c in b['c']]})"
    for i, (x, y) in enumerate(zip(a["c"], b["c"])):
        d = first_diff(x, y, f"{p}[{i}]/")
        if d:
            return d
    return None


def ref_any(t, root=True, denoted=False):
    """reference AnyElement tree of a document per the documented behaviour of the generic model:
    names, attributes, text ('' when absent; whitespace-only text dropped next to children), tail"""
    kids = [ref_any(c, False, denoted) for c in t["c"]]
    text = t["t"]
    if kids and is_blank(text):
        text = None
    if text is None:
        text = ""
    tail = None if (root or is_blank(t["tl"])) else t["tl"]
    nsmap = {p: u for p, u in t["ns"]}
    attrs = [[k, denote(v, nsmap) if denoted else v] for k, v in t["a"]]
    return {"any": {"qname": t["q"], "text": text, "tail": tail, "attrs": attrs, "children": kids}}


# ------------------------------------------------------------------ render options away from their defaults
def _doc_namespaces(t):
    """namespaces of qualified attribute names (first) and of element names of a document, in document order"""
    attrs, elems = [], []

    def go(n):
        for k, _ in n["a"]:
            if k.startswith("{") and not k.startswith("{" + XSI):
                u = k[1:].split("}")[0]
                if u not in attrs:
                    attrs.append(u)
        if n["q"].startswith("{"):
            u = n["q"][1:].split("}")[0]
            if u not in elems:
                elems.append(u)
        for c in n["c"]:
            go(c)

    go(t)
    return attrs, elems


def render_options(doc):
    """One way of calling `XmlSerializer.render` away from the defaults, a function of the document alone:
    a user prefix map that makes a namespace of the document the *default* namespace (preferably one that
    qualifies an attribute: attributes never take the default namespace, so a prefix has to be generated and
    declared where it is used), binds it under a second prefix as well, binds it under a prefix only, or
    binds two namespaces; with or without the xml declaration."""
    import hashlib
    import json as _json

    h = int(hashlib.sha1(_json.dumps(doc, sort_keys=True, ensure_ascii=False).encode("utf-8", "surrogatepass")).hexdigest(), 16)
    attrs, elems = _doc_namespaces(doc)
    uris = attrs + [u for u in elems if u not in attrs] or ["urn:b"]
    u0, u1 = uris[0], uris[-1]
    variants = [
        [[None, u0]],
        [[None, u0], ["x", u0]],
        [["x", u0]],
        [[None, u1]],
        [[None, u0], ["y", u1]],
        [["x", u0], [None, u1]],
        [[None, "urn:unused"]],
    ]
    def has_qname_data(n):
        return any(k == XSI_TYPE for k, _ in n["a"]) or any(has_qname_data(c) for c in n["c"])

    if has_qname_data(doc):
        # QName-valued data under a user default namespace is the subject of two listed findings of C03 (a QName
        # without namespace is read back in the default namespace; a QName in the default namespace on an element
        # that resets it loses its namespace): such documents get the prefix-only maps
        variants = [[["x", u0]], [["x", u0], ["y", u1]], [["x", "urn:unused"]]]
    return {"ns_map": variants[h % len(variants)], "xml_declaration": bool((h >> 8) & 1)}
