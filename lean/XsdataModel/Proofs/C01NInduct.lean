/-
C01 (fragments F2…): the induction step and the round-trip theorem for a feature set.
-/
import XsdataModel.Proofs.C01NStep

namespace Proofs.C01
open Py Xs.Bind Xs.Bind.F1 Xs.Bind.FN

theorem treeNN_obj (Γ : Ctx) (cfg : SerCfg) (M : NsMap) (n : Nat) (pns : Option Str) (nl : Bool)
    (q : QN) (c : ClassId) (fields : List (Str × Val)) {m : XmlMeta} (hm : metaOf Γ c pns = some m) :
    treeNN Γ cfg M (n + 1) pns nl q (.obj c fields) =
      match m.text with
      | some tv =>
        .node q (if textHasData (look fields tv.name) then attrPairsN cfg m.attributeVars fields
                 else attrPairsN cfg m.attributeVars fields ++ nilAttr (nl || m.nillable)) M
          (textTextN (look fields tv.name)) [] none
      | none =>
        .node q
          (if (m.elementVars.flatMap fun var =>
                varTreesN M (treeNN Γ cfg M n (targetUri m.qname)) var (look fields var.name)).isEmpty
           then attrPairsN cfg m.attributeVars fields ++ nilAttr (nl || m.nillable)
           else attrPairsN cfg m.attributeVars fields) M none
          (m.elementVars.flatMap fun var =>
            varTreesN M (treeNN Γ cfg M n (targetUri m.qname)) var (look fields var.name)) none := by
  simp only [treeNN, hm]
  cases m.text <;> rfl

theorem eq_of_nodup_qname {l : List XmlVar} (h : (l.map (·.qname)).Nodup) {a b : XmlVar}
    (ha : a ∈ l) (hb : b ∈ l) (hq : a.qname = b.qname) : a = b := by
  induction l with
  | nil => cases ha
  | cons v t ih =>
    simp only [List.map_cons, List.nodup_cons] at h
    rcases List.mem_cons.1 ha with rfl | ha' <;> rcases List.mem_cons.1 hb with rfl | hb'
    · rfl
    · exact absurd (List.mem_map.2 ⟨b, hb', hq.symm⟩) h.1
    · exact absurd (List.mem_map.2 ⟨a, ha', hq⟩) h.1
    · exact ih h.2 ha' hb'

theorem plain_chunkTrees {M : NsMap} {tr : Val → Tree} {var : XmlVar} {x : Val}
    (h : ∀ y ∈ itemsN var x, plain M (tr y) = true) : plainList M (chunkTrees M tr var x) = true := by
  have hitems : plainList M ((itemsN var x).map tr) = true := by
    rw [plainList_iff]; intro t ht
    obtain ⟨y, hy, rfl⟩ := List.mem_map.1 ht
    exact h y hy
  cases hw : var.wrapperQName with
  | none => simpa [chunkTrees, hw] using hitems
  | some w => simp [chunkTrees, hw, plainList, plain, hitems]

/-- the constructor argument of an element field -/
theorem elem_field_okN {ci : ClassInfo} {fields : List (Str × Val)} {var : XmlVar}
    (hfa : fieldAgrees ci var = true) (hnd : (ci.fields.map (·.name)).Nodup) {f : FieldInfo}
    (hf : f ∈ ci.fields) (hname : var.name = f.name) {P : Params} {ys : List Val}
    (hP : P.get var.name = finalParam var ys)
    (hparam : finalParam var ys = some (look fields var.name) ∨
      (finalParam var ys = none ∧ ((look fields var.name = .none ∧ fdNone ci var.name = true) ∨
        (look fields var.name = .list [] ∧ var.default = .listFactory)))) :
    f.init = true ∧ (P.get f.name = some (look fields f.name) ∨
      (P.get f.name = none ∧ f.default = some (look fields f.name))) := by
  obtain ⟨hfind, hi, hd⟩ := field_of_var hfa hnd hf hname
  refine ⟨hi, ?_⟩
  rw [← hname, hP]
  rcases hparam with h | ⟨h, hx⟩
  · exact Or.inl h
  · refine Or.inr ⟨h, ?_⟩
    rcases hx with ⟨hx, hfd⟩ | ⟨hx, hdef⟩
    · obtain ⟨f', hf', hdn⟩ := fdNone_iff.1 hfd
      rw [hfind] at hf'; cases hf'
      rw [hx, hdn]
    · rw [hdef] at hd
      rw [hx, defaultAgrees_list hd]

/-- the induction step -/
theorem main_stepN (ft : Feat) (e : BEnv) (Γ : Ctx) (cfg : SerCfg) (pcfg : ParserConfig) (M : NsMap)
    (hΓ : ctxOK ft Γ = true) (n : Nat) (IH : MainStmtN e Γ cfg pcfg M n) :
    MainStmtN e Γ cfg pcfg M (n + 1) := by
  intro v c pnsG pnsP oq q fuel mg mp nl hmg hmp hdq hq hns hval hfuel
  cases v with
  | obj cls fields =>
    obtain ⟨ci, hfind, hmf⟩ : ∃ ci, Γ.find c = some ci ∧ ci.metaFor pnsP = some mp := by
      simpa [metaOf, Option.bind_eq_some_iff] using hmp
    simp only [FN.valObjN, hfind, hmf, Bool.and_eq_true, decide_eq_true_eq, List.all_eq_true] at hval
    obtain ⟨hcls, ⟨hnames, hattrs⟩, hbody⟩ := hval
    subst hcls
    obtain ⟨MF, _⟩ := ctx_metaFactsN hΓ hfind hmf
    obtain ⟨hAnames, hEnames, hAE⟩ := nodup_append_names MF.nameNodup
    obtain ⟨f, rfl⟩ : ∃ f, fuel = f + 1 := ⟨fuel - 1, by simp only [Val.size] at hfuel; omega⟩
    have hf4 : 4 * sizeFields fields + 3 ≤ f := by simp only [Val.size] at hfuel; omega
    -- attributes
    have hAF : ∀ var ∈ mp.attributeVars, AttrFactsN e Γ mp fields var :=
      fun var hv => attrFactsN_of (MF.attrs var hv) (hattrs var hv) hnames
    have hAkeys := attrPairsN_keys cfg mp.attributeVars hAF
    have hAW := fun nil => attrsW_all M cfg nil hAF MF.attrNodup
    have hBindA := fun nil => bindAttrs_N pcfg cfg mp fields M nil hAF hAnames MF.noNilAttr MF.anyAttrs
    -- the generator up to the element content
    have hnilG : mg.nillable = mp.nillable := by
      show (dropQ mg).nillable = (dropQ mp).nillable
      rw [hdq]
    have hGA : nextAttribute cfg mg fields (nl || mg.nillable) none =
        .ok (attrEvsN cfg mp.attributeVars fields ++ nilEvs (nl || mp.nillable)) := by
      rw [← nextAttribute_dropQ, hdq, nextAttribute_dropQ, hnilG]
      exact nextAttribute_N cfg mp fields _ hAF
    have hNV : nextValue mg fields = nextValue mp fields := by
      rw [← nextValue_dropQ, hdq, nextValue_dropQ]
    rw [genObj_unfoldN e Γ cfg f cls fields pnsG oq mg nl hmg, hq, hGA, hNV,
      treeNN_obj Γ cfg M n pnsP nl q cls fields hmp]
    have hfactoryA : ∀ (P : Params), (∀ var ∈ mp.attributeVars,
          P.get var.name = (attrOfN cfg fields var).map (fun _ => look fields var.name)) →
        ∀ fi ∈ ci.fields, ∀ var ∈ mp.attributeVars, var.name = fi.name →
        fi.init = true ∧ (P.get fi.name = some (look fields fi.name) ∨
          (P.get fi.name = none ∧ fi.default = some (look fields fi.name))) :=
      fun P hP fi hfi var hv hname =>
        attr_field_okN cfg (MF.attrs var hv) (hattrs var hv) MF.fieldNodup hfi hname (hP var hv)
    have hclazz : mp.clazz = cls := by rw [MF.clazz]; exact find_id hfind
    have hPA := attrParamsN_get cfg fields mp.attributeVars hAnames
    cases htext : mp.text with
    | some tv =>
      sorry
    | none =>
      dsimp only
      simp only [htext, Bool.and_eq_true, List.all_eq_true] at hbody
      obtain ⟨hbodyE, hcontent⟩ := hbody
      have hEall : ∀ var ∈ mp.elementVars, FN.elemVarOK ft Γ mp ci var = true := by
        simpa [htext] using MF.body
      have hEF := fun var hv => elemFactsN_of MF hv (hEall var hv)
      have hin : ∀ var ∈ mp.elementVars, var.name ∈ fields.map (·.1) := fun var hv => by
        obtain ⟨f', hf', _⟩ := fieldAgrees_iff.1 (hEF var hv).2.2.1
        rw [hnames]; exact mem_names_of_find hf'
      obtain ⟨f', rfl⟩ : ∃ f', f = f' + 1 := ⟨f - 1, by omega⟩
      -- per var: generator, writer and parser of its items
      have hB : ∀ var ∈ mp.elementVars,
          VarBundle e Γ cfg pcfg M mp ci (targetUri q) (treeNN Γ cfg M n (targetUri mp.qname)) f' var
            (look fields var.name) := by
        intro var hv
        obtain ⟨hf, hk, _, _⟩ := hEF var hv
        have hsz := size_le_sizeFields (look_mem (hin var hv))
        simp only at hsz
        cases hk with
        | prim t hc hp ht hd =>
          exact prim_bundle e Γ cfg pcfg M _ _ hf MF.wild hc hp ht hd _ (hbodyE var hv) f' (by omega)
        | cls c' m' hc htk ht hd hm hns' =>
          exact cls_bundle e Γ cfg pcfg M n IH hf hc htk ht hd hm hns' q hns hv (hbodyE var hv) f'
            (by omega)
      -- the generator
      have hNVe := nextValue_N mp fields (fun var hv => ⟨(hEF var hv).1.sequence, hin var hv⟩)
      obtain ⟨body, hbodyEq, hBodyW, hbodyNil⟩ := body_genN e Γ cfg M (targetUri q)
        (treeNN Γ cfg M n (targetUri mp.qname)) (m := mp)
        (mp.elementVars.flatMap (fun var => emitOfN var (look fields var.name))) f'
        (fun c hc => by
          obtain ⟨var, hv, hcv⟩ := List.mem_flatMap.1 hc
          obtain ⟨rfl, hem⟩ := mem_emitOfN hcv
          exact ⟨(hEF var hv).1, (hB var hv).shape, hem, fun y hy => ((hB var hv).items y hy).1⟩)
      rw [chunks_trees] at hBodyW hbodyNil
      -- emptiness of the content on both sides
      have hempty : body.flatten.isEmpty = (mp.elementVars.flatMap fun var =>
          varTreesN M (treeNN Γ cfg M n (targetUri mp.qname)) var (look fields var.name)).isEmpty := by
        cases hk : (mp.elementVars.flatMap fun var =>
            varTreesN M (treeNN Γ cfg M n (targetUri mp.qname)) var (look fields var.name)) with
        | nil => rw [hbodyNil hk]; rfl
        | cons t ts =>
          cases hb : body.flatten with
          | nil =>
            have := hBodyW.1 hb
            rw [hk] at this
            exact absurd (treesSax_eq_nil this) (by simp)
          | cons _ _ => rfl
      -- the entries
      have hentry : ∀ en ∈ blockEntries (fun var => itemsN var (look fields var.name)) mp.elementVars,
          ElemFactsN mp en.1 ∧
          plain M (itemTreeNN M (treeNN Γ cfg M n (targetUri mp.qname)) en.1 en.2) = true ∧
          ItemP e Γ pcfg M mp en.1 en.2 (itemTreeNN M (treeNN Γ cfg M n (targetUri mp.qname)) en.1 en.2) := by
        intro en hen
        obtain ⟨hv, hy⟩ := mem_blockEntries hen
        exact ⟨(hEF _ hv).1, ((hB _ hv).items _ hy).2.1, ((hB _ hv).items _ hy).2.2⟩
      have hplainK : plainList M (mp.elementVars.flatMap fun var =>
          varTreesN M (treeNN Γ cfg M n (targetUri mp.qname)) var (look fields var.name)) = true := by
        rw [plainList_iff]
        intro t ht
        obtain ⟨var, hv, htv⟩ := List.mem_flatMap.1 ht
        simp only [varTreesN] at htv
        split at htv
        · cases htv
        · exact (plainList_iff M _).1 (plain_chunkTrees (fun y hy => ((hB var hv).items y hy).2.1)) t htv
      -- the parser
      have hK := parseKids_chunks e Γ pcfg M MF.choices MF.wild
        (fun en => itemTreeNN M (treeNN Γ cfg M n (targetUri mp.qname)) en.1 en.2)
        (mp.elementVars.flatMap (fun var => emitOfN var (look fields var.name))) {}
        (fun c hc => by
          obtain ⟨var, hv, hcv⟩ := List.mem_flatMap.1 hc
          obtain ⟨rfl, _⟩ := mem_emitOfN hcv
          refine ⟨(hEF var hv).1, fun en hen => ?_⟩
          simp only [chunkEntries, List.mem_map] at hen
          obtain ⟨y, hy, rfl⟩ := hen
          exact ((hB var hv).items y hy).2.2)
        (by
          rw [chunks_entries]
          exact AssignedOK_blocks _ _ [] (fun var hv => (hB var hv).short) MF.idxNodup
            (fun _ _ h => by cases h))
      rw [chunks_entries] at hK
      have hK' : parseKids e Γ pcfg mp {} none (mp.elementVars.flatMap fun var =>
            varTreesN M (treeNN Γ cfg M n (targetUri mp.qname)) var (look fields var.name)) =
          .ok (⟨(blockEntries (fun var => itemsN var (look fields var.name)) mp.elementVars).map
              (fun en => (some en.1.qname, en.2)), 0⟩,
            stAfterChunks {} (mp.elementVars.flatMap (fun var => emitOfN var (look fields var.name)))) := by
        rw [← chunks_trees]; exact hK
      have hWs : WsOK (stAfterChunks {} (mp.elementVars.flatMap
            (fun var => emitOfN var (look fields var.name)))).wrappers
          (blockEntries (fun var => itemsN var (look fields var.name)) mp.elementVars) := by
        apply WsOK_of_queues
        · intro q'
          rw [wsGet_stAfterChunks, chunks_entries]
          simp [wsGet]
        · intro en hen en' hen' hqq
          rw [eq_of_nodup_qname MF.qnNodup (mem_blockEntries hen).1 (mem_blockEntries hen').1 hqq]
      have hinitE : ∀ en ∈ blockEntries (fun var => itemsN var (look fields var.name)) mp.elementVars,
          en.1.init = true := fun en hen => (hentry en hen).1.init
      have hF : classFactory Γ mp.clazz (bindEntries (attrParamsN cfg mp.attributeVars fields)
          (blockEntries (fun var => itemsN var (look fields var.name)) mp.elementVars)) =
          .ok (.obj cls fields) := by
        rw [hclazz]
        apply classFactory_F1 Γ hfind fields _ hnames MF.fieldNodup
        intro fi hfi
        obtain ⟨var, hvar, hname⟩ := MF.covered fi hfi
        rcases List.mem_append.1 hvar with hvA | hvE
        · apply hfactoryA _ _ fi hfi var hvA hname
          intro w hw
          rw [get_bindEntries _ _ _ hinitE, filter_blockEntries_none]
          · exact hPA w hw
          · intro hmem
            obtain ⟨b, hb, hbn⟩ := List.mem_map.1 hmem
            exact hAE w hw b hb hbn.symm
        · apply elem_field_okN (hEF var hvE).2.2.1 MF.fieldNodup hfi hname _ (hB var hvE).param
          rw [get_bindEntries _ _ _ hinitE, filter_blockEntries _ _ hEnames var hvE, attrParamsN_get_none,
            foldl_accVar]
          intro hmem
          obtain ⟨a, ha, han⟩ := List.mem_map.1 hmem
          exact hAE a ha var hvE han
      have hT : ∀ xn, bindText e pcfg mp xn M
          (bindEntries (attrParamsN cfg mp.attributeVars fields)
            (blockEntries (fun var => itemsN var (look fields var.name)) mp.elementVars)) none =
          .ok (false, bindEntries (attrParamsN cfg mp.attributeVars fields)
            (blockEntries (fun var => itemsN var (look fields var.name)) mp.elementVars), 0) := by
        intro xn; simp [bindText, htext]
      -- `xsi:nil` is kept only without content, and then the class is nillable
      have hnilkept : (mp.elementVars.flatMap fun var =>
            varTreesN M (treeNN Γ cfg M n (targetUri mp.qname)) var (look fields var.name)) = [] →
          (nl || mp.nillable) = true → mp.nillable = true := by
        intro hk hN
        simp only [Bool.or_eq_true, Bool.not_eq_true', List.any_eq_true] at hcontent
        rcases hcontent with (h | h) | ⟨var, hv, hem⟩
        · simpa [h] using hN
        · exact h
        · exfalso
          have := emitsChild_trees (M := M) (rec := treeNN Γ cfg M n (targetUri mp.qname)) (hB var hv).shape hem
          apply this
          have hsub : ∀ t ∈ varTreesN M (treeNN Γ cfg M n (targetUri mp.qname)) var (look fields var.name),
              t ∈ (mp.elementVars.flatMap fun var =>
                varTreesN M (treeNN Γ cfg M n (targetUri mp.qname)) var (look fields var.name)) :=
            fun t ht => List.mem_flatMap.2 ⟨var, hv, ht⟩
          rw [hk] at hsub
          cases hvt : varTreesN M (treeNN Γ cfg M n (targetUri mp.qname)) var (look fields var.name) with
          | nil => rfl
          | cons t ts => exact absurd (hsub t (by rw [hvt]; simp)) (by simp)
      generalize hkids : (mp.elementVars.flatMap fun var =>
          varTreesN M (treeNN Γ cfg M n (targetUri mp.qname)) var (look fields var.name)) = kids
        at hBodyW hbodyNil hempty hplainK hK' hnilkept
      have hsubw := SubW_elemN (M := M) (isDt := isDatatype Γ) q
        (attrEvsN cfg mp.attributeVars fields ++ nilEvs (nl || mp.nillable))
        (attrPairsN cfg mp.attributeVars fields) (nl || mp.nillable) body.flatten _
        (hAW _) (fun kv hkv => (hAkeys kv hkv).1) hBodyW
      rw [hempty] at hsubw
      cases hke : kids.isEmpty with
      | true =>
        have hk0 : kids = [] := by simpa using hke
        have hxn := xsiNilOf_append (attrPairsN cfg mp.attributeVars fields)
          (fun kv hkv => (hAkeys kv hkv).1) (nl || mp.nillable)
        have hparse := parseNode_element_N e Γ pcfg mp q
          (attrPairsN cfg mp.attributeVars fields ++ nilAttr (nl || mp.nillable)) M none kids _ _ _ _
          false (.obj cls fields) MF.choices MF.wild
          (fun h => by
            rw [hxn] at h
            cases hN : (nl || mp.nillable) with
            | false => simp [hN] at h
            | true => exact hnilkept hk0 hN)
          hK' (fun en hen => (hentry en hen).1) hWs (hBindA _) (hT _) hF
        refine ⟨[Ev.start q] ++ (attrEvsN cfg mp.attributeVars fields ++ nilEvs (nl || mp.nillable)) ++
            body.flatten ++ [Ev.end q],
          attrPairsN cfg mp.attributeVars fields ++ nilAttr (nl || mp.nillable), none, kids, ?_,
          by simp, ?_, ?_,
          noType_append _ (fun kv hkv => (hAkeys kv hkv).2) (nl || mp.nillable), ?_, ?_⟩
        · simp only [hNVe, hbodyEq, bind, Except.bind, pure, Except.pure]
        · simpa [hke, treeSax] using hsubw
        · simp [hke, plain, hplainK]
        · rw [hxn]
          cases hN : (nl || mp.nillable) with
          | false => exact Or.inl (by simp)
          | true => exact Or.inr ⟨by simp, rfl⟩
        · simpa [hke] using hparse
      | false =>
        have hxn : xsiNilOf (attrPairsN cfg mp.attributeVars fields) = none := by
          simpa [nilAttr] using xsiNilOf_append (attrPairsN cfg mp.attributeVars fields)
            (fun kv hkv => (hAkeys kv hkv).1) false
        have hparse := parseNode_element_N e Γ pcfg mp q
          (attrPairsN cfg mp.attributeVars fields) M none kids _ _ _ _
          false (.obj cls fields) MF.choices MF.wild
          (fun h => by rw [hxn] at h; cases h)
          hK' (fun en hen => (hentry en hen).1) hWs (by simpa [nilAttr] using hBindA false) (hT _) hF
        refine ⟨[Ev.start q] ++ (attrEvsN cfg mp.attributeVars fields ++ nilEvs (nl || mp.nillable)) ++
            body.flatten ++ [Ev.end q], attrPairsN cfg mp.attributeVars fields, none, kids, ?_,
          by simp, ?_, ?_,
          fun kv hkv => (hAkeys kv hkv).2, Or.inl hxn, ?_⟩
        · simp only [hNVe, hbodyEq, bind, Except.bind, pure, Except.pure]
        · simpa [hke, treeSax] using hsubw
        · simp [hke, plain, hplainK]
        · simpa [hke] using hparse
  | _ => simp [FN.valObjN] at hval

end Proofs.C01
