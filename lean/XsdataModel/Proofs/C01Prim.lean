/-
C01 helper lemmas, part 1: the primitive converters of fragment F1
(`str`, `int`, `bool`): `deserialize (serialize p) = p` for every `Env`.
-/
import XsdataModel.Bind.F1
import XsdataModel.Proofs.DatesFormatParse

namespace Proofs.C01
open Py Xs.Bind Xs.Bind.F1 Proofs.DatesFormatParse

/-! ### `int(str(i)) = i` -/

theorem pyInt_natStr (e : Env) (n : Nat) : e.pyInt (natStr n) = some (n : Int) := by
  rw [natStr_eq, pyInt_digits e _ (nstr_AllD n) (nstr_ne_nil n), dval_nstr]

theorem pyInt_neg_natStr (e : Env) (n : Nat) :
    e.pyInt ('-' :: natStr n) = some (-(n : Int)) := by
  rw [natStr_eq]
  have hd := nstr_AllD n
  have hne := nstr_ne_nil n
  have hstrip : e.intStrip ('-' :: nstr n) = '-' :: nstr n := by
    apply intStrip_eq
    · intro c hc
      simp at hc; subst hc
      simp [Env.isIntSpace, isAscii]
    · intro c hc
      have : (nstr n).getLast? = some c := by
        cases hs : nstr n with
        | nil => exact absurd hs hne
        | cons a t => rw [hs] at hc; simpa [List.getLast?_cons_cons] using hc
      exact not_intSpace_of_digit e (hd c (List.mem_of_mem_getLast? this))
  unfold Env.pyInt
  rw [hstrip]
  cases hs : nstr n with
  | nil => exact absurd hs hne
  | cons a t =>
    have := intBody_digits_ne e (nstr n) hd hne false
    rw [hs] at this
    simp [this]
    have hv := dval_nstr n
    rw [hs] at hv
    have hv' : digitsVal ((a.toNat - 48) :: List.map (fun c => c.toNat - 48) t) = n := by
      simpa [dval] using hv
    rw [hv']

theorem pyInt_intStr (e : Env) (i : Int) : e.pyInt (intStr i) = some i := by
  unfold intStr
  split
  · rename_i h
    rw [pyInt_neg_natStr]
    congr 1; omega
  · rename_i h
    rw [pyInt_natStr]
    congr 1; omega

theorem natStr_ne_nil (n : Nat) : natStr n ≠ [] := by
  rw [natStr_eq]; exact nstr_ne_nil n

theorem natStr_head (n : Nat) : ∃ c t, natStr n = c :: t ∧ isAsciiDigit c = true := by
  rw [natStr_eq]
  cases hs : nstr n with
  | nil => exact absurd hs (nstr_ne_nil n)
  | cons a t =>
    refine ⟨a, t, rfl, ?_⟩
    have := nstr_AllD n
    rw [hs] at this
    exact this a (by simp)

/-! ### `bool` -/

theorem strip_true (e : Env) : e.strip ['t', 'r', 'u', 'e'] = ['t', 'r', 'u', 'e'] := by
  apply strip_eq <;> intro c hc <;> simp at hc <;> subst hc <;>
    simp [Env.isSpace, isAscii, isAsciiSpace]

theorem strip_false (e : Env) : e.strip ['f', 'a', 'l', 's', 'e'] = ['f', 'a', 'l', 's', 'e'] := by
  apply strip_eq <;> intro c hc <;> simp at hc <;> subst hc <;>
    simp [Env.isSpace, isAscii, isAsciiSpace]

/-! ### the round trip of one primitive -/

theorem deserialize_serPrim (e : BEnv) (p : PVal) (t : PT) (nsmap : NsMap)
    (h : primHasType p t = true) : deserialize e (serPrim p) [.prim t] nsmap = some p := by
  cases p <;> cases t <;> simp [primHasType] at h
  · simp [deserialize, deOne, serPrim]
  · simp [deserialize, deOne, serPrim, pyInt_intStr]
  · rename_i b
    cases b
    · simp [deserialize, deOne, serPrim, strip_false]
    · simp [deserialize, deOne, serPrim, strip_true]

/-- only the empty `str` serializes to the empty string -/
theorem serPrim_eq_nil {p : PVal} {t : PT} (h : primHasType p t = true) :
    serPrim p = [] ↔ p = .str [] := by
  cases p <;> cases t <;> simp [primHasType] at h
  · simp [serPrim]
  · rename_i i
    simp [serPrim, intStr]
    split <;> simp [natStr_ne_nil]
  · rename_i b
    cases b <;> simp [serPrim]

/-- serialized `int` / `bool` values never look like a Clark name -/
theorem serPrim_head (p : PVal) (h : ∀ s, p ≠ .str s) (hq : ∀ s, p ≠ .qname s) :
    (serPrim p).head? ≠ some '{' := by
  cases p with
  | str s => exact absurd rfl (h s)
  | qname s => exact absurd rfl (hq s)
  | bool b => cases b <;> simp [serPrim]
  | int i =>
    simp only [serPrim, intStr]
    split
    · simp
    · obtain ⟨c, t, hc, hd⟩ := natStr_head i.natAbs
      rw [hc]
      simp
      intro hcc; subst hcc
      simp [isAsciiDigit] at hd

end Proofs.C01
