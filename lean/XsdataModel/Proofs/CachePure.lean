/- The source cache of `ResourceTransformer.process` is transparent exactly when
the cache key determines the mapped classes. -/
import XsdataModel.Codegen.Cache

set_option linter.unusedSimpArgs false
set_option linter.unusedVariables false

namespace Xs.Codegen
open Py List

/-- equal keys ⇒ equal mapped classes -/
def KeyFaithful {α} (withPackage : Bool) (raw : List Str → Str → α) : Prop :=
  ∀ u p u' p', cacheKey withPackage u p = cacheKey withPackage u' p' → raw u p = raw u' p'

/-- every cached entry is what mapping some run's sources gives -/
def CacheSound {α} (withPackage : Bool) (raw : List Str → Str → α) (cache : List (Str × α)) : Prop :=
  ∀ k v, (k, v) ∈ cache → ∃ u p, k = cacheKey withPackage u p ∧ v = raw u p

theorem lookup_mem {α} (k : Str) : ∀ (l : List (Str × α)) (v : α), List.lookup k l = some v → (k, v) ∈ l
  | [], v, h => by simp [List.lookup] at h
  | (k', v') :: l, v, h => by
    simp only [List.lookup] at h
    cases hk : (k == k') with
    | true =>
      simp only [hk, Option.some.injEq] at h
      have : k = k' := by simpa using hk
      subst this; subst h; exact List.mem_cons_self
    | false =>
      simp only [hk] at h
      exact List.mem_cons_of_mem _ (lookup_mem k l v h)

theorem processCached_spec {α} {wp : Bool} {raw : List Str → Str → α} (hk : KeyFaithful wp raw)
    {cache : List (Str × α)} (hc : CacheSound wp raw cache) (uris : List Str) (package : Str) :
    (processCached wp raw cache uris package).1 = raw uris package ∧
    CacheSound wp raw (processCached wp raw cache uris package).2 := by
  unfold processCached
  cases hl : List.lookup (cacheKey wp uris package) cache with
  | none =>
    simp only [hl]
    refine ⟨trivial, ?_⟩
    intro k v hm
    rcases List.mem_append.1 hm with h1 | h1
    · exact hc k v h1
    · simp only [List.mem_singleton, Prod.mk.injEq] at h1
      exact ⟨uris, package, h1.1, h1.2⟩
  | some v =>
    simp only [hl]
    refine ⟨?_, hc⟩
    obtain ⟨u, p, hkey, hv⟩ := hc _ v (lookup_mem _ cache v hl)
    show v = raw uris package
    rw [hv]; exact (hk uris package u p hkey).symm

theorem runHistory_spec {α} {wp : Bool} {raw : List Str → Str → α} (hk : KeyFaithful wp raw) :
    ∀ (runs : List (List Str × Str)) (cache : List (Str × α)), CacheSound wp raw cache →
      runHistory wp raw cache runs = runs.map (fun r => raw r.1 r.2)
  | [], _, _ => rfl
  | (u, p) :: rest, cache, hc => by
    obtain ⟨h1, h2⟩ := processCached_spec hk hc u p
    simp only [runHistory, List.map_cons, h1]
    rw [runHistory_spec hk rest _ h2]

end Xs.Codegen
