/- C07 — property theorems (only). Helper lemmas: Proofs/Names.lean, Proofs/Rename.lean. -/
import XsdataModel.Proofs.Names
import XsdataModel.Proofs.Rename
import XsdataModel.Py.TblEnv
import XsdataModel.Names.TblUEnv

namespace Props.C07
open Py Xs.Text Xs.Filters Xs.Rename Proofs.Names Proofs.Rename

/-! ## tables the proofs are about (regenerated from /repo on every run) -/

def allCases : List NameCase :=
  [.original, .pascal, .camel, .snake, .screamingSnake, .mixed, .mixedSnake, .mixedPascal]

def defaultPrefixes : List Str :=
  [Tables.classSafePrefix, Tables.fieldSafePrefix, Tables.moduleSafePrefix, Tables.packageSafePrefix]

/-- the ASCII alphabet `text.__alnum_ascii__` is exactly the model's `isAsciiAlnum` -/
theorem alnum_table_agrees :
    Tables.alnumAscii = ((List.range 128).map Char.ofNat).filter isAsciiAlnum := by decide +kernel

/-- the default `GeneratorConventions` are the ones the rest of this file talks about -/
theorem default_conventions :
    classConv = ⟨.pascal, "type".toList⟩ ∧ fieldConv = ⟨.snake, "value".toList⟩ ∧
    constantConv = ⟨.screamingSnake, "value".toList⟩ ∧ moduleConv = ⟨.snake, "mod".toList⟩ ∧
    packageConv = ⟨.snake, "pkg".toList⟩ := by decide +kernel

/-- every naming case combined with every default safe prefix is a "good" convention:
the prefix is a word of lower-case ASCII letters and no reserved word ends in what the case
function makes of `_prefix`. (Checked against the extracted `stop_words`.) -/
theorem default_prefixes_good :
    ∀ c ∈ allCases, ∀ p ∈ defaultPrefixes, goodPrefix ⟨c, p⟩ = true := by decide +kernel

example : goodPrefix classConv = true ∧ goodPrefix fieldConv = true ∧ goodPrefix constantConv = true ∧
    goodPrefix moduleConv = true ∧ goodPrefix packageConv = true := by decide +kernel

/-! ## safe_name: termination, reserved words, identifiers -/

/-- **safe_name terminates**: for every Unicode environment, every naming case, every good
prefix and *every* name (all of Unicode) the recursion ends within three calls. -/
theorem safe_name_terminates (e : Env) (u : UEnv) (cv : Conv) (hg : goodPrefix cv = true)
    (name : Str) : ∃ r, safeNameFuel e u cv 3 name = .ok r ∧ safeName e u cv name = .ok r := by
  obtain ⟨_, r, _, _, _, hf, _⟩ := run_total e u cv hg name
  exact ⟨r, hf, fuel_mono' e u cv r 3 61 name hf⟩

/-- **never a reserved word**: the result is not in `text.stop_words`. -/
theorem safe_name_not_reserved (e : Env) (u : UEnv) (cv : Conv) (hg : goodPrefix cv = true)
    (name r : Str) (h : safeName e u cv name = .ok r) : isReserved r = false := by
  obtain ⟨_, r', _, _, _, hf, hnr⟩ := run_total e u cv hg name
  have := fuel_mono' e u cv r' 3 61 name hf
  unfold safeName defaultFuel at h
  rw [this] at h
  cases h
  exact hnr

/-- **always an identifier** (seven word-splitting cases): whatever the input name, the
result satisfies `str.isidentifier()`. -/
theorem safe_name_identifier (e : Env) (u : UEnv) (cv : Conv) (hg : goodPrefix cv = true)
    (hc : cv.case ≠ .original) (name r : Str) (h : safeName e u cv name = .ok r) :
    u.isIdentifier r = true := by
  obtain ⟨n, r', hD, _, hr, hf, _⟩ := run_total e u cv hg name
  have := fuel_mono' e u cv r' 3 61 name hf
  unfold safeName defaultFuel at h
  rw [this] at h
  cases h
  obtain ⟨r2, hr2, hh, hok⟩ := applyCase_shape u cv.case hc n hD.2
  rw [hr] at hr2
  cases hr2
  exact isIdentifier_of_shape u _ hh hok

example : goodPrefix fieldConv = true ∧ fieldConv.case ≠ .original := by decide +kernel

/-- full-strength statement for `originalCase` -/
def OriginalCaseAlwaysIdentifier (e : Env) (u : UEnv) : Prop :=
  ∀ name r, safeName e u ⟨.original, Tables.fieldSafePrefix⟩ name = .ok r → u.isIdentifier r = true

/-- … which is false with the interpreter's tables: `a⁰` (SUPERSCRIPT ZERO is `\w` but not
XID_Continue) is returned unchanged. -/
theorem original_case_not_identifier : ¬ OriginalCaseAlwaysIdentifier tblEnv tblUEnv := by
  intro h
  have := h ['a', Char.ofNat 0x2070] ['a', Char.ofNat 0x2070] (by decide +kernel)
  revert this
  decide +kernel

/-- the provable part: names all of whose `\w` characters are XID_Continue. -/
theorem safe_name_identifier_original_partial (e : Env) (u : UEnv) (p : Str)
    (hg : goodPrefix ⟨.original, p⟩ = true) (name r : Str) (hx : XidSafe u name)
    (h : safeName e u ⟨.original, p⟩ name = .ok r) : u.isIdentifier r = true := by
  obtain ⟨n, r', hD, hch, hr, hf, _⟩ := run_total e u ⟨.original, p⟩ hg name
  have := fuel_mono' e u _ r' 3 61 name hf
  unfold safeName defaultFuel at h
  rw [this] at h
  cases h
  simp only [applyCase, Option.some.injEq] at hr
  subst hr
  apply original_identifier u n hD.2
  intro x hx' hw
  rcases hch x hx' with h1 | h1
  · exact hx x h1 hw
  · exact xid_of_ascii_word u x h1 hw

example : goodPrefix ⟨.original, Tables.fieldSafePrefix⟩ = true ∧
    XidSafe tblUEnv ['x', '-', Char.ofNat 0xE9, '1'] := by
  refine ⟨by decide +kernel, ?_⟩
  intro x hx
  simp at hx
  rcases hx with rfl | rfl | rfl | rfl <;> decide +kernel

/-! ## keywords -/

def NeverKeyword (e : Env) (u : UEnv) (cv : Conv) : Prop :=
  ∀ name r, safeName e u cv name = .ok r → Tables.kwlist.contains r = false

/-- `await` is a hard keyword that `stop_words` does not list: the field (and module,
package) convention returns it unchanged. -/
theorem field_name_can_be_keyword : ¬ NeverKeyword Env.ascii UEnv.ascii fieldConv := by
  intro h
  have := h "await".toList "await".toList (by decide +kernel)
  revert this
  decide +kernel

/-- the only keyword any convention with a good prefix can return is `await`. -/
theorem safe_name_not_keyword_partial (e : Env) (u : UEnv) (cv : Conv) (hg : goodPrefix cv = true)
    (name r : Str) (h : safeName e u cv name = .ok r) (hne : r ≠ "await".toList) :
    Tables.kwlist.contains r = false := by
  have hnr := safe_name_not_reserved e u cv hg name r h
  have hall : Tables.kwlist.all (fun k => Tables.stopWords.contains k || k == "await".toList) = true := by
    decide +kernel
  cases hk : Tables.kwlist.contains r
  · rfl
  · exfalso
    have hmem : r ∈ Tables.kwlist := by simpa using hk
    have := (List.all_eq_true.1 hall) r hmem
    unfold isReserved at hnr
    simp at this
    rcases this with h1 | h1
    · have : Tables.stopWords.contains r = true := by simpa using h1
      rw [hnr] at this; cases this
    · exact hne h1

example : safeName Env.ascii UEnv.ascii fieldConv "class".toList = .ok "class_value".toList ∧
    "class_value".toList ≠ "await".toList := by decide +kernel

/-- class names (pascalCase) and constants (screamingSnakeCase) are never keywords:
their first character is upper case. -/
theorem class_and_constant_names_never_keyword (e : Env) (u : UEnv) (cv : Conv)
    (hg : goodPrefix cv = true)
    (hc : cv.case = .pascal ∨ cv.case = .screamingSnake ∨ cv.case = .mixedPascal) :
    NeverKeyword e u cv := by
  intro name r h
  apply safe_name_not_keyword_partial e u cv hg name r h
  intro hr
  subst hr
  obtain ⟨n, r', hD, _, hr, hf, _⟩ := run_total e u cv hg name
  have := fuel_mono' e u cv r' 3 61 name hf
  unfold safeName defaultFuel at h
  rw [this] at h
  cases h
  obtain ⟨x, w1, rest, hws, hx⟩ := words_head n hD.2
  rcases hc with hc | hc | hc <;> rw [hc] at hr
  · simp only [applyCase, pascalCase, hws, Option.some.injEq] at hr
    rw [List.map_cons, List.flatten_cons, titleA_cons_alpha x w1 hx] at hr
    have h0 : upperA x = 'a' := by simpa using congrArg List.head? hr
    revert h0 hx
    by_cases hc128 : x.toNat < 128
    · exact ascii_cases (fun x => isAsciiAlpha x = true → upperA x = 'a' → False) x hc128 (by decide +kernel)
    · rw [upperA_of_ge x hc128]; intro _ h0; subst h0; exact absurd (by decide) hc128
  · obtain ⟨t, ht⟩ := join_cons_head ['_'] (lowerA x) (w1.map lowerA) (rest.map (·.map lowerA))
    have hs : snakeCase n = lowerA x :: t := by simpa [snakeCase, hws] using ht
    simp only [applyCase, screamingSnakeCase, hs, List.map_cons, Option.some.injEq] at hr
    have h0 : upperA (lowerA x) = 'a' := by simpa using congrArg List.head? hr
    revert h0 hx
    by_cases hc128 : x.toNat < 128
    · exact ascii_cases (fun x => isAsciiAlpha x = true → upperA (lowerA x) = 'a' → False) x hc128
        (by decide +kernel)
    · rw [lowerA_of_ge x hc128, upperA_of_ge x hc128]; intro _ h0; subst h0; exact absurd (by decide) hc128
  · have hmix : mixedCase n = x :: (w1 ++ rest.flatten) := by simp [mixedCase, hws]
    simp only [applyCase, mixedPascalCase, capitalizeA, hmix, Option.some.injEq] at hr
    have h0 : upperA x = 'a' := by simpa using congrArg List.head? hr
    revert h0 hx
    by_cases hc128 : x.toNat < 128
    · exact ascii_cases (fun x => isAsciiAlpha x = true → upperA x = 'a' → False) x hc128 (by decide +kernel)
    · rw [upperA_of_ge x hc128]; intro _ h0; subst h0; exact absurd (by decide) hc128

example : goodPrefix classConv = true ∧ classConv.case = .pascal := by decide +kernel

/-- a safe prefix without a leading letter is outside `goodPrefix`; the real function then
recurses until the interpreter gives up (the model: until the fuel is gone). -/
theorem safe_name_diverges_for_bad_prefix :
    goodPrefix ⟨.snake, ['_']⟩ = false ∧
    safeName Env.ascii UEnv.ascii ⟨.snake, ['_']⟩ "class".toList = .recursionError := by
  decide +kernel

/-! ## de-duplication by slug -/

/-- **the slug survives every word-splitting case**, so two names with different slugs keep
different names under any convention — as long as `safe_name` does not rewrite them. -/
theorem slug_invariant (u : UEnv) (c : NameCase) (hc : c ≠ .original) (v r : Str)
    (h : applyCase u c v = some r) : alnum r = alnum v := alnum_applyCase u c hc v r h

/-- names that go through `safe_name` unchanged ("plain": first step returns) stay distinct
when their slugs are distinct. -/
theorem plain_names_distinct (e : Env) (u : UEnv) (cv : Conv) (hc : cv.case ≠ .original)
    (n1 n2 r1 r2 : Str) (h1 : safeNameStep e u cv n1 = .done r1) (h2 : safeNameStep e u cv n2 = .done r2)
    (hs : alnum n1 ≠ alnum n2) : r1 ≠ r2 := by
  have key : ∀ n r, safeNameStep e u cv n = .done r → alnum r = alnum n := by
    intro n r h
    unfold safeNameStep at h
    split at h
    · cases h
    · split at h
      · cases h
      · simp only [] at h
        split at h
        · cases h
        · split at h
          · cases h
          · split at h
            · cases h
            · rename_i r' hr
              split at h
              · cases h
              · cases h; exact alnum_applyCase u cv.case hc n r hr
  intro heq
  apply hs
  rw [← key n1 r1 h1, ← key n2 r2 h2, heq]

example : safeNameStep Env.ascii UEnv.ascii fieldConv "fooBar".toList = .done "foo_bar".toList ∧
    safeNameStep Env.ascii UEnv.ascii fieldConv "foo-baz".toList = .done "foo_baz".toList ∧
    alnum "fooBar".toList ≠ alnum "foo-baz".toList := by decide +kernel

/-- … but the rewriting does collide: the slugs of `1` and `value_1` differ, the handlers see
no duplicate, and both enumeration members are named `VALUE_1`; likewise `class`/`class_value`. -/
def SafeNamesInjectiveOnSlugs (e : Env) (u : UEnv) (cv : Conv) : Prop :=
  ∀ n1 n2 r1 r2, safeName e u cv n1 = .ok r1 → safeName e u cv n2 = .ok r2 →
    alnum n1 ≠ alnum n2 → r1 ≠ r2

theorem safe_prefix_collision_constants : ¬ SafeNamesInjectiveOnSlugs Env.ascii UEnv.ascii constantConv := by
  intro h
  exact h "1".toList "value_1".toList "VALUE_1".toList "VALUE_1".toList
    (by decide +kernel) (by decide +kernel) (by decide +kernel) rfl

theorem safe_prefix_collision_fields : ¬ SafeNamesInjectiveOnSlugs Env.ascii UEnv.ascii fieldConv := by
  intro h
  exact h "class".toList "class_value".toList "class_value".toList "class_value".toList
    (by decide +kernel) (by decide +kernel) (by decide +kernel) rfl

theorem safe_prefix_collision_classes : ¬ SafeNamesInjectiveOnSlugs Env.ascii UEnv.ascii classConv := by
  intro h
  exact h "None".toList "NoneType".toList "NoneType".toList "NoneType".toList
    (by decide +kernel) (by decide +kernel) (by decide +kernel) rfl

/-! ## the "next free index" loops -/

/-- `ClassUtils.unique_name` always terminates (the model's fuel `|reserved|+1` is never
exhausted) and the slug of its result is not reserved — for every name and reserved set. -/
theorem unique_name_fresh (name : Str) (R : List Str) :
    ∃ n, uniqueName name R = some n ∧ R.contains (alnum n) = false := uniqueName_fresh name R

/-- `RenameDuplicateClasses.next_qname` terminates with an index `k ≥ 1` whose comparison key
(`alnum` of the new name, or of the new qname) is not reserved. -/
theorem next_qname_fresh (useNames : Bool) (ns : Option Str) (name : Str) (R : List Str) :
    ∃ k, 1 ≤ k ∧ nextQName useNames ns name R = some (buildQName ns (indexed name k)) ∧
      R.contains (alnum (if useNames then indexed name k else buildQName ns (indexed name k))) = false := by
  obtain ⟨k, hk, h1, hfree⟩ := nextQNameIdx_spec useNames ns name R 1
  exact ⟨k, h1, by simp [nextQName, hk], hfree⟩

/-- `DisambiguateChoices.next_available_name` terminates with a name whose slug differs from
the slug of every existing inner class. -/
theorem next_available_name_fresh (name : Str) (inner : List Str) :
    ∃ n, nextAvailableName name inner = some n ∧ (inner.map alnum).contains (alnum n) = false := by
  unfold nextAvailableName
  simp only []
  cases hc : (inner.map alnum).contains (alnum name)
  · exact ⟨name, by simp, hc⟩
  · obtain ⟨k, hk, _, hfree⟩ := firstFree_spec name (inner.map alnum) 1
    refine ⟨indexed name k, ?_, hfree⟩
    simp only [if_true]
    rw [show (inner.map alnum).length + 1 = (List.map alnum inner).length + 1 from rfl, hk]
    rfl

/-! ## rename_duplicate_attributes / RenameDuplicateClasses: the full-strength statements fail -/

/-- what `RenameDuplicateAttributes` is for: afterwards no two attrs share a slug -/
def SlugsDistinctAfterRename : Prop :=
  ∀ attrs : List Attr, ((renameDuplicateAttrs attrs).map Attr.slug).Nodup

def attrsPref : List Attr :=
  [⟨"Element".toList, "a".toList, none⟩, ⟨"Attribute".toList, "a".toList, none⟩,
   ⟨"Element".toList, "a_Attribute".toList, none⟩]

/-- `rename_attribute_by_preference` never re-checks: element `a`, attribute `a`, element
`a_Attribute` end as `a`, `a_Attribute`, `a_Attribute`. -/
theorem slugs_distinct_after_rename_false : ¬ SlugsDistinctAfterRename := by
  intro h
  have := h attrsPref
  revert this
  decide +kernel

/-- the generated dataclass therefore has two fields `a_attribute` -/
theorem preference_rename_duplicate_field :
    (renameDuplicateAttrs attrsPref).map (fun a => safeName Env.ascii UEnv.ascii fieldConv a.name) =
      [.ok "a".toList, .ok "a_attribute".toList, .ok "a_attribute".toList] := by decide +kernel

/-- a namespace whose `clean_uri` has no alphanumerics gives the renamed attr its old slug back -/
theorem preference_rename_same_slug :
    ((renameDuplicateAttrs [⟨"Element".toList, "a".toList, none⟩,
        ⟨"Element".toList, "a".toList, some "http://www".toList⟩]).map Attr.slug) =
      ["a".toList, "a".toList] := by decide +kernel

/-- the provable part: when no slug occurs exactly twice among non-enumeration attrs (so
nothing is renamed "by preference"), all slugs are pairwise different afterwards — for every
attr list, by an invariant over the groups in processing order. -/
theorem slugs_distinct_after_rename_partial (attrs : List Attr) (h : pairFree attrs = true) :
    ((renameDuplicateAttrs attrs).map Attr.slug).Nodup := rename_pairFree_nodup attrs h

example : pairFree [⟨"Element".toList, "a".toList, none⟩, ⟨"Attribute".toList, "A".toList, none⟩,
    ⟨"Element".toList, "a_".toList, none⟩, ⟨"Element".toList, "a_1".toList, none⟩,
    ⟨"Enumeration".toList, "b".toList, none⟩, ⟨"Enumeration".toList, "B".toList, none⟩] = true := by
  decide +kernel

/-- … and then the generated field names are pairwise different too, provided every renamed
name passes `safe_name` unchanged (word-splitting cases). -/
theorem field_names_distinct_partial (e : Env) (u : UEnv) (cv : Conv) (hc : cv.case ≠ .original)
    (attrs : List Attr) (h : pairFree attrs = true)
    (hplain : ∀ a ∈ renameDuplicateAttrs attrs, ∃ r, safeNameStep e u cv a.name = .done r) :
    ((renameDuplicateAttrs attrs).map (fun a => safeNameStep e u cv a.name)).Nodup := by
  have hs := rename_pairFree_nodup attrs h
  rw [List.Nodup, List.pairwise_map] at hs ⊢
  apply hs.imp_of_mem
  intro a b ha hb hne heq
  obtain ⟨r1, h1⟩ := hplain a ha
  obtain ⟨r2, h2⟩ := hplain b hb
  rw [h1, h2] at heq
  cases heq
  exact plain_names_distinct e u cv hc a.name b.name r1 r1 h1 h2 hne rfl

def ClassKeysDistinctAfterRename : Prop :=
  ∀ cs : List Cls, (∀ c ∈ cs, c.location = "l".toList) →
    ((renameClasses "filenames".toList cs).map (fun q => alnum (splitQName q).2)).Nodup

/-- `add_abstract_suffix` does not consult the reserved names -/
theorem abstract_suffix_collision : ¬ ClassKeysDistinctAfterRename := by
  intro h
  have := h [⟨"a".toList, true, true, "l".toList⟩, ⟨"A".toList, false, false, "l".toList⟩,
    ⟨"a_abstract".toList, false, false, "l".toList⟩] (by decide +kernel)
  revert this
  decide +kernel

end Props.C07
