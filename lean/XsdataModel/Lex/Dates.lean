/-
L1 — xsdata/utils/dates.py : DateTimeParser, validate_*, format_*,
and xsdata/models/datatype.py : XmlDate / XmlTime / XmlDateTime from_string / __str__.

The model follows the code line by line, *including* its leniencies (slices
running off the end, `isdigit()` loops over non-ASCII digits, offsets up to
99:99, an empty fraction after the point); digit runs are converted by the
strict `parse_int` (ASCII digits only).
Every exception inside `DateTimeParser.parse` becomes `ValueError`, so the
result type is `Option`.
-/
import XsdataModel.Py.Basic
import XsdataModel.Tables

namespace Xs.Dates
open Py

/-- parser state: `self.value`, `self.vidx` (`vlen` is `value.length`) -/
structure PS where
  value : Str
  vidx : Nat

def PS.hasMore (p : PS) : Bool := p.vidx < p.value.length

/-- `self.peek()` — `none` is `IndexError` -/
def PS.peek (p : PS) : Option Char := p.value[p.vidx]?

/-- `self.skip(char)` -/
def PS.skip (p : PS) (c : Char) : Option PS :=
  if p.hasMore && p.peek == some c then some { p with vidx := p.vidx + 1 } else none

/-- `DateTimeParser.parse_int(raw)`: `raw.isascii() and raw.isdigit()` (a
non-empty run of ASCII digits), then `int(raw)` -/
def parseInt (e : Env) (raw : Str) : Option Int :=
  if !raw.isEmpty && raw.all isAsciiDigit then e.pyInt raw else none

/-- `self.parse_digits(n)` -/
def parseDigits (e : Env) (p : PS) (n : Nat) : Option (Int × PS) :=
  let start := p.vidx
  let p' := { p with vidx := p.vidx + n }
  (parseInt e (slice p.value start p'.vidx)).map (·, p')

/-- the `while self.has_more() and self.peek().isdigit(): self.vidx += 1` loop,
optionally bounded (`parse_fixed_digits`); `fuel` bounds the recursion by the
remaining length -/
def scanDigits (e : Env) (value : Str) : Nat → Nat → Option Nat → Nat
  | 0, vidx, _ => vidx
  | fuel+1, vidx, limit =>
    if limit = some 0 then vidx else
    match value[vidx]? with
    | some c => if e.isDigit c then scanDigits e value fuel (vidx + 1) (limit.map (· - 1)) else vidx
    | none => vidx

/-- `self.parse_minimum_digits(n)` -/
def parseMinimumDigits (e : Env) (p : PS) (n : Nat) : Option (Int × PS) :=
  let start := p.vidx
  let v1 := p.vidx + n
  let v2 := scanDigits e p.value (p.value.length + 1) v1 none
  (parseInt e (slice p.value start v2)).map (·, { p with vidx := v2 })

/-- `self.parse_fixed_digits(n)` -/
def parseFixedDigits (e : Env) (p : PS) (n : Nat) : Option (Int × PS) :=
  let start := p.vidx
  let v2 := scanDigits e p.value (p.value.length + 1) p.vidx (some n)
  (parseInt e (ljust (slice p.value start v2) n '0')).map (·, { p with vidx := v2 })

/-- `len(raw) - len(raw.lstrip("0"))` -/
def leadingZeros (raw : Str) : Nat := raw.length - (raw.dropWhile (· = '0')).length

/-- `self.parse_year()` -/
def parseYear (e : Env) (p : PS) : Option (Int × PS) :=
  match p.peek with
  | none => none
  | some c =>
    let negative := c = '-'
    let p1 := if negative then { p with vidx := p.vidx + 1 } else p
    let start := p1.vidx
    match parseMinimumDigits e p1 4 with
    | none => none
    | some (year, p2) =>
      let raw := slice p.value start p2.vidx
      let lz := leadingZeros raw
      if (lz = 1 && year > 999) || (lz = 2 && year > 99) || (lz = 3 && year > 9)
          || (lz = 4 && year > 0) || lz > 4 then none
      else some (if negative then -year else year, p2)

/-- `self.parse_fractional_second()` -/
def parseFractionalSecond (e : Env) (p : PS) : Option (Int × PS) :=
  if p.hasMore && p.peek == some '.' then
    let p1 : PS := { p with vidx := p.vidx + 1 }
    -- `if not (self.has_more() and self.peek().isdigit()): raise ValueError`
    if !(p1.hasMore && (p1.peek.map e.isDigit).getD false) then none
    else parseFixedDigits e p1 9
  else some (0, p)

/-- `self.parse_offset()` — the inner `Option` is Python's `None` -/
def parseOffset (e : Env) (p : PS) : Option (Option Int × PS) :=
  if !p.hasMore then some (none, p) else
  match p.peek with
  | none => none
  | some ctrl =>
    if ctrl = 'Z' then some (some 0, { p with vidx := p.vidx + 1 })
    else if ctrl = '-' || ctrl = '+' then
      match parseDigits e { p with vidx := p.vidx + 1 } 2 with
      | none => none
      | some (hh, p1) =>
        match p1.skip ':' with
        | none => none
        | some p2 =>
          match parseDigits e p2 2 with
          | none => none
          | some (mm, p3) =>
            if mm > 59 then none else
            let off := hh * 60 + mm
            if off > 840 then none else
            some (some (if ctrl = '-' then off * (-1) else off * 1), p3)
    else none

/-- `self.parse_var(var)`; yields one or two values -/
def parseVar (e : Env) (p : PS) (var : Char) : Option (List (Option Int) × PS) :=
  if Tables.simpleTwoDigitsFormats.contains var then
    (parseDigits e p 2).map fun (v, p') => ([some v], p')
  else if var = 'Y' then
    (parseYear e p).map fun (v, p') => ([some v], p')
  else if var = 'S' then
    match parseDigits e p 2 with
    | none => none
    | some (s, p1) =>
      (parseFractionalSecond e p1).map fun (f, p2) => ([some s, some f], p2)
  else if var = 'z' then
    (parseOffset e p).map fun (o, p') => ([o], p')
  else none

/-- `DateTimeParser.parse` -/
def parseLoop (e : Env) : Str → PS → Option (List (Option Int))
  | [], p => if p.vidx = p.value.length then some [] else none
  | ['%'], _ => none
  | '%' :: var :: rest, p =>
    match parseVar e p var with
    | none => none
    | some (vals, p') => (parseLoop e rest p').map (vals ++ ·)
  | c :: rest, p =>
    match p.skip c with
    | none => none
    | some p' => parseLoop e rest p'

/-- `parse_date_args(value, fmt)` for a `str` value, fully consumed -/
def parseDateArgs (e : Env) (value fmt : Str) : Option (List (Option Int)) :=
  parseLoop e fmt ⟨e.strip value, 0⟩

/-! ### calendar helpers -/

/-- `calendar.isleap` -/
def isLeap (y : Int) : Bool := y % 4 = 0 && (y % 100 ≠ 0 || y % 400 = 0)

/-- `monthlen(year, month)`; `none` = IndexError (month outside `mdays`) -/
def monthlen (year : Int) (month : Nat) : Option Nat :=
  (Tables.mdays[month]?).map fun d => d + (if month = 2 && isLeap year then 1 else 0)

/-- `validate_date` : `true` = no exception -/
def validateDate (year month day : Int) : Bool :=
  if !(1 ≤ month && month ≤ 12) then false else
  match monthlen year month.toNat with
  | none => false
  | some md => 1 ≤ day && day ≤ (md : Int)

/-- `validate_time` -/
def validateTime (hour minute second frac : Int) : Bool :=
  if !(0 ≤ hour && hour ≤ 24) then false
  else if hour = 24 && (minute ≠ 0 || second ≠ 0 || frac ≠ 0) then false
  else if !(0 ≤ minute && minute ≤ 59) then false
  else if !(0 ≤ second && second ≤ 59) then false
  else if !(0 ≤ frac && frac ≤ 999999999) then false
  else true

/-! ### formatting -/

/-- `format_date` -/
def formatDate (year month day : Int) : Str :=
  let (sign, y) := if year < 0 then (['-'], -year) else ([], year)
  sign ++ zpadInt y 4 ++ ['-'] ++ zpadInt month 2 ++ ['-'] ++ zpadInt day 2

/-- `format_time` -/
def formatTime (hour minute second frac : Int) : Str :=
  let hms := zpadInt hour 2 ++ [':'] ++ zpadInt minute 2 ++ [':'] ++ zpadInt second 2
  if frac = 0 then hms else
  let microsecond := pyDiv frac 1000
  let nano := pyMod frac 1000
  if nano ≠ 0 then hms ++ ['.'] ++ zpadInt frac 9 else
  let milli := pyDiv microsecond 1000
  let micro := pyMod microsecond 1000
  if micro ≠ 0 then hms ++ ['.'] ++ zpadInt microsecond 6
  else hms ++ ['.'] ++ zpadInt milli 3

/-- `format_offset` -/
def formatOffset : Option Int → Str
  | none => []
  | some offset =>
    if offset = 0 then ['Z'] else
    let (sign, off) := if offset < 0 then ('-', -offset) else ('+', offset)
    let hh := pyDiv off 60
    let mm := pyMod off 60
    sign :: (zpadInt hh 2 ++ [':'] ++ zpadInt mm 2)

/-! ### the value types -/

structure XmlDate where
  year : Int
  month : Int
  day : Int
  offset : Option Int
deriving DecidableEq, Repr

structure XmlTime where
  hour : Int
  minute : Int
  second : Int
  frac : Int
  offset : Option Int
deriving DecidableEq, Repr

structure XmlDateTime where
  year : Int
  month : Int
  day : Int
  hour : Int
  minute : Int
  second : Int
  frac : Int
  offset : Option Int
deriving DecidableEq, Repr

/-- `XmlDate.from_string` -/
def XmlDate.fromString (e : Env) (s : Str) : Option XmlDate :=
  match parseDateArgs e s Tables.fmtDate with
  | some [some y, some m, some d, o] =>
    if validateDate y m d then some ⟨y, m, d, o⟩ else none
  | _ => none

/-- `XmlTime.from_string` -/
def XmlTime.fromString (e : Env) (s : Str) : Option XmlTime :=
  match parseDateArgs e s Tables.fmtTime with
  | some [some h, some mi, some sec, some f, o] =>
    if validateTime h mi sec f then some ⟨h, mi, sec, f, o⟩ else none
  | _ => none

/-- `XmlDateTime.from_string` -/
def XmlDateTime.fromString (e : Env) (s : Str) : Option XmlDateTime :=
  match parseDateArgs e s Tables.fmtDateTime with
  | some [some y, some m, some d, some h, some mi, some sec, some f, o] =>
    if validateDate y m d && validateTime h mi sec f then some ⟨y, m, d, h, mi, sec, f, o⟩
    else none
  | _ => none

def XmlDate.str (v : XmlDate) : Str := formatDate v.year v.month v.day ++ formatOffset v.offset

def XmlTime.str (v : XmlTime) : Str :=
  formatTime v.hour v.minute v.second v.frac ++ formatOffset v.offset

def XmlDateTime.str (v : XmlDateTime) : Str :=
  formatDate v.year v.month v.day ++ ['T'] ++ formatTime v.hour v.minute v.second v.frac
    ++ formatOffset v.offset

end Xs.Dates
