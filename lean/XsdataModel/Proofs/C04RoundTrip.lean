/-
The dictionary round trip on the fragment `valOKj` (C04): per item, per var,
the encoder loop, the decoder loop, `class_factory`, and the induction on the
nesting depth.  Core Lean only.
-/
import XsdataModel.Proofs.C04Lemmas
import XsdataModel.Proofs.C01NTokens

namespace Proofs.C04
open Py Xs.Bind Xs.Dict

/-- what the induction provides for model instances nested below the current one -/
def IH (e : DEnv) (Γ : Ctx) (fac : Factory) (n : Nat) : Prop :=
  ∀ (c : ClassId) (v : Val), valOKj e Γ fac n c v = true →
    ∃ kvs, encModelF Γ fac {} n v = .ok (.obj kvs) ∧ kvKeys kvs = encKeys Γ fac v ∧ (J.obj kvs).native = true ∧
      ∀ cfg : ParserConfig, bindDataclassF e Γ n cfg c (.obj kvs) = ND.pure v

/-! ### facts packed in `varTyped` -/

theorem varTyped_facts {var : XmlVar} (h : varTyped var = true) :
    var.isAttributes = false ∧ var.isWildcard = false ∧ var.isElements = false ∧ var.anyType = false ∧
    var.isClazzUnion = false ∧ var.elements = [] ∧ var.tokens = false := by
  simp only [varTyped, Bool.and_eq_true, Bool.not_eq_true', List.isEmpty_iff] at h
  obtain ⟨⟨⟨⟨⟨⟨⟨⟨h1, h2⟩, h3⟩, h4⟩, h5⟩, h6⟩, h7⟩, _⟩, _⟩ := h
  exact ⟨h1, h2, h3, h4, h5, h6, h7⟩

theorem varTyped_wrapper {var : XmlVar} (h : varTyped var = true) (w : Str) (hw : wrapperName var.toVarCore = some w) :
    var.listElement = true ∧ var.localName ≠ w := by
  simp only [varTyped, Bool.and_eq_true] at h
  have ht := h.2
  rw [hw] at ht
  simpa using ht

/-! ### unpacking the hypotheses -/

theorem classOKj_facts {ci : ClassInfo} {m : XmlMeta} (h : classOKj ci m = true) :
    (∀ var ∈ allVars m, varOKj var = true) ∧
    ((allVars m).map (fun v => keyOf v.toVarCore)).Nodup ∧
    (∀ a ∈ allVars m, ∀ b ∈ allVars m,
      (b.localName = keyOf a.toVarCore ∨ wrapperName b.toVarCore = some (keyOf a.toVarCore)) → b = a) ∧
    markersOK ci.id (allVars m) = true ∧
    ((allVars m).map (·.name)).Nodup ∧
    (ci.fields.map (·.name)).Nodup ∧
    (∀ f ∈ ci.fields, ∃ var ∈ allVars m, var.name = f.name ∧ var.init = f.init) := by
  simp only [classOKj, Bool.and_eq_true, List.all_eq_true, decide_eq_true_eq,
    Bool.or_eq_true, bne_iff_ne, ne_eq, List.any_eq_true, beq_iff_eq] at h
  obtain ⟨⟨⟨⟨⟨⟨h1, h2⟩, h3⟩, h4⟩, h5⟩, h6⟩, h7⟩ := h
  refine ⟨h1, h2, ?_, h4, h5, h6, ?_⟩
  · intro a ha b hb hor
    rcases h3 a ha b hb with ⟨hn1, hn2⟩ | heq
    · rcases hor with h | h
      · exact absurd h hn1
      · exact absurd h hn2
    · exact heq
  · intro f hf
    obtain ⟨var, hvar, hname, hinit⟩ := h7 f hf
    exact ⟨var, hvar, hname, hinit⟩

/-- a user class emits neither of the marker keys -/
theorem markers_user {c : ClassId} {vars : List XmlVar} (h : markersOK c vars = true) (hc : c ≠ anyId) :
    kQName ∉ vars.map (fun v => keyOf v.toVarCore) ∧ kChildren ∉ vars.map (fun v => keyOf v.toVarCore) := by
  simp only [markersOK, hc, if_false, Bool.and_eq_true, Bool.not_eq_true'] at h
  constructor
  · intro hmem
    have : (vars.map (fun v => keyOf v.toVarCore)).contains kQName = true := by simpa using hmem
    rw [this] at h; cases h.1
  · intro hmem
    have : (vars.map (fun v => keyOf v.toVarCore)).contains kChildren = true := by simpa using hmem
    rw [this] at h; cases h.2

/-- the generic class emits only its own keys, and its two required keys come from fields whose
values are never `None` -/
theorem markers_any {vars : List XmlVar} (h : markersOK anyId vars = true) :
    (∀ k ∈ vars.map (fun v => keyOf v.toVarCore), k ∈ anyKeys) ∧
    (∀ k ∈ anyRequired, ∃ v ∈ vars, keyOf v.toVarCore = k ∧ (v.listElement = true ∨ v.isAttributes = true)) := by
  simp only [markersOK, if_true, Bool.and_eq_true, List.all_eq_true, List.any_eq_true, beq_iff_eq,
    Bool.or_eq_true] at h
  constructor
  · intro k hk
    have := h.1 k hk
    simpa using this
  · intro k hk
    obtain ⟨v, hv, hkv, hor⟩ := h.2 k hk
    exact ⟨v, hv, hkv, hor⟩

theorem valOptStr_optStrVal (q : Option Str) : valOptStr (optStrVal q) = some q := by
  cases q <;> rfl

theorem genericView_any (q t tl : Option Str) (a : List (QN × Str)) (cs : List Val) :
    genericView (.obj anyId [(kQName, optStrVal q), (kText, optStrVal t), (kTail, optStrVal tl),
      (kChildren, .list cs), (kAttributes, .attrs a)]) = .ok (.any q t tl a cs) := by
  cases q <;> cases t <;> cases tl <;> rfl

theorem valOKj_unpack {e : DEnv} {Γ : Ctx} {fac : Factory} {n : Nat} {c : ClassId} {v : Val}
    (h : valOKj e Γ fac (n + 1) c v = true) :
    ∃ fs ci m, asObject v = some (c, fs) ∧ genericView (.obj c fs) = .ok v ∧ c ≠ derivedId ∧
      isAnyV v = decide (c = anyId) ∧
      Γ.find c = some ci ∧ metaOf Γ c = .ok m ∧
      classOKj ci m = true ∧ ci.id = c ∧ fs.map (·.1) = ci.fields.map (·.name) ∧
      (∀ var ∈ allVars m, ∃ x, kvGet fs var.name = some x ∧
        valueOKj e (valOKj e Γ fac n) Γ fac var x = true ∧ (var.init = true ∨ fixedOK e var x = true)) ∧
      (∀ kv ∈ fs, ∀ f ∈ ci.fields, f.name = kv.1 →
        (if f.init then keptBy fac kv.2 || defaultIs f .none else defaultIs f kv.2) = true) := by
  unfold valOKj at h
  cases hobj : asObject v with
  | none => simp [hobj] at h
  | some cf =>
    obtain ⟨c', fs⟩ := cf
    simp only [hobj, Bool.and_eq_true, beq_iff_eq, bne_iff_ne, ne_eq] at h
    obtain ⟨⟨⟨hc, hd⟩, hany⟩, hrest⟩ := h
    subst hc
    have hgv : genericView (.obj c' fs) = .ok v := by
      cases v with
      | obj c'' fs'' =>
        simp only [asObject, Option.some.injEq, Prod.mk.injEq] at hobj
        obtain ⟨h1, h2⟩ := hobj
        subst h1; subst h2
        have hne : c'' ≠ anyId := by
          intro heq
          simp [heq, isAnyV] at hany
        simp [genericView, hne, hd]
      | any q t tl a cs =>
        simp only [asObject, Option.some.injEq, Prod.mk.injEq] at hobj
        obtain ⟨h1, h2⟩ := hobj
        subst h1; subst h2
        exact genericView_any q t tl a cs
      | derived q x t =>
        simp only [asObject, Option.some.injEq, Prod.mk.injEq] at hobj
        exact absurd hobj.1.symm hd
      | none => simp [asObject] at hobj
      | prim p => simp [asObject] at hobj
      | list xs => simp [asObject] at hobj
      | attrs a => simp [asObject] at hobj
    cases hfind : Γ.find c' with
    | none => simp [hfind] at hrest
    | some ci =>
      cases hmeta : metaOf Γ c' with
      | error err => simp [hfind, hmeta] at hrest
      | ok m =>
        simp only [hfind, hmeta, Bool.and_eq_true, beq_iff_eq, List.all_eq_true, Bool.or_eq_true, bne_iff_ne, ne_eq] at hrest
        obtain ⟨⟨⟨⟨hcl, hid⟩, hnames⟩, hvars⟩, hfields⟩ := hrest
        refine ⟨fs, ci, m, rfl, hgv, hd, hany, rfl, rfl, hcl, hid, hnames, ?_, ?_⟩
        · intro var hvar
          have := hvars var hvar
          cases hget : kvGet fs var.name with
          | none => simp [hget] at this
          | some x =>
            simp only [hget, Bool.and_eq_true, Bool.or_eq_true] at this
            exact ⟨x, rfl, this.1, this.2⟩
        · intro kv hkv f hf hname
          rcases hfields kv hkv f hf with hne | hok
          · exact absurd hname hne
          · exact hok

theorem valOKj_succ {e : DEnv} {Γ : Ctx} {fac : Factory} {n : Nat} {c : ClassId} {v : Val}
    (h : valOKj e Γ fac n c v = true) : ∃ n', n = n' + 1 := by
  cases n with
  | zero => simp [valOKj] at h
  | succ n' => exact ⟨n', rfl⟩

theorem encKeys_sub {Γ : Ctx} {fac : Factory} {v : Val} {c : ClassId} {fs : List (Str × Val)} {m : XmlMeta}
    (hobj : asObject v = some (c, fs)) (hmeta : metaOf Γ c = .ok m) :
    ∀ k ∈ encKeys Γ fac v, k ∈ (allVars m).map (fun v => keyOf v.toVarCore) := by
  intro k hk
  simp only [encKeys, hobj, hmeta, List.mem_filterMap] at hk
  obtain ⟨var, hvar, hsome⟩ := hk
  rw [List.mem_map]
  refine ⟨var, hvar, ?_⟩
  cases hget : kvGet fs var.name with
  | none => simp [hget] at hsome
  | some x =>
    simp only [hget] at hsome
    split at hsome
    · injection hsome
    · cases hsome

/-! ### one item -/

theorem leafOf_null (e : DEnv) (v : VarCore) : leafOf e v .null = none := by
  unfold leafOf; split <;> simp_all

theorem leafOf_prim_types (e : DEnv) (v : VarCore) (t : PT) (j : J) (h : v.types = [.prim t]) : leafOf e v j = none := by
  unfold leafOf; rw [h]

theorem leafOf_tokens (e : DEnv) (v : VarCore) (j : J) (h : v.tokens = true) : leafOf e v j = none := by
  unfold leafOf; split <;> simp_all

theorem bindItem_null (e : DEnv) (rec : Rec) (Γ : Ctx) (cfg : ParserConfig) (m : XmlMeta) (var : XmlVar)
    (hv : varTyped var = true) (hd : defaultNone var = true) :
    bindItemWith e rec Γ cfg m var .null = ND.pure .none := by
  obtain ⟨h1, h2, h3, h4, _, _, h7⟩ := varTyped_facts hv
  have h2' : var.toVarCore.isWildcard = false := h2
  have h4' : var.toVarCore.anyType = false := h4
  have h7' : var.toVarCore.tokens = false := h7
  unfold bindItemWith
  simp only [h1, Bool.false_eq_true, if_false, Xs.Dict.bindText, h3, bindTextPlain, h2', h4', Bool.or_self, serializeJ,
    scalarType, Bool.and_false, leafOf_null]
  unfold defaultNone at hd
  unfold parseVar
  cases hdef : var.default with
  | none => have : var.toVarCore.default = .none := hdef; simp [this]; rfl
  | listFactory => have : var.toVarCore.default = .listFactory := hdef; simp [this, h7']; rfl
  | dictFactory => have : var.toVarCore.default = .dictFactory := hdef; simp [this, h7']; rfl
  | val p => rw [hdef] at hd; cases hd
  | other => rw [hdef] at hd; cases hd

theorem bindItem_prim (e : DEnv) (rec : Rec) (Γ : Ctx) (cfg : ParserConfig) (m : XmlMeta) (var : XmlVar)
    (hv : varTyped var = true) (p : PVal) (ht : var.types = [.prim (pvalType p)]) (hqb : qnameBack e p = true) :
    bindItemWith e rec Γ cfg m var (encPrim p) = ND.pure (.prim p) := by
  obtain ⟨h1, h2, h3, h4, _, _, h7⟩ := varTyped_facts hv
  have h2' : var.toVarCore.isWildcard = false := h2
  have h4' : var.toVarCore.anyType = false := h4
  have h7' : var.toVarCore.tokens = false := h7
  have hty : var.toVarCore.types = [.prim (pvalType p)] := ht
  have key : Xs.Dict.bindText e cfg var (encPrim p) = .ok (.prim p) := by
    simp only [Xs.Dict.bindText, h3, Bool.false_eq_true, if_false, bindTextPlain, h2', h4', Bool.or_self, h7', hty]
    cases p with
    | str s => simp [encPrim, scalarType, pvalType, rawVal, rawScalar]
    | int i => simp [encPrim, scalarType, pvalType, rawVal, rawScalar]
    | bool b => simp [encPrim, scalarType, pvalType, rawVal, rawScalar]
    | qname t =>
      have hd : deOne e.toBEnv t (.prim .qname) [] = some (.qname t) := by simpa [qnameBack] using hqb
      simp only [encPrim, scalarType, pvalType, Bool.not_false, Bool.true_and, serializeJ, serScalar, Except.map]
      have hnc : ([TypeRef.prim PT.qname].contains (TypeRef.prim PT.str)) = false := by decide
      simp only [hnc, Bool.false_eq_true, if_false, leafOf_prim_types e var.toVarCore .qname _ hty]
      unfold parseVar
      simp only [Option.getD_none, h7', Bool.false_eq_true, if_false, hty, pvalType, deserialize, List.findSome?, hd]
  unfold bindItemWith
  simp only [h1, Bool.false_eq_true, if_false]
  cases p with
  | str s => simp only [encPrim]; rw [show J.str s = encPrim (.str s) from rfl, key]; rfl
  | int i => simp only [encPrim]; rw [show J.num i = encPrim (.int i) from rfl, key]; rfl
  | bool b => simp only [encPrim]; rw [show J.bool b = encPrim (.bool b) from rfl, key]; rfl
  | qname t => simp only [encPrim]; rw [show J.str t = encPrim (.qname t) from rfl, key]; rfl

/-- a field of a converter type (`TypeRef.other`) holding a canonical lexical form -/
theorem bindItem_leaf (e : DEnv) (rec : Rec) (Γ : Ctx) (cfg : ParserConfig) (m : XmlMeta) (var : XmlVar)
    (hv : varTyped var = true) (x : Str) (hlb : leafBack e var (.str x) = true) :
    bindItemWith e rec Γ cfg m var (.str x) = ND.pure (.prim (.str x)) := by
  obtain ⟨h1, h2, h3, h4, _, _, h7⟩ := varTyped_facts hv
  have h2' : var.toVarCore.isWildcard = false := h2
  have h4' : var.toVarCore.anyType = false := h4
  have h7' : var.toVarCore.tokens = false := h7
  have hex : ∃ name, var.types = [.other name] ∧ e.other name x = some x := by
    unfold leafBack at hlb
    split at hlb
    · rename_i name y hty heq
      cases heq
      exact ⟨name, hty, by simpa using hlb⟩
    · cases hlb
  obtain ⟨name, hty, ho⟩ := hex
  have hty' : var.toVarCore.types = [.other name] := hty
  have hnc : ([TypeRef.other name].contains (TypeRef.prim PT.str)) = false := by simp
  unfold bindItemWith
  simp only [h1, Bool.false_eq_true, if_false, Xs.Dict.bindText, h3, bindTextPlain, h2', h4', Bool.or_self, h7',
    Bool.not_false, Bool.true_and, scalarType, hty', hnc, leafOf, ho]
  rfl

/-- a field of a converter type given any text the converter reads: the canonical form is bound -/
theorem bindItem_leaf_to (e : DEnv) (rec : Rec) (Γ : Ctx) (cfg : ParserConfig) (m : XmlMeta) (var : XmlVar)
    (hv : varTyped var = true) (name x y : Str) (hty : var.types = [.other name]) (ho : e.other name x = some y) :
    bindItemWith e rec Γ cfg m var (.str x) = ND.pure (.prim (.str y)) := by
  obtain ⟨h1, h2, h3, h4, _, _, h7⟩ := varTyped_facts hv
  have h2' : var.toVarCore.isWildcard = false := h2
  have h4' : var.toVarCore.anyType = false := h4
  have h7' : var.toVarCore.tokens = false := h7
  have hty' : var.toVarCore.types = [.other name] := hty
  have hnc : ([TypeRef.other name].contains (TypeRef.prim PT.str)) = false := by simp
  unfold bindItemWith
  simp only [h1, Bool.false_eq_true, if_false, Xs.Dict.bindText, h3, bindTextPlain, h2', h4', Bool.or_self, h7',
    Bool.not_false, Bool.true_and, scalarType, hty', hnc, leafOf, ho]
  rfl

theorem keysEq_false_of_not_mem {α} (d : List (Str × α)) (ks : List Str) (k : Str) (hk : k ∈ ks)
    (hn : k ∉ kvKeys d) : keysEq d ks = false := by
  unfold keysEq
  rw [Bool.and_eq_false_iff]
  right
  rw [List.all_eq_false]
  exact ⟨k, hk, by simpa using hn⟩

theorem isGeneric_false_of_not_mem {α} (d : List (Str × α)) (req all : List Str) (k : Str) (hk : k ∈ req)
    (hn : k ∉ kvKeys d) : isGeneric d req all = false := by
  unfold isGeneric
  rw [Bool.and_eq_false_iff]
  left
  rw [List.all_eq_false]
  exact ⟨k, hk, by simpa using hn⟩

theorem bestKeys_eq_self (Γ : Ctx) (cfg : ParserConfig) (pool : List ClassId) (keys : List Str) (k' : ClassId)
    (hpool : pool.filter (localNamesMatch Γ keys) = [k']) : bestKeys Γ cfg pool keys = keys := by
  unfold bestKeys
  split
  · rfl
  · have hmem : k' ∈ pool.filter (localNamesMatch Γ keys) := by rw [hpool]; exact List.mem_cons_self ..
    rw [List.mem_filter] at hmem
    obtain ⟨hk'p, hk'm⟩ := hmem
    rw [List.filter_eq_self]
    intro k hk
    rw [List.any_eq_true]
    refine ⟨k', hk'p, ?_⟩
    unfold localNamesMatch at hk'm ⊢
    cases hmn : matchNames Γ k' with
    | none => simp [hmn] at hk'm
    | some ln =>
      simp only [hmn, List.all_eq_true] at hk'm
      simpa using hk'm k hk

/-- when exactly one class of the pool declares the keys and its trial decode has the single result `x`,
`bind_best_dataclass` has the single result `x` (whatever the configuration and the iteration order) -/
theorem bindBest_unique (rec : Rec) (Γ : Ctx) (cfg : ParserConfig) (ordered : Bool) (pool : List ClassId)
    (kvs : List (Str × J)) (k' : ClassId) (x : Val)
    (hpool : pool.filter (localNamesMatch Γ (kvKeys kvs)) = [k'])
    (hdec : ∀ cfg' : ParserConfig, rec cfg' k' (.obj kvs) = ND.pure x) :
    bindBestWith rec Γ cfg ordered pool (.obj kvs) = ND.pure x := by
  unfold bindBestWith
  simp only [bestKeys_eq_self Γ cfg pool _ k' hpool, hpool]
  unfold findBestWith
  simp only [List.map_cons, List.map_nil, hdec]
  cases ordered <;> simp [ND.run, ND.pure, maxScore, ND.choose] <;> rfl

theorem bindItem_obj (e : DEnv) (Γ : Ctx) (fac : Factory) (n : Nat) (ih : IH e Γ fac n) (cfg : ParserConfig)
    (m : XmlMeta) (var : XmlVar) (hv : varTyped var = true) (k k' : ClassId) (fs' : List (Str × Val))
    (hc : var.clazz = some k) (hok : valOKj e Γ fac n k' (.obj k' fs') = true)
    (hpool : poolOKj Γ fac k (.obj k' fs') = true) :
    ∃ kvs, encModelF Γ fac {} n (.obj k' fs') = .ok (.obj kvs) ∧ (J.obj kvs).native = true ∧
      bindItemWith e (bindDataclassF e Γ n) Γ cfg m var (.obj kvs) = ND.pure (.obj k' fs') := by
  obtain ⟨kvs, henc, hkeys, hnat, hdec⟩ := ih k' _ hok
  refine ⟨kvs, henc, hnat, ?_⟩
  obtain ⟨h1, h2, h3, h4, h5, h6, h7⟩ := varTyped_facts hv
  obtain ⟨n', hn⟩ := valOKj_succ hok
  subst hn
  obtain ⟨fs, ci, m', hobj, _, _, hisany, _, hmeta, hcl, hid, _, _, _⟩ := valOKj_unpack hok
  have hk'ne : k' ≠ anyId := by
    intro heq
    simp [isAnyV, heq] at hisany
  have hmk := markers_user (classOKj_facts hcl).2.2.2.1 (by rw [hid]; exact hk'ne)
  have hq : kQName ∉ kvKeys kvs := by
    rw [hkeys]
    intro hmem
    exact hmk.1 (encKeys_sub hobj hmeta _ hmem)
  have hch : kChildren ∉ kvKeys kvs := by
    rw [hkeys]
    intro hmem
    exact hmk.2 (encKeys_sub hobj hmeta _ hmem)
  have hany : isGeneric kvs anyRequired anyKeys = false :=
    isGeneric_false_of_not_mem kvs anyRequired anyKeys kChildren (by simp [anyRequired]) hch
  have hder : isGeneric kvs derivedRequired derivedKeys = false :=
    isGeneric_false_of_not_mem kvs derivedRequired derivedKeys kQName (by simp [derivedRequired]) hq
  unfold bindItemWith
  simp only [h1, Bool.false_eq_true, if_false, hany, hder]
  unfold bindComplexWith
  simp only [h5, Bool.false_eq_true, if_false, h6, List.isEmpty_nil, Bool.not_true, h4, h2, Bool.or_self, hc]
  unfold poolOKj at hpool
  simp only at hpool
  by_cases hsubs : (subclassesOf Γ k).isEmpty = true
  · simp only [hsubs, if_true, beq_iff_eq] at hpool
    subst hpool
    simp only [hsubs, Bool.not_true, Bool.false_eq_true, if_false]
    exact hdec cfg
  · have hsubs' : (subclassesOf Γ k).isEmpty = false := by simpa using hsubs
    simp only [hsubs', Bool.false_eq_true, if_false, beq_iff_eq] at hpool
    simp only [hsubs', Bool.not_false, if_true]
    exact bindBest_unique _ Γ cfg false _ kvs k' _ (by rw [hkeys]; exact hpool) hdec

def isNoneV : Val → Bool
  | .none => true
  | _ => false

theorem item_rt (e : DEnv) (Γ : Ctx) (fac : Factory) (n : Nat) (ih : IH e Γ fac n) (cfg : ParserConfig)
    (m : XmlMeta) (var : XmlVar) (hv : varTyped var = true) (x : Val)
    (hx : itemOKj e (valOKj e Γ fac n) Γ fac var x = true) :
    ∃ j, encElemWith (encModelF Γ fac {} n) x = .ok j ∧ j.isNull = isNoneV x ∧ j.isArr = false ∧ j.native = true ∧
      bindItemWith e (bindDataclassF e Γ n) Γ cfg m var j = ND.pure x := by
  cases x with
  | none =>
    exact ⟨.null, rfl, rfl, rfl, rfl, bindItem_null e _ Γ cfg m var hv (by simpa [itemOKj] using hx)⟩
  | prim p =>
    have hx' : (var.types = [.prim (pvalType p)] ∧ qnameBack e p = true) ∨ leafBack e var p = true := by
      simpa [itemOKj] using hx
    have hdec : bindItemWith e (bindDataclassF e Γ n) Γ cfg m var (encPrim p) = ND.pure (.prim p) := by
      rcases hx' with ⟨ht, hq⟩ | hl
      · exact bindItem_prim e _ Γ cfg m var hv p ht hq
      · cases p with
        | str x => exact bindItem_leaf e _ Γ cfg m var hv x hl
        | int i => simp [leafBack] at hl
        | bool b => simp [leafBack] at hl
        | qname t => simp [leafBack] at hl
    refine ⟨encPrim p, rfl, ?_, ?_, ?_, hdec⟩
    · cases p <;> rfl
    · cases p <;> rfl
    · cases p <;> rfl
  | obj k' fs' =>
    simp only [itemOKj] at hx
    cases hc : var.clazz with
    | none => simp [hc] at hx
    | some k =>
      simp only [hc, Bool.and_eq_true] at hx
      obtain ⟨kvs, henc, hnat, hdec⟩ := bindItem_obj e Γ fac n ih cfg m var hv k k' fs' hc hx.1 hx.2
      exact ⟨.obj kvs, henc, rfl, rfl, hnat, hdec⟩
  | list xs => simp [itemOKj] at hx
  | any q t tl a cs => simp [itemOKj] at hx
  | derived q y t => simp [itemOKj] at hx
  | attrs a => simp [itemOKj] at hx

theorem mapM_exists {α β} (f : α → Except Err β) :
    ∀ items : List α, (∀ x ∈ items, ∃ j, f x = .ok j) → ∃ js, items.mapM f = .ok js := by
  intro items
  induction items with
  | nil => intro _; exact ⟨[], rfl⟩
  | cons x xs ih =>
    intro h
    obtain ⟨j, hj⟩ := h x (List.mem_cons_self ..)
    obtain ⟨js, hjs⟩ := ih (fun y hy => h y (List.mem_cons_of_mem _ hy))
    exact ⟨j :: js, by rw [List.mapM_cons]; simp [hj, hjs, bind, Except.bind, pure, Except.pure]⟩

theorem nativeList_of_mapM {α} (enc : α → Except Err J) :
    ∀ (items : List α) (js : List J), items.mapM enc = .ok js →
      (∀ x ∈ items, ∀ j, enc x = .ok j → j.native = true) → J.nativeList js = true := by
  intro items
  induction items with
  | nil =>
    intro js h _
    simp [List.mapM_nil, pure, Except.pure] at h
    subst h; rfl
  | cons x xs ih =>
    intro js h hall
    rw [List.mapM_cons] at h
    cases hx : enc x with
    | error err => simp [hx, bind, Except.bind] at h
    | ok j =>
      cases hxs : xs.mapM enc with
      | error err => simp [hx, hxs, bind, Except.bind] at h
      | ok js' =>
        simp [hx, hxs, bind, Except.bind, pure, Except.pure] at h
        subst h
        simp only [J.nativeList, Bool.and_eq_true]
        exact ⟨hall x (List.mem_cons_self ..) j hx, ih js' hxs (fun y hy => hall y (List.mem_cons_of_mem _ hy))⟩

theorem nativePairs_filter_map {α} (g : α → Str × J) (p : Str × J → Bool) :
    ∀ l : List α, (∀ a ∈ l, (g a).2.native = true) → J.nativePairs ((l.map g).filter p) = true := by
  intro l
  induction l with
  | nil => intro _; rfl
  | cons a t ih =>
    intro h
    have ht := ih (fun b hb => h b (List.mem_cons_of_mem _ hb))
    simp only [List.map_cons]
    by_cases hp : p (g a) = true
    · rw [List.filter_cons_of_pos hp]
      simp only [J.nativePairs, Bool.and_eq_true]
      exact ⟨h a (List.mem_cons_self ..), ht⟩
    · rw [List.filter_cons_of_neg hp]; exact ht

/-! ### one var -/

theorem fac_apply_single (fac : Factory) (k : Str) (js : List J) :
    fac.apply [(k, J.arr js)] = .obj [(k, J.arr js)] := by
  cases fac <;> simp [Factory.apply, dictOf, kvSet, J.isNull]

theorem bindValue_nonarr (e : DEnv) (rec : Rec) (Γ : Ctx) (cfg : ParserConfig) (m : XmlMeta) (var : XmlVar)
    (h1 : var.isAttributes = false) (j : J) (hj : j.isArr = false) :
    bindValueWith e rec Γ cfg m var j = bindItemWith e rec Γ cfg m var j := by
  unfold bindValueWith
  simp only [h1, Bool.false_eq_true, if_false]
  cases j with
  | arr xs => simp [J.isArr] at hj
  | _ => rfl

theorem value_rt_typed (e : DEnv) (Γ : Ctx) (fac : Factory) (n : Nat) (ih : IH e Γ fac n) (cfg : ParserConfig)
    (m : XmlMeta) (var : XmlVar) (hv : varTyped var = true) (x : Val)
    (hx : typedValueOKj e (valOKj e Γ fac n) Γ fac var x = true) :
    ∃ j, encVarWith fac (encModelF Γ fac {} n) var x = .ok j ∧ j.isNull = isNoneV x ∧ j.native = true ∧
      varMatches (keyOf var.toVarCore) j var = true ∧
      ∃ j', unwrapValue var j = .ok j' ∧ (j'.isNull && var.listElement) = false ∧
        bindValueWith e (bindDataclassF e Γ n) Γ cfg m var j' = ND.pure x := by
  obtain ⟨h1, h2, h3, h4, h5, h6, h7⟩ := varTyped_facts hv
  unfold typedValueOKj at hx
  by_cases hl : var.listElement = true
  · -- a repeating element
    simp only [hl, if_true] at hx
    cases x with
    | list items =>
      simp only [List.all_eq_true] at hx
      have hitems : ∀ y ∈ items, ∃ j, encElemWith (encModelF Γ fac {} n) y = .ok j := by
        intro y hy
        obtain ⟨j, hj, _⟩ := item_rt e Γ fac n ih cfg m var hv y (hx y hy)
        exact ⟨j, hj⟩
      obtain ⟨js, hjs⟩ := mapM_exists _ items hitems
      have hdec : ND.mapM (bindItemWith e (bindDataclassF e Γ n) Γ cfg m var) js = ND.pure items := by
        apply nd_mapM_roundtrip _ _ items js hjs
        intro y hy j hj
        obtain ⟨j0, hj0, _, _, _, hd⟩ := item_rt e Γ fac n ih cfg m var hv y (hx y hy)
        rw [hj0] at hj
        injection hj with hj
        rw [← hj]; exact hd
      have hnat : (J.arr js).native = true := by
        simp only [J.native]
        exact nativeList_of_mapM _ items js hjs (by
          intro y hy j hj
          obtain ⟨j0, hj0, _, _, hn, _⟩ := item_rt e Γ fac n ih cfg m var hv y (hx y hy)
          rw [hj0] at hj
          injection hj with hj
          rw [← hj]; exact hn)
      have hbind : bindValueWith e (bindDataclassF e Γ n) Γ cfg m var (.arr js) = ND.pure (.list items) := by
        unfold bindValueWith
        simp only [h1, Bool.false_eq_true, if_false, hl, if_true, hdec, nd_pure_bind]
      have hcore : encCoreWith (encModelF Γ fac {} n) (.list items) = .ok (.arr js) := by
        simp only [encCoreWith, hjs]; rfl
      cases hw : wrapperName var.toVarCore with
      | none =>
        refine ⟨.arr js, ?_, rfl, hnat, ?_, .arr js, ?_, by simp [J.isNull], hbind⟩
        · simp only [encVarWith, hw, hcore]
        · simp [varMatches, keyOf, hw, J.isArr, J.isNull, varIsList, hl]
        · simp [unwrapValue, hw]
      | some w =>
        have hne := (varTyped_wrapper hv w hw).2
        refine ⟨.obj [(var.localName, .arr js)], ?_, rfl, ?_, ?_, .arr js, ?_, by simp [J.isNull], hbind⟩
        · simp only [encVarWith, hw, hcore, Except.map, fac_apply_single]
        · have hnl : J.nativeList js = true := by simpa only [J.native] using hnat
          simp [J.native, J.nativePairs, hnl]
        · simp [varMatches, keyOf, hw, hne, kvGet, J.isArr, varIsList, hl]
        · simp [unwrapValue, hw, kvGet]
    | none => simp at hx
    | prim p => simp at hx
    | obj c fs => simp at hx
    | any q t tl a cs => simp at hx
    | derived q y t => simp at hx
    | attrs a => simp at hx
  · -- a single value
    have hl' : var.listElement = false := by simpa using hl
    simp only [hl', Bool.false_eq_true, if_false] at hx
    have hw : wrapperName var.toVarCore = none := by
      cases hw : wrapperName var.toVarCore with
      | none => rfl
      | some w => have := (varTyped_wrapper hv w hw).1; rw [hl'] at this; cases this
    have hitem : itemOKj e (valOKj e Γ fac n) Γ fac var x = true := by
      cases x with
      | list xs => simp at hx
      | _ => exact hx
    obtain ⟨j, hj, hnull, harr, hnat, hd⟩ := item_rt e Γ fac n ih cfg m var hv x hitem
    have hm : varMatches (keyOf var.toVarCore) j var = true := by
      simp [varMatches, keyOf, hw, harr, varIsList, hl', h7]
    have hb : bindValueWith e (bindDataclassF e Γ n) Γ cfg m var j = ND.pure x := by
      rw [bindValue_nonarr e _ Γ cfg m var h1 j harr]; exact hd
    have hu : unwrapValue var j = .ok j := by simp [unwrapValue, hw]
    refine ⟨j, ?_, hnull, hnat, hm, j, hu, by simp [hl'], hb⟩
    cases x with
    | none =>
      simp only [encElemWith, encItemWith] at hj
      injection hj with hj
      subst hj; rfl
    | prim p => simpa only [encVarWith, hw, encCoreWith, encElemWith] using hj
    | obj c fs => simpa only [encVarWith, hw, encCoreWith, encElemWith] using hj
    | list xs => simp [itemOKj] at hitem
    | any q t tl a cs => simp [itemOKj] at hitem
    | derived q y t => simp [itemOKj] at hitem
    | attrs a => simp [itemOKj] at hitem

/-! ### an `xs:anyAttribute` map -/

theorem nativePairs_strs (m : List (Str × Str)) : J.nativePairs (m.map fun kv => (kv.1, J.str kv.2)) = true := by
  induction m with
  | nil => rfl
  | cons kv t ih => simp only [List.map_cons, J.nativePairs, J.native, ih, Bool.and_self]

theorem mapM_strs (f : Str × J → Option (Str × Str)) (hf : ∀ k s, f (k, .str s) = some (k, s))
    (m : List (Str × Str)) : (m.map fun kv => (kv.1, J.str kv.2)).mapM f = some m := by
  induction m with
  | nil => rfl
  | cons kv t ih =>
    rw [List.map_cons, List.mapM_cons, ih, hf]
    rfl

theorem value_rt_attrs (e : DEnv) (Γ : Ctx) (fac : Factory) (n : Nat) (cfg : ParserConfig)
    (m : XmlMeta) (var : XmlVar) (hv : varAttrs var = true) (x : Val) (hx : attrsValueOKj x = true) :
    ∃ j, encVarWith fac (encModelF Γ fac {} n) var x = .ok j ∧ j.isNull = isNoneV x ∧ j.native = true ∧
      varMatches (keyOf var.toVarCore) j var = true ∧
      ∃ j', unwrapValue var j = .ok j' ∧ (j'.isNull && var.listElement) = false ∧
        bindValueWith e (bindDataclassF e Γ n) Γ cfg m var j' = ND.pure x := by
  simp only [varAttrs, Bool.and_eq_true, Bool.not_eq_true', Option.isNone_iff_eq_none] at hv
  obtain ⟨⟨⟨ha, hl⟩, ht⟩, hw⟩ := hv
  cases x with
  | attrs a =>
    have hnd : (a.map (·.1)).Nodup := by simpa [attrsValueOKj] using hx
    refine ⟨.obj (a.map fun kv => (kv.1, J.str kv.2)), ?_, rfl, ?_, ?_, .obj (a.map fun kv => (kv.1, J.str kv.2)), ?_, ?_, ?_⟩
    · simp [encVarWith, hw, encCoreWith, encItemWith]
    · simp only [J.native, Bool.and_eq_true, decide_eq_true_eq, List.map_map, Function.comp_def]
      exact ⟨hnd, nativePairs_strs a⟩
    · simp [varMatches, keyOf, hw, J.isArr, J.isNull, varIsList, hl, ht]
    · simp [unwrapValue, hw]
    · simp [J.isNull]
    · unfold bindValueWith
      simp only [ha, if_true, bindAttributes]
      rw [mapM_strs _ (fun k s => rfl) a]
      rfl
  | none => simp [attrsValueOKj] at hx
  | prim p => simp [attrsValueOKj] at hx
  | list xs => simp [attrsValueOKj] at hx
  | obj c fs => simp [attrsValueOKj] at hx
  | any q t tl b cs => simp [attrsValueOKj] at hx
  | derived q y t => simp [attrsValueOKj] at hx

/-! ### a wildcard field -/

theorem varWild_facts {var : XmlVar} (h : varWild var = true) :
    var.isWildcard = true ∧ var.isAttributes = false ∧ var.isElements = false ∧ var.tokens = false ∧
    wrapperName var.toVarCore = none := by
  simp only [varWild, Bool.and_eq_true, Bool.not_eq_true', Option.isNone_iff_eq_none] at h
  obtain ⟨⟨⟨⟨⟨⟨⟨h1, h2⟩, h3⟩, _⟩, _⟩, h6⟩, _⟩, h8⟩ := h
  exact ⟨h1, h2, h3, h6, h8⟩

/-- the encoded form of a generic element is recognised as one -/
theorem any_isGeneric {e : DEnv} {Γ : Ctx} {fac : Factory} {n : Nat} {x : Val}
    (hok : valOKj e Γ fac (n + 1) anyId x = true) (kvs : List (Str × J)) (hkeys : kvKeys kvs = encKeys Γ fac x) :
    isGeneric kvs anyRequired anyKeys = true := by
  obtain ⟨fs, ci, m, hobj, _, _, _, _, hmeta, hcl, hid, _, hvars, _⟩ := valOKj_unpack hok
  have hmk := markers_any (by have := (classOKj_facts hcl).2.2.2.1; rwa [hid] at this)
  unfold isGeneric
  rw [Bool.and_eq_true, List.all_eq_true, List.all_eq_true, hkeys]
  constructor
  · intro k hk
    obtain ⟨v, hv, hkv, hor⟩ := hmk.2 k hk
    obtain ⟨y, hget, hval, _⟩ := hvars v hv
    have hkept : keptBy fac y = true := by
      cases y with
      | none =>
        -- a list / map field never holds `None`
        unfold valueOKj at hval
        rcases hor with hl | ha
        · by_cases hattr : v.isAttributes = true
          · simp [hattr, attrsValueOKj] at hval
          · by_cases hw : v.isWildcard = true
            · simp [hattr, hw, wildValueOKj, hl] at hval
            · by_cases ht : v.tokens = true
              · simp only [hattr, hw, ht, Bool.false_eq_true, if_false, if_true, tokensValueOKj] at hval
                split at hval
                · simp [Xs.Bind.FN.tokensOK] at hval
                · cases hval
              · by_cases hel : v.isElements = true
                · simp [hattr, hw, ht, hel, compValueOKj] at hval
                · simp [hattr, hw, ht, hel, typedValueOKj, hl] at hval
        · simp [ha, attrsValueOKj] at hval
      | _ => cases fac <;> rfl
    have : k ∈ encKeys Γ fac x := by
      simp only [encKeys, hobj, hmeta, List.mem_filterMap]
      exact ⟨v, hv, by simp [hget, hkept, hkv]⟩
    simpa using this
  · intro k hk
    have := hmk.1 k (encKeys_sub hobj hmeta k hk)
    simpa using this

theorem wildItem_rt (e : DEnv) (Γ : Ctx) (fac : Factory) (n : Nat) (ih : IH e Γ fac n) (cfg : ParserConfig)
    (m : XmlMeta) (var : XmlVar) (hv : varWild var = true) (x : Val)
    (hx : wildItemOKj (valOKj e Γ fac n) x = true) :
    ∃ j, encElemWith (encModelF Γ fac {} n) x = .ok j ∧ j.isNull = isNoneV x ∧ j.isArr = false ∧ j.native = true ∧
      bindItemWith e (bindDataclassF e Γ n) Γ cfg m var j = ND.pure x := by
  obtain ⟨hw, ha, hel, _, _⟩ := varWild_facts hv
  have hwc : var.toVarCore.isWildcard = true := hw
  have hraw : ∀ j : J, j.isObj = false → bindItemWith e (bindDataclassF e Γ n) Γ cfg m var j
      = ND.ofExcept (rawVal j) := by
    intro j hj
    unfold bindItemWith
    simp only [ha, Bool.false_eq_true, if_false]
    cases j with
    | obj kvs => simp [J.isObj] at hj
    | _ => simp [Xs.Dict.bindText, hel, bindTextPlain, hwc]
  cases x with
  | none => exact ⟨.null, rfl, rfl, rfl, rfl, by rw [hraw _ rfl]; rfl⟩
  | prim p =>
    have hq : pvalType p ≠ .qname := by simpa [wildItemOKj] using hx
    refine ⟨encPrim p, rfl, ?_, ?_, ?_, ?_⟩
    · cases p <;> rfl
    · cases p <;> rfl
    · cases p <;> rfl
    · cases p with
      | str s => rw [hraw _ rfl]; rfl
      | int i => rw [hraw _ rfl]; rfl
      | bool b => rw [hraw _ rfl]; rfl
      | qname t => exact absurd rfl hq
  | any q t tl a cs =>
    have hok : valOKj e Γ fac n anyId (.any q t tl a cs) = true := by simpa [wildItemOKj] using hx
    obtain ⟨kvs, henc, hkeys, hnat, hdec⟩ := ih anyId _ hok
    obtain ⟨n', hn⟩ := valOKj_succ hok
    subst hn
    refine ⟨.obj kvs, henc, rfl, rfl, hnat, ?_⟩
    unfold bindItemWith
    simp only [ha, Bool.false_eq_true, if_false, any_isGeneric hok kvs hkeys, if_true]
    exact hdec cfg
  | list xs => simp [wildItemOKj] at hx
  | obj c fs => simp [wildItemOKj] at hx
  | derived q y t => simp [wildItemOKj] at hx
  | attrs a => simp [wildItemOKj] at hx

theorem value_rt_wild (e : DEnv) (Γ : Ctx) (fac : Factory) (n : Nat) (ih : IH e Γ fac n) (cfg : ParserConfig)
    (m : XmlMeta) (var : XmlVar) (hv : varWild var = true) (x : Val)
    (hx : wildValueOKj (valOKj e Γ fac n) var x = true) :
    ∃ j, encVarWith fac (encModelF Γ fac {} n) var x = .ok j ∧ j.isNull = isNoneV x ∧ j.native = true ∧
      varMatches (keyOf var.toVarCore) j var = true ∧
      ∃ j', unwrapValue var j = .ok j' ∧ (j'.isNull && var.listElement) = false ∧
        bindValueWith e (bindDataclassF e Γ n) Γ cfg m var j' = ND.pure x := by
  obtain ⟨hwc, ha, hel, ht, hw⟩ := varWild_facts hv
  unfold wildValueOKj at hx
  by_cases hl : var.listElement = true
  · simp only [hl, if_true] at hx
    cases x with
    | list items =>
      simp only [List.all_eq_true] at hx
      have hitems : ∀ y ∈ items, ∃ j, encElemWith (encModelF Γ fac {} n) y = .ok j := by
        intro y hy
        obtain ⟨j, hj, _⟩ := wildItem_rt e Γ fac n ih cfg m var hv y (hx y hy)
        exact ⟨j, hj⟩
      obtain ⟨js, hjs⟩ := mapM_exists _ items hitems
      have hdec : ND.mapM (bindItemWith e (bindDataclassF e Γ n) Γ cfg m var) js = ND.pure items := by
        apply nd_mapM_roundtrip _ _ items js hjs
        intro y hy j hj
        obtain ⟨j0, hj0, _, _, _, hd⟩ := wildItem_rt e Γ fac n ih cfg m var hv y (hx y hy)
        rw [hj0] at hj
        injection hj with hj
        rw [← hj]; exact hd
      have hnat : (J.arr js).native = true := by
        simp only [J.native]
        exact nativeList_of_mapM _ items js hjs (by
          intro y hy j hj
          obtain ⟨j0, hj0, _, _, hn, _⟩ := wildItem_rt e Γ fac n ih cfg m var hv y (hx y hy)
          rw [hj0] at hj
          injection hj with hj
          rw [← hj]; exact hn)
      refine ⟨.arr js, ?_, rfl, hnat, ?_, .arr js, ?_, ?_, ?_⟩
      · simp only [encVarWith, hw, encCoreWith, hjs]; rfl
      · simp [varMatches, keyOf, hw, J.isArr, varIsList, hl]
      · simp [unwrapValue, hw]
      · simp [J.isNull]
      · unfold bindValueWith
        simp only [ha, Bool.false_eq_true, if_false, hl, if_true, hdec, nd_pure_bind]
    | none => simp at hx
    | prim p => simp at hx
    | obj c fs => simp at hx
    | any q t tl a cs => simp at hx
    | derived q y t => simp at hx
    | attrs a => simp at hx
  · have hl' : var.listElement = false := by simpa using hl
    simp only [hl', Bool.false_eq_true, if_false] at hx
    have hitem : wildItemOKj (valOKj e Γ fac n) x = true := by
      cases x with
      | list xs => simp at hx
      | _ => exact hx
    obtain ⟨j, hj, hnull, harr, hnat, hd⟩ := wildItem_rt e Γ fac n ih cfg m var hv x hitem
    have hm : varMatches (keyOf var.toVarCore) j var = true := by
      simp [varMatches, keyOf, hw, harr, varIsList, hl', ht]
    have hb : bindValueWith e (bindDataclassF e Γ n) Γ cfg m var j = ND.pure x := by
      rw [bindValue_nonarr e _ Γ cfg m var ha j harr]; exact hd
    have hu : unwrapValue var j = .ok j := by simp [unwrapValue, hw]
    refine ⟨j, ?_, hnull, hnat, hm, j, hu, by simp [hl'], hb⟩
    cases x with
    | none =>
      simp only [encElemWith, encItemWith] at hj
      injection hj with hj
      subst hj; rfl
    | prim p => simpa only [encVarWith, hw, encCoreWith, encElemWith] using hj
    | any q t tl a cs => simpa only [encVarWith, hw, encCoreWith, encElemWith] using hj
    | list xs => simp [wildItemOKj] at hitem
    | obj c fs => simp [wildItemOKj] at hitem
    | derived q y t => simp [wildItemOKj] at hitem
    | attrs a => simp [wildItemOKj] at hitem

/-! ### a tokens field -/

theorem varTokens_facts {var : XmlVar} (h : varTokens var = true) :
    var.tokens = true ∧ var.listElement = false ∧ var.isAttributes = false ∧ var.isWildcard = false ∧
    var.isElements = false ∧ var.anyType = false ∧ wrapperName var.toVarCore = none ∧
    ∃ t, var.types = [.prim t] ∧ t ≠ .qname := by
  simp only [varTokens, Bool.and_eq_true, Bool.not_eq_true', Option.isNone_iff_eq_none] at h
  obtain ⟨⟨⟨⟨⟨⟨⟨⟨h1, h2⟩, h3⟩, h4⟩, h5⟩, h6⟩, _⟩, h8⟩, h9⟩ := h
  refine ⟨h1, h2, h3, h4, h5, h6, h8, ?_⟩
  split at h9
  · rename_i t ht; exact ⟨t, ht, by simpa using h9⟩
  · cases h9

theorem prims_of_tokensOK (e : BEnv) (t : PT) (ys : List Val) (h : Xs.Bind.FN.tokensOK e t (.list ys) = true) :
    ∃ ps : List PVal, ys = ps.map Val.prim ∧
      ∀ p ∈ ps, Xs.Bind.F1.primHasType p t = true ∧ Xs.Bind.FN.tokenOK e p = true := by
  simp only [Xs.Bind.FN.tokensOK, List.all_eq_true] at h
  induction ys with
  | nil => exact ⟨[], rfl, fun p hp => by cases hp⟩
  | cons y ys ih =>
    obtain ⟨ps, hps, hall⟩ := ih (fun z hz => h z (List.mem_cons_of_mem _ hz))
    have hy := h y (List.mem_cons_self ..)
    cases y with
    | prim p =>
      simp only [Bool.and_eq_true] at hy
      exact ⟨p :: ps, by simp [hps], fun q hq => by
        rcases List.mem_cons.mp hq with rfl | hq
        · exact hy
        · exact hall q hq⟩
    | _ => simp at hy

theorem pvalType_of_hasType {p : PVal} {t : PT} (h : Xs.Bind.F1.primHasType p t = true) : pvalType p = t := by
  cases p <;> cases t <;> simp [Xs.Bind.F1.primHasType] at h <;> rfl

theorem value_rt_tokens (e : DEnv) (Γ : Ctx) (fac : Factory) (n : Nat) (cfg : ParserConfig)
    (m : XmlMeta) (var : XmlVar) (hv : varTokens var = true) (x : Val) (hx : tokensValueOKj e var x = true) :
    ∃ j, encVarWith fac (encModelF Γ fac {} n) var x = .ok j ∧ j.isNull = isNoneV x ∧ j.native = true ∧
      varMatches (keyOf var.toVarCore) j var = true ∧
      ∃ j', unwrapValue var j = .ok j' ∧ (j'.isNull && var.listElement) = false ∧
        bindValueWith e (bindDataclassF e Γ n) Γ cfg m var j' = ND.pure x := by
  obtain ⟨htok, hl, ha, hwc, hel, hat, hw, t, hty, hq⟩ := varTokens_facts hv
  simp only [tokensValueOKj, hty] at hx
  cases x with
  | list ys =>
    obtain ⟨ps, hps, hall⟩ := prims_of_tokensOK e.toBEnv t ys hx
    subst hps
    have henc : (ps.map Val.prim).mapM (encElemWith (encModelF Γ fac {} n)) = .ok (ps.map encPrim) := by
      clear hall hx
      induction ps with
      | nil => rfl
      | cons p ps ih =>
        rw [List.map_cons, List.mapM_cons, ih]
        simp [encElemWith, encItemWith, bind, Except.bind, pure, Except.pure]
    have hser : (ps.map encPrim).mapM serScalar = .ok (ps.map serPrim) := by
      have hne : ∀ p ∈ ps, pvalType p ≠ .qname := fun p hp => by rw [pvalType_of_hasType (hall p hp).1]; exact hq
      clear hall hx henc
      induction ps with
      | nil => rfl
      | cons p ps ih =>
        rw [List.map_cons, List.mapM_cons, ih (fun q hq' => hne q (List.mem_cons_of_mem _ hq'))]
        have := hne p (List.mem_cons_self ..)
        cases p with
        | str s => simp [encPrim, serScalar, serPrim, bind, Except.bind, pure, Except.pure]
        | int i => simp [encPrim, serScalar, serPrim, bind, Except.bind, pure, Except.pure]
        | bool b => cases b <;> simp [encPrim, serScalar, serPrim, bind, Except.bind, pure, Except.pure]
        | qname q => exact absurd rfl this
    have hsplit : pySplitWs e.py (" ".toList.intercalate (ps.map serPrim)) = ps.map serPrim := by
      apply Proofs.C01.pySplitWs_join
      intro s hs
      obtain ⟨p, hp, rfl⟩ := List.mem_map.mp hs
      exact Proofs.C01.tokStr_serPrim e.toBEnv (hall p hp).1 (hall p hp).2
    have hdes : (ps.map serPrim).mapM (fun s => deserialize e.toBEnv s [.prim t] []) = some ps := by
      have hty' : ∀ p ∈ ps, pvalType p = t := fun p hp => pvalType_of_hasType (hall p hp).1
      clear hall hx henc hser hsplit
      induction ps with
      | nil => rfl
      | cons p ps ih =>
        rw [List.map_cons, List.mapM_cons, ih (fun q hq' => hty' q (List.mem_cons_of_mem _ hq'))]
        have h1 := hty' p (List.mem_cons_self ..)
        have h2 : pvalType p ≠ .qname := by rw [h1]; exact hq
        have := deOne_serPrim e.toBEnv p h2
        rw [h1] at this
        simp [deserialize, List.findSome?, this]
    have hnat : (J.arr (ps.map encPrim)).native = true := by
      simp only [J.native]
      clear hall hx henc hser hsplit hdes
      induction ps with
      | nil => rfl
      | cons p ps ih =>
        simp only [List.map_cons, J.nativeList, ih, Bool.and_true]
        cases p <;> rfl
    have hat' : var.toVarCore.anyType = false := hat
    have hwc' : var.toVarCore.isWildcard = false := hwc
    have htok' : var.toVarCore.tokens = true := htok
    have hty' : var.toVarCore.types = [.prim t] := hty
    refine ⟨.arr (ps.map encPrim), ?_, rfl, hnat, ?_, .arr (ps.map encPrim), ?_, by simp [J.isNull], ?_⟩
    · simp only [encVarWith, hw, encCoreWith, henc]; rfl
    · simp [varMatches, keyOf, hw, J.isArr, varIsList, htok]
    · simp [unwrapValue, hw]
    · unfold bindValueWith
      simp only [ha, Bool.false_eq_true, if_false, hl]
      unfold bindItemWith
      simp only [ha, Bool.false_eq_true, if_false, Xs.Dict.bindText, hel, bindTextPlain, hat', hwc', Bool.or_self,
        htok', Bool.not_true, Bool.false_and, serializeJ, hser, Except.map, leafOf_tokens e var.toVarCore _ htok']
      unfold parseVar
      simp only [Option.getD_none, htok', if_true, hsplit, hty', hdes]
      simp [List.map_map, Function.comp_def]
  | none => simp [Xs.Bind.FN.tokensOK] at hx
  | prim p => simp [Xs.Bind.FN.tokensOK] at hx
  | obj c fs => simp [Xs.Bind.FN.tokensOK] at hx
  | any q t' tl a cs => simp [Xs.Bind.FN.tokensOK] at hx
  | derived q y t' => simp [Xs.Bind.FN.tokensOK] at hx
  | attrs a => simp [Xs.Bind.FN.tokensOK] at hx

/-! ### a compound field -/

theorem varComp_facts {var : XmlVar} (h : varComp var = true) :
    var.isElements = true ∧ var.listElement = true ∧ var.isAttributes = false ∧ var.isWildcard = false ∧
    var.tokens = false ∧ var.isClazzUnion = false ∧ var.elements.isEmpty = false ∧ wrapperName var.toVarCore = none := by
  simp only [varComp, Bool.and_eq_true, Bool.not_eq_true', Option.isNone_iff_eq_none] at h
  obtain ⟨⟨⟨⟨⟨⟨⟨h1, h2⟩, h3⟩, h4⟩, h5⟩, h6⟩, h7⟩, h8⟩ := h
  exact ⟨h1, h2, h3, h4, h5, h6, h7, h8⟩

theorem compItem_rt (e : DEnv) (Γ : Ctx) (fac : Factory) (n : Nat) (ih : IH e Γ fac n) (cfg : ParserConfig)
    (m : XmlMeta) (var : XmlVar) (hv : varComp var = true) (x : Val)
    (hx : compItemOKj e (valOKj e Γ fac n) Γ fac var x = true) :
    ∃ j, encElemWith (encModelF Γ fac {} n) x = .ok j ∧ j.isNull = isNoneV x ∧ j.isArr = false ∧ j.native = true ∧
      bindItemWith e (bindDataclassF e Γ n) Γ cfg m var j = ND.pure x := by
  obtain ⟨hel, _, ha, hwc, _, hcu, hne, _⟩ := varComp_facts hv
  cases x with
  | prim p =>
    simp only [compItemOKj, Bool.and_eq_true, bne_iff_ne, ne_eq] at hx
    obtain ⟨hq, hch⟩ := hx
    refine ⟨encPrim p, rfl, ?_, ?_, ?_, ?_⟩
    · cases p <;> rfl
    · cases p <;> rfl
    · cases p <;> rfl
    · have key : Xs.Dict.bindText e cfg var (encPrim p) = .ok (.prim p) := by
        simp only [Xs.Dict.bindText, hel, if_true]
        cases hf : findValueChoice e var (encPrim p) with
        | error err => simp [hf] at hch
        | ok o =>
          cases o with
          | none => simp [hf] at hch
          | some el =>
            simp only [hf, Bool.and_eq_true, Bool.not_eq_true'] at hch
            obtain ⟨⟨⟨ht, hat⟩, hw⟩, hty⟩ := hch
            simp only [bindTextPlain, hat, hw, Bool.or_self, Bool.false_eq_true, if_false, ht, Bool.not_false,
              Bool.true_and]
            cases p with
            | str s => simp only [encPrim, scalarType]; simp [pvalType] at hty; simp [hty, rawVal, rawScalar]
            | int i => simp only [encPrim, scalarType]; simp [pvalType] at hty; simp [hty, rawVal, rawScalar]
            | bool b => simp only [encPrim, scalarType]; simp [pvalType] at hty; simp [hty, rawVal, rawScalar]
            | qname t => exact absurd rfl hq
      unfold bindItemWith
      simp only [ha, Bool.false_eq_true, if_false]
      cases p with
      | str s => simp only [encPrim]; rw [show J.str s = encPrim (.str s) from rfl, key]; rfl
      | int i => simp only [encPrim]; rw [show J.num i = encPrim (.int i) from rfl, key]; rfl
      | bool b => simp only [encPrim]; rw [show J.bool b = encPrim (.bool b) from rfl, key]; rfl
      | qname t => exact absurd rfl hq
  | obj k' fs' =>
    simp only [compItemOKj, Bool.and_eq_true, beq_iff_eq] at hx
    obtain ⟨hok, hpool⟩ := hx
    obtain ⟨kvs, henc, hkeys, hnat, hdec⟩ := ih k' _ hok
    obtain ⟨n', hn⟩ := valOKj_succ hok
    subst hn
    obtain ⟨fs, ci, m', hobj, _, _, hisany, _, hmeta, hcl, hid, _, _, _⟩ := valOKj_unpack hok
    have hk'ne : k' ≠ anyId := by
      intro heq
      simp [isAnyV, heq] at hisany
    have hmk := markers_user (classOKj_facts hcl).2.2.2.1 (by rw [hid]; exact hk'ne)
    have hq : kQName ∉ kvKeys kvs := by
      rw [hkeys]; intro hmem; exact hmk.1 (encKeys_sub hobj hmeta _ hmem)
    have hch : kChildren ∉ kvKeys kvs := by
      rw [hkeys]; intro hmem; exact hmk.2 (encKeys_sub hobj hmeta _ hmem)
    have hany : isGeneric kvs anyRequired anyKeys = false :=
      isGeneric_false_of_not_mem kvs anyRequired anyKeys kChildren (by simp [anyRequired]) hch
    have hder : isGeneric kvs derivedRequired derivedKeys = false :=
      isGeneric_false_of_not_mem kvs derivedRequired derivedKeys kQName (by simp [derivedRequired]) hq
    refine ⟨.obj kvs, henc, rfl, rfl, hnat, ?_⟩
    unfold bindItemWith
    simp only [ha, Bool.false_eq_true, if_false, hany, hder]
    unfold bindComplexWith
    simp only [hcu, Bool.false_eq_true, if_false, hne, Bool.not_false, if_true]
    exact bindBest_unique _ Γ cfg false _ kvs k' _ (by rw [hkeys]; exact hpool) hdec
  | none => simp [compItemOKj] at hx
  | list xs => simp [compItemOKj] at hx
  | any q t tl a cs => simp [compItemOKj] at hx
  | derived q y t => simp [compItemOKj] at hx
  | attrs a => simp [compItemOKj] at hx

theorem value_rt_comp (e : DEnv) (Γ : Ctx) (fac : Factory) (n : Nat) (ih : IH e Γ fac n) (cfg : ParserConfig)
    (m : XmlMeta) (var : XmlVar) (hv : varComp var = true) (x : Val)
    (hx : compValueOKj e (valOKj e Γ fac n) Γ fac var x = true) :
    ∃ j, encVarWith fac (encModelF Γ fac {} n) var x = .ok j ∧ j.isNull = isNoneV x ∧ j.native = true ∧
      varMatches (keyOf var.toVarCore) j var = true ∧
      ∃ j', unwrapValue var j = .ok j' ∧ (j'.isNull && var.listElement) = false ∧
        bindValueWith e (bindDataclassF e Γ n) Γ cfg m var j' = ND.pure x := by
  obtain ⟨_, hl, ha, _, _, _, _, hw⟩ := varComp_facts hv
  cases x with
  | list items =>
    simp only [compValueOKj, List.all_eq_true] at hx
    have hitems : ∀ y ∈ items, ∃ j, encElemWith (encModelF Γ fac {} n) y = .ok j := by
      intro y hy
      obtain ⟨j, hj, _⟩ := compItem_rt e Γ fac n ih cfg m var hv y (hx y hy)
      exact ⟨j, hj⟩
    obtain ⟨js, hjs⟩ := mapM_exists _ items hitems
    have hdec : ND.mapM (bindItemWith e (bindDataclassF e Γ n) Γ cfg m var) js = ND.pure items := by
      apply nd_mapM_roundtrip _ _ items js hjs
      intro y hy j hj
      obtain ⟨j0, hj0, _, _, _, hd⟩ := compItem_rt e Γ fac n ih cfg m var hv y (hx y hy)
      rw [hj0] at hj
      injection hj with hj
      rw [← hj]; exact hd
    have hnat : (J.arr js).native = true := by
      simp only [J.native]
      exact nativeList_of_mapM _ items js hjs (by
        intro y hy j hj
        obtain ⟨j0, hj0, _, _, hn, _⟩ := compItem_rt e Γ fac n ih cfg m var hv y (hx y hy)
        rw [hj0] at hj
        injection hj with hj
        rw [← hj]; exact hn)
    refine ⟨.arr js, ?_, rfl, hnat, ?_, .arr js, ?_, ?_, ?_⟩
    · simp only [encVarWith, hw, encCoreWith, hjs]; rfl
    · simp [varMatches, keyOf, hw, J.isArr, varIsList, hl]
    · simp [unwrapValue, hw]
    · simp [J.isNull]
    · unfold bindValueWith
      simp only [ha, Bool.false_eq_true, if_false, hl, if_true, hdec, nd_pure_bind]
  | none => simp [compValueOKj] at hx
  | prim p => simp [compValueOKj] at hx
  | obj c fs => simp [compValueOKj] at hx
  | any q t tl a cs => simp [compValueOKj] at hx
  | derived q y t => simp [compValueOKj] at hx
  | attrs a => simp [compValueOKj] at hx

/-! ### any var of the fragment -/

theorem varOKj_cases {var : XmlVar} (hv : varOKj var = true) :
    varTyped var = true ∨ varAttrs var = true ∨ varWild var = true ∨ varTokens var = true ∨ varComp var = true := by
  simp only [varOKj, Bool.or_eq_true] at hv
  rcases hv with (((h | h) | h) | h) | h
  · exact Or.inl h
  · exact Or.inr (Or.inl h)
  · exact Or.inr (Or.inr (Or.inl h))
  · exact Or.inr (Or.inr (Or.inr (Or.inl h)))
  · exact Or.inr (Or.inr (Or.inr (Or.inr h)))

theorem value_rt (e : DEnv) (Γ : Ctx) (fac : Factory) (n : Nat) (ih : IH e Γ fac n) (cfg : ParserConfig)
    (m : XmlMeta) (var : XmlVar) (hv : varOKj var = true) (x : Val)
    (hx : valueOKj e (valOKj e Γ fac n) Γ fac var x = true) :
    ∃ j, encVarWith fac (encModelF Γ fac {} n) var x = .ok j ∧ j.isNull = isNoneV x ∧ j.native = true ∧
      varMatches (keyOf var.toVarCore) j var = true ∧
      ∃ j', unwrapValue var j = .ok j' ∧ (j'.isNull && var.listElement) = false ∧
        bindValueWith e (bindDataclassF e Γ n) Γ cfg m var j' = ND.pure x := by
  unfold valueOKj at hx
  rcases varOKj_cases hv with hv | hv | hv | hv | hv
  · obtain ⟨h1, h2, h3, _, _, _, h7⟩ := varTyped_facts hv
    simp only [h1, h2, h3, h7, Bool.false_eq_true, if_false] at hx
    exact value_rt_typed e Γ fac n ih cfg m var hv x hx
  · have ha : var.isAttributes = true := by simp only [varAttrs, Bool.and_eq_true] at hv; exact hv.1.1.1
    simp only [ha, if_true] at hx
    exact value_rt_attrs e Γ fac n cfg m var hv x hx
  · obtain ⟨hw, ha, _, _, _⟩ := varWild_facts hv
    simp only [ha, hw, Bool.false_eq_true, if_false, if_true] at hx
    exact value_rt_wild e Γ fac n ih cfg m var hv x hx
  · obtain ⟨ht, _, ha, hw, _⟩ := varTokens_facts hv
    simp only [ha, hw, ht, Bool.false_eq_true, if_false, if_true] at hx
    exact value_rt_tokens e Γ fac n cfg m var hv x hx
  · obtain ⟨hel, _, ha, hw, ht, _⟩ := varComp_facts hv
    simp only [ha, hw, ht, hel, Bool.false_eq_true, if_false, if_true] at hx
    exact value_rt_comp e Γ fac n ih cfg m var hv x hx

theorem varOKj_wrapper_ne {var : XmlVar} (hv : varOKj var = true) (w : Str)
    (hw : wrapperName var.toVarCore = some w) : var.localName ≠ w := by
  rcases varOKj_cases hv with hv | hv | hv | hv | hv
  · exact (varTyped_wrapper hv w hw).2
  · simp [varAttrs, hw] at hv
  · have := (varWild_facts hv).2.2.2.2; rw [hw] at this; cases this
  · have := (varTokens_facts hv).2.2.2.2.2.2.1; rw [hw] at this; cases this
  · have := (varComp_facts hv).2.2.2.2.2.2.2; rw [hw] at this; cases this

/-! ### the two loops -/

def xOf (fs : List (Str × Val)) (var : XmlVar) : Val := (kvGet fs var.name).getD .none

def jOf (fac : Factory) (recE : Val → Except Err J) (fs : List (Str × Val)) (var : XmlVar) : J :=
  match encVarWith fac recE var (xOf fs var) with
  | .ok j => j
  | .error _ => .null

def pairOf (fac : Factory) (recE : Val → Except Err J) (fs : List (Str × Val)) (var : XmlVar) : Str × J :=
  (keyOf var.toVarCore, jOf fac recE fs var)

def keepP (fac : Factory) (kv : Str × J) : Bool :=
  match fac with
  | .dict => true
  | .filterNone => !kv.2.isNull

theorem fac_apply_eq (fac : Factory) (pairs : List (Str × J)) :
    fac.apply pairs = .obj (dictOf (pairs.filter (keepP fac))) := by
  cases fac
  · have : (fun kv : Str × J => keepP .dict kv) = fun _ => true := rfl
    have hf : ∀ l : List (Str × J), l.filter (fun _ => true) = l := by
      intro l; induction l with
      | nil => rfl
      | cons a t ih => simp [List.filter, ih]
    simp only [Factory.apply, this, hf]
  · have : (fun kv : Str × J => keepP .filterNone kv) = fun kv => !kv.2.isNull := rfl
    simp only [Factory.apply, this]

theorem getField_of_kvGet (fs : List (Str × Val)) (name : Str) (x : Val) (h : kvGet fs name = some x) :
    getField fs name = .ok x := by
  unfold kvGet at h
  unfold getField
  cases hf : fs.find? (fun kv => decide (kv.1 = name)) with
  | none => simp [hf] at h
  | some kv =>
    simp only [hf, Option.map_some, Option.some.injEq] at h
    obtain ⟨k, v⟩ := kv
    simp only at h
    subst h
    rfl

theorem encPairs_eq (fac : Factory) (recE : Val → Except Err J) (fs : List (Str × Val)) :
    ∀ vars' : List XmlVar,
      (∀ var ∈ vars', kvGet fs var.name = some (xOf fs var) ∧
        encVarWith fac recE var (xOf fs var) = .ok (jOf fac recE fs var)) →
      encPairsWith fac {} recE fs vars' = .ok (vars'.map (pairOf fac recE fs)) := by
  intro vars'
  induction vars' with
  | nil => intro _; rfl
  | cons var rest ih =>
    intro h
    obtain ⟨hget, henc⟩ := h var (List.mem_cons_self ..)
    have hrest := ih (fun v hv => h v (List.mem_cons_of_mem _ hv))
    simp only [encPairsWith, getField_of_kvGet fs var.name _ hget, Bool.not_false, Bool.or_true, Bool.true_or,
      if_true, henc, hrest, List.map_cons, pairOf]

theorem varMatches_names {key : Str} {j : J} {b : XmlVar} (h : varMatches key j b = true) :
    b.localName = key ∨ wrapperName b.toVarCore = some key := by
  unfold varMatches at h
  by_cases h1 : b.localName = key
  · exact Or.inl h1
  · by_cases h2 : wrapperName b.toVarCore = some key
    · exact Or.inr h2
    · simp [h1, h2] at h

def stepP (fac : Factory) (recE : Val → Except Err J) (fs : List (Str × Val)) (P : Params) (var : XmlVar) : Params :=
  if keepP fac (pairOf fac recE fs var) && var.init then P.set var.name (xOf fs var) else P

/-- under the key the encoder writes, `unwrapFor` is `unwrapValue` (a wrapper is never named
like its field) -/
theorem unwrapFor_keyOf (var : XmlVar) (h : ∀ w, wrapperName var.toVarCore = some w → var.localName ≠ w)
    (fac : Factory) (recE : Val → Except Err J) (fs : List (Str × Val)) :
    unwrapFor var (pairOf fac recE fs var).1 (pairOf fac recE fs var).2 = unwrapValue var (pairOf fac recE fs var).2 := by
  unfold unwrapFor pairOf keyOf
  cases hw : wrapperName var.toVarCore with
  | none => simp [unwrapValue, hw]
  | some w => simp [h w hw]

theorem bindPairs_eq (e : DEnv) (recD : Rec) (Γ : Ctx) (cfg : ParserConfig) (m : XmlMeta) (vars : List XmlVar)
    (fac : Factory) (recE : Val → Except Err J) (fs : List (Str × Val)) :
    ∀ (vars' : List XmlVar) (P : Params),
      (∀ var ∈ vars',
        findVar vars (keyOf var.toVarCore) (jOf fac recE fs var) = some var ∧
        (∃ j', unwrapValue var (jOf fac recE fs var) = .ok j' ∧ (j'.isNull && var.listElement) = false ∧
          bindValueWith e recD Γ cfg m var j' = ND.pure (xOf fs var)) ∧
        (var.init = true ∨ fixedOK e var (xOf fs var) = true) ∧
        (∀ w, wrapperName var.toVarCore = some w → var.localName ≠ w)) →
      bindPairsWith e recD Γ cfg m vars ((vars'.map (pairOf fac recE fs)).filter (keepP fac)) P
        = ND.pure (vars'.foldl (stepP fac recE fs) P) := by
  intro vars'
  induction vars' with
  | nil => intro P _; rfl
  | cons var rest ih =>
    intro P h
    obtain ⟨hfind, ⟨j', hun, hnl, hbind⟩, hinit, hwne⟩ := h var (List.mem_cons_self ..)
    have hrest := fun P' => ih P' (fun v hv => h v (List.mem_cons_of_mem _ hv))
    simp only [List.map_cons, List.foldl_cons]
    by_cases hk : keepP fac (pairOf fac recE fs var) = true
    · rw [List.filter_cons_of_pos hk]
      have hfind' : findVar vars (pairOf fac recE fs var).1 (pairOf fac recE fs var).2 = some var := hfind
      have hun' : unwrapFor var (pairOf fac recE fs var).1 (pairOf fac recE fs var).2 = .ok j' := by
        rw [unwrapFor_keyOf var hwne fac recE fs]; exact hun
      unfold bindPairsWith
      simp only [hfind', hun', hnl, Bool.false_eq_true, if_false, hbind, nd_pure_bind]
      by_cases hi : var.init = true
      · simp only [hi, if_true]
        rw [hrest]
        simp [stepP, hk, hi]
      · have hi' : var.init = false := by simpa using hi
        have hfx : fixedOK e var (xOf fs var) = true := by
          rcases hinit with h | h
          · exact absurd h hi
          · exact h
        unfold fixedOK at hfx
        simp only [hi', Bool.false_eq_true, if_false]
        cases hvf : validateFixed e.py var.toVarCore (xOf fs var) with
        | error err => simp [hvf] at hfx
        | ok u =>
          simp only []
          rw [hrest]
          simp [stepP, hi']
    · have hk' : keepP fac (pairOf fac recE fs var) = false := by simpa using hk
      rw [List.filter_cons_of_neg (by simp [hk'])]
      rw [hrest]
      simp [stepP, hk']

/-! ### the parameters handed to `class_factory` -/

theorem foldl_stepP_get (fac : Factory) (recE : Val → Except Err J) (fs : List (Str × Val)) :
    ∀ (vars' : List XmlVar) (P : Params) (name : Str), (vars'.map (·.name)).Nodup →
      (vars'.foldl (stepP fac recE fs) P).get name =
        match vars'.find? (fun v => decide (v.name = name)) with
        | some var => if keepP fac (pairOf fac recE fs var) && var.init then some (xOf fs var) else P.get name
        | none => P.get name := by
  intro vars'
  induction vars' with
  | nil => intro P name _; rfl
  | cons var rest ih =>
    intro P name hnd
    simp only [List.map_cons, List.nodup_cons] at hnd
    simp only [List.foldl_cons]
    rw [ih _ name hnd.2]
    by_cases hname : var.name = name
    · have hnone : rest.find? (fun v => decide (v.name = name)) = none := by
        rw [List.find?_eq_none]
        intro v hv hvn
        apply hnd.1
        have : v.name = name := by simpa using hvn
        rw [hname, ← this]
        exact List.mem_map_of_mem (f := (·.name)) hv
      simp only [hnone, List.find?, hname, decide_true]
      unfold stepP
      by_cases hc : (keepP fac (pairOf fac recE fs var) && var.init) = true
      · simp only [hc, if_true]
        rw [← hname]; exact params_get_set_eq ..
      · have hc' : (keepP fac (pairOf fac recE fs var) && var.init) = false := by simpa using hc
        simp only [hc', Bool.false_eq_true, if_false]
    · have hP : (stepP fac recE fs P var).get name = P.get name := by
        unfold stepP
        split
        · exact params_get_set_ne _ _ _ _ (Ne.symm hname)
        · rfl
      simp only [List.find?, hname, decide_false, hP]

theorem map_eq_of_fields {α} (H : FieldInfo → Option (Str × α)) :
    ∀ (fields : List FieldInfo) (fs : List (Str × α)), fs.map (·.1) = fields.map (·.name) →
      (∀ f ∈ fields, ∀ x, (f.name, x) ∈ fs → H f = some (f.name, x)) → fields.map H = fs.map some := by
  intro fields
  induction fields with
  | nil =>
    intro fs h _
    cases fs with
    | nil => rfl
    | cons a t => simp at h
  | cons f fl ih =>
    intro fs h hall
    cases fs with
    | nil => simp at h
    | cons kv fsl =>
      simp only [List.map_cons, List.cons.injEq] at h
      obtain ⟨k, x⟩ := kv
      simp only at h
      have hk : k = f.name := h.1
      subst hk
      simp only [List.map_cons]
      rw [hall f (List.mem_cons_self ..) x (List.mem_cons_self ..)]
      rw [ih fsl h.2 (fun f' hf' y hy => hall f' (List.mem_cons_of_mem _ hf') y (List.mem_cons_of_mem _ hy))]

theorem classFactory_eq (Γ : Ctx) (c : ClassId) (ci : ClassInfo) (fs : List (Str × Val)) (P : Params)
    (hfind : Γ.find c = some ci) (hnames : fs.map (·.1) = ci.fields.map (·.name))
    (hfield : ∀ f ∈ ci.fields, ∀ x, (f.name, x) ∈ fs →
      (if f.init then P.get f.name else none) = some x ∨
      ((if f.init then P.get f.name else none) = none ∧ f.default = some x)) :
    classFactory Γ c P = .ok (.obj c fs) := by
  unfold classFactory
  simp only [hfind]
  rw [map_eq_of_fields _ ci.fields fs hnames]
  · have h1 : (fs.map some).all Option.isSome = true := by simp
    have h2 : (fs.map some).filterMap id = fs := by simp
    simp only [h1, if_true, h2]
  · intro f hf x hx
    rcases hfield f hf x hx with h | ⟨h1, h2⟩
    · simp only [h]
    · simp only [h1, h2]

theorem keptBy_eq (fac : Factory) (k : Str) (j : J) (x : Val) (h : j.isNull = isNoneV x) :
    keepP fac (k, j) = keptBy fac x := by
  cases fac
  · cases x <;> rfl
  · cases x <;> simp [keepP, keptBy, h, isNoneV]

theorem keys_kept (Γ : Ctx) (fac : Factory) (recE : Val → Except Err J) (v : Val) (c : ClassId) (fs : List (Str × Val))
    (m : XmlMeta) (hobj : asObject v = some (c, fs)) (hmeta : metaOf Γ c = .ok m)
    (h : ∀ var ∈ allVars m, kvGet fs var.name = some (xOf fs var) ∧
      keepP fac (pairOf fac recE fs var) = keptBy fac (xOf fs var)) :
    kvKeys (((allVars m).map (pairOf fac recE fs)).filter (keepP fac)) = encKeys Γ fac v := by
  simp only [encKeys, hobj, hmeta]
  generalize allVars m = vars at h
  induction vars with
  | nil => rfl
  | cons var rest ih =>
    obtain ⟨hget, hkeep⟩ := h var (List.mem_cons_self ..)
    have hrest := ih (fun v hv => h v (List.mem_cons_of_mem _ hv))
    simp only [List.map_cons, List.filterMap_cons, hget]
    by_cases hk : keptBy fac (xOf fs var) = true
    · rw [List.filter_cons_of_pos (by rw [hkeep]; exact hk)]
      simp only [hk, if_true, kvKeys, List.map_cons]
      rw [show List.map (fun x => x.fst) (List.filter (keepP fac) (List.map (pairOf fac recE fs) rest))
        = kvKeys (List.filter (keepP fac) (List.map (pairOf fac recE fs) rest)) from rfl, hrest]
      rfl
    · have hk' : keptBy fac (xOf fs var) = false := by simpa using hk
      rw [List.filter_cons_of_neg (by rw [hkeep, hk']; simp)]
      simp only [hk', Bool.false_eq_true, if_false]
      exact hrest

/-! ### the induction -/

theorem eq_of_nodup_map {α β} (g : α → β) : ∀ (l : List α), (l.map g).Nodup → ∀ a ∈ l, ∀ b ∈ l, g a = g b → a = b := by
  intro l
  induction l with
  | nil => intro _ a ha; cases ha
  | cons x xs ih =>
    intro hnd a ha b hb hg
    simp only [List.map_cons, List.nodup_cons] at hnd
    cases ha with
    | head =>
      cases hb with
      | head => rfl
      | tail _ hb => exact absurd (hg ▸ List.mem_map_of_mem (f := g) hb) hnd.1
    | tail _ ha =>
      cases hb with
      | head => exact absurd (hg ▸ List.mem_map_of_mem (f := g) ha) hnd.1
      | tail _ hb => exact ih hnd.2 a ha b hb hg

theorem keptBy_false {fac : Factory} {x : Val} (h : keptBy fac x = false) : x = .none := by
  cases fac <;> cases x <;> simp [keptBy] at h ⊢

theorem defaultIs_eq {f : FieldInfo} {x : Val} (h : defaultIs f x = true) : f.default = some x := by
  unfold defaultIs at h
  split at h
  · rename_i hd; exact hd
  · rename_i p q hd
    have : p = q := by simpa using h
    rw [hd, this]
  · cases h

theorem rt_step (e : DEnv) (Γ : Ctx) (fac : Factory) (n : Nat) (ih : IH e Γ fac n) : IH e Γ fac (n + 1) := by
  intro c v hok
  obtain ⟨fs, ci, m, hobj, hgv, hcd, hisany, hfind, hmeta, hcl, hid, hnames, hvars, hfields⟩ := valOKj_unpack hok
  obtain ⟨cv, cnd, cuniq, cmark, cnames, cfnames, cfv⟩ := classOKj_facts hcl
  have hx : ∀ var ∈ allVars m, kvGet fs var.name = some (xOf fs var) := by
    intro var hvar
    obtain ⟨x, hget, _⟩ := hvars var hvar
    simp [xOf, hget]
  have hper : ∀ (cfg : ParserConfig), ∀ var ∈ allVars m,
      encVarWith fac (encModelF Γ fac {} n) var (xOf fs var) = .ok (jOf fac (encModelF Γ fac {} n) fs var) ∧
      (jOf fac (encModelF Γ fac {} n) fs var).isNull = isNoneV (xOf fs var) ∧
      (jOf fac (encModelF Γ fac {} n) fs var).native = true ∧
      varMatches (keyOf var.toVarCore) (jOf fac (encModelF Γ fac {} n) fs var) var = true ∧
      ∃ j', unwrapValue var (jOf fac (encModelF Γ fac {} n) fs var) = .ok j' ∧ (j'.isNull && var.listElement) = false ∧
        bindValueWith e (bindDataclassF e Γ n) Γ cfg m var j' = ND.pure (xOf fs var) := by
    intro cfg var hvar
    obtain ⟨x, hget, hval, _⟩ := hvars var hvar
    have hxo : xOf fs var = x := by simp [xOf, hget]
    obtain ⟨j, henc, hnull, hnat, hm, hrest⟩ := value_rt e Γ fac n ih cfg m var (cv var hvar) x hval
    have hj : jOf fac (encModelF Γ fac {} n) fs var = j := by simp [jOf, hxo, henc]
    rw [hj, hxo]
    exact ⟨henc, hnull, hnat, hm, hrest⟩
  have hkeep : ∀ var ∈ allVars m,
      keepP fac (pairOf fac (encModelF Γ fac {} n) fs var) = keptBy fac (xOf fs var) := by
    intro var hvar
    exact keptBy_eq fac _ _ _ (hper {} var hvar).2.1
  -- the encoder
  have hpairs := encPairs_eq fac (encModelF Γ fac {} n) fs (allVars m)
    (fun var hvar => ⟨hx var hvar, (hper {} var hvar).1⟩)
  have hkeys := keys_kept Γ fac (encModelF Γ fac {} n) v c fs m hobj hmeta (fun var hvar => ⟨hx var hvar, hkeep var hvar⟩)
  have hnd : ((((allVars m).map (pairOf fac (encModelF Γ fac {} n) fs)).filter (keepP fac)).map (·.1)).Nodup := by
    have hsub : List.Sublist ((((allVars m).map (pairOf fac (encModelF Γ fac {} n) fs)).filter (keepP fac)).map (·.1))
        (((allVars m).map (pairOf fac (encModelF Γ fac {} n) fs)).map (·.1)) :=
      List.Sublist.map _ List.filter_sublist
    have hmm : ((allVars m).map (pairOf fac (encModelF Γ fac {} n) fs)).map (·.1)
        = (allVars m).map (fun v => keyOf v.toVarCore) := by
      simp [List.map_map, pairOf, Function.comp_def]
    rw [hmm] at hsub
    exact hsub.nodup cnd
  refine ⟨((allVars m).map (pairOf fac (encModelF Γ fac {} n) fs)).filter (keepP fac), ?_, hkeys, ?_, ?_⟩
  rotate_left
  · simp only [J.native, Bool.and_eq_true, decide_eq_true_eq]
    exact ⟨hnd, nativePairs_filter_map _ _ _ (fun var hvar => (hper {} var hvar).2.2.1)⟩
  rotate_left
  · simp only [encModelF, hobj, encObjWith, hmeta, hpairs, Except.map, fac_apply_eq, dictOf_nodup _ hnd]
  · intro cfg
    have hder : keysEq (((allVars m).map (pairOf fac (encModelF Γ fac {} n) fs)).filter (keepP fac)) derivedKeys = false := by
      by_cases hc : c = anyId
      · -- the generic element: `value` is none of its keys
        have hmk := markers_any (by have := cmark; rwa [hid, hc] at this)
        apply keysEq_false_of_not_mem _ derivedKeys kValue (by simp [derivedKeys])
        rw [hkeys]
        intro hmem
        have := hmk.1 kValue (encKeys_sub hobj hmeta _ hmem)
        revert this; decide
      · have hmk := markers_user (by have := cmark; rwa [hid] at this) hc
        apply keysEq_false_of_not_mem _ derivedKeys kQName (by simp [derivedKeys])
        rw [hkeys]
        intro hmem
        exact hmk.1 (encKeys_sub hobj hmeta _ hmem)
    have hloop := bindPairs_eq e (bindDataclassF e Γ n) Γ cfg m (allVars m) fac (encModelF Γ fac {} n) fs
      (allVars m) [] (by
        intro var hvar
        obtain ⟨_, _, _, hm, hrest⟩ := hper cfg var hvar
        refine ⟨?_, hrest, ?_, fun w hw => varOKj_wrapper_ne (cv var hvar) w hw⟩
        · apply find?_unique _ _ var hvar hm
          intro b hb hbm
          exact cuniq var hvar b hb (varMatches_names hbm)
        · obtain ⟨x, hget, _, hfix⟩ := hvars var hvar
          have hxo : xOf fs var = x := by simp [xOf, hget]
          rw [hxo]; exact hfix)
    have hfsnd : (fs.map (·.1)).Nodup := by rw [hnames]; exact cfnames
    have hcf := classFactory_eq Γ c ci fs
      ((allVars m).foldl (stepP fac (encModelF Γ fac {} n) fs) []) hfind hnames (by
        intro f hf x hmem
        obtain ⟨var, hvar, hvn, hvi⟩ := cfv f hf
        have hget : kvGet fs f.name = some x := kvGet_of_mem fs f.name x hfsnd hmem
        have hxo : xOf fs var = x := by simp [xOf, hvn, hget]
        have hfl := hfields (f.name, x) hmem f hf rfl
        by_cases hi : f.init = true
        · simp only [hi, if_true] at hfl ⊢
          rw [foldl_stepP_get fac _ fs (allVars m) [] f.name cnames]
          have hfindv : (allVars m).find? (fun v => decide (v.name = f.name)) = some var := by
            apply find?_unique _ _ var hvar (by simpa using hvn)
            intro b hb hbn
            have hbn' : b.name = f.name := by simpa using hbn
            exact eq_of_nodup_map (·.name) (allVars m) cnames b hb var hvar (hbn'.trans hvn.symm)
          simp only [hfindv, hkeep var hvar, hxo, hvi, hi, Bool.and_true, params_get_nil]
          by_cases hk : keptBy fac x = true
          · left; simp [hk]
          · have hk' : keptBy fac x = false := by simpa using hk
            right
            simp only [hk', Bool.false_or] at hfl
            have hxn := keptBy_false hk'
            subst hxn
            exact ⟨by simp [hk'], defaultIs_eq hfl⟩
        · have hi' : f.init = false := by simpa using hi
          simp only [hi', Bool.false_eq_true, if_false] at hfl ⊢
          right
          exact ⟨trivial, defaultIs_eq hfl⟩)
    simp only [bindDataclassF, bindDataclassWith, hder, Bool.false_eq_true, if_false, hmeta, hloop, nd_pure_bind,
      hcf, hgv, nd_ofExcept_ok]

theorem rt_all (e : DEnv) (Γ : Ctx) (fac : Factory) : ∀ n, IH e Γ fac n := by
  intro n
  induction n with
  | zero => intro c v h; simp [valOKj] at h
  | succ n ih => exact rt_step e Γ fac n ih

/-- `encode(obj)` (no var) of a model instance is the instance's own encoding -/
theorem encode_of_object (Γ : Ctx) (fac : Factory) (cfg : SerCfg) (n : Nat) {v : Val} {cf : ClassId × List (Str × Val)}
    (h : asObject v = some cf) :
    encode Γ fac cfg n v = encModelF Γ fac cfg n v ∧ encTopItem Γ fac cfg n v = encModelF Γ fac cfg n v := by
  cases v with
  | obj c fs => exact ⟨rfl, rfl⟩
  | any q t tl a cs => exact ⟨rfl, rfl⟩
  | derived q x t => exact ⟨rfl, rfl⟩
  | none => simp [asObject] at h
  | prim p => simp [asObject] at h
  | list xs => simp [asObject] at h
  | attrs a => simp [asObject] at h

/-! ### typing is enough in a universe without subclass pools -/

theorem find_mem {Γ : Ctx} {k : ClassId} {ci : ClassInfo} (h : Γ.find k = some ci) : ci ∈ Γ.classes ∧ ci.id = k := by
  unfold Ctx.find at h
  exact ⟨List.mem_of_find?_eq_some h, by simpa using List.find?_some h⟩

theorem valOKu_valOKj (e : DEnv) (Γ : Ctx) (fac : Factory) (huni : noSubclassPools Γ = true) :
    ∀ (n : Nat) (c : ClassId) (v : Val), valOKu e Γ fac n c v = true → valOKj e Γ fac n c v = true := by
  intro n
  induction n with
  | zero => intro c v h; simp [valOKu] at h
  | succ n ih =>
    intro c v h
    have hitem : ∀ (var : XmlVar) (x : Val), itemOKu e (valOKu e Γ fac n) Γ var x = true →
        itemOKj e (valOKj e Γ fac n) Γ fac var x = true := by
      intro var x hx
      cases x with
      | obj k' fs' =>
        simp only [itemOKu] at hx
        simp only [itemOKj]
        cases hc : var.clazz with
        | none => simp [hc] at hx
        | some k =>
          simp only [hc, Bool.and_eq_true] at hx ⊢
          refine ⟨ih _ _ hx.1, ?_⟩
          have hmem := hx.2
          simp only [memPool, Bool.and_eq_true, Option.isSome_iff_exists] at hmem
          obtain ⟨⟨ci, hfind⟩, hk'⟩ := hmem
          obtain ⟨hci, hid⟩ := find_mem hfind
          have hsubs : (subclassesOf Γ k).isEmpty = true := by
            have := List.all_eq_true.mp huni ci hci
            rwa [hid] at this
          have hnil : subclassesOf Γ k = [] := List.isEmpty_iff.mp hsubs
          simp only [poolOKj, hsubs, if_true]
          simpa [hnil] using hk'
      | _ => exact hx
    have hwild : ∀ (x : Val), wildItemOKj (valOKu e Γ fac n) x = true → wildItemOKj (valOKj e Γ fac n) x = true := by
      intro x hx
      cases x with
      | any q t tl a cs => exact ih _ _ hx
      | _ => exact hx
    have hval : ∀ (var : XmlVar) (x : Val), valueOKu e (valOKu e Γ fac n) Γ fac var x = true →
        valueOKj e (valOKj e Γ fac n) Γ fac var x = true := by
      intro var x hx
      unfold valueOKu at hx
      unfold valueOKj
      by_cases ha : var.isAttributes = true
      · simpa [ha] using hx
      · have ha' : var.isAttributes = false := by simpa using ha
        simp only [ha', Bool.false_eq_true, if_false] at hx ⊢
        by_cases hw : var.isWildcard = true
        · simp only [hw, if_true, wildValueOKj] at hx ⊢
          by_cases hl : var.listElement = true
          · simp only [hl, if_true] at hx ⊢
            cases x with
            | list items =>
              simp only [List.all_eq_true] at hx ⊢
              exact fun y hy => hwild y (hx y hy)
            | _ => exact hx
          · have hl' : var.listElement = false := by simpa using hl
            simp only [hl', Bool.false_eq_true, if_false] at hx ⊢
            cases x with
            | list xs => exact hx
            | _ => exact hwild _ hx
        · have hw' : var.isWildcard = false := by simpa using hw
          simp only [hw', Bool.false_eq_true, if_false] at hx ⊢
          by_cases htk : var.tokens = true
          · simpa [htk] using hx
          have htk' : var.tokens = false := by simpa using htk
          simp only [htk', Bool.false_eq_true, if_false] at hx ⊢
          by_cases hel : var.isElements = true
          · simp only [hel, if_true, compValueOKj] at hx ⊢
            cases x with
            | list items =>
              simp only [List.all_eq_true] at hx ⊢
              intro y hy
              have := hx y hy
              cases y with
              | obj k' fs' =>
                simp only [compItemOKj, Bool.and_eq_true] at this ⊢
                exact ⟨ih _ _ this.1, this.2⟩
              | _ => exact this
            | _ => exact hx
          have hel' : var.isElements = false := by simpa using hel
          simp only [hel', Bool.false_eq_true, if_false, typedValueOKu, typedValueOKj] at hx ⊢
          by_cases hl : var.listElement = true
          · simp only [hl, if_true] at hx ⊢
            cases x with
            | list items =>
              simp only [List.all_eq_true] at hx ⊢
              exact fun y hy => hitem var y (hx y hy)
            | _ => exact hx
          · have hl' : var.listElement = false := by simpa using hl
            simp only [hl', Bool.false_eq_true, if_false] at hx ⊢
            cases x with
            | list xs => exact hx
            | _ => exact hitem var _ hx
    unfold valOKu at h
    unfold valOKj
    cases hobj : asObject v with
    | none => simp [hobj] at h
    | some cf =>
      obtain ⟨c', fs⟩ := cf
      simp only [hobj] at h ⊢
      cases hfind : Γ.find c with
      | none => simp [hfind] at h
      | some ci =>
        cases hmeta : metaOf Γ c with
        | error err => simp [hfind, hmeta] at h
        | ok m =>
          simp only [hfind, hmeta, Bool.and_eq_true, List.all_eq_true] at h ⊢
          obtain ⟨hhead, ⟨⟨⟨hcl, hnames⟩, hvars⟩, hfields⟩⟩ := h
          refine ⟨hhead, ⟨⟨⟨hcl, hnames⟩, ?_⟩, hfields⟩⟩
          intro var hvar
          have := hvars var hvar
          cases hget : kvGet fs var.name with
          | none => simp [hget] at this
          | some x =>
            simp only [hget, Bool.and_eq_true] at this ⊢
            exact ⟨hval var x this.1, this.2⟩

end Proofs.C04
