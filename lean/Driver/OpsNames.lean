import Driver.Proto
import XsdataModel.Codegen.CircularRefs
import XsdataModel.Py.TblEnv
import XsdataModel.Names.TblUEnv
import XsdataModel.Names.RenameClasses
open Lean Proto Py Xs.Codegen Xs.Codegen.Refs Xs.Text Xs.Filters Xs.Rename

namespace OpsNames

def resJson : Res → Json
  | .ok r => ok (jStr r)
  | .recursionError => err "RecursionError"
  | .indexError => err "IndexError"

def getCase (a : Json) (k : String) : Except String NameCase := do
  let s ← getStr a k
  match NameCase.ofStr s with
  | some c => pure c
  | none => .error s!"bad case {String.ofList s}"

def getStrs (a : Json) (k : String) : Except String (List Str) := do
  let xs ← getArr a k
  xs.mapM asStr

def getAttr (j : Json) : Except String Attr := do
  pure ⟨← getStr j "tag", ← getStr j "name", ← getOptStr j "ns"⟩

def optStrJson : Option Str → Json
  | some s => ok (jStr s)
  | none => err "NoTermination"

def run (op : String) (a : Json) : Option (Except String Json) :=
  let e := tblEnv
  let u := tblUEnv
  match op with
  | "names.split_words" => some do
      let s ← getStr a "s"
      pure <| ok (jList jStr (splitWords s))
  | "names.alnum" => some do
      let s ← getStr a "s"
      pure <| ok (jStr (alnum s))
  | "names.case" => some do
      let s ← getStr a "s"; let c ← getCase a "case"
      pure <| match applyCase u c s with
        | some r => ok (jStr r)
        | none => err "IndexError"
  | "names.kebab" => some do
      let s ← getStr a "s"
      pure <| ok (jStr (kebabCase s))
  | "names.safe_name" => some do
      let s ← getStr a "s"; let c ← getCase a "case"; let p ← getStr a "prefix"
      pure <| resJson (safeName e u ⟨c, p⟩ s)
  | "names.filter" => some do
      let s ← getStr a "s"; let kind ← getStr a "kind"
      match String.ofList kind with
      | "class" => pure <| resJson (className e u classConv s)
      | "field" => pure <| resJson (fieldName e u fieldConv s)
      | "constant" => pure <| resJson (constantName e u constantConv s)
      | "module" => pure <| resJson (moduleName e u moduleConv s)
      | "package" => pure <| resJson (packageName e u packageConv s)
      | k => .error s!"bad kind {k}"
  | "names.detect_circular" => some do
      -- DetectCircularReferences over a flattened class forest
      let es ← getArr a "edges"
      let edges ← es.mapM (fun j => do
        pure ({ tgt := ← getNat j "tgt", forward := ← getBool j "fwd", native := ← getBool j "nat",
                circular := ← getBool j "circ" } : TEdge))
      let nats := fun (j : Json) (k : String) => do
        let xs ← getArr j k
        xs.mapM (fun x => match x.getNat? with | .ok n => pure n | .error _ => .error "nat")
      let rts ← getArr a "ref_types"
      let rt ← rts.mapM (fun j => do pure (← getNat j "ref", ← nats j "ids"))
      let os ← getArr a "proc"
      let order ← os.mapM (fun j => do pure ({ ref := ← getNat j "ref", own := ← nats j "own" } : CClass))
      pure <| match detectCircular rt edges order with
        | some out => ok (jList (fun e : TEdge => jBool e.circular) out)
        | none => err "KeyError"
  | "names.is_circular" => some do
      let es ← getArr a "edges"
      let edges ← es.mapM (fun j => do
        pure ({ tgt := ← getNat j "tgt", forward := ← getBool j "fwd", native := ← getBool j "nat",
                circular := ← getBool j "circ" } : TEdge))
      let nats := fun (j : Json) (k : String) => do
        let xs ← getArr j k
        xs.mapM (fun x => match x.getNat? with | .ok n => pure n | .error _ => .error "nat")
      let rts ← getArr a "ref_types"
      let rt ← rts.mapM (fun j => do pure (← getNat j "ref", ← nats j "ids"))
      pure <| match isCircular edges rt (← getNat a "start") (← getNat a "stop") with
        | .ok b => ok (jBool b)
        | .keyError => err "KeyError"
        | .fuel => Proto.jObj [("fail", Json.str "model fuel exhausted")]
  | "names.resolve_conflict" => some do
      let ts ← (← getArr a "target").mapM getAttr
      let bs ← (← getArr a "base").mapM getAttr
      let r := resolveConflict ts bs (← getNat a "child")
      pure <| ok (jList (jList jStr) [r.1.map (·.name), r.2.map (·.name)])
  | "names.rename_inners" => some do
      let ns ← getStrs a "names"
      pure <| ok (jList jStr (renameInners ns []))
  | "names.ref_class_qname" => some do
      let src ← getStr a "source"; let n ← getStr a "name"; let inner ← getBool a "inner"
      let ins ← getStrs a "inner_names"
      pure <| optStrJson (refClassQName src n inner ins)
  | "names.filters_init" => some do
      let ps ← getStrs a "prefixes"
      pure <| if filtersInit ps then ok (jBool true) else err "CodegenError"
  | "names.clean_uri" => some do
      let s ← getStr a "s"
      pure <| ok (jStr (cleanUri s))
  | "names.is_identifier" => some do
      let s ← getStr a "s"
      pure <| ok (jBool (u.isIdentifier s))
  | "names.is_keyword" => some do
      let s ← getStr a "s"
      pure <| ok (jBool (Tables.kwlist.contains s))
  | "names.is_word" => some do
      let s ← getStr a "s"
      pure <| ok (jList jBool (s.map u.isWord))
  | "names.wrapper_fields" => some do
      -- CreateWrapperFields.process on one class: per attr the source attr it is swapped with (or null)
      let xs ← getArr a "attrs"
      let cands ← xs.mapM (fun j => do
        let att ← getAttr j
        let src ← match j.getObjVal? "src" with
          | .ok Json.null => pure none
          | .ok sj => pure (some (← getAttr sj))
          | .error _ => pure none
        pure (att, src))
      pure <| ok (jList jStr ((createWrapperFields (← getBool a "enabled") cands).map (·.name)))
  | "names.rename_attrs" => some do
      let xs ← getArr a "attrs"
      let attrs ← xs.mapM getAttr
      pure <| ok (jList jStr ((renameDuplicateAttrs attrs).map (·.name)))
  | "names.unique_name" => some do
      let n ← getStr a "name"; let r ← getStrs a "reserved"
      pure <| optStrJson (uniqueName n r)
  | "names.next_qname" => some do
      let n ← getStr a "name"; let ns ← getOptStr a "ns"; let r ← getStrs a "reserved"
      let un ← getBool a "use_names"
      pure <| optStrJson (nextQName un ns n r)
  | "names.next_available_name" => some do
      let n ← getStr a "name"; let r ← getStrs a "inner"
      pure <| optStrJson (nextAvailableName n r)
  | "names.e2e_fields" => some do
      -- what the whole pipeline must produce for one complexType / one enumeration:
      -- rename_duplicate_attributes, then field_name (constant_name for enumerations)
      let xs ← getArr a "attrs"
      let attrs ← xs.mapM getAttr
      let out := (renameDuplicateAttrs attrs).map (fun x =>
        if x.isEnumeration then constantName e u constantConv x.name else fieldName e u fieldConv x.name)
      pure <| ok (jList (fun r => match r with
        | .ok v => jStr v
        | .recursionError => Json.str "<RecursionError>"
        | .indexError => Json.str "<IndexError>") out)
  | "names.rename_classes" => some do
      let style ← getStr a "style"
      let xs ← getArr a "classes"
      let cs ← xs.mapM (fun j => do
        pure (⟨← getStr j "qname", ← getBool j "abstract", ← getBool j "element", ← getStr j "location"⟩ : Cls))
      pure <| ok (jList jStr (renameClasses style cs))
  | _ => none

end OpsNames
