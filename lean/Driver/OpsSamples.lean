import Driver.Proto
import XsdataModel.Py.TblEnv
import XsdataModel.Samples.Infer
import XsdataModel.Conv.TblCEnv
import XsdataModel.Samples.Mapper
import XsdataModel.Samples.Reduce
import XsdataModel.Samples.Fields
open Lean Proto Py Xs.Samples

namespace OpsSamples

def fld (j : Json) (k : String) : Json := j.getObjValD k

def dNat (j : Json) : Except String Nat :=
  match j.getNat? with
  | .ok n => .ok n
  | .error _ => .error s!"expected nat: {j.compress}"

def dBool (j : Json) : Except String Bool :=
  match j with
  | .bool b => .ok b
  | _ => .error s!"expected bool: {j.compress}"

def dOptStr (j : Json) : Except String (Option Str) :=
  match j with
  | .null => .ok none
  | .str s => .ok (some s.toList)
  | _ => .error s!"expected optional string: {j.compress}"

/-- `repr(float(s))` arrives as a map `freprs` for the strings of the request that `float()` accepts -/
def dEnv (a : Json) : Except String SEnv := do
  let freprs := fld a "freprs"
  pure { conv := Xs.Conv.tblCEnv fun s =>
    match freprs.getObjVal? (String.ofList s) with
    | .ok (.str r) => r.toList
    | _ => "?missing-float-repr".toList }

def dScalar (j : Json) : Except String Scalar :=
  match j with
  | .null => .ok .none
  | _ =>
    match j.getObjVal? "str", j.getObjVal? "int", j.getObjVal? "bool", j.getObjVal? "float" with
    | .ok s, _, _, _ => do pure (.str (← asStr s))
    | _, .ok i, _, _ => do pure (.int (← asInt i))
    | _, _, .ok b, _ => do pure (.bool (← dBool b))
    | _, _, _, .ok (.arr #[m, x]) => do pure (.float (← asInt m) (← asInt x))
    | _, _, _, _ => .error s!"bad scalar {j.compress}"

def dTag (j : Json) : Except String Tag :=
  match j with
  | .str s =>
    if s.toList = Tables.smpTagElement then .ok .element
    else if s.toList = Tables.smpTagAttribute then .ok .attribute
    else if s.toList = Tables.smpTagSimpleType then .ok .simpleType
    else .error s!"bad tag {s}"
  | _ => .error "bad tag"

def dType (j : Json) : Except String AType :=
  match j with
  | .arr #[q, n, f] => do pure { qname := ← asStr q, native := ← dBool n, forward := ← dBool f }
  | _ => .error "bad type"

def dAttr (j : Json) : Except String Attr := do
  let sq ← match fld j "seq" with
    | .null => pure none
    | x => (dNat x).map some
  pure { tag := ← dTag (fld j "tag"), name := ← asStr (fld j "name"), ns := ← dOptStr (fld j "ns"),
         index := ← dNat (fld j "index"), types := ← (← asArr (fld j "types")).mapM dType,
         min := ← dNat (fld j "min"), max := ← dNat (fld j "max"), seq := sq }

def dCls (j : Json) : Except String Cls := do
  pure { qname := ← asStr (fld j "qname"), ns := ← dOptStr (fld j "ns"), nillable := ← dBool (fld j "nillable"),
         mixed := ← dBool (fld j "mixed"), attrs := ← (← asArr (fld j "attrs")).mapM dAttr }

def jType (t : AType) : Json := Json.arr #[jStr t.qname, jBool t.native, jBool t.forward]

def jAttr (a : Attr) : Json :=
  jObj [("tag", jStr a.tag.str), ("name", jStr a.name), ("ns", jOpt jStr a.ns), ("index", jNat a.index),
        ("types", jList jType a.types), ("min", jNat a.min), ("max", jNat a.max), ("seq", jOpt jNat a.seq)]

def jCls (c : Cls) : Json :=
  jObj [("qname", jStr c.qname), ("ns", jOpt jStr c.ns), ("nillable", jBool c.nillable),
        ("mixed", jBool c.mixed), ("attrs", jList jAttr c.attrs)]

partial def dEl (j : Json) : Except String El := do
  let kvs ← (← asArr (fld j "a")).mapM fun r =>
    match r with
    | .arr #[k, v] => do pure ((← asStr k), (← asStr v))
    | _ => .error "bad attribute pair"
  let kids ← (← asArr (fld j "c")).mapM dEl
  pure (.mk (← asStr (fld j "q")) (← dOptStr (fld j "t")) (← dOptStr (fld j "l")) kvs kids)

partial def dJVal (j : Json) : Except String JVal :=
  match j.getObjVal? "s", j.getObjVal? "l", j.getObjVal? "d" with
  | .ok s, _, _ => do pure (.scalar (← dScalar s))
  | _, .ok (.arr xs), _ => do pure (.list (← xs.toList.mapM dJVal))
  | _, _, .ok (.arr kvs) => do
      let kvs ← kvs.toList.mapM fun r =>
        match r with
        | .arr #[k, v] => do pure ((← asStr k), (← dJVal v))
        | _ => .error "bad dict pair"
      pure (.dict kvs)
  | _, _, _ => .error s!"bad json value {j.compress}"

def dLists (j : Json) : Except String (List (List Nat)) := do
  (← asArr j).mapM fun l => do (← asArr l).mapM dNat

def optClasses : Option (List Cls) → Json
  | some cs => ok (jList jCls cs)
  | none => err "IndexError"

def jIdx : Option Nat → Json
  | some i => jInt i
  | none => jInt (-1)

def dictOf (v : JVal) : Except String (List (Str × JVal)) :=
  match v with
  | .dict kvs => .ok kvs
  | _ => .error "expected a dict"

def run (op : String) (a : Json) : Option (Except String Json) :=
  match op with
  | "smp.test_strict" => some do
      let e ← dEnv a
      match PyT.ofName (← asStr (fld a "t")) with
      | some t => pure <| ok (jBool (testStrict e t (← asStr (fld a "s"))))
      | none => .error "unknown type name"
  | "smp.infer" => some do
      let e ← dEnv a
      pure <| ok (jStr (buildAttrType e (← asStr (fld a "qname")) (← dScalar (fld a "value"))))
  | "smp.components" => some do
      pure <| ok (jList (jList jNat) (connectedComponents (← dLists (fld a "lists"))))
  | "smp.order_respected" => some do
      let lists ← (← asArr (fld a "lists")).mapM fun l => do (← asArr l).mapM asStr
      let classes : List (List Attr) := lists.map fun l => l.map fun n =>
        { tag := .element, name := n, ns := none, index := 0, types := [], min := 1, max := 1 }
      let r := orderRespected classes
      pure <| ok (jObj [("real", jBool r), ("replica", jBool r)])
  | "smp.find_component" => some do
      pure <| ok (jIdx (findComponent (← dLists (fld a "groups")) (← dNat (fld a "value"))))
  | "smp.groups" => some do
      let names ← (← asArr (fld a "names")).mapM asStr
      let groups := sequentialGroups names
      pure <| ok (jObj [("repeating", jList (jList jNat) (groupRepeating names)),
                        ("groups", jList (jList jNat) groups),
                        ("seq", jList jNat ((List.range names.length).map (seqNumber groups)))])
  | "smp.map_xml" => some do
      let e ← dEnv a
      pure <| ok (jList jCls (mapElement e (← dEl (fld a "root"))))
  | "smp.map_json" => some do
      let e ← dEnv a
      pure <| optClasses (mapDict e (← dictOf (← dJVal (fld a "data"))) (← asStr (fld a "name")))
  | "smp.reduce" => some do
      pure <| optClasses (reduceClasses (← (← asArr (fld a "classes")).mapM dCls))
  | "smp.xml_docs" => some do
      let e ← dEnv a
      let docs ← (← asArr (fld a "docs")).mapM dEl
      pure <| optClasses (reduceClasses (docs.flatMap (mapElement e)))
  | "smp.json_docs" => some do
      let e ← dEnv a
      let name ← asStr (fld a "name")
      let docs ← (← asArr (fld a "docs")).mapM dJVal
      match docs.mapM (fun d => mapJsonDoc e d name) with
      | .ok css => pure <| optClasses (reduceClasses css.flatten)
      | .error k => pure <| err k
  | "smp.fields" => some do
      let e ← dEnv a
      let docs ← (← asArr (fld a "trees")).mapM dEl
      let jField (f : Field) : Json :=
        jObj [("tag", jStr f.tag.str), ("name", jStr f.name), ("list", jBool f.isList), ("default", jBool f.hasDefault),
              ("nillable", jBool f.nillable), ("min", jOpt jNat f.minOccurs),
              ("max", jOpt jNat f.maxOccurs), ("seq", jOpt jNat f.sequence)]
      pure <| match reduceClasses (docs.flatMap (mapElement e)) with
        | some cs => ok (jList (fun (c : Cls) =>
            jObj [("qname", jStr c.qname), ("fields", jOpt (jList jField) (classFields cs c))]) cs)
        | none => err "IndexError"
  | "smp.e2e_xml" => some do
      let e ← dEnv a
      let docs ← (← asArr (fld a "trees")).mapM dEl
      pure <| match allAdmitted (docs.flatMap (mapElement e)) with
        | some true => ok (Json.str "accepted")
        | some false => ok (Json.str "model-rejects")
        | none => err "IndexError"
  | "smp.e2e_json" => some do
      let e ← dEnv a
      let name ← asStr (fld a "name")
      let docs ← (← asArr (fld a "enc")).mapM dJVal
      match docs.mapM (fun d => mapJsonDoc e d name) with
      | .ok css => pure <| match allAdmitted css.flatten with
        | some true => ok (Json.str "accepted")
        | some false => ok (Json.str "model-rejects")
        | none => err "IndexError"
      | .error k => pure <| err k
  | _ => none

end OpsSamples
