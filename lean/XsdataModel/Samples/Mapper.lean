/-
C13 — raw documents → codegen classes.

* `RawDocumentMapper.select_namespace / build_attr / add_attribute`
  (xsdata/codegen/mappers/mixins.py);
* `collections.connected_components / find_connected_component`
  (xsdata/utils/collections.py), modelled by input/output behaviour: the code walks a
  neighbour graph breadth first, the model absorbs one list at a time into a partition
  (`absorb`); components come out sorted, ordered by the first appearance of a member;
* `ElementMapper.build_class / build_attributes / build_elements / build_text /
  group_repeating_attrs / sequential_groups / map` with `ClassUtils.flatten`
  (xsdata/codegen/mappers/element.py, xsdata/codegen/utils.py);
* what `TreeParser` (WildcardNode.bind) does to text and tail on the way in;
* `DictMapper.build_class / build_class_attribute / map` (xsdata/codegen/mappers/dict.py).
-/
import XsdataModel.Samples.Infer
import XsdataModel.Bind.Basic

namespace Xs.Samples
open Py

/-- `sys.maxsize`: how the code spells `unbounded` -/
def maxsize : Nat := Tables.sysMaxsize

inductive Tag | element | attribute | simpleType
deriving DecidableEq, Repr

def Tag.str : Tag → Str
  | .element => Tables.smpTagElement
  | .attribute => Tables.smpTagAttribute
  | .simpleType => Tables.smpTagSimpleType

/-- `AttrType` (the compared fields that vary here) -/
structure AType where
  qname : Str
  native : Bool
  forward : Bool := false
deriving DecidableEq, Repr

/-- `Attr` with the slice of `Restrictions` the mappers write: occurrences and the
single path entry `("s", seq, 1, sys.maxsize)` -/
structure Attr where
  tag : Tag
  name : Str
  ns : Option Str
  index : Nat
  types : List AType
  min : Nat
  max : Nat
  seq : Option Nat := none
deriving DecidableEq, Repr

/-- `Attr.__eq__`: tag, local name, namespace (everything else is `compare=False`
or constant in raw-document mapping) -/
def Attr.same (a b : Attr) : Bool := a.tag = b.tag && a.name = b.name && a.ns = b.ns

/-- `collections.find(attrs, attr)`; `none` = -1 -/
def findAttr (xs : List Attr) (a : Attr) : Option Nat := xs.findIdx? (fun x => x.same a)

/-- `collections.unique_sequence(types, key="qname")` -/
def uniqueByQName : List AType → List AType
  | [] => []
  | t :: ts => t :: (uniqueByQName ts).filter (fun u => u.qname ≠ t.qname)

/-- `select_namespace` -/
def selectNamespace (ns parent : Option Str) (tag : Tag) : Option Str :=
  if tag = .attribute then ns
  else if ns.isNone && parent.isSome then some [] else ns

/-- `add_attribute`: `collections.find` walks to the first equal attr, which gets
`max_occurs = sys.maxsize` and the new types; without one the attr is appended -/
def addAttribute : List Attr → Attr → List Attr
  | [], a => [a]
  | ex :: rest, a =>
    if ex.same a then { ex with max := maxsize, types := uniqueByQName (ex.types ++ a.types) } :: rest
    else ex :: addAttribute rest a

/-- `build_attr`; `valueNone` = the `value is None` test (JSON only) -/
def buildAttr (attrs : List Attr) (qname : Str) (ty : AType) (parentNs : Option Str) (tag : Tag)
    (sequence : Nat) (valueNone : Bool) : List Attr :=
  let (ns, name) := Xs.Bind.splitQName qname
  let ns := selectNamespace ns parentNs tag
  addAttribute attrs
    { tag, name, ns, index := attrs.length, types := [ty],
      min := if valueNone then 0 else 1, max := 1,
      seq := if sequence = 0 then none else some sequence }

/-! ### connected components -/

def insertSorted (n : Nat) : List Nat → List Nat
  | [] => [n]
  | m :: ms => if n ≤ m then n :: m :: ms else m :: insertSorted n ms

/-- `sorted(xs)` -/
def sortNat (xs : List Nat) : List Nat := xs.foldr insertSorted []

/-- one list joins the partition: the parts it touches fuse with it -/
def absorb (parts : List (List Nat)) (l : List Nat) : List (List Nat) :=
  if l.isEmpty then parts else
  let hit := parts.filter (fun p => p.any (fun x => l.contains x))
  let miss := parts.filter (fun p => !p.any (fun x => l.contains x))
  miss ++ [(hit.flatten ++ l).eraseDups]

/-- the partition induced by the lists, parts in no particular order -/
def parts (lists : List (List Nat)) : List (List Nat) := lists.foldl absorb []

/-- `list(connected_components(lists))` -/
def connectedComponents (lists : List (List Nat)) : List (List Nat) :=
  let ps := parts lists
  lists.flatten.foldl (fun acc n =>
    if acc.any (fun c => c.contains n) then acc
    else match ps.find? (fun p => p.contains n) with
      | some p => acc ++ [sortNat p]
      | none => acc) []

/-- `find_connected_component(groups, value)`; `none` = -1 -/
def findComponent (groups : List (List Nat)) (v : Nat) : Option Nat :=
  groups.findIdx? (fun g => g.contains v)

/-- sequence number handed to `build_attr`: component index + 1, 0 when in no component -/
def seqNumber (groups : List (List Nat)) (v : Nat) : Nat :=
  match findComponent groups v with
  | some i => i + 1
  | none => 0

/-- positions of every distinct name, names in order of first appearance
(`counters` in `group_repeating_attrs`) -/
def counters (names : List Str) : List (Str × List Nat) :=
  (List.range names.length).foldl (fun acc i =>
    match names[i]? with
    | none => acc
    | some n =>
      if acc.any (fun kv => kv.1 = n) then acc.map (fun kv => if kv.1 = n then (kv.1, kv.2 ++ [i]) else kv)
      else acc ++ [(n, [i])]) []

/-- `group_repeating_attrs` on the child names -/
def groupRepeating (names : List Str) : List (List Nat) :=
  let cs := counters names
  if cs.length > 1 then
    cs.filterMap fun kv =>
      if kv.2.length > 1 then
        match kv.2.head?, kv.2.getLast? with
        | some a, some b => some ((List.range (b + 1)).drop a)
        | _, _ => none
      else none
  else []

/-- `sequential_groups` -/
def sequentialGroups (names : List Str) : List (List Nat) := connectedComponents (groupRepeating names)

/-! ### XML: generic element tree → classes -/

/-- an element as the XML parser events deliver it (text and tail verbatim) -/
inductive El
  | mk (qname : Str) (text tail : Option Str) (attrs : List (Str × Str)) (children : List El)
deriving Repr

def El.qname : El → Str | .mk q _ _ _ _ => q
def El.text : El → Option Str | .mk _ t _ _ _ => t
def El.tail : El → Option Str | .mk _ _ t _ _ => t
def El.attrs : El → List (Str × Str) | .mk _ _ _ a _ => a
def El.children : El → List El | .mk _ _ _ _ c => c

/-- `ParserUtils.normalize_content` -/
def normalizeContent (e : Env) (v : Option Str) : Option Str :=
  match v with
  | some s => if s.isEmpty || (e.strip s).isEmpty then none else some s
  | none => none

/-- text of the `AnyElement` the `TreeParser` builds: normalised only when there are
children, then `""` instead of `None` (the wildcard var is not nillable) -/
def anyText (e : Env) (el : El) : Str :=
  let t := if el.children.isEmpty then el.text else normalizeContent e el.text
  t.getD []

/-- a flat codegen `Class` (inner classes are flattened away by `ElementMapper.map`) -/
structure Cls where
  qname : Str
  ns : Option Str
  nillable : Bool
  mixed : Bool
  attrs : List Attr
deriving DecidableEq, Repr

/-- `build_attributes` -/
def buildAttributes (e : SEnv) (ns : Option Str) (kvs : List (Str × Str)) : Bool × List Attr :=
  kvs.foldl (fun (st : Bool × List Attr) kv =>
    if kv.1 = Tables.qnXsiNil then
      let v := e.py.strip kv.2
      (v = "true".toList || v = ['1'], st.2)
    else
      let ty : AType := { qname := buildAttrType e kv.1 (.str kv.2), native := true }
      (st.1, buildAttr st.2 kv.1 ty ns .attribute 0 false)) (false, [])

/-- class qname and namespace of an element under `parentNs` -/
def classIdent (qname : Str) (parentNs : Option Str) : Str × Option Str :=
  let (ns0, name) := Xs.Bind.splitQName qname
  let ns := selectNamespace ns0 parentNs .element
  ((Xs.Bind.buildQName ns (some name)).getD [], ns)

mutual
/-- `build_class` followed by `ClassUtils.flatten`: the flattened inner classes
(deepest last-built first, as `flatten` pops from the end) and the class itself last -/
def buildClass (e : SEnv) (el : El) (parentNs : Option Str) : List Cls :=
  match el with
  | .mk qname text tail attrs children =>
    let (cq, ns) := classIdent qname parentNs
    let (nillable, as0) := buildAttributes e ns attrs
    let names := children.map El.qname
    let groups := sequentialGroups names
    let (as1, mixed1, inner) := buildElements e ns groups children 0 as0 false []
    let txt := anyText e.py (.mk qname text tail attrs children)
    let (as2, mixed2) :=
      if txt.isEmpty then (as1, mixed1)
      else
        let ty : AType := { qname := buildAttrType e "value".toList (.str txt), native := true }
        let as2 := buildAttr as1 "value".toList ty none .simpleType 0 false
        (as2, mixed1 || as2.any (fun a => a.tag = .element))
    let flat (a : Attr) : Attr :=
      { a with types := (uniqueByQName a.types).map fun t => { t with forward := false } }
    inner ++ [{ qname := cq, ns, nillable, mixed := mixed2, attrs := as2.map flat }]
/-- `build_elements`: attrs so far, mixed flag, flattened inner classes so far -/
def buildElements (e : SEnv) (ns : Option Str) (groups : List (List Nat)) :
    List El → Nat → List Attr → Bool → List Cls → List Attr × Bool × List Cls
  | [], _, attrs, mixed, inner => (attrs, mixed, inner)
  | child :: rest, index, attrs, mixed, inner =>
    match child with
    | .mk cq ctext ctail cattrs cchildren =>
      -- `AnyElement.qname` is never empty for a parsed element
      let mixed := mixed || (normalizeContent e.py ctail).isSome
      let sq := seqNumber groups index
      if !cattrs.isEmpty || !cchildren.isEmpty then
        let sub := buildClass e (.mk cq ctext ctail cattrs cchildren) ns
        let ty : AType := { qname := (classIdent cq ns).1, native := false, forward := true }
        buildElements e ns groups rest (index + 1) (buildAttr attrs cq ty ns .element sq false) mixed (sub ++ inner)
      else
        let txt := anyText e.py (.mk cq ctext ctail cattrs cchildren)
        let ty : AType := { qname := buildAttrType e cq (.str txt), native := true }
        buildElements e ns groups rest (index + 1) (buildAttr attrs cq ty ns .element sq false) mixed inner
end

/-- `ElementMapper.map(element, location)` -/
def mapElement (e : SEnv) (root : El) : List Cls :=
  buildClass e root (Xs.Bind.splitQName root.qname).1

/-! ### JSON: dictionaries → classes -/

inductive JVal
  | scalar (s : Scalar)
  | list (xs : List JVal)
  | dict (kvs : List (Str × JVal))
deriving Repr

/-- set `max_occurs = sys.maxsize` on `target.attrs[-1]`; `none` = IndexError -/
def setLastMax (attrs : List Attr) : Option (List Attr) :=
  match attrs.getLast? with
  | some l => some (attrs.dropLast ++ [{ l with max := maxsize }])
  | none => none

mutual
/-- `DictMapper.build_class` + flatten -/
def dictClass (e : SEnv) (kvs : List (Str × JVal)) (name : Str) : Option (List Cls) :=
  match dictAttrs e kvs [] [] with
  | some (attrs, inner) =>
    let flat (a : Attr) : Attr :=
      { a with types := (uniqueByQName a.types).map fun t => { t with forward := false } }
    some (inner ++ [{ qname := name, ns := none, nillable := false, mixed := false, attrs := attrs.map flat }])
  | none => none
def dictAttrs (e : SEnv) : List (Str × JVal) → List Attr → List Cls → Option (List Attr × List Cls)
  | [], attrs, inner => some (attrs, inner)
  | (k, v) :: rest, attrs, inner =>
    match classAttribute e k v attrs inner with
    | some (attrs, inner) => dictAttrs e rest attrs inner
    | none => none
/-- `build_class_attribute(target, name, value)` -/
def classAttribute (e : SEnv) (name : Str) : JVal → List Attr → List Cls → Option (List Attr × List Cls)
  | .scalar s, attrs, inner =>
    let ty : AType := { qname := buildAttrType e name s, native := true }
    some (buildAttr attrs name ty none .element 0 (s = .none), inner)
  | .dict kvs, attrs, inner =>
    match dictClass e kvs name with
    | some sub =>
      let ty : AType := { qname := name, native := false, forward := true }
      some (buildAttr attrs name ty none .element 0 false, sub ++ inner)
    | none => none
  | .list xs, attrs, inner =>
    if xs.isEmpty then
      let ty : AType := { qname := buildAttrType e name .none, native := true }
      match setLastMax (buildAttr attrs name ty none .element 0 true) with
      | some attrs => some (attrs, inner)
      | none => none
    else listAttribute e name xs attrs inner
def listAttribute (e : SEnv) (name : Str) : List JVal → List Attr → List Cls → Option (List Attr × List Cls)
  | [], attrs, inner => some (attrs, inner)
  | x :: xs, attrs, inner =>
    match classAttribute e name x attrs inner with
    | some (attrs, inner) =>
      match setLastMax attrs with
      | some attrs => listAttribute e name xs attrs inner
      | none => none
    | none => none
end

/-- `DictMapper.map(data, name, location)` -/
def mapDict (e : SEnv) (kvs : List (Str × JVal)) (name : Str) : Option (List Cls) := dictClass e kvs name

/-- `DictMapper.map(obj, name, dirname)` for one item of a document; an item that is no object has
no `.items()` -/
def mapJsonItem (e : SEnv) (name : Str) (x : JVal) : Except String (List Cls) :=
  match x with
  | .dict kvs => match mapDict e kvs name with
    | some cs => .ok cs
    | none => .error "IndexError"
  | _ => .error "AttributeError"

def JVal.isDict : JVal → Bool
  | .dict _ => true
  | _ => false

/-- `ResourceTransformer.process_json_documents` for one loaded document: an object is mapped, an
array of objects is mapped item by item (`if isinstance(data, dict): data = [data]`, `for obj in
data`); anything else — a number, a string, null, an array with an item that is no object — is
refused up front with `CodegenError`. -/
def mapJsonDoc (e : SEnv) (doc : JVal) (name : Str) : Except String (List Cls) :=
  match doc with
  | .dict kvs => mapJsonItem e name (.dict kvs)
  | .list xs =>
    if xs.all JVal.isDict then
      match xs.mapM (mapJsonItem e name) with
      | .ok css => .ok css.flatten
      | .error k => .error k
    else .error "CodegenError"
  | .scalar _ => .error "CodegenError"

end Xs.Samples
