/- Semantic correctness of the modelled `strongly_connected_components`
(path-based / Gabow algorithm): the yielded components are exactly the classes
of mutual reachability — for every iteration order. -/
import XsdataModel.Proofs.SccStruct

set_option linter.unusedSimpArgs false
set_option linter.unusedVariables false

namespace Xs.Codegen
open Py List

/-! ### reachability -/

def Edge (g : Graph) (x y : Str) : Prop := ∃ ws, dget g x = some ws ∧ y ∈ ws

inductive Reach (g : Graph) : Str → Str → Prop
  | refl (x : Str) : Reach g x x
  | tail {x y z : Str} : Reach g x y → Edge g y z → Reach g x z

theorem Reach.trans {g : Graph} {x y z : Str} (h1 : Reach g x y) (h2 : Reach g y z) : Reach g x z := by
  induction h2 with
  | refl => exact h1
  | tail _ e ih => exact Reach.tail ih e

theorem Reach.single {g : Graph} {x y : Str} (e : Edge g x y) : Reach g x y :=
  Reach.tail (Reach.refl x) e

/-- a set closed under edges is closed under reachability -/
theorem Reach.closed {g : Graph} {P : Str → Prop} (hP : ∀ x y, P x → Edge g x y → P y)
    {x y : Str} (h : Reach g x y) (hx : P x) : P y := by
  induction h with
  | refl => exact hx
  | tail _ e ih => exact hP _ _ ih e

/-! ### positions on the stack -/

theorem pos_unique {S : List Str} (hn : S.Nodup) {i j : Nat} {x : Str}
    (hi : S[i]? = some x) (hj : S[j]? = some x) : i = j := by
  have hlt : i < S.length := by
    rcases List.getElem?_eq_some_iff.1 hi with ⟨h, _⟩; exact h
  exact (List.getElem?_inj hlt hn).1 (hi.trans hj.symm)

theorem getElem?_lt {S : List Str} {i : Nat} {x : Str} (h : S[i]? = some x) : i < S.length := by
  rcases List.getElem?_eq_some_iff.1 h with ⟨h, _⟩; exact h

theorem getElem?_exists {S : List Str} {i : Nat} (h : i < S.length) : ∃ x, S[i]? = some x :=
  ⟨S[i], List.getElem?_eq_some_iff.2 ⟨h, rfl⟩⟩

/-! ### the semantic invariant -/

/-- every successor of `x` is identified, or sits on the stack in `x`'s segment or a later one -/
def Good (g : Graph) (st : Scc) (x : Str) : Prop :=
  ∀ y, Edge g x y → y ∈ st.identified ∨
    ∃ ix j, st.stack[ix]? = some x ∧ st.stack[j]? = some y ∧
      ∀ b ∈ st.boundaries, b ≤ ix → b ≤ j

/-- `A` = the vertices whose `dfs` call is still running (outermost first) -/
structure Sem (g : Graph) (st : Scc) (A : List Str) : Prop where
  chain : ∀ i x y, st.stack[i]? = some x → st.stack[i + 1]? = some y → Reach g x y
  seg : ∀ i x y, st.stack[i]? = some x → st.stack[i + 1]? = some y →
    (i + 1) ∉ st.boundaries → Reach g y x
  iclosed : ∀ x, x ∈ st.identified → ∀ y, Edge g x y → y ∈ st.identified
  outSC : ∀ c ∈ st.out, ∀ x ∈ c, ∀ y, (y ∈ c ↔ (Reach g x y ∧ Reach g y x))
  fin : ∀ x, x ∈ st.stack → x ∉ A → Good g st x

/-- forward along the stack -/
theorem Sem.chainLe {g : Graph} {st : Scc} {A : List Str} (h : Sem g st A) :
    ∀ (d p : Nat) (x y : Str), st.stack[p]? = some x → st.stack[p + d]? = some y → Reach g x y
  | 0, p, x, y, hx, hy => by
    simp only [Nat.add_zero] at hy
    rw [hx] at hy; cases hy; exact Reach.refl _
  | d + 1, p, x, y, hx, hy => by
    have hlt : p + d < st.stack.length := by have := getElem?_lt hy; omega
    obtain ⟨z, hz⟩ := getElem?_exists hlt
    exact (h.chainLe d p x z hx hz).trans (h.chain (p + d) z y hz hy)

/-- backwards inside a segment -/
theorem Sem.backLe {g : Graph} {st : Scc} {A : List Str} (h : Sem g st A) :
    ∀ (d p : Nat) (x y : Str), st.stack[p]? = some x → st.stack[p + d]? = some y →
      (∀ b ∈ st.boundaries, p < b → p + d < b) → Reach g y x
  | 0, p, x, y, hx, hy, _ => by
    simp only [Nat.add_zero] at hy
    rw [hx] at hy; cases hy; exact Reach.refl _
  | d + 1, p, x, y, hx, hy, hb => by
    have hlt : p + d < st.stack.length := by have := getElem?_lt hy; omega
    obtain ⟨z, hz⟩ := getElem?_exists hlt
    have hnb : (p + d + 1) ∉ st.boundaries := by
      intro hm
      have := hb (p + d + 1) hm (by omega)
      omega
    have h1 : Reach g y z := h.seg (p + d) z y hz hy hnb
    have h2 : Reach g z x := h.backLe d p x z hx hz (fun b hbm hpb => by have := hb b hbm hpb; omega)
    exact h1.trans h2

/-! ### `Good` survives the three state changes -/

theorem Good.push {g : Graph} {st : Scc} {x v : Str} (hx : x ∈ st.stack) (h : Good g st x) :
    Good g (sccPush v st) x := by
  intro y e
  rcases h y e with h1 | ⟨ix, j, h1, h2, h3⟩
  · exact Or.inl h1
  · right
    have hix := getElem?_lt h1
    have hj := getElem?_lt h2
    refine ⟨ix, j, ?_, ?_, ?_⟩
    · show (st.stack ++ [v])[ix]? = some x
      rw [List.getElem?_append_left hix]; exact h1
    · show (st.stack ++ [v])[j]? = some y
      rw [List.getElem?_append_left hj]; exact h2
    · intro b hb hle
      have hb' : b ∈ st.stack.length :: st.boundaries := hb
      rcases List.mem_cons.1 hb' with rfl | hb'
      · omega
      · exact h3 b hb' hle

/-- whatever happens during a nested `dfs` call (`Ext`) -/
theorem Good.ext {g : Graph} {st st' : Scc} (he : Ext st st') {x : Str} (h : Good g st x) :
    Good g st' x := by
  obtain ⟨R, hR⟩ := he.stack
  obtain ⟨k, hB⟩ := he.bsuffix
  intro y e
  rcases h y e with h1 | ⟨ix, j, h1, h2, h3⟩
  · exact Or.inl (he.ident y h1)
  · right
    refine ⟨ix, j, ?_, ?_, ?_⟩
    · rw [hR, List.getElem?_append_left (getElem?_lt h1)]; exact h1
    · rw [hR, List.getElem?_append_left (getElem?_lt h2)]; exact h2
    · intro b hb hle
      rw [hB] at hb
      exact h3 b (List.mem_of_mem_drop hb) hle

theorem Good.lower {g : Graph} {st : Scc} (k : Nat) {x : Str} (h : Good g st x) :
    Good g { st with boundaries := st.boundaries.drop k } x := by
  intro y e
  rcases h y e with h1 | ⟨ix, j, h1, h2, h3⟩
  · exact Or.inl h1
  · exact Or.inr ⟨ix, j, h1, h2, fun b hb hle => h3 b (List.mem_of_mem_drop hb) hle⟩

/-! ### push -/

/-- the caller `u` of `dfs(v)` sits in the top segment and has the edge `u → v` -/
def CallOk (g : Graph) (st : Scc) (v : Str) : Prop :=
  st.stack = [] ∨ ∃ u iu, st.stack[iu]? = some u ∧ Edge g u v ∧ ∀ b ∈ st.boundaries, b ≤ iu

theorem Sem.push {g : Graph} {st : Scc} {A : List Str} {v : Str} (h : Sem g st A)
    (hcall : CallOk g st v) : Sem g (sccPush v st) (A ++ [v]) := by
  have hstack : (sccPush v st).stack = st.stack ++ [v] := rfl
  have hbound : (sccPush v st).boundaries = st.stack.length :: st.boundaries := rfl
  refine ⟨?_, ?_, h.iclosed, h.outSC, ?_⟩
  · intro i x y hx hy
    rw [hstack] at hx hy
    have hi1 : i + 1 < (st.stack ++ [v]).length := getElem?_lt hy
    rw [List.length_append, List.length_singleton] at hi1
    have hi : i < st.stack.length := by omega
    rw [List.getElem?_append_left hi] at hx
    by_cases hlast : i + 1 < st.stack.length
    · rw [List.getElem?_append_left hlast] at hy
      exact h.chain i x y hx hy
    · have hi' : i + 1 = st.stack.length := by omega
      rw [List.getElem?_append_right (by omega), hi'] at hy
      simp only [Nat.sub_self, List.getElem?_cons_zero, Option.some.injEq] at hy
      subst hy
      rcases hcall with hnil | ⟨u, iu, hu, e, hb⟩
      · rw [hnil] at hi; simp at hi
      · have hiu := getElem?_lt hu
        have hle : iu ≤ i := by
          -- `iu` is a position of the stack, `i` is the last one
          omega
        have hx' : st.stack[iu + (i - iu)]? = some x := by
          rw [Nat.add_sub_cancel' hle]; exact hx
        have hback : Reach g x u := h.backLe (i - iu) iu u x hu hx'
          (fun b hbm hlt => by have := hb b hbm; omega)
        exact hback.trans (Reach.single e)
  · intro i x y hx hy hnb
    rw [hstack] at hx hy
    rw [hbound] at hnb
    have hne : i + 1 ≠ st.stack.length := fun e => hnb (e ▸ List.mem_cons_self)
    have hnb' : (i + 1) ∉ st.boundaries := fun hm => hnb (List.mem_cons_of_mem _ hm)
    have hi1 : i + 1 < (st.stack ++ [v]).length := getElem?_lt hy
    rw [List.length_append, List.length_singleton] at hi1
    have hlast : i + 1 < st.stack.length := by omega
    rw [List.getElem?_append_left (by omega)] at hx
    rw [List.getElem?_append_left hlast] at hy
    exact h.seg i x y hx hy hnb'
  · intro x hx hxA
    rw [hstack, List.mem_append, List.mem_singleton] at hx
    rw [List.mem_append, List.mem_singleton, not_or] at hxA
    rcases hx with hx | hx
    · exact Good.push hx (h.fin x hx hxA.1)
    · exact absurd hx hxA.2

/-! ### back edge -/

theorem popWhile_popped (iw : Nat) : ∀ (B B' : List Nat), popWhile iw B = some B' →
    ∀ b ∈ B, b ∉ B' → iw < b
  | [], B', h, b, hb, _ => by cases hb
  | x :: xs, B', h, b, hb, hnb => by
    simp only [popWhile] at h
    by_cases hlt : iw < x
    · simp only [hlt, if_true] at h
      rcases List.mem_cons.1 hb with rfl | hb'
      · exact hlt
      · exact popWhile_popped iw xs B' h b hb' hnb
    · simp only [hlt, if_false, Option.some.injEq] at h
      subst h
      exact absurd hb hnb

theorem Sem.merge {g : Graph} {cur : Scc} {A : List Str} {v w : Str} {i iw k : Nat}
    (h : Sem g cur A) (hv : cur.stack[i]? = some v) (hw : cur.stack[iw]? = some w)
    (e : Edge g v w) (hle : ∀ b ∈ cur.boundaries, b ≤ i)
    (hp : popWhile iw cur.boundaries = some (cur.boundaries.drop k)) :
    Sem g { cur with boundaries := cur.boundaries.drop k } A := by
  refine ⟨h.chain, ?_, h.iclosed, h.outSC, fun x hx hxA => Good.lower k (h.fin x hx hxA)⟩
  intro p x y hx hy hnb
  by_cases hold : (p + 1) ∈ cur.boundaries
  · have hpop : iw < p + 1 := popWhile_popped iw _ _ hp (p + 1) hold hnb
    have hpi : p + 1 ≤ i := hle (p + 1) hold
    -- y = S[p+1] reaches v (forward), v → w, w reaches x = S[p] (forward)
    have h1 : Reach g y v := by
      have hv' : cur.stack[p + 1 + (i - (p + 1))]? = some v := by
        rw [Nat.add_sub_cancel' hpi]; exact hv
      exact h.chainLe (i - (p + 1)) (p + 1) y v hy hv'
    have h2 : Reach g w x := by
      have hx' : cur.stack[iw + (p - iw)]? = some x := by
        rw [Nat.add_sub_cancel' (by omega)]; exact hx
      exact h.chainLe (p - iw) iw w x hw hx'
    exact (h1.trans (Reach.single e)).trans h2
  · exact h.seg p x y hx hy hold

/-! ### closing the top segment -/

theorem Good.close {g : Graph} {st : Scc} (hw : WF g st) {S0 R : List Str} {v : Str} {B0 : List Nat}
    (hs : st.stack = S0 ++ v :: R) (hb : st.boundaries = S0.length :: B0) (hB0 : BOk S0 B0)
    {x : Str} (hx : x ∈ S0) (h : Good g st x) : Good g (sccClose S0.length st) x := by
  obtain ⟨_, hs', hb', _, hid', _⟩ := hw.close hs hb hB0
  intro y e
  rw [hid', hs', hb']
  rcases h y e with h1 | ⟨ix, j, h1, h2, h3⟩
  · exact Or.inl (List.mem_append.2 (Or.inr h1))
  · -- `x` is in `S0`, so its position is below `|S0|`
    obtain ⟨kx, hkx⟩ := List.mem_iff_getElem?.1 hx
    have hkxlt := getElem?_lt hkx
    have hkx' : st.stack[kx]? = some x := by
      rw [hs, List.getElem?_append_left hkxlt]; exact hkx
    have hix : ix = kx := pos_unique hw.nodup h1 hkx'
    subst hix
    by_cases hj : j < S0.length
    · right
      refine ⟨ix, j, hkx, ?_, fun b hbm hle => h3 b (by rw [hb]; exact List.mem_cons_of_mem _ hbm) hle⟩
      rw [hs, List.getElem?_append_left hj] at h2; exact h2
    · left
      rw [hs, List.getElem?_append_right (by omega)] at h2
      exact List.mem_append.2 (Or.inl (List.mem_of_getElem? h2))

theorem Sem.close {g : Graph} {st : Scc} {A : List Str} (hw : WF g st) {S0 R : List Str} {v : Str}
    {B0 : List Nat} (h : Sem g st (A ++ [v]))
    (hs : st.stack = S0 ++ v :: R) (hb : st.boundaries = S0.length :: B0) (hB0 : BOk S0 B0)
    (hA : ∀ a ∈ A, a ∈ S0) (hgv : Good g st v) :
    Sem g (sccClose S0.length st) A := by
  obtain ⟨hw', hs', hb', _, hid', hout'⟩ := hw.close hs hb hB0
  have hnd : (S0 ++ v :: R).Nodup := hs ▸ hw.nodup
  have hnd' := List.nodup_append.1 hnd
  -- positions of the members of the closed segment
  have hTpos : ∀ x, x ∈ v :: R → ∃ ix, st.stack[ix]? = some x ∧ S0.length ≤ ix := by
    intro x hx
    obtain ⟨k, hk⟩ := List.mem_iff_getElem?.1 hx
    refine ⟨S0.length + k, ?_, by omega⟩
    rw [hs, List.getElem?_append_right (by omega)]
    simpa using hk
  have hTmem : ∀ j y, st.stack[j]? = some y → S0.length ≤ j → y ∈ v :: R := by
    intro j y hy hj
    rw [hs, List.getElem?_append_right hj] at hy
    exact List.mem_of_getElem? hy
  -- every member of the segment is finished
  have hTgood : ∀ x, x ∈ v :: R → Good g st x := by
    intro x hx
    by_cases hxv : x = v
    · subst hxv; exact hgv
    · have hxR : x ∈ R := by
        rcases List.mem_cons.1 hx with h1 | h1
        · exact absurd h1 hxv
        · exact h1
      apply h.fin x (by rw [hs]; exact List.mem_append.2 (Or.inr hx))
      rw [List.mem_append, List.mem_singleton, not_or]
      refine ⟨fun ha => ?_, hxv⟩
      exact hnd'.2.2 x (hA x ha) x hx rfl
  -- all boundaries are at or below `|S0|`
  have hBle : ∀ b ∈ st.boundaries, b ≤ S0.length := by
    intro b hbm
    rw [hb] at hbm
    rcases List.mem_cons.1 hbm with rfl | hbm
    · exact Nat.le_refl _
    · exact Nat.le_of_lt (hB0.lt b hbm)
  -- the new identified set is closed under edges
  have hclosed : ∀ x, x ∈ (v :: R) ++ st.identified → ∀ y, Edge g x y → y ∈ (v :: R) ++ st.identified := by
    intro x hx y e
    rcases List.mem_append.1 hx with hxT | hxI
    · rcases hTgood x hxT y e with h1 | ⟨ix, j, h1, h2, h3⟩
      · exact List.mem_append.2 (Or.inr h1)
      · obtain ⟨ix', hix', hge⟩ := hTpos x hxT
        have : ix = ix' := pos_unique hw.nodup h1 hix'
        subst this
        have hj : S0.length ≤ j := h3 S0.length (by rw [hb]; exact List.mem_cons_self) hge
        exact List.mem_append.2 (Or.inl (hTmem j y h2 hj))
    · exact List.mem_append.2 (Or.inr (h.iclosed x hxI y e))
  refine ⟨?_, ?_, ?_, ?_, ?_⟩
  · intro i x y hx hy
    rw [hs'] at hx hy
    have hi1 := getElem?_lt hy
    apply h.chain i x y
    · rw [hs, List.getElem?_append_left (by omega)]; exact hx
    · rw [hs, List.getElem?_append_left hi1]; exact hy
  · intro i x y hx hy hnb
    rw [hs'] at hx hy
    rw [hb'] at hnb
    have hi1 := getElem?_lt hy
    apply h.seg i x y
    · rw [hs, List.getElem?_append_left (by omega)]; exact hx
    · rw [hs, List.getElem?_append_left hi1]; exact hy
    · rw [hb]
      intro hm
      rcases List.mem_cons.1 hm with h1 | h1
      · omega
      · exact hnb h1
  · rw [hid']; exact hclosed
  · rw [hout']
    intro c hc x hx y
    rcases List.mem_append.1 hc with hc | hc
    · exact h.outSC c hc x hx y
    · simp only [List.mem_singleton] at hc
      subst hc
      obtain ⟨ix, hix, hxge⟩ := hTpos x hx
      constructor
      · intro hy
        obtain ⟨iy, hiy, hyge⟩ := hTpos y hy
        -- both in the top segment: forward by the chain, backward inside the segment
        have hnob : ∀ p, S0.length ≤ p → ∀ d, ∀ b ∈ st.boundaries, p < b → p + d < b := by
          intro p hp d b hbm hlt
          have := hBle b hbm; omega
        by_cases hle : ix ≤ iy
        · have hy' : st.stack[ix + (iy - ix)]? = some y := by rw [Nat.add_sub_cancel' hle]; exact hiy
          exact ⟨h.chainLe _ _ _ _ hix hy', h.backLe _ _ _ _ hix hy' (hnob ix hxge _)⟩
        · have hle' : iy ≤ ix := by omega
          have hx' : st.stack[iy + (ix - iy)]? = some x := by rw [Nat.add_sub_cancel' hle']; exact hix
          exact ⟨h.backLe _ _ _ _ hiy hx' (hnob iy hyge _), h.chainLe _ _ _ _ hiy hx'⟩
      · rintro ⟨hxy, hyx⟩
        have hyI : y ∈ (v :: R) ++ st.identified :=
          Reach.closed (P := fun z => z ∈ (v :: R) ++ st.identified) (fun a b ha e => hclosed a ha b e)
            hxy (List.mem_append.2 (Or.inl hx))
        rcases List.mem_append.1 hyI with h1 | h1
        · exact h1
        · -- an identified vertex cannot reach back onto the stack
          have hxI : x ∈ st.identified :=
            Reach.closed (P := fun z => z ∈ st.identified) (fun a b ha e => h.iclosed a ha b e) hyx h1
          exact absurd (by rw [hs]; exact List.mem_append.2 (Or.inr hx)) (hw.disj x hxI)
  · intro x hx hxA
    rw [hs'] at hx
    have hxv : x ≠ v := fun e => hnd'.2.2 x hx x (e ▸ List.mem_cons_self) rfl
    have hgood : Good g st x := h.fin x (by rw [hs]; exact List.mem_append.2 (Or.inl hx))
      (by rw [List.mem_append, List.mem_singleton, not_or]; exact ⟨hxA, hxv⟩)
    exact Good.close hw hs hb hB0 hx hgood

/-! ### the loop and the recursion -/

theorem dfs_unfold {g : Graph} {v : Str} {ws : List Str} (hws : dget g v = some ws) (fuel : Nat)
    (st : Scc) :
    dfs (fuel + 1) g v st =
      (let st2 := ws.foldl (sccStep (dfs fuel g)) (sccPush v st)
       if st2.err then st2 else sccClose st.stack.length st2) := by
  simp only [dfs, hws]

theorem sccClose_unchanged {g : Graph} {st2 : Scc} {S0 R : List Str} {B0 : List Nat} {v : Str} {k : Nat}
    (hwf2 : WF g st2) (hR : st2.stack = S0 ++ v :: R) (hB : st2.boundaries = B0.drop k)
    (hB0 : BOk S0 B0) : sccClose S0.length st2 = st2 := by
  have hne : st2.stack ≠ [] := by rw [hR]; simp
  have hlast := hwf2.bok.bottom hne
  unfold sccClose
  cases hbb : st2.boundaries with
  | nil => rw [hbb] at hlast; simp at hlast
  | cons b bs =>
    simp only
    have hbmem : b ∈ B0 := by
      have : b ∈ B0.drop k := by rw [← hB, hbb]; exact List.mem_cons_self
      exact List.mem_of_mem_drop this
    have := hB0.lt b hbmem
    have hbne : b ≠ S0.length := by omega
    simp [hbne]

theorem le_head_of_dec : ∀ {B : List Nat}, B.Pairwise (· > ·) → ∀ h, B.head? = some h → ∀ b ∈ B, b ≤ h
  | [], _, h, hh, b, hb => by cases hb
  | x :: xs, hp, h, hh, b, hb => by
    simp only [List.head?_cons, Option.some.injEq] at hh
    subst hh
    rcases List.mem_cons.1 hb with rfl | hb'
    · exact Nat.le_refl _
    · exact Nat.le_of_lt (List.rel_of_pairwise_cons hp hb')

structure LoopSem (g : Graph) (A : List Str) (v : Str) (i : Nat) (done : List Str) (cur : Scc) : Prop where
  sem : Sem g cur (A ++ [v])
  doneOk : ∀ y ∈ done, y ∈ cur.identified ∨
    ∃ j, cur.stack[j]? = some y ∧ ∀ b ∈ cur.boundaries, b ≤ i → b ≤ j

def DfsSem (g : Graph) (fuel : Nat) : Prop :=
  ∀ (v : Str) (st : Scc) (A : List Str), WF g st → Sem g st A → v ∈ keysOf g →
    dhas st.index v = false → unindexed g st.index < fuel → (∀ a ∈ A, a ∈ st.stack) →
    CallOk g st v → Sem g (dfs fuel g v st) A

theorem LoopInv.bounds {g : Graph} {fuel : Nat} {S0 : List Str} {B0 : List Nat} {v : Str}
    {idx1 : List (Str × Nat)} {I0 : List Str} {cur : Scc}
    (h : LoopInv g fuel S0 B0 v idx1 I0 cur) (hB0 : BOk S0 B0) :
    ∀ b ∈ cur.boundaries, b ≤ S0.length := by
  obtain ⟨k, hB⟩ := h.bsuffix
  intro b hb
  rw [hB] at hb
  rcases List.mem_cons.1 (List.mem_of_mem_drop hb) with rfl | hb'
  · exact Nat.le_refl _
  · exact Nat.le_of_lt (hB0.lt b hb')

theorem LoopInv.vpos {g : Graph} {fuel : Nat} {S0 : List Str} {B0 : List Nat} {v : Str}
    {idx1 : List (Str × Nat)} {I0 : List Str} {cur : Scc}
    (h : LoopInv g fuel S0 B0 v idx1 I0 cur) : cur.stack[S0.length]? = some v := by
  obtain ⟨R, hR⟩ := h.stack
  rw [hR, List.getElem?_append_right (Nat.le_refl _)]
  simp

theorem loop_sem {g : Graph} {fuel : Nat} (hc : ClosedGraph g) (IHs : DfsSpec g fuel)
    (IH : DfsSem g fuel) {S0 : List Str} {B0 : List Nat} {v : Str} {idx1 : List (Str × Nat)}
    {I0 A wsAll : List Str} (hB0 : BOk S0 B0) (hA : ∀ a ∈ A, a ∈ S0) (hvs : dget g v = some wsAll) :
    ∀ (ws done : List Str) (cur : Scc), done ++ ws = wsAll →
      LoopInv g fuel S0 B0 v idx1 I0 cur → LoopSem g A v S0.length done cur →
      LoopSem g A v S0.length (done ++ ws) (ws.foldl (sccStep (dfs fuel g)) cur)
  | [], done, cur, _, _, h => by simpa using h
  | w :: ws, done, cur, hsplit, hinv, h => by
    rw [List.foldl_cons]
    have hwmem : w ∈ wsAll := by rw [← hsplit]; simp
    have hw : w ∈ keysOf g := hc v wsAll hvs w hwmem
    have hedge : Edge g v w := ⟨wsAll, hvs, hwmem⟩
    have hinv' : LoopInv g fuel S0 B0 v idx1 I0 (sccStep (dfs fuel g) cur w) := by
      have := loop_struct IHs [w] cur (fun x hx => by
        simp only [List.mem_singleton] at hx; subst hx; exact hw) hinv
      simpa using this
    have hnext : LoopSem g A v S0.length (done ++ [w]) (sccStep (dfs fuel g) cur w) := by
      obtain ⟨R, hR⟩ := hinv.stack
      have hvpos := hinv.vpos
      have hble := hinv.bounds hB0
      unfold sccStep
      have herr : (cur.err = true) = False := by simp [hinv.wf.noerr]
      simp only [herr, if_false]
      cases hd : dget cur.index w with
      | none =>
        simp only
        have hfresh := dhas_false_of_dget_none hd
        have hactive : ∀ a ∈ A ++ [v], a ∈ cur.stack := by
          intro a ha
          rw [hR]
          rcases List.mem_append.1 ha with h1 | h1
          · exact List.mem_append.2 (Or.inl (hA a h1))
          · simp only [List.mem_singleton] at h1; subst h1
            exact List.mem_append.2 (Or.inr List.mem_cons_self)
        have hcall : CallOk g cur w := Or.inr ⟨v, S0.length, hvpos, hedge, hble⟩
        have hsem' := IH w cur (A ++ [v]) hinv.wf h.sem hw hfresh hinv.fuel hactive hcall
        obtain ⟨wf', ext', hiw⟩ := IHs w cur hinv.wf hw hfresh hinv.fuel
        obtain ⟨R', hR'⟩ := ext'.stack
        obtain ⟨k', hB'⟩ := ext'.bsuffix
        refine ⟨hsem', ?_⟩
        intro y hy
        rcases List.mem_append.1 hy with hy | hy
        · rcases h.doneOk y hy with h1 | ⟨j, h1, h2⟩
          · exact Or.inl (ext'.ident y h1)
          · right
            refine ⟨j, by rw [hR', List.getElem?_append_left (getElem?_lt h1)]; exact h1, ?_⟩
            intro b hb hle
            rw [hB'] at hb
            exact h2 b (List.mem_of_mem_drop hb) hle
        · simp only [List.mem_singleton] at hy; subst hy
          rcases (wf'.idx y).1 hiw with h1 | h1
          · right
            obtain ⟨j, hj⟩ := List.mem_iff_getElem?.1 h1
            refine ⟨j, hj, ?_⟩
            intro b hb hle
            -- `y` was not on the stack before the call, so it sits above `|S0|`
            have hnot : y ∉ cur.stack := fun hm => by
              have := (hinv.wf.idx y).2 (Or.inl hm); rw [hfresh] at this; cases this
            have hjge : cur.stack.length ≤ j := by
              apply Nat.le_of_not_lt
              intro hlt
              rw [hR', List.getElem?_append_left hlt] at hj
              exact hnot (List.mem_of_getElem? hj)
            have : S0.length < cur.stack.length := by rw [hR]; simp
            omega
          · exact Or.inl h1
      | some iw =>
        simp only
        by_cases hI : cur.identified.contains w = true
        · simp only [hI, if_true]
          refine ⟨h.sem, ?_⟩
          intro y hy
          rcases List.mem_append.1 hy with hy | hy
          · exact h.doneOk y hy
          · simp only [List.mem_singleton] at hy; subst hy
            exact Or.inl (by simpa using hI)
        · simp only [hI, Bool.false_eq_true, if_false]
          have hne : cur.stack ≠ [] := by rw [hR]; simp
          have hlast := hinv.wf.bok.bottom hne
          obtain ⟨k', hp, hl', _⟩ := popWhile_spec iw cur.boundaries hlast
          rw [hp]
          simp only
          -- `w` is on the stack at position `iw`
          have hwS : w ∈ cur.stack := by
            rcases (hinv.wf.idx w).1 (dhas_true_of_dget_some hd) with h1 | h1
            · exact h1
            · exact absurd (by simpa using h1) hI
          obtain ⟨j, hj⟩ := List.mem_iff_getElem?.1 hwS
          have hjiw : j = iw := by
            have := hinv.wf.pos j w hj
            rw [hd] at this; exact (Option.some.inj this).symm
          subst hjiw
          have hsem' := Sem.merge h.sem hvpos hj hedge hble hp
          refine ⟨hsem', ?_⟩
          intro y hy
          rcases List.mem_append.1 hy with hy | hy
          · rcases h.doneOk y hy with h1 | ⟨j', h1, h2⟩
            · exact Or.inl h1
            · exact Or.inr ⟨j', h1, fun b hb hle => h2 b (List.mem_of_mem_drop hb) hle⟩
          · simp only [List.mem_singleton] at hy; subst hy
            right
            refine ⟨j, hj, ?_⟩
            intro b hb _
            show b ≤ j
            have hdec : (cur.boundaries.drop k').Pairwise (· > ·) :=
              hinv.wf.bok.dec.sublist (List.drop_sublist _ _)
            cases hh : (cur.boundaries.drop k').head? with
            | none =>
              have : cur.boundaries.drop k' = [] := by
                cases hx : cur.boundaries.drop k' with
                | nil => rfl
                | cons a t => rw [hx] at hh; simp at hh
              have hb' : b ∈ cur.boundaries.drop k' := hb
              rw [this] at hb'; cases hb'
            | some hd' =>
              have h1 := popWhile_head j _ _ hp hd' hh
              have h2 := le_head_of_dec hdec hd' hh b hb
              omega
    have := loop_sem hc IHs IH hB0 hA hvs ws (done ++ [w]) _ (by rw [List.append_assoc]; simpa using hsplit)
      hinv' hnext
    simpa [List.append_assoc] using this

theorem dfs_sem (g : Graph) (hc : ClosedGraph g) : ∀ fuel, DfsSem g fuel
  | 0 => by
    intro v st A _ _ _ _ hf
    exact absurd hf (Nat.not_lt_zero _)
  | fuel + 1 => by
    intro v st A hwf hsem hv hn hf hA hcall
    have IH := dfs_sem g hc fuel
    have IHs := dfs_struct g hc fuel
    obtain ⟨ws, hws⟩ := dget_some_of_key hv
    have hpushWF := hwf.push hv hn
    have hpushExt := Ext.push st v
    have hidxv : dhas (sccPush v st).index v = true := by
      show dhas ((v, st.stack.length) :: st.index) v = true
      rw [dhas_cons]; simp
    have hinit : LoopInv g fuel st.stack st.boundaries v (sccPush v st).index st.identified
        (sccPush v st) := by
      refine ⟨hpushWF, ⟨[], rfl⟩, ⟨0, rfl⟩, ?_, fun _ h => h, fun _ h => h⟩
      have := unindexed_lt g hpushExt.2 hv hn hidxv
      omega
    have hloopS := loop_struct IHs ws (sccPush v st) (fun w hw => hc v ws hws w hw) hinit
    have hinitSem : LoopSem g A v st.stack.length [] (sccPush v st) :=
      ⟨hsem.push hcall, fun y hy => by cases hy⟩
    have hloop := loop_sem hc IHs IH hwf.bok hA hws ws [] (sccPush v st) (by simp) hinit hinitSem
    simp only [List.nil_append] at hloop
    rw [dfs_unfold hws]
    simp only [hloopS.wf.noerr, Bool.false_eq_true, if_false]
    obtain ⟨R, hR⟩ := hloopS.stack
    obtain ⟨k, hB⟩ := hloopS.bsuffix
    -- `v` is finished
    have hgv : Good g (ws.foldl (sccStep (dfs fuel g)) (sccPush v st)) v := by
      intro y e
      obtain ⟨ws', hws', hy⟩ := e
      rw [hws] at hws'; cases hws'
      rcases hloop.doneOk y hy with h1 | ⟨j, h1, h2⟩
      · exact Or.inl h1
      · exact Or.inr ⟨st.stack.length, j, hloopS.vpos, h1, h2⟩
    cases k with
    | zero =>
      simp only [List.drop_zero] at hB
      exact Sem.close hloopS.wf hloop.sem hR hB hwf.bok hA hgv
    | succ k =>
      simp only [List.drop_succ_cons] at hB
      rw [sccClose_unchanged hloopS.wf hR hB hwf.bok]
      refine ⟨hloop.sem.chain, hloop.sem.seg, hloop.sem.iclosed, hloop.sem.outSC, ?_⟩
      intro x hx hxA
      by_cases hxv : x = v
      · subst hxv; exact hgv
      · exact hloop.sem.fin x hx (by
          rw [List.mem_append, List.mem_singleton, not_or]; exact ⟨hxA, hxv⟩)

end Xs.Codegen
