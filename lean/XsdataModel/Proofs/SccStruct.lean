/- Structural correctness of the modelled `strongly_connected_components`:
on a graph whose edge targets are all vertices, for every iteration order the
run raises nothing, and the yielded components are non-empty, duplicate free,
pairwise disjoint and cover every vertex. -/
import XsdataModel.Codegen.Graphs
import XsdataModel.Proofs.ToposortPerm

set_option linter.unusedSimpArgs false
set_option linter.unusedVariables false

namespace Xs.Codegen
open Py List

def keysOf (g : Graph) : List Str := g.map (·.1)

/-- every edge target is a vertex (`ValidateReferences` ran before the designation) -/
def ClosedGraph (g : Graph) : Prop :=
  ∀ x ws, dget g x = some ws → ∀ y, y ∈ ws → y ∈ keysOf g

/-- executable form -/
def closedGraphB (g : Graph) : Bool := g.all (fun kv => kv.2.all (fun y => dhas g y))

/-! ### popWhile -/

theorem popWhile_spec (iw : Nat) : ∀ (B : List Nat), B.getLast? = some 0 →
    ∃ k, popWhile iw B = some (B.drop k) ∧ (B.drop k).getLast? = some 0 ∧ ∀ b ∈ B.drop k, True
  | [], h => by simp at h
  | [b], h => by
    simp only [List.getLast?_singleton, Option.some.injEq] at h
    subst h
    refine ⟨0, ?_, by simp, fun _ _ => trivial⟩
    simp [popWhile]
  | b :: c :: bs, h => by
    by_cases hlt : iw < b
    · have h' : (c :: bs).getLast? = some 0 := by rw [List.getLast?_cons_cons] at h; exact h
      obtain ⟨k, h1, h2, _⟩ := popWhile_spec iw (c :: bs) h'
      refine ⟨k + 1, ?_, ?_, fun _ _ => trivial⟩
      · simp only [popWhile, hlt, if_true, List.drop_succ_cons]; exact h1
      · simpa using h2
    · refine ⟨0, ?_, by simpa using h, fun _ _ => trivial⟩
      simp [popWhile, hlt]

/-- the head of what `popWhile` leaves is `≤ iw` -/
theorem popWhile_head (iw : Nat) : ∀ (B B' : List Nat), popWhile iw B = some B' →
    ∀ b, B'.head? = some b → b ≤ iw
  | [], B', h, b, hb => by simp [popWhile] at h
  | x :: xs, B', h, b, hb => by
    simp only [popWhile] at h
    by_cases hlt : iw < x
    · simp only [hlt, if_true] at h
      exact popWhile_head iw xs B' h b hb
    · simp only [hlt, if_false, Option.some.injEq] at h
      subst h
      simp only [List.head?_cons, Option.some.injEq] at hb
      subst hb
      omega

/-! ### boundaries -/

structure BOk (S : List Str) (B : List Nat) : Prop where
  dec : B.Pairwise (· > ·)
  lt : ∀ b ∈ B, b < S.length
  bottom : S ≠ [] → B.getLast? = some 0

theorem BOk.drop {S : List Str} {B : List Nat} (h : BOk S B) (k : Nat)
    (hl : S ≠ [] → (B.drop k).getLast? = some 0) : BOk S (B.drop k) :=
  ⟨h.dec.sublist (List.drop_sublist k B), fun b hb => h.lt b (List.mem_of_mem_drop hb), hl⟩

/-! ### the fuel measure -/

def unindexed (g : Graph) (index : List (Str × Nat)) : Nat :=
  ((keysOf g).filter (fun k => !dhas index k)).length

theorem filter_length_mono {α} (p q : α → Bool) : ∀ (l : List α), (∀ x ∈ l, q x = true → p x = true) →
    (l.filter q).length ≤ (l.filter p).length
  | [], _ => Nat.le_refl _
  | a :: l, h => by
    have ih := filter_length_mono p q l (fun x hx => h x (List.mem_cons_of_mem _ hx))
    simp only [List.filter_cons]
    by_cases hq : q a = true
    · have hp := h a List.mem_cons_self hq
      simp only [hq, hp, if_true, List.length_cons]; omega
    · simp only [hq]
      by_cases hp : p a = true
      · simp only [hp, if_true, List.length_cons]; simp; omega
      · simp only [hp]; simpa using ih

theorem filter_length_lt {α} (p q : α → Bool) : ∀ (l : List α), (∀ x ∈ l, q x = true → p x = true) →
    (∃ x ∈ l, p x = true ∧ q x = false) → (l.filter q).length < (l.filter p).length
  | [], _, ⟨x, hx, _⟩ => by cases hx
  | a :: l, h, ⟨x, hx, hpx, hqx⟩ => by
    have hmono := filter_length_mono p q l (fun y hy => h y (List.mem_cons_of_mem _ hy))
    simp only [List.filter_cons]
    rcases List.mem_cons.1 hx with rfl | hx'
    · simp only [hpx, hqx, if_true, List.length_cons]
      simp; omega
    · have ih := filter_length_lt p q l (fun y hy => h y (List.mem_cons_of_mem _ hy)) ⟨x, hx', hpx, hqx⟩
      by_cases hq : q a = true
      · have hp := h a List.mem_cons_self hq
        simp only [hq, hp, if_true, List.length_cons]; omega
      · simp only [hq]
        by_cases hp : p a = true
        · simp only [hp, if_true, List.length_cons]; simp; omega
        · simp only [hp]; simpa using ih

theorem unindexed_mono (g : Graph) {i i' : List (Str × Nat)}
    (h : ∀ x, dhas i x = true → dhas i' x = true) : unindexed g i' ≤ unindexed g i := by
  unfold unindexed
  apply filter_length_mono
  intro x _ hx
  cases hd : dhas i x with
  | false => rfl
  | true => rw [h x hd] at hx; exact hx

theorem unindexed_lt (g : Graph) {i i' : List (Str × Nat)} {v : Str}
    (h : ∀ x, dhas i x = true → dhas i' x = true) (hv : v ∈ keysOf g)
    (hn : dhas i v = false) (hy : dhas i' v = true) : unindexed g i' < unindexed g i := by
  unfold unindexed
  apply filter_length_lt
  · intro x _ hx
    cases hd : dhas i x with
    | false => rfl
    | true => rw [h x hd] at hx; exact hx
  · exact ⟨v, hv, by simp [hn], by simp [hy]⟩

/-! ### the structural invariant -/

structure WF (g : Graph) (st : Scc) : Prop where
  noerr : st.err = false
  nodup : st.stack.Nodup
  pos : ∀ i x, st.stack[i]? = some x → dget st.index x = some i
  idx : ∀ x, dhas st.index x = true ↔ (x ∈ st.stack ∨ x ∈ st.identified)
  disj : ∀ x, x ∈ st.identified → x ∉ st.stack
  keys : ∀ x, dhas st.index x = true → x ∈ keysOf g
  bok : BOk st.stack st.boundaries
  outOk : ∀ c ∈ st.out, c ≠ [] ∧ c.Nodup
  outDisj : st.out.Pairwise (fun a b => ∀ q, q ∈ a → q ∉ b)
  outI : ∀ x, x ∈ st.identified ↔ ∃ c ∈ st.out, x ∈ c

/-- how a state evolves during a `dfs` call, seen from the caller -/
structure Ext (st st' : Scc) : Prop where
  stack : ∃ R, st'.stack = st.stack ++ R
  index : ∀ x, dhas st.index x = true → dhas st'.index x = true
  bsuffix : ∃ k, st'.boundaries = st.boundaries.drop k
  ident : ∀ x, x ∈ st.identified → x ∈ st'.identified

theorem Ext.refl (st : Scc) : Ext st st := ⟨⟨[], by simp⟩, fun _ h => h, ⟨0, by simp⟩, fun _ h => h⟩

theorem Ext.trans {a b c : Scc} (h1 : Ext a b) (h2 : Ext b c) : Ext a c := by
  obtain ⟨R1, e1⟩ := h1.stack
  obtain ⟨R2, e2⟩ := h2.stack
  obtain ⟨k1, b1⟩ := h1.bsuffix
  obtain ⟨k2, b2⟩ := h2.bsuffix
  refine ⟨⟨R1 ++ R2, by rw [e2, e1, List.append_assoc]⟩, fun x hx => h2.index x (h1.index x hx),
    ⟨k1 + k2, by rw [b2, b1, List.drop_drop]⟩, fun x hx => h2.ident x (h1.ident x hx)⟩

theorem dhas_cons (v : Str) (i : Nat) (index : List (Str × Nat)) (x : Str) :
    dhas ((v, i) :: index) x = ((x == v) || dhas index x) := by
  unfold dhas dget
  simp only [List.lookup]
  cases h : (x == v) <;> simp

theorem dget_cons_ne {v x : Str} (i : Nat) (index : List (Str × Nat)) (h : x ≠ v) :
    dget ((v, i) :: index) x = dget index x := by
  unfold dget
  have : (x == v) = false := by simpa using h
  simp only [List.lookup, this]

theorem dget_cons_self (v : Str) (i : Nat) (index : List (Str × Nat)) :
    dget ((v, i) :: index) v = some i := by
  unfold dget
  simp [List.lookup]

theorem dhas_false_of_dget_none {β} {d : List (Str × β)} {x : Str} (h : dget d x = none) :
    dhas d x = false := by
  unfold dhas; rw [h]; rfl

theorem dhas_true_of_dget_some {β} {d : List (Str × β)} {x : Str} {b : β} (h : dget d x = some b) :
    dhas d x = true := by
  unfold dhas; rw [h]; rfl

/-- pushing a fresh vertex -/
theorem WF.push {g : Graph} {st : Scc} (h : WF g st) {v : Str} (hv : v ∈ keysOf g)
    (hn : dhas st.index v = false) : WF g (sccPush v st) := by
  have hvS : v ∉ st.stack := fun hh => by
    have := (h.idx v).2 (Or.inl hh); rw [hn] at this; cases this
  have hvI : v ∉ st.identified := fun hh => by
    have := (h.idx v).2 (Or.inr hh); rw [hn] at this; cases this
  refine ⟨h.noerr, ?_, ?_, ?_, ?_, ?_, ?_, h.outOk, h.outDisj, h.outI⟩
  · -- nodup
    show (st.stack ++ [v]).Nodup
    rw [List.nodup_append]
    refine ⟨h.nodup, by simp, ?_⟩
    intro a ha b hb hab
    simp only [List.mem_singleton] at hb
    subst hb; subst hab; exact hvS ha
  · -- pos
    intro i x hx
    show dget ((v, st.stack.length) :: st.index) x = some i
    have hx' : (st.stack ++ [v])[i]? = some x := hx
    by_cases hi : i < st.stack.length
    · rw [List.getElem?_append_left hi] at hx'
      have hxS : x ∈ st.stack := List.mem_of_getElem? hx'
      have hne : x ≠ v := fun e => hvS (e ▸ hxS)
      rw [dget_cons_ne _ _ hne]
      exact h.pos i x hx'
    · have hi' : st.stack.length ≤ i := Nat.le_of_not_lt hi
      rw [List.getElem?_append_right hi'] at hx'
      have : i - st.stack.length = 0 ∧ x = v := by
        cases hd : i - st.stack.length with
        | zero => simp [hd] at hx'; exact ⟨rfl, hx'.symm⟩
        | succ n => simp [hd] at hx'
      obtain ⟨h0, rfl⟩ := this
      have : i = st.stack.length := by omega
      subst this
      exact dget_cons_self _ _ _
  · -- idx
    intro x
    show dhas ((v, st.stack.length) :: st.index) x = true ↔ (x ∈ st.stack ++ [v] ∨ x ∈ st.identified)
    rw [dhas_cons, Bool.or_eq_true, h.idx x, List.mem_append, List.mem_singleton]
    constructor
    · rintro (h1 | h1 | h1)
      · exact Or.inl (Or.inr (by simpa using h1))
      · exact Or.inl (Or.inl h1)
      · exact Or.inr h1
    · rintro ((h1 | h1) | h1)
      · exact Or.inr (Or.inl h1)
      · exact Or.inl (by simpa using h1)
      · exact Or.inr (Or.inr h1)
  · -- disj
    intro x hx
    show x ∉ st.stack ++ [v]
    rw [List.mem_append, List.mem_singleton]
    rintro (h1 | h1)
    · exact h.disj x hx h1
    · subst h1; exact hvI hx
  · -- keys
    intro x hx
    have hx' : dhas ((v, st.stack.length) :: st.index) x = true := hx
    rw [dhas_cons, Bool.or_eq_true] at hx'
    rcases hx' with h1 | h1
    · have : x = v := by simpa using h1
      subst this; exact hv
    · exact h.keys x h1
  · -- boundaries
    show BOk (st.stack ++ [v]) (st.stack.length :: st.boundaries)
    refine ⟨?_, ?_, ?_⟩
    · rw [List.pairwise_cons]
      exact ⟨fun b hb => h.bok.lt b hb, h.bok.dec⟩
    · intro b hb
      rw [List.length_append, List.length_singleton]
      rcases List.mem_cons.1 hb with rfl | hb
      · omega
      · have := h.bok.lt b hb; omega
    · intro _
      cases hS : st.stack with
      | nil =>
        have : st.boundaries = [] := by
          cases hB : st.boundaries with
          | nil => rfl
          | cons b bs =>
            have := h.bok.lt b (by rw [hB]; exact List.mem_cons_self)
            rw [hS] at this; simp at this
        rw [this]; simp
      | cons a t =>
        have hb := h.bok.bottom (by rw [hS]; simp)
        cases hB : st.boundaries with
        | nil => rw [hB] at hb; simp at hb
        | cons b bs => rw [List.getLast?_cons_cons]; rw [hB] at hb; exact hb

theorem Ext.push (st : Scc) (v : Str) :
    (∃ R, (sccPush v st).stack = st.stack ++ R) ∧
    (∀ x, dhas st.index x = true → dhas (sccPush v st).index x = true) := by
  refine ⟨⟨[v], rfl⟩, ?_⟩
  intro x hx
  show dhas ((v, st.stack.length) :: st.index) x = true
  rw [dhas_cons, hx]; simp

/-- lowering the boundaries (the back-edge case) -/
theorem WF.setBoundaries {g : Graph} {st : Scc} (h : WF g st) (k : Nat)
    (hl : st.stack ≠ [] → (st.boundaries.drop k).getLast? = some 0) :
    WF g { st with boundaries := st.boundaries.drop k } :=
  ⟨h.noerr, h.nodup, h.pos, h.idx, h.disj, h.keys, h.bok.drop k hl, h.outOk, h.outDisj, h.outI⟩

/-- closing the top segment -/
theorem WF.close {g : Graph} {st : Scc} (h : WF g st) {S0 R : List Str} {v : Str} {B0 : List Nat}
    (hs : st.stack = S0 ++ v :: R) (hb : st.boundaries = S0.length :: B0) (hB0 : BOk S0 B0) :
    WF g (sccClose S0.length st) ∧ (sccClose S0.length st).stack = S0 ∧
    (sccClose S0.length st).boundaries = B0 ∧ (sccClose S0.length st).index = st.index ∧
    (sccClose S0.length st).identified = (v :: R) ++ st.identified ∧
    (sccClose S0.length st).out = st.out ++ [v :: R] := by
  have htake : st.stack.take S0.length = S0 := by rw [hs]; simp
  have hdrop : st.stack.drop S0.length = v :: R := by rw [hs]; simp
  have hclose : sccClose S0.length st =
      { st with boundaries := B0, stack := S0, identified := (v :: R) ++ st.identified,
                out := st.out ++ [v :: R] } := by
    unfold sccClose
    rw [hb]
    simp only [if_true, htake, hdrop]
  rw [hclose]
  refine ⟨?_, rfl, rfl, rfl, rfl, rfl⟩
  have hnd : (S0 ++ v :: R).Nodup := hs ▸ h.nodup
  have hnd' := List.nodup_append.1 hnd
  refine ⟨h.noerr, hnd'.1, ?_, ?_, ?_, h.keys, hB0, ?_, ?_, ?_⟩
  · intro j x hx
    have hj : j < S0.length := by
      by_cases hj : j < S0.length
      · exact hj
      · have : S0[j]? = none := by simp; omega
        rw [this] at hx; cases hx
    apply h.pos j x
    rw [hs, List.getElem?_append_left hj]; exact hx
  · intro x
    rw [h.idx x, hs, List.mem_append, List.mem_append]
    constructor
    · rintro ((h1 | h1) | h1)
      · exact Or.inl h1
      · exact Or.inr (Or.inl h1)
      · exact Or.inr (Or.inr h1)
    · rintro (h1 | h1 | h1)
      · exact Or.inl (Or.inl h1)
      · exact Or.inl (Or.inr h1)
      · exact Or.inr h1
  · intro x hx hxS
    rcases List.mem_append.1 hx with h1 | h1
    · exact hnd'.2.2 x hxS x h1 rfl
    · exact h.disj x h1 (by rw [hs]; exact List.mem_append.2 (Or.inl hxS))
  · intro c hc
    rcases List.mem_append.1 hc with h1 | h1
    · exact h.outOk c h1
    · simp only [List.mem_singleton] at h1
      subst h1
      exact ⟨by simp, hnd'.2.1⟩
  · rw [List.pairwise_append]
    refine ⟨h.outDisj, by simp, ?_⟩
    intro a ha b hb'
    simp only [List.mem_singleton] at hb'
    subst hb'
    intro q hq hqT
    have hqI : q ∈ st.identified := (h.outI q).2 ⟨a, ha, hq⟩
    exact h.disj q hqI (by rw [hs]; exact List.mem_append.2 (Or.inr hqT))
  · intro x
    rw [List.mem_append, h.outI x]
    constructor
    · rintro (h1 | ⟨c, hc, hx⟩)
      · exact ⟨v :: R, List.mem_append.2 (Or.inr (by simp)), h1⟩
      · exact ⟨c, List.mem_append.2 (Or.inl hc), hx⟩
    · rintro ⟨c, hc, hx⟩
      rcases List.mem_append.1 hc with h1 | h1
      · exact Or.inr ⟨c, h1, hx⟩
      · simp only [List.mem_singleton] at h1
        subst h1; exact Or.inl hx

theorem dget_some_of_key {g : Graph} {v : Str} (hv : v ∈ keysOf g) : ∃ ws, dget g v = some ws := by
  have := (dhas_iff g v).2 hv
  unfold dhas at this
  cases hd : dget g v with
  | none => rw [hd] at this; cases this
  | some ws => exact ⟨ws, rfl⟩

/-- the invariant of `for w in edges[v]` inside `dfs(v)`; `S0`, `B0` are the
stack and the boundaries when `dfs(v)` was entered, `idx1` the index after the push -/
structure LoopInv (g : Graph) (fuel : Nat) (S0 : List Str) (B0 : List Nat) (v : Str)
    (idx1 : List (Str × Nat)) (I0 : List Str) (cur : Scc) : Prop where
  wf : WF g cur
  stack : ∃ R, cur.stack = S0 ++ v :: R
  bsuffix : ∃ k, cur.boundaries = (S0.length :: B0).drop k
  fuel : unindexed g cur.index < fuel
  index : ∀ x, dhas idx1 x = true → dhas cur.index x = true
  ident : ∀ x, x ∈ I0 → x ∈ cur.identified

/-- the statement proved by induction on the fuel -/
def DfsSpec (g : Graph) (fuel : Nat) : Prop :=
  ∀ (v : Str) (st : Scc), WF g st → v ∈ keysOf g → dhas st.index v = false →
    unindexed g st.index < fuel →
    WF g (dfs fuel g v st) ∧ Ext st (dfs fuel g v st) ∧ dhas (dfs fuel g v st).index v = true

theorem loop_struct {g : Graph} {fuel : Nat} (IH : DfsSpec g fuel) {S0 : List Str} {B0 : List Nat}
    {v : Str} {idx1 : List (Str × Nat)} {I0 : List Str} :
    ∀ (ws : List Str) (cur : Scc), (∀ w ∈ ws, w ∈ keysOf g) → LoopInv g fuel S0 B0 v idx1 I0 cur →
      LoopInv g fuel S0 B0 v idx1 I0 (ws.foldl (sccStep (dfs fuel g)) cur)
  | [], cur, _, h => h
  | w :: ws, cur, hk, h => by
    rw [List.foldl_cons]
    apply loop_struct IH ws _ (fun x hx => hk x (List.mem_cons_of_mem _ hx))
    have hw : w ∈ keysOf g := hk w List.mem_cons_self
    obtain ⟨R, hR⟩ := h.stack
    obtain ⟨k, hB⟩ := h.bsuffix
    unfold sccStep
    have herr : (cur.err = true) = False := by simp [h.wf.noerr]
    simp only [herr, if_false]
    cases hd : dget cur.index w with
    | none =>
      simp only
      obtain ⟨wf', ext', _⟩ := IH w cur h.wf hw (dhas_false_of_dget_none hd) h.fuel
      obtain ⟨R', hR'⟩ := ext'.stack
      obtain ⟨k', hB'⟩ := ext'.bsuffix
      refine ⟨wf', ⟨R ++ R', by rw [hR', hR]; simp⟩, ⟨k + k', by rw [hB', hB, List.drop_drop]⟩, ?_,
        fun x hx => ext'.index x (h.index x hx), fun x hx => ext'.ident x (h.ident x hx)⟩
      exact Nat.lt_of_le_of_lt (unindexed_mono g ext'.index) h.fuel
    | some iw =>
      simp only
      by_cases hI : cur.identified.contains w = true
      · simp only [hI, if_true]; exact h
      · simp only [hI, Bool.false_eq_true, if_false]
        have hne : cur.stack ≠ [] := by rw [hR]; simp
        have hlast := h.wf.bok.bottom hne
        obtain ⟨k', hp, hl', _⟩ := popWhile_spec iw cur.boundaries hlast
        rw [hp]
        simp only
        refine ⟨h.wf.setBoundaries k' (fun _ => hl'), ⟨R, hR⟩, ⟨k + k', by
          show cur.boundaries.drop k' = _
          rw [hB, List.drop_drop]⟩, h.fuel, h.index, h.ident⟩

theorem dfs_struct (g : Graph) (hc : ClosedGraph g) : ∀ fuel, DfsSpec g fuel
  | 0 => by
    intro v st _ _ _ hf
    exact absurd hf (Nat.not_lt_zero _)
  | fuel + 1 => by
    intro v st hwf hv hn hf
    have IH := dfs_struct g hc fuel
    obtain ⟨ws, hws⟩ := dget_some_of_key hv
    have hpushWF := hwf.push hv hn
    have hpushExt := Ext.push st v
    have hidxv : dhas (sccPush v st).index v = true := by
      show dhas ((v, st.stack.length) :: st.index) v = true
      rw [dhas_cons]; simp
    -- the loop
    have hinit : LoopInv g fuel st.stack st.boundaries v (sccPush v st).index st.identified
        (sccPush v st) := by
      refine ⟨hpushWF, ⟨[], rfl⟩, ⟨0, rfl⟩, ?_, fun _ h => h, fun _ h => h⟩
      have := unindexed_lt g hpushExt.2 hv hn hidxv
      omega
    have hloop := loop_struct IH ws (sccPush v st) (fun w hw => hc v ws hws w hw) hinit
    have hdfs : dfs (fuel + 1) g v st =
        (let st2 := ws.foldl (sccStep (dfs fuel g)) (sccPush v st)
         if st2.err then st2 else sccClose st.stack.length st2) := by
      simp only [dfs, hws]
    rw [hdfs]
    simp only [hloop.wf.noerr, Bool.false_eq_true, if_false]
    obtain ⟨R, hR⟩ := hloop.stack
    obtain ⟨k, hB⟩ := hloop.bsuffix
    have hidx2 : ∀ x, dhas st.index x = true →
        dhas (ws.foldl (sccStep (dfs fuel g)) (sccPush v st)).index x = true :=
      fun x hx => hloop.index x (hpushExt.2 x hx)
    cases k with
    | zero =>
      simp only [List.drop_zero] at hB
      obtain ⟨wf', hs', hb', hi', hid', _⟩ := hloop.wf.close hR hB hwf.bok
      refine ⟨wf', ⟨⟨[], by rw [hs']; simp⟩, fun x hx => by rw [hi']; exact hidx2 x hx,
        ⟨0, by rw [hb']; simp⟩, fun x hx => by
          rw [hid']; exact List.mem_append.2 (Or.inr (hloop.ident x hx))⟩,
        by rw [hi']; exact hloop.index v hidxv⟩
    | succ k =>
      simp only [List.drop_succ_cons] at hB
      -- the top boundary is below `index[v]`: nothing is closed
      have hne : (ws.foldl (sccStep (dfs fuel g)) (sccPush v st)).stack ≠ [] := by rw [hR]; simp
      have hlast := hloop.wf.bok.bottom hne
      have hunch : sccClose st.stack.length (ws.foldl (sccStep (dfs fuel g)) (sccPush v st))
          = ws.foldl (sccStep (dfs fuel g)) (sccPush v st) := by
        unfold sccClose
        cases hbb : (ws.foldl (sccStep (dfs fuel g)) (sccPush v st)).boundaries with
        | nil => rw [hbb] at hlast; simp at hlast
        | cons b bs =>
          simp only
          have hbmem : b ∈ st.boundaries := by
            have : b ∈ st.boundaries.drop k := by rw [← hB, hbb]; exact List.mem_cons_self
            exact List.mem_of_mem_drop this
          have := hwf.bok.lt b hbmem
          have hbne : b ≠ st.stack.length := by omega
          simp [hbne]
      rw [hunch]
      exact ⟨hloop.wf, ⟨⟨v :: R, hR⟩, hidx2, ⟨k, hB⟩, hloop.ident⟩, hloop.index v hidxv⟩

/-! ### the whole run -/

theorem WF.init (g : Graph) : WF g {} :=
  ⟨rfl, by simp, by simp, by simp [dhas, dget, List.lookup], by simp, by simp [dhas, dget, List.lookup],
   ⟨by simp, by simp, by simp⟩, by simp, by simp, by simp⟩

/-- between two roots the stack is empty -/
structure RootInv (g : Graph) (done : List Str) (st : Scc) : Prop where
  wf : WF g st
  empty : st.stack = []
  bempty : st.boundaries = []
  indexed : ∀ x ∈ done, dhas st.index x = true

theorem unindexed_le_length (g : Graph) (index : List (Str × Nat)) : unindexed g index ≤ g.length := by
  unfold unindexed keysOf
  have := List.length_filter_le (fun k => !dhas index k) (g.map (·.1))
  simpa using this

theorem root_struct (g : Graph) (hc : ClosedGraph g) :
    ∀ (vs done : List Str) (st : Scc), (∀ v ∈ vs, v ∈ keysOf g) → RootInv g done st →
      RootInv g (done ++ vs) (vs.foldl (sccRoot g) st)
  | [], done, st, _, h => by simpa using h
  | v :: vs, done, st, hk, h => by
    rw [List.foldl_cons]
    have hv : v ∈ keysOf g := hk v List.mem_cons_self
    have key : RootInv g (done ++ [v]) (sccRoot g st v) := by
      unfold sccRoot
      simp only [h.wf.noerr, Bool.false_eq_true, if_false]
      by_cases hd : dhas st.index v = true
      · simp only [hd, if_true]
        refine ⟨h.wf, h.empty, h.bempty, ?_⟩
        intro x hx
        rcases List.mem_append.1 hx with h1 | h1
        · exact h.indexed x h1
        · simp only [List.mem_singleton] at h1; subst h1; exact hd
      · simp only [hd, Bool.false_eq_true, if_false]
        have hn : dhas st.index v = false := by simpa using hd
        have hf : unindexed g st.index < g.length + 2 := by
          have := unindexed_le_length g st.index; omega
        obtain ⟨wf', ext', hiv⟩ := dfs_struct g hc (g.length + 2) v st h.wf hv hn hf
        obtain ⟨k, hB⟩ := ext'.bsuffix
        have hb' : (dfs (g.length + 2) g v st).boundaries = [] := by rw [hB, h.bempty]; simp
        have hs' : (dfs (g.length + 2) g v st).stack = [] := by
          apply Classical.byContradiction
          intro hne
          have := wf'.bok.bottom hne
          rw [hb'] at this; simp at this
        refine ⟨wf', hs', hb', ?_⟩
        intro x hx
        rcases List.mem_append.1 hx with h1 | h1
        · exact ext'.index x (h.indexed x h1)
        · simp only [List.mem_singleton] at h1; subst h1; exact hiv
    have := root_struct g hc vs (done ++ [v]) _ (fun x hx => hk x (List.mem_cons_of_mem _ hx)) key
    simpa [List.append_assoc] using this

/-- members of different components are different -/
def DisjointLists (comps : List (List Str)) : Prop :=
  comps.Pairwise (fun a b => ∀ q, q ∈ a → q ∉ b)

/-- **Structural correctness of `strongly_connected_components`** for every
iteration order of `set(edges)` and of the adjacency lists: no exception, and the
yielded components are non-empty duplicate-free lists that partition the vertex set. -/
theorem scc_partition (g : Graph) (hc : ClosedGraph g) (vorder : List Str)
    (hv : ∀ v, v ∈ vorder ↔ v ∈ keysOf g) :
    (sccRun g vorder).err = false ∧
    (∀ c ∈ (sccRun g vorder).out, c ≠ [] ∧ c.Nodup) ∧
    DisjointLists (sccRun g vorder).out ∧
    (∀ x, x ∈ keysOf g ↔ ∃ c ∈ (sccRun g vorder).out, x ∈ c) := by
  have h := root_struct g hc vorder [] {} (fun v hvv => (hv v).1 hvv)
    ⟨WF.init g, rfl, rfl, by simp⟩
  simp only [List.nil_append] at h
  have hrun : sccRun g vorder = vorder.foldl (sccRoot g) {} := rfl
  rw [hrun]
  refine ⟨h.wf.noerr, h.wf.outOk, h.wf.outDisj, ?_⟩
  intro x
  constructor
  · intro hx
    have hi := h.indexed x ((hv x).2 hx)
    rcases (h.wf.idx x).1 hi with h1 | h1
    · rw [h.empty] at h1; cases h1
    · exact (h.wf.outI x).1 h1
  · rintro ⟨c, hcm, hxc⟩
    have hI : x ∈ (vorder.foldl (sccRoot g) {}).identified := (h.wf.outI x).2 ⟨c, hcm, hxc⟩
    exact h.wf.keys x ((h.wf.idx x).2 (Or.inr hI))

end Xs.Codegen
