/- C08 — helper lemmas: `get_text` / `get_tail` of the lxml handler join the split character data. -/
import XsdataModel.Backends.LxmlText

namespace Xs.Backends
open Py

/-- a run in front only prefixes what the loop returns -/
theorem joinTails_prefix (ns : List LNode) (s : Str) (r : Option Str) :
    joinTails (some (s ++ r.getD [])) ns = some (s ++ (joinTails r ns).getD []) := by
  induction ns generalizing r with
  | nil => simp [joinTails]
  | cons n rest ih =>
    simp only [joinTails]
    split
    · simp
    · cases n.tail with
      | none => exact ih r
      | some t =>
        have := ih (some (r.getD [] ++ t))
        simp only [addTail, Option.getD_some, List.append_assoc] at this ⊢
        exact this

/-- the loop over the libxml2 view yields the infoset's character data -/
theorem joinTails_view (c : List Content) :
    joinTails (view c).1 (view c).2 = leadData c := by
  induction c with
  | nil => rfl
  | cons x rest ih =>
    cases x with
    | chars s =>
      simp only [view, leadData]
      rw [joinTails_prefix, ih]
    | misc =>
      simp only [view, leadData, joinTails, Bool.false_eq_true, if_false]
      rw [← ih]
      cases (view rest).1 <;> simp [addTail]
    | elem => simp [view, leadData, joinTails]

mutual
theorem readsNode_spec (n : CNode) (after : List CNode) : readsNode n after = specNode n after := by
  match n with
  | .elem kids =>
    simp only [readsNode, specNode, getText, getTail, joinTails_view]
    rw [readsList_spec kids]
  | .chars _ => rfl
  | .misc _ => rfl
theorem readsList_spec (l : List CNode) : readsList l = specList l := by
  match l with
  | [] => rfl
  | n :: rest =>
    simp only [readsList, specList]
    rw [readsNode_spec n rest, readsList_spec rest]
end

end Xs.Backends
