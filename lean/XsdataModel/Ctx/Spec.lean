/-
L7 — cache-free specification of every `XmlContext` call (`pureOut`) and the
decidable side conditions under which the shared context provably behaves like
a fresh one (`faithful`, `noEvict`, folded over a history by `histOK`).  Since
the cache is keyed by `(class, parent_ns)` no condition on parent namespaces is
needed any more.
-/
import XsdataModel.Ctx.Context

namespace Xs.Ctx
open Py

def buildable (U : Universe) (c : ClassId) : Bool :=
  match pureBuild U c none with
  | .ok _ => true
  | .error _ => false

/-- the subclass `fetch` would switch to -/
def pureSub (U : Universe) (w : World) (c : ClassId) (pns xsi : Option Str) : Option ClassId :=
  match pureBuild U c pns with
  | .ok m =>
    if truthy xsi && m.targetQName != xsi then pickSubclass U c (pureTypes U w (xsi.getD [])) else none
  | .error _ => none

def pureFetch (U : Universe) (w : World) (c : ClassId) (pns xsi : Option Str) : Except Err Meta :=
  match pureBuild U c pns with
  | .error e => .error e
  | .ok m =>
    if truthy xsi && m.targetQName != xsi then
      match pickSubclass U c (pureTypes U w (xsi.getD [])) with
      | some sub => pureBuild U sub pns
      | none => .ok m
    else .ok m

/-- one candidate of `find_type_by_fields` -/
def choiceOf (U : Universe) (names : List Str) (c : ClassId) : Option Choice :=
  match pureBuild U c none, U.get? c with
  | .ok m, some d => if namesMatch names m then some (c, (fieldDiff names m, d.name)) else none
  | _, _ => none

/-- the classes of the index in iteration order (`for types in values() for clazz in types`) -/
def indexedClasses (idx : List (Str × List ClassId)) : List ClassId :=
  (idx.map (·.1)).flatMap fun k => (idx.lookup k).getD []

def pureFields (U : Universe) (w : World) (names : List Str) : Option ClassId :=
  (bestChoice ((indexedClasses (pureIndex U w.loaded)).filterMap (choiceOf U names))).map (·.1)

abbrev Use := ClassId × Option Str

/-- cache-free specification of the serializer's walk; the "state" collects the requests -/
def pureSerialize (U : Universe) (toks : List Tok) : List Use × Except Err (List Str) :=
  serWalk (σ := List Use) U (fun us c p => (us ++ [(c, p)], pureBuild U c p)) toks [] [] []

/-- the `(class, parent_ns)` pairs a serialisation requests -/
def serUses (U : Universe) (toks : List Tok) : List Use := (pureSerialize U toks).1

/-- **Cache-free specification** of one call in world `w` -/
def pureOut (U : Universe) (w : World) : Op → Out
  | .build c pns => outMeta (pureBuild U c pns)
  | .fetch c pns xsi => outMeta (pureFetch U w c pns xsi)
  | .findTypes q => .gotTypes (pureTypes U w q)
  | .findType q => .gotType (pureTypes U w q).getLast?
  | .findSubclass c q => .gotType (pickSubclass U c (pureTypes U w q))
  | .findTypeByFields names => .gotType (pureFields U w names)
  | .localNamesMatch names c =>
    match pureBuild U c none with
    | .ok m => .gotBool (namesMatch names m)
    | .error _ => .gotBool false
  | .buildXsiCache => .done
  | .reset => .done
  | .serialize toks =>
    match (pureSerialize U toks).2 with
    | .ok l => .gotNames l
    | .error e => .raised e

/-- `len(sys.modules)` identifies the set of loaded classes -/
def faithful (ws : List World) : Prop :=
  ∀ a ∈ ws, ∀ b ∈ ws, a.mods = b.mods → a.loaded = b.loaded

instance (ws : List World) : Decidable (faithful ws) :=
  inferInstanceAs (Decidable (∀ a ∈ ws, ∀ b ∈ ws, a.mods = b.mods → a.loaded = b.loaded))

/-- the call does not hit `local_names_match`'s eviction path -/
def noEvict (U : Universe) (w : World) : Op → Prop
  | .localNamesMatch _ c => buildable U c = true ∨ indexKey U c = none
  | .findTypeByFields _ => ∀ c ∈ indexedClasses (pureIndex U w.loaded), buildable U c = true
  | _ => True

instance (U : Universe) (w : World) : (op : Op) → Decidable (noEvict U w op)
  | .localNamesMatch _ c => inferInstanceAs (Decidable (buildable U c = true ∨ indexKey U c = none))
  | .findTypeByFields _ =>
    inferInstanceAs (Decidable (∀ c ∈ indexedClasses (pureIndex U w.loaded), buildable U c = true))
  | .build _ _ => inferInstanceAs (Decidable True)
  | .fetch _ _ _ => inferInstanceAs (Decidable True)
  | .findTypes _ => inferInstanceAs (Decidable True)
  | .findType _ => inferInstanceAs (Decidable True)
  | .findSubclass _ _ => inferInstanceAs (Decidable True)
  | .buildXsiCache => inferInstanceAs (Decidable True)
  | .reset => inferInstanceAs (Decidable True)
  | .serialize _ => inferInstanceAs (Decidable True)

/-- the worlds the instance has been used in since it was created / reset -/
structure Track where
  worlds : List World

def Track.empty : Track := ⟨[]⟩

def Track.next (t : Track) (w : World) (op : Op) : Track :=
  if op = .reset then Track.empty else ⟨w :: t.worlds⟩

def okStep (U : Universe) (t : Track) (w : World) (op : Op) : Prop :=
  faithful (w :: t.worlds) ∧ noEvict U w op

instance (U : Universe) (t : Track) (w : World) (op : Op) : Decidable (okStep U t w op) :=
  inferInstanceAs (Decidable (faithful (w :: t.worlds) ∧ noEvict U w op))

/-- the side conditions hold at every call of the history -/
def histOK (U : Universe) : Track → List (World × Op) → Prop
  | _, [] => True
  | t, (w, op) :: rest => okStep U t w op ∧ histOK U (t.next w op) rest

def decHistOK (U : Universe) : (t : Track) → (h : List (World × Op)) → Decidable (histOK U t h)
  | _, [] => inferInstanceAs (Decidable True)
  | t, (w, op) :: rest =>
    have := decHistOK U (t.next w op) rest
    inferInstanceAs (Decidable (okStep U t w op ∧ histOK U (t.next w op) rest))

instance (U : Universe) (t : Track) (h : List (World × Op)) : Decidable (histOK U t h) := decHistOK U t h

/-- calls whose *result* does not depend on which unbuildable classes have been
evicted from the index (they never read the index by qualified name) -/
def Op.evictionBlind : Op → Bool
  | .build _ _ => true
  | .serialize _ => true
  | .findTypeByFields _ => true
  | .localNamesMatch _ _ => true
  | .buildXsiCache => true
  | .reset => true
  | .fetch _ _ x => !truthy x
  | _ => false

/-- calls that do not consult the type index at all: their result is a function
of the class universe alone -/
def Op.indexFree : Op → Bool
  | .build _ _ => true
  | .serialize _ => true
  | .localNamesMatch _ _ => true
  | .reset => true
  | .buildXsiCache => true
  | .fetch _ _ x => !truthy x
  | _ => false

/-- the side condition without `noEvict` -/
def okStepW (t : Track) (w : World) : Prop := faithful (w :: t.worlds)

instance (t : Track) (w : World) : Decidable (okStepW t w) :=
  inferInstanceAs (Decidable (faithful (w :: t.worlds)))

def histOKW : Track → List (World × Op) → Prop
  | _, [] => True
  | t, (w, op) :: rest => okStepW t w ∧ histOKW (t.next w op) rest

def decHistOKW : (t : Track) → (h : List (World × Op)) → Decidable (histOKW t h)
  | _, [] => inferInstanceAs (Decidable True)
  | t, (w, op) :: rest =>
    have := decHistOKW (t.next w op) rest
    inferInstanceAs (Decidable (okStepW t w ∧ histOKW (t.next w op) rest))

instance (t : Track) (h : List (World × Op)) : Decidable (histOKW t h) := decHistOKW t h

end Xs.Ctx
