/-
C17 — the per-schema state of `SchemaParser` (xsdata/codegen/parsers/schema.py), which
`DefinitionsParser` inherits: ONE parser instance reads a WSDL document and with it every
inline `xs:schema` of `wsdl:types`.  `start_schema` stores the schema's
`elementFormDefault` / `attributeFormDefault` / `defaultAttributes`; `end_element` /
`end_attribute` give a local declaration without `form=` the stored default.

`FormType(x)` raises `ValueError` for anything but "qualified"/"unqualified" (`none` below).
-/
import XsdataModel.Wsdl.Defs

namespace Xs.Wsdl
open Py

/-- `element_form`, `attribute_form`, `default_attributes` of the parser -/
structure SchemaState where
  elementForm : Option Str
  attributeForm : Option Str
  defaultAttributes : Option Str
  deriving Repr, DecidableEq

/-- a fresh `SchemaParser` -/
def SchemaState.init : SchemaState := ⟨none, none, none⟩

/-- `SchemaParser.start_schema(attrs)`: every slot is what THIS schema declares, `None` if it
declares nothing -/
def startSchema (_prev : SchemaState) (attrs : Dict) : SchemaState :=
  ⟨aget attrs ws!"elementFormDefault", aget attrs ws!"attributeFormDefault", aget attrs ws!"defaultAttributes"⟩

/-- `FormType(value)` -/
def formType (v : Str) : Option Str :=
  if v == ws!"qualified" || v == ws!"unqualified" then some v else none

/-- `end_element` / `end_attribute`: the form of a declaration whose own `form=` is `own`,
under the stored default `dflt`; outer `none` = ValueError (`FormType` of a bad value) -/
def declForm (dflt own : Option Str) : Option (Option Str) :=
  match own with
  | some f => some (some f)
  | none =>
    match dflt with
    | some d => if d.isEmpty then some none else (formType d).map some
    | none => some none

/-- one inline schema as the parser meets it: the attributes of `xs:schema`, then the own
`form=` of its local element / attribute declarations -/
structure SchemaDoc where
  attrs : Dict
  elements : List (Option Str)
  attributes : List (Option Str)
  deriving Repr

/-- what the parser leaves behind for one schema: its state and the forms of the declarations -/
structure SchemaOut where
  state : SchemaState
  elements : List (Option (Option Str))
  attributes : List (Option (Option Str))
  deriving Repr, DecidableEq

def readSchema (prev : SchemaState) (s : SchemaDoc) : SchemaOut :=
  let st := startSchema prev s.attrs
  ⟨st, s.elements.map (declForm st.elementForm), s.attributes.map (declForm st.attributeForm)⟩

/-- all inline schemas of one document, read by one parser instance in document order -/
def readSchemas : SchemaState → List SchemaDoc → List SchemaOut
  | _, [] => []
  | prev, s :: rest => let o := readSchema prev s; o :: readSchemas o.state rest

end Xs.Wsdl
