/-
Helper definitions and lemmas for C02 / C16 (occurrence arithmetic), part 1:

* the statement-level vocabulary (`names`, `distinctNames`, `wf`),
* `processAttrPath` characterised through `pathMaxProd`, `pathMinProd`, `pathCMin`,
* with pairwise distinct names `effectiveChoice` and `mergeDuplicates` do nothing, so
  `occurs ss = calculatePaths ss`.
-/
import XsdataModel.Gen.Occurs

namespace Xs.Gen
open Py

/-! ### vocabulary of the statements -/

mutual
/-- the element names of a content model, with multiplicity, in document order -/
def names : Particle → List Str
  | .elem n _ _ => [n]
  | .seq _ _ ps => namesList ps
  | .choice _ _ ps => namesList ps
def namesList : List Particle → List Str
  | [] => []
  | p :: ps => names p ++ namesList ps
end

/-- no element name is used by two element particles -/
def distinctNames (p : Particle) : Bool := decide (names p).Nodup

mutual
/-- every occurrence range is non-empty: `min ≤ max` (`max = maxsize` spells `unbounded`) -/
def wf : Particle → Bool
  | .elem _ mn mx => decide (mn ≤ mx)
  | .seq mn mx ps => decide (mn ≤ mx) && wfList ps
  | .choice mn mx ps => decide (mn ≤ mx) && wfList ps
def wfList : List Particle → Bool
  | [] => true
  | p :: ps => wf p && wfList ps
end

instance (k mn mx : Nat) : Decidable (repOK k mn mx) := by unfold repOK; infer_instance

/-- `sys.maxsize > 1` (the value is regenerated from the running interpreter) -/
theorem maxsize_gt_one : 1 < maxsize := by decide

/-! ### `processAttrPath` -/

def pathMaxProd : List PathE → Nat
  | [] => 1
  | e :: es => e.max * pathMaxProd es

def pathMinProd : List PathE → Nat
  | [] => 1
  | e :: es => e.min * pathMinProd es

/-- the running minimum of the `min_occurs` of the choices on the path -/
def pathCMin : Option Nat → List PathE → Option Nat
  | c, [] => c
  | c, e :: es =>
    pathCMin (if e.kind = .c then
        (match c with
         | none => some e.min
         | some m => if e.min < m then some e.min else some m)
      else c) es

/-- the fold step of `processAttrPath`, as a top-level function -/
def pathStep (acc : Nat × Nat × Option Nat × Option Int × Option Nat) (e : PathE) :
    Nat × Nat × Option Nat × Option Int × Option Nat :=
  let (mn, mx, cmin, choice, sq) := acc
  let sq := if e.kind = .s && sq.isNone then some e.id else sq
  let choice := if e.kind = .c && choice.isNone then some (Int.ofNat e.id) else choice
  let cmin := if e.kind = .c then
      (match cmin with
       | none => some e.min
       | some m => if e.min < m then some e.min else some m)
    else cmin
  (mn * e.min, mx * e.max, cmin, choice, sq)

theorem processAttrPath_eq (s : Site) :
    processAttrPath s =
      (let (mn, mx, cmin, choice, sq) := s.path.foldl pathStep (1, 1, none, s.choice, s.sequence)
       let min' := s.min * mn
       let min' := match cmin with
         | some m => if m ≤ 1 then 0 else min'
         | none => min'
       { s with min := min', max := s.max * mx, choice := choice, sequence := sq }) := rfl

theorem foldl_pathStep (path : List PathE) : ∀ mn mx cmin ch sq,
    ∃ ch' sq', path.foldl pathStep (mn, mx, cmin, ch, sq) =
      (mn * pathMinProd path, mx * pathMaxProd path, pathCMin cmin path, ch', sq') := by
  induction path with
  | nil => intro mn mx cmin ch sq; exact ⟨ch, sq, by simp [pathMinProd, pathMaxProd, pathCMin]⟩
  | cons e es ih =>
    intro mn mx cmin ch sq
    simp only [List.foldl_cons, pathStep]
    obtain ⟨ch', sq', h⟩ := ih (mn * e.min) (mx * e.max)
      (if e.kind = .c then
        (match cmin with
         | none => some e.min
         | some m => if e.min < m then some e.min else some m)
      else cmin)
      (if e.kind = .c && ch.isNone then some (Int.ofNat e.id) else ch)
      (if e.kind = .s && sq.isNone then some e.id else sq)
    exact ⟨ch', sq', by rw [h]; simp [pathMinProd, pathMaxProd, pathCMin, Nat.mul_assoc]⟩

theorem processAttrPath_name (s : Site) : (processAttrPath s).name = s.name := by
  rw [processAttrPath_eq]

theorem processAttrPath_index (s : Site) : (processAttrPath s).index = s.index := by
  rw [processAttrPath_eq]

theorem processAttrPath_path (s : Site) : (processAttrPath s).path = s.path := by
  rw [processAttrPath_eq]

theorem one_le_mul {a b : Nat} (h : 1 ≤ a * b) : 1 ≤ a ∧ 1 ≤ b := by
  rcases Nat.eq_zero_or_pos a with rfl | ha
  · simp at h
  rcases Nat.eq_zero_or_pos b with rfl | hb
  · simp at h
  exact ⟨ha, hb⟩

theorem processAttrPath_max (s : Site) : (processAttrPath s).max = s.max * pathMaxProd s.path := by
  rw [processAttrPath_eq]
  obtain ⟨ch', sq', h⟩ := foldl_pathStep s.path 1 1 none s.choice s.sequence
  simp only [h, Nat.one_mul]

theorem processAttrPath_min (s : Site) : (processAttrPath s).min =
    (match pathCMin none s.path with
     | some m => if m ≤ 1 then 0 else s.min * pathMinProd s.path
     | none => s.min * pathMinProd s.path) := by
  rw [processAttrPath_eq]
  obtain ⟨ch', sq', h⟩ := foldl_pathStep s.path 1 1 none s.choice s.sequence
  simp only [h, Nat.one_mul]

/-- `none`, or a minimum `> 1` -/
def cminBig : Option Nat → Prop
  | none => True
  | some m => 1 < m

theorem pathCMin_big (path : List PathE) : ∀ c, cminBig (pathCMin c path) →
    cminBig c ∧ ∀ e ∈ path, e.kind = .c → 1 < e.min := by
  induction path with
  | nil => intro c h; exact ⟨h, by simp⟩
  | cons e es ih =>
    intro c h
    simp only [pathCMin] at h
    obtain ⟨h1, h2⟩ := ih _ h
    by_cases hk : e.kind = .c
    · simp only [hk, if_true] at h1
      cases c with
      | none =>
        simp only [cminBig] at h1
        refine ⟨trivial, ?_⟩
        intro e' he' hk'
        rcases List.mem_cons.1 he' with rfl | he'
        · exact h1
        · exact h2 e' he' hk'
      | some m =>
        simp only at h1
        by_cases hlt : e.min < m
        · simp only [hlt, if_true, cminBig] at h1
          refine ⟨by simp only [cminBig]; omega, ?_⟩
          intro e' he' hk'
          rcases List.mem_cons.1 he' with rfl | he'
          · exact h1
          · exact h2 e' he' hk'
        · simp only [hlt, if_false, cminBig] at h1
          refine ⟨by simpa only [cminBig] using h1, ?_⟩
          intro e' he' hk'
          rcases List.mem_cons.1 he' with rfl | he'
          · omega
          · exact h2 e' he' hk'
    · simp only [hk, if_false] at h1
      refine ⟨h1, ?_⟩
      intro e' he' hk'
      rcases List.mem_cons.1 he' with rfl | he'
      · exact absurd hk' hk
      · exact h2 e' he' hk'

/-- a positive `min` after `processAttrPath`: every factor is positive and every choice on the
path has `min_occurs ≥ 2` -/
theorem processAttrPath_min_pos (s : Site) (h : 1 ≤ (processAttrPath s).min) :
    1 ≤ s.min ∧ (∀ e ∈ s.path, 1 ≤ e.min) ∧ (∀ e ∈ s.path, e.kind = .c → 1 < e.min) := by
  rw [processAttrPath_min] at h
  have hpos : ∀ path : List PathE, 1 ≤ pathMinProd path → ∀ e ∈ path, 1 ≤ e.min := by
    intro path
    induction path with
    | nil => simp
    | cons e es ih =>
      intro hp e' he'
      simp only [pathMinProd] at hp
      obtain ⟨h1, h2⟩ := one_le_mul hp
      rcases List.mem_cons.1 he' with rfl | he'
      · exact h1
      · exact ih h2 e' he'
  have hbig : cminBig (pathCMin none s.path) ∧ 1 ≤ s.min * pathMinProd s.path := by
    cases hc : pathCMin none s.path with
    | none => simp only [hc] at h; exact ⟨trivial, h⟩
    | some m =>
      simp only [hc] at h
      by_cases hm : m ≤ 1
      · simp [hm] at h
      · simp only [hm, if_false] at h
        exact ⟨by simp only [cminBig]; omega, h⟩
  obtain ⟨hb, hprod⟩ := hbig
  obtain ⟨h1, h2⟩ := one_le_mul hprod
  exact ⟨h1, hpos _ h2, (pathCMin_big _ _ hb).2⟩

theorem calculatePaths_eq_map (ss : List Site) : calculatePaths ss = ss.map processAttrPath := by
  unfold calculatePaths
  apply List.map_congr_left
  intro s _
  by_cases hp : s.path.isEmpty
  · simp only [hp, if_true]
    have : s.path = [] := List.isEmpty_iff.1 hp
    obtain ⟨n, i, mn, mx, path, ch, sq⟩ := s
    simp only at this
    subst this
    simp [processAttrPath_eq]
  · simp [hp]

theorem calculatePaths_names (ss : List Site) :
    (calculatePaths ss).map (·.name) = ss.map (·.name) := by
  rw [calculatePaths_eq_map, List.map_map]
  apply List.map_congr_left
  intro s _
  exact processAttrPath_name s

/-! ### distinct names: the later stages are the identity -/

theorem length_filter_range_map {α β : Type} [BEq β] [LawfulBEq β] [DecidableEq β] (f : α → β) (l : List α) (b : β) :
    ((List.range l.length).filter (fun i => (l[i]?.map f) = some b)).length = (l.map f).count b := by
  induction l with
  | nil => simp
  | cons x xs ih =>
    rw [List.length_cons, List.range_succ_eq_map, List.filter_cons, List.filter_map, List.map_cons,
      List.count_cons]
    simp only [List.getElem?_cons_zero, Option.map_some, Option.some.injEq, Function.comp_def,
      List.getElem?_cons_succ, beq_iff_eq]
    by_cases hx : f x = b <;> simp [hx] <;> simpa using ih

theorem groupRepeating_nil (ss : List Site) (hn : (ss.map (·.name)).Nodup) :
    groupRepeating ss = [] := by
  unfold groupRepeating
  simp only
  rw [List.filterMap_eq_nil_iff]
  intro n _
  have hlen := length_filter_range_map (fun s : Site => s.name) ss n
  have hc : (ss.map (·.name)).count n ≤ 1 := List.nodup_iff_count.1 hn n
  rw [if_neg]
  omega

theorem effectiveChoice_nodup (ss : List Site) (hn : (ss.map (·.name)).Nodup) :
    effectiveChoice ss = ss := by
  unfold effectiveChoice
  simp [groupRepeating_nil ss hn]

theorem mergeDuplicates_foldl_nodup (l : List Site) : ∀ acc : List Site,
    ((acc ++ l).map (·.name)).Nodup →
    l.foldl (fun (acc : List Site) (a : Site) =>
      match acc.findIdx? (·.name = a.name) with
      | none => acc ++ [a]
      | some pos =>
        acc.mapIdx fun j e =>
          if j = pos then
            let minO := if e.min = 0 then 0 else e.min
            let maxO := if e.max = 0 then 1 else e.max
            let aMin := a.min
            let aMax := if a.max = 0 then 1 else a.max
            let exclusive := e.choice.isSome && a.choice.isSome && e.index ≠ a.index &&
              (e.choice = a.choice || e.path.length = a.path.length)
            { e with
              min := Nat.min minO aMin
              max := if exclusive then Nat.max maxO aMax else maxO + aMax
              sequence := if a.sequence.isSome then a.sequence else e.sequence }
          else e) acc = acc ++ l := by
  induction l with
  | nil => intro acc _; simp
  | cons a as ih =>
    intro acc hn
    rw [List.foldl_cons]
    have hnone : acc.findIdx? (fun x => decide (x.name = a.name)) = none := by
      rw [List.findIdx?_eq_none_iff]
      intro x hx
      simp only [decide_eq_false_iff_not]
      intro hxa
      rw [List.map_append, List.map_cons] at hn
      have := (List.nodup_append.1 hn).2.2 x.name (List.mem_map.2 ⟨x, hx, rfl⟩) a.name
        (List.mem_cons_self)
      exact this hxa
    simp only [hnone]
    have := ih (acc ++ [a]) (by simpa using hn)
    simpa using this

theorem mergeDuplicates_nodup (ss : List Site) (hn : (ss.map (·.name)).Nodup) :
    mergeDuplicates ss = ss := by
  unfold mergeDuplicates
  have := mergeDuplicates_foldl_nodup ss [] (by simpa using hn)
  rw [List.nil_append] at this
  exact this

/-- with pairwise distinct names only `CalculateAttributePaths` changes anything -/
theorem occurs_nodup (ss : List Site) (hn : (ss.map (·.name)).Nodup) :
    occurs ss = ss.map processAttrPath := by
  unfold occurs
  have hn' : ((calculatePaths ss).map (·.name)).Nodup := by rw [calculatePaths_names]; exact hn
  rw [effectiveChoice_nodup _ hn', mergeDuplicates_nodup _ hn', calculatePaths_eq_map]

/-! ### the `index` decoration of `sites` / `dtdSites` -/

def withIndex (raw : List Site) : List Site :=
  (List.range raw.length).zip raw |>.map fun (i, s) => { s with index := i }

theorem sites_eq (p : Particle) : sites p = withIndex (sitesAux p [] 1).1 := rfl
theorem dtdSites_eq (c : DtdContent) : dtdSites c = withIndex (buildContent c [] 1).1 := rfl

theorem withIndex_names (raw : List Site) : (withIndex raw).map (·.name) = raw.map (·.name) := by
  unfold withIndex
  rw [List.map_map]
  have : ((fun s : Site => s.name) ∘ fun (x : Nat × Site) => { x.2 with index := x.1 }) =
      (fun s : Site => s.name) ∘ Prod.snd := rfl
  rw [this, ← List.map_map, List.map_snd_zip]
  simp

theorem mem_withIndex {raw : List Site} {s : Site} (h : s ∈ withIndex raw) :
    ∃ s' ∈ raw, ∃ i, s = { s' with index := i } := by
  unfold withIndex at h
  obtain ⟨⟨i, s'⟩, hz, rfl⟩ := List.mem_map.1 h
  exact ⟨s', (List.of_mem_zip hz).2, i, rfl⟩

end Xs.Gen
