/- C16 — property theorems (only). -/
import XsdataModel.Gen.Occurs

namespace Props.C16
open Py Xs.Gen

end Props.C16
