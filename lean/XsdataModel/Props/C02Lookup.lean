/- C02 — which class a type name resolves to (`ProcessAttributeTypes.find_dependency`): property
theorems (only). Model and Spec: `Gen/TypeLookup`. -/
import XsdataModel.Gen.TypeLookup

namespace Props.C02Lookup
open Xs.Gen

theorem pick_some {cands : List CTag} {p : Nat → CTag → Bool} {i : Nat}
    (h : pickCand cands p = some i) :
    ∃ t, cands[i]? = some t ∧ p i t = true := by
  have := List.find?_some h
  cases hc : cands[i]? with
  | none => simp [hc] at this
  | some t => exact ⟨t, rfl, by simpa [hc] using this⟩

/-- the picked position is one of the candidates -/
theorem lookup_in_range (attrTag : CTag) (cands : List CTag) (isTarget : Nat → Bool) (i : Nat)
    (h : findDependency attrTag cands isTarget = some i) : ∃ t, cands[i]? = some t := by
  unfold findDependency at h
  split at h
  · rename_i j hj; cases h; obtain ⟨t, ht, _⟩ := pick_some hj; exact ⟨t, ht⟩
  · split at h
    · rename_i j hj; cases h; obtain ⟨t, ht, _⟩ := pick_some hj; exact ⟨t, ht⟩
    · split at h
      · rename_i j hj; cases h; obtain ⟨t, ht, _⟩ := pick_some hj; exact ⟨t, ht⟩
      · obtain ⟨t, ht, _⟩ := pick_some h; exact ⟨t, ht⟩

/-- **Without a clash the lookup is right**: when every component of that name is one the name may
denote (`type=`: type definitions; `ref=`: declarations of the attr's kind), the class picked is. -/
theorem lookup_sound_partial (attrTag : CTag) (src : NameSource) (cands : List CTag)
    (isTarget : Nat → Bool) (hall : ∀ t ∈ cands, denotes attrTag src t = true) (i : Nat)
    (h : findDependency attrTag cands isTarget = some i) :
    ∃ t, cands[i]? = some t ∧ denotes attrTag src t = true := by
  obtain ⟨t, ht⟩ := lookup_in_range attrTag cands isTarget i h
  exact ⟨t, ht, hall t (List.mem_of_getElem? ht)⟩

/-- the hypotheses are satisfiable: `type="x"` with the complex type `x` alone -/
example : ∃ t, [CTag.complexType][0]? = some t ∧ denotes .element .typeAttr t = true :=
  lookup_sound_partial .element .typeAttr [.complexType] (fun _ => false) (by decide) 0 (by decide)

/-- an element typed by the complex type of its own name: `type="x"` picks the type although the
element shares the name (the two are merged by `ClassValidator` anyway) -/
example : findDependency .element [.complexType, .element] (fun _ => false) = some 0 := by decide

/-- the statement without the no-clash hypothesis: whenever some component of that name is
denoted, the picked one is -/
def LookupSound : Prop :=
  ∀ (attrTag : CTag) (src : NameSource) (cands : List CTag) (isTarget : Nat → Bool) (i : Nat),
    (∃ t ∈ cands, denotes attrTag src t = true) → findDependency attrTag cands isTarget = some i →
    ∃ t, cands[i]? = some t ∧ denotes attrTag src t = true

/-- **Defect (finding `C02-same-name-type-and-element`)**: with a simple type `x` and a global
element `x`, `<xs:element name="u" type="x"/>` resolves to the *element* (an attr of tag Element
prefers a class of its own tag to a simple type). -/
theorem lookup_type_picks_element : ¬ LookupSound := by
  intro h
  obtain ⟨t, ht, hd⟩ := h .element .typeAttr [.simpleType, .element] (fun _ => false) 1
    ⟨.simpleType, by decide, by decide⟩ (by decide)
  simp at ht
  subst ht
  exact absurd hd (by decide)

/-- … and with a complex type `y` and a global element `y` of another content,
`<xs:element ref="y"/>` resolves to the *complex type* (first rule of the priority list). -/
theorem lookup_ref_picks_type : ¬ LookupSound := by
  intro h
  obtain ⟨t, ht, hd⟩ := h .element .refAttr [.complexType, .element] (fun _ => false) 0
    ⟨.element, by decide, by decide⟩ (by decide)
  simp at ht
  subst ht
  exact absurd hd (by decide)

end Props.C02Lookup
