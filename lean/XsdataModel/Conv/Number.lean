/-
L1 — FloatConverter and DecimalConverter.

`float(str)` and `Decimal(str)` are modelled as *grammars* that yield the exact
decimal value written in the string (`coeff × 10^exp`).  What CPython does with
that exact value afterwards (correct rounding to binary64, shortest `repr`) is
not modelled: it enters through `CEnv.floatRepr`.
-/
import XsdataModel.Conv.Basic

namespace Xs.Conv
open Py

/-- longest prefix of decimal digits (ASCII or Unicode `Nd`): values and rest -/
def spanDigits (e : Env) : Str → List Nat × Str
  | [] => ([], [])
  | c :: cs =>
    match e.decVal c with
    | some v => let r := spanDigits e cs; (v :: r.1, r.2)
    | none => ([], c :: cs)

def lowerAscii (c : Char) : Char :=
  if 65 ≤ c.toNat && c.toNat ≤ 90 then Char.ofNat (c.toNat + 32) else c

/-- ASCII-case-insensitive equality with a lower-case pattern -/
def ciEq (s pat : Str) : Bool := s.map lowerAscii == pat

/-- optional sign: (negative?, rest) -/
def takeSign : Str → Bool × Str
  | '-' :: r => (true, r)
  | '+' :: r => (false, r)
  | s => (false, s)

/-- optional fraction: `.` followed by digits -/
def fracPart (e : Env) : Str → List Nat × Str
  | '.' :: r => spanDigits e r
  | r => ([], r)

/-- optional exponent `[eE] [+-]? digits`, up to the end of the string -/
def expTail (e : Env) (ip fp : List Nat) : Str → Option (List Nat × List Nat × Int)
  | [] => some (ip, fp, 0)
  | c :: r3 =>
    if c = 'e' || c = 'E' then
      let sg := takeSign r3
      let ed := spanDigits e sg.2
      if ed.1.isEmpty || !ed.2.isEmpty then none
      else some (ip, fp, if sg.1 then -(Int.ofNat (digitsVal ed.1)) else Int.ofNat (digitsVal ed.1))
    else none

/-- `digits [. digits*] | . digits` then optional `[eE] [+-]? digits`, up to the
end of the string. Result: integer digits, fraction digits, exponent. -/
def parseDecimalBody (e : Env) (s : Str) : Option (List Nat × List Nat × Int) :=
  let ip := spanDigits e s
  let fp := fracPart e ip.2
  if ip.1.isEmpty && fp.1.isEmpty then none else expTail e ip.1 fp.1 fp.2

/-! ### float -/

/-- the exact value a float literal denotes, before rounding to binary64 -/
inductive FloatLit
  | fin (neg : Bool) (coeff : Nat) (exp : Int)
  | inf (neg : Bool)
  | nan
deriving DecidableEq, Repr

inductive Prev | other | digit | us
deriving DecidableEq

/-- `_Py_string_to_number_with_underscores`: an underscore must have a digit on
both sides; returns the string without underscores -/
def stripUnderscores (e : Env) : Str → Prev → Option Str
  | [], p => if p = .us then none else some []
  | c :: cs, p =>
    if c = '_' then (if p = .digit then stripUnderscores e cs .us else none)
    else
      let isD := (e.decVal c).isSome
      if p = .us && !isD then none
      else (stripUnderscores e cs (if isD then .digit else .other)).map (c :: ·)

/-- `float(s)` for a `str`: the literal it denotes; `none` = `ValueError` -/
def pyFloatLit (e : Env) (s : Str) : Option FloatLit :=
  match stripUnderscores e s .other with
  | none => none
  | some s1 =>
    let t := numStrip e s1
    let sg := takeSign t
    if ciEq sg.2 ['i', 'n', 'f'] || ciEq sg.2 ['i', 'n', 'f', 'i', 'n', 'i', 't', 'y'] then some (.inf sg.1)
    else if ciEq sg.2 ['n', 'a', 'n'] then some .nan
    else
      match parseDecimalBody e sg.2 with
      | some (ip, fp, ex) => some (.fin sg.1 (digitsVal (ip ++ fp)) (ex - fp.length))
      | none => none

/-- the Python float value, identified by its `repr` -/
structure PyFloat where
  repr : Str
deriving DecidableEq, Repr

/-- `FloatConverter.deserialize` for a `str`; `none` = `ConverterError` -/
def floatDeserialize (e : CEnv) (s : Str) : Option PyFloat :=
  match pyFloatLit e.toEnv s with
  | some _ => some ⟨e.floatRepr s⟩
  | none => none

def PyFloat.isNan (f : PyFloat) : Bool := f.repr = ['n', 'a', 'n']
def PyFloat.isInf (f : PyFloat) : Bool := f.repr = ['i', 'n', 'f'] || f.repr = ['-', 'i', 'n', 'f']

/-- `FloatConverter.serialize` -/
def floatSerialize (f : PyFloat) : Str :=
  if f.isNan then Tables.floatNaN
  else if f.repr = ['i', 'n', 'f'] then Tables.floatInf
  else if f.repr = ['-', 'i', 'n', 'f'] then Tables.floatNegInf
  else
    let u := if Tables.floatUsesUpper then f.repr.map upperAscii else f.repr
    replaceAll Tables.floatReplaceFrom Tables.floatReplaceTo u

/-- Python `==` on floats given by their reprs: equal reprs denote the same
double (except NaN), and `0.0 == -0.0` -/
def PyFloat.pyEq (a b : PyFloat) : Bool :=
  if a.isNan || b.isNan then false
  else a.repr = b.repr ||
    ((a.repr = ['0', '.', '0'] || a.repr = ['-', '0', '.', '0']) && (b.repr = ['0', '.', '0'] || b.repr = ['-', '0', '.', '0']))

/-! ### Decimal -/

/-- `decimal.Decimal` values as `as_tuple()` shows them -/
inductive Dec
  | fin (neg : Bool) (coeff : Nat) (exp : Int)
  | inf (neg : Bool)
  | nan (neg : Bool) (signaling : Bool) (diag : Nat)
deriving DecidableEq, Repr

/-- `Decimal(s)` for a `str`; `none` = `InvalidOperation` -/
def decimalParse (e : Env) (s : Str) : Option Dec :=
  let t := (e.strip s).filter (· ≠ '_')
  let sg := takeSign t
  let low := sg.2.map lowerAscii
  if low == ['i', 'n', 'f'] || low == ['i', 'n', 'f', 'i', 'n', 'i', 't', 'y'] then some (.inf sg.1)
  else if ['n', 'a', 'n'].isPrefixOf low then
    let d := spanDigits e (sg.2.drop 3)
    if d.2.isEmpty then some (.nan sg.1 false (digitsVal d.1)) else none
  else if ['s', 'n', 'a', 'n'].isPrefixOf low then
    let d := spanDigits e (sg.2.drop 4)
    if d.2.isEmpty then some (.nan sg.1 true (digitsVal d.1)) else none
  else
    match parseDecimalBody e sg.2 with
    | some (ip, fp, ex) => some (.fin sg.1 (digitsVal (ip ++ fp)) (ex - fp.length))
    | none => none

/-- `format(d, 'f')` -/
def formatF : Dec → Str
  | .fin neg coeff exp =>
    let exp' := if coeff = 0 && exp > 0 then 0 else exp
    let ds := natStr coeff
    let body :=
      if exp' ≥ 0 then ds ++ List.replicate exp'.toNat '0'
      else
        let k := (-exp').toNat
        if ds.length > k then ds.take (ds.length - k) ++ '.' :: ds.drop (ds.length - k)
        else '0' :: '.' :: (List.replicate (k - ds.length) '0' ++ ds)
    if neg then '-' :: body else body
  | .inf neg => if neg then ['-', 'I', 'n', 'f', 'i', 'n', 'i', 't', 'y'] else ['I', 'n', 'f', 'i', 'n', 'i', 't', 'y']
  | .nan neg sg diag =>
    (if neg then ['-'] else []) ++ (if sg then ['s'] else []) ++ ['N', 'a', 'N']
      ++ (if diag = 0 then [] else natStr diag)

/-- exponent limits of the decimal module: a finite value needs
`exp + ndigits - 1 ≤ MAX_EMAX` and `exp ≥ MIN_ETINY`, otherwise the constructor
signals `InvalidOperation` -/
def Dec.inRange : Dec → Bool
  | .fin _ coeff exp =>
    exp + ((natStr coeff).length : Int) - 1 ≤ Tables.decMaxEmax && Tables.decMinEtiny ≤ exp
  | _ => true

/-- `DecimalConverter.deserialize` for a `str` -/
def decimalDeserialize (e : Env) (s : Str) : Option Dec :=
  match decimalParse e s with
  | some d => if d.inRange then some d else none
  | none => none

/-- `DecimalConverter.serialize`:
`str(value).replace("Infinity", "INF") if value.is_infinite() else f"{value:f}"` -/
def decimalSerialize (d : Dec) : Str :=
  match d with
  | .inf neg =>
    replaceAll Tables.decInfFrom Tables.decInfTo (if neg then ['-', 'I', 'n', 'f', 'i', 'n', 'i', 't', 'y'] else ['I', 'n', 'f', 'i', 'n', 'i', 't', 'y'])
  | _ => if Tables.decFormatSpec = ['f'] then formatF d else []

/-- the signed integer `±coeff × 10^(exp - m)` for a common scale `m ≤ exp` -/
def scaled (neg : Bool) (coeff : Nat) (exp m : Int) : Int :=
  let v : Int := Int.ofNat (coeff * 10 ^ (exp - m).toNat)
  if neg then -v else v

/-- numeric comparison of two finite decimals: `a ≤ b` -/
def finLe (an : Bool) (ac : Nat) (ae : Int) (bn : Bool) (bc : Nat) (be : Int) : Bool :=
  let m := min ae be
  scaled an ac ae m ≤ scaled bn bc be m

/-- Python `==` on Decimals (quiet NaN compares unequal; signaling NaN is not modelled) -/
def Dec.pyEq : Dec → Dec → Bool
  | .fin an ac ae, .fin bn bc be => finLe an ac ae bn bc be && finLe bn bc be an ac ae
  | .inf a, .inf b => a = b
  | _, _ => false

end Xs.Conv
