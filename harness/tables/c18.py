"""More sections for Tables.lean. Each function gets the line writer `w`."""
import extract_tables as T
from extract_tables import chars, extra, lean_bool, nats, strs  # noqa: F401


# ---------------------------------------------------------------- C18 (pycode)
@extra
def c18_pycode(w):
    """Constants of the code serializer, obtained by probing the live
    functions (they are f-string pieces in the source, not named constants)."""
    import builtins
    import enum
    from xml.etree.ElementTree import QName

    from xsdata.formats.dataclass.serializers import code
    from xsdata.utils.objects import literal_value

    def around(text, probe, what):
        i = text.find(probe)
        if i < 0 or text.count(probe) != 1:
            raise RuntimeError(f"C18 tables: cannot locate {probe!r} in {what} {text!r}")
        return text[:i], text[i + len(probe):]

    w("-- xsdata/formats/dataclass/serializers/code.py, xsdata/utils/objects.py (C18)")
    w(f"def pycodeSpaces : List Char := {chars(code.spaces)}")
    pre, post = around(literal_value(float("inf")), "inf", "literal_value(inf)")
    w(f"def floatLitPre : List Char := {chars(pre)}")
    w(f"def floatLitPost : List Char := {chars(post)}")
    pre, post = around(literal_value(QName("X7")), "X7", "literal_value(QName)")
    w(f"def qnameLitPre : List Char := {chars(pre)}")
    w(f"def qnameLitPost : List Char := {chars(post)}")
    probe = type("N7", (), {})
    probe.__module__ = "M7"
    probe.__qualname__ = "N7"
    line = code.PycodeSerializer.build_imports({probe})
    a, rest = around(line, "M7", "build_imports")
    b, c = around(rest, "N7", "build_imports")
    w(f"def importPre : List Char := {chars(a)}")
    w(f"def importMid : List Char := {chars(b)}")
    w(f"def importPost : List Char := {chars(c)}")
    w(f"def qnameModule : List Char := {chars(QName.__module__)}")
    w(f"def qnameName : List Char := {chars(QName.__qualname__)}")
    from decimal import Decimal

    w(f"def decimalModule : List Char := {chars(Decimal.__module__)}")
    w(f"def decimalName : List Char := {chars(Decimal.__qualname__)}")
    w(f"def noneTypeName : List Char := {chars(type(None).__qualname__)}")
    ser = code.PycodeSerializer()

    def rendered(obj):
        return "".join(ser.repr_object(obj, 0, set()))

    E = enum.Enum("E7", {"A7": 1})
    a, rest = around(rendered(E.A7), "E7", "rendered Enum member")
    b, c = around(rest, "A7", "rendered Enum member")
    if a or c:
        raise RuntimeError("C18 tables: unexpected shape of a rendered Enum member")
    w(f"def enumStrSep : List Char := {chars(b)}")
    # a member of an enum nested in a class (fix 1242bcb: __qualname__)
    N = enum.Enum("E7", {"A7": 1}, qualname="O7.E7")
    w(f"def enumNestedProbe : List Char := {chars(rendered(N.A7))}")
    # layout of every array kind, empty and not (fix e20b710: tuples keep their brackets)
    probes = [(1,), [1], {1}, frozenset({1}), (), [], set(), frozenset(), {}, {1: 1}]
    w(f"def reprProbes : List (List Char) := {strs([rendered(o) for o in probes])}")
    # what literal_value puts between QName(" and ") for every ASCII character (fix 3837894: json.dumps)
    pre, post = around(literal_value(QName("X7")), "X7", "literal_value(QName)")
    esc = []
    for i in range(128):
        t = literal_value(QName(chr(i)))
        if not (t.startswith(pre) and t.endswith(post)):
            raise RuntimeError("C18 tables: unexpected literal_value(QName) shape")
        esc.append(t[len(pre):len(t) - len(post)])
    w(f"def qnameEscAscii : List (List Char) := {strs(esc)}")
    # ... and for lone surrogates (which no source file can hold raw)
    sur = []
    for cp in (0xD800, 0xDBFF, 0xDC00, 0xDFFF):
        t = literal_value(QName(chr(cp)))
        if not (t.startswith(pre) and t.endswith(post)):
            raise RuntimeError("C18 tables: unexpected literal_value(QName) shape")
        body = t[len(pre):len(t) - len(post)]
        # a raw surrogate cannot be written into Tables.lean: record it as "RAW"
        sur.append(body if body.isascii() else "RAW")
    w(f"def qnameEscSurrogates : List (List Char) := {strs(sur)}")
    # str.isprintable() on non-ASCII code points, as maximal ranges of unprintable ones (used by repr(str))
    import sys

    rs, start = [], None
    for cp in range(128, sys.maxunicode + 2):
        unprintable = cp <= sys.maxunicode and not chr(cp).isprintable()
        if unprintable and start is None:
            start = cp
        if not unprintable and start is not None:
            rs.append((start, cp - 1))
            start = None
    w("def unprintableRanges : List (Nat × Nat) := [" + ", ".join(f"({a}, {b})" for a, b in rs) + "]")
    # repr() of a few strings and bytes, to pin the model's quoting and escaping to the interpreter
    sprobes = ["", "a", "a'b", 'a"b', "a'b\"c", "\\", "\t\n\r", "\x00\x1f\x7f", "\x80\xa0\xad", "\xe9\u20ac", "\u2028\ufeff", "\U0001f600", "\U000e0001"]
    w(f"def strReprProbes : List (List Char × List Char) := [" + ", ".join(f"({chars(x)}, {chars(repr(x))})" for x in sprobes) + "]")
    bprobes = [b"", b"a", b"a'b", b'a"b', b"a'b\"c", b"\\", b"\t\n\r", b"\x00\x1f\x7f\x80\xff"]
    w("def bytesReprProbes : List (List Nat × List Char) := [" + ", ".join(f"({nats(list(x))}, {chars(repr(x))})" for x in bprobes) + "]")
    # how many brackets may be open at once before the tokenizer gives up ("too many nested parentheses")
    def compiles(n):
        try:
            compile("[" * n + "1" + "]" * n, "<c18-nesting-probe>", "eval")
            return True
        except (SyntaxError, MemoryError, RecursionError):
            return False

    lo, hi = 1, 100000
    while lo < hi:
        mid = (lo + hi + 1) // 2
        if compiles(mid):
            lo = mid
        else:
            hi = mid - 1
    w(f"def parserMaxNesting : Nat := {lo}")
    import keyword

    w(f"def pyKeywords : List (List Char) := {strs(keyword.kwlist)}")
    w(f"def builtinNames : List (List Char) := {strs(sorted(dir(builtins)))}")
    w("")
