"""More sections for Tables.lean. Each function gets the line writer `w`."""
import extract_tables as T
from extract_tables import chars, extra, lean_bool, nats, strs  # noqa: F401


# --------------------------------------------------------------------- C12
@extra
def c12_tables(w):
    """Priority table of ConverterFactory.sort_types, the python types of the
    XSD builtins, and the CLI options / defaults of GeneratorOutput."""
    import dataclasses
    import enum
    import os
    import sys

    sys.path.insert(0, os.path.dirname(os.path.abspath(__file__)))
    import c12_support as S
    from xsdata.formats import converter as C
    from xsdata.models.config import GeneratorOutput
    from xsdata.models.enums import DataType

    w("-- xsdata/formats/converter.py : __PYTHON_TYPES_SORTED__")
    w(
        "def pythonTypesSorted : List (List Char × Nat) := ["
        + ", ".join(f"({chars(t.__name__)}, {int(p)})" for t, p in C.__PYTHON_TYPES_SORTED__.items())
        + "]"
    )
    names = []
    for d in DataType:
        if d.type.__name__ not in names:
            names.append(d.type.__name__)
    w("-- xsdata/models/enums.py : python types of DataType members (what Attr.get_native_types can yield)")
    w(f"def dataTypeTypeNames : List (List Char) := {strs(names)}")
    w("")
    w("-- xsdata/utils/click.py : build_options(GeneratorOutput) -> (dest, kind)")
    opts = S.cli_options()
    w(
        "def cliOptions : List (List Char × List Char) := ["
        + ", ".join(f"({chars(d)}, {chars(k)})" for d, k, _o, _s in opts)
        + "]"
    )

    def flat(obj, prefix=""):
        for f in dataclasses.fields(obj):
            v = getattr(obj, f.name)
            if dataclasses.is_dataclass(v):
                yield from flat(v, prefix + f.name + "__")
            else:
                yield prefix + f.name, (v.value if isinstance(v, enum.Enum) else v)

    defaults = dict(flat(GeneratorOutput()))
    w("-- xsdata/models/config.py : defaults of the CLI-settable fields of GeneratorOutput()")
    w(
        "def cliDefaults : List (List Char × List Char) := ["
        + ", ".join(f"({chars(d)}, {chars(str(defaults[d]))})" for d, _k, _o, _s in opts)
        + "]"
    )
    w("")
