/- C15 — bad input fails cleanly: property theorems (only).
   Helper lemmas: `Proofs/C15NoLeak.lean`; concrete data: `Proofs/C15Witness.lean`. -/
import XsdataModel.Proofs.C15NoLeak
import XsdataModel.Proofs.C15Union
import XsdataModel.Proofs.C15Witness
import XsdataModel.Fault.Doc
import XsdataModel.Proofs.C15Dict

namespace Props.C15
open Py Xs.Bind Xs.Fault Proofs.C15

/-! ## XML: tree level (`NodeParser` + nodes + `ParserUtils`) -/

/-- **no_leak_parse.** For every environment whose `is_ncname` rejects the empty string,
every class universe `Γ` (arbitrary exported metadata — no well-formedness of the
metadata is assumed), every parser configuration, every target class and EVERY element
tree, `NodeParser.parse` never ends in an exception type outside the documented set. -/
theorem no_leak_parse (e : BEnv) (he : e.isNCName [] = false) (Γ : Ctx) (cfg : ParserConfig)
    (c : ClassId) (t : Tree) (pyType : String) :
    parseRoot e Γ cfg c t ≠ .error (.leaked pyType) :=
  (parseRoot_clean e he Γ cfg c t).not_leaked pyType

example : Witness.env.isNCName [] = false := rfl

/-- **parse_outcome.** The exact list of outcomes of the tree-level parser: a value, or
`ParserError`, `ConverterError`, `XmlContextError`, or the model's marker `unsupported`
(the input left the modelled fragment: union nodes, callable defaults other than
list/tuple/dict, builtin datatypes other than str/int/bool/QName behind `xsi:type`,
list/dict values below a wildcard).  In particular never `SerializerError`. -/
theorem parse_outcome (e : BEnv) (he : e.isNCName [] = false) (Γ : Ctx) (cfg : ParserConfig)
    (c : ClassId) (t : Tree) :
    (∃ v w, parseRoot e Γ cfg c t = .ok (v, w)) ∨
    (∃ m, parseRoot e Γ cfg c t = .error (.parser m)) ∨
    parseRoot e Γ cfg c t = .error .converter ∨
    (∃ m, parseRoot e Γ cfg c t = .error (.context m)) ∨
    (∃ m, parseRoot e Γ cfg c t = .error (.unsupported m)) := by
  have h := parseRoot_clean e he Γ cfg c t
  cases hr : parseRoot e Γ cfg c t with
  | ok vw => exact .inl ⟨vw.1, vw.2, rfl⟩
  | error err =>
    rw [hr] at h
    cases err with
    | parser m => exact .inr (.inl ⟨m, rfl⟩)
    | converter => exact .inr (.inr (.inl rfl))
    | context m => exact .inr (.inr (.inr (.inl ⟨m, rfl⟩)))
    | unsupported m => exact .inr (.inr (.inr (.inr ⟨m, rfl⟩)))
    | serializer m => cases h
    | leaked m => cases h

/-- every documented class of `parse_outcome` is inhabited by a concrete faulty document
of a one-class universe (so the disjunction cannot be sharpened) -/
example :
    (parseRoot Witness.env Witness.ctx {} "Root".toList Witness.docValid).toBool = true ∧
    parseRoot Witness.env Witness.ctx {} "Root".toList Witness.docMissing = .error (.parser "Failed to create") ∧
    parseRoot Witness.env Witness.ctx {} "Root".toList Witness.docUnknown = .error (.parser "Unknown property") ∧
    parseRoot Witness.env Witness.ctx {} "Root".toList Witness.docBadXsi = .error .converter ∧
    parseRoot Witness.env Witness.ctx {} "Root".toList Witness.docNested
      = .error (.context "Primitive node doesn't support child nodes!") ∧
    parseRoot Witness.env Witness.ctx Witness.strict "Root".toList Witness.docMistyped
      = .error (.parser "Failed to convert value") :=
  ⟨rfl, rfl, rfl, rfl, rfl, rfl⟩

/-- The hypothesis of `no_leak_parse` is needed: were `is_ncname("")` true, the document
`<Root xsi:type=":"/>` would take `ParserUtils.xsi_type` into `build_qname(None, "")`,
whose `ValueError` nobody catches. -/
theorem no_leak_parse_needs_ncname :
    Witness.envBad.isNCName [] = true ∧
    parseRoot Witness.envBad Witness.ctx {} "Root".toList Witness.docColon = .error (.leaked "ValueError") :=
  ⟨rfl, rfl⟩

/- Totality ("never hang") is not a theorem here: `parseNode`/`parseKids`/`parseWild` (and their union-aware
   versions) are structurally recursive Lean functions, accepted without `partial` and without fuel, so a result
   exists for every input by construction; on the real code bounded time is a per-case cap in the check. -/

/-! ## XML: byte level (`NodeParser.parse` around a tokenizer) -/

/-- **no_leak_document.** Whatever the tokenizer does with the bytes — events, its
`SyntaxError`, or the `LookupError`/`ValueError` of the python codecs for an encoding expat
does not know (translated in `handlers/native.py` since the follow-up repair) — only
documented errors come out of `XmlParser(handler=XmlEventHandler)`.  (Before the repair this
was `no_leak_document_partial` + a counterexample for `encoding="UTF78"`.) -/
theorem no_leak_document (e : BEnv) (he : e.isNCName [] = false) (Γ : Ctx) (cfg : ParserConfig)
    (c : ClassId) (tok : Tok) (py : String) :
    parseDocument e Γ cfg c tok ≠ .error (.leaked py) := by
  cases tok with
  | tree t => exact (parseRootU_clean e he Γ cfg c t).not_leaked py
  | syntaxError => intro h; cases h
  | codecError s => intro h; cases h
  | includeError => intro h; cases h
  | stopped => intro h; cases h
  | textDecodeError => intro h; cases h

/-- every tokenizer outcome is inhabited and maps where it should -/
example :
    parseDocument Witness.env Witness.ctx {} "Root".toList (.tree Witness.docMissing) = .error (.parser "Failed to create") ∧
    parseDocument Witness.env Witness.ctx {} "Root".toList .syntaxError = .error (.parser "syntax error") ∧
    parseDocument Witness.env Witness.ctx {} "Root".toList (.codecError "LookupError") = .error (.parser "codec error") ∧
    parseDocument Witness.env Witness.ctx {} "Root".toList .includeError = .error (.parser "xinclude error") :=
  ⟨rfl, rfl, rfl, rfl⟩

/-- **malformed_rejected.** Every way a tokenizer can fail to deliver a complete event stream — the
`SyntaxError` of expat / libxml2, the codec errors of pyexpat's unknown-encoding callback, a failed
xinclude, libxml2 stopping before the root element ends, character data lxml cannot decode — is
reported as `ParserError`, whatever the universe, configuration and target class: a document that
is not well-formed never yields an object and never another error type. -/
theorem malformed_rejected (e : BEnv) (Γ : Ctx) (cfg : ParserConfig) (c : ClassId) (tok : Tok)
    (h : ∀ t, tok ≠ .tree t) : ∃ m, parseDocument e Γ cfg c tok = .error (.parser m) := by
  cases tok with
  | tree t => exact absurd rfl (h t)
  | syntaxError => exact ⟨_, rfl⟩
  | codecError s => exact ⟨_, rfl⟩
  | includeError => exact ⟨_, rfl⟩
  | stopped => exact ⟨_, rfl⟩
  | textDecodeError => exact ⟨_, rfl⟩

example : ∀ t, Tok.codecError "LookupError" ≠ .tree t := fun _ h => by cases h

/-! ## JSON: `JsonParser.parse` / `DictDecoder.decode`

State of the library after ca8f47f and the follow-up repairs (repo-patches 01–06): every
malformed or misfitting document ends in `ParserError` (or `ConverterError`). -/

/-- **no_leak_dict.** For every universe (arbitrary metadata), configuration, target
(`clazz` or `list[clazz]`) and EVERY loaded JSON value, `DictDecoder.decode` ends in a value
or a documented error — at any nesting depth.  (Before the repairs: `no_leak_dict_partial`
for flat documents on plain classes, and seven counterexamples.) -/
theorem no_leak_dict (e : BEnv) (Γ : Ctx) (cfg : ParserConfig) (fuel : Nat) (c : ClassId) (listOf : Bool)
    (data : J) (py : String) : decode e Γ cfg fuel c listOf data ≠ .error (.leaked py) :=
  (decode_clean e Γ cfg fuel c listOf data).not_leaked py

/-- the same without a target class (`decode(data)` → `detect_type`) -/
theorem no_leak_dict_auto (e : BEnv) (Γ : Ctx) (cfg : ParserConfig) (fuel : Nat) (data : J) (py : String) :
    decodeAuto e Γ cfg fuel data ≠ .error (.leaked py) :=
  (decodeAuto_clean e Γ cfg fuel data).not_leaked py

/-- **no_leak_json.** `JsonParser.parse`: whatever `json.load` does with the bytes
(a value, JSONDecodeError, UnicodeDecodeError, the integer digit limit, RecursionError) and
whatever shape the loaded value has, only documented errors come out. -/
theorem no_leak_json (e : BEnv) (Γ : Ctx) (cfg : ParserConfig) (fuel : Nat) (c : ClassId) (listOf : Bool)
    (l : Loaded) (py : String) : parseJson e Γ cfg fuel c listOf l ≠ .error (.leaked py) :=
  (parseJson_clean e Γ cfg fuel c listOf l).not_leaked py

theorem no_leak_json_auto (e : BEnv) (Γ : Ctx) (cfg : ParserConfig) (fuel : Nat) (l : Loaded) (py : String) :
    parseJsonAuto e Γ cfg fuel l ≠ .error (.leaked py) :=
  (parseJsonAuto_clean e Γ cfg fuel l).not_leaked py

/-- … and never a SerializerError -/
theorem dict_no_serializer_error (e : BEnv) (Γ : Ctx) (cfg : ParserConfig) (fuel : Nat) (c : ClassId) (listOf : Bool)
    (data : J) (m : String) : decode e Γ cfg fuel c listOf data ≠ .error (.serializer m) :=
  (decode_clean e Γ cfg fuel c listOf data).not_serializer m

/-- the former leaking documents, one per repaired site, now end in `ParserError` (and the
wrapped field given under its own name is accepted): the theorems above are not vacuous on them -/
example :
    decode Witness.env Witness.jctx {} 16 Witness.Doc false (Witness.o [("x", Witness.o [("a", .int 1)])])
      = .error (.parser "Failed to bind object to a field of primitive type") ∧
    decode Witness.env Witness.jctx {} 16 Witness.Doc false (Witness.o [("at", .int 5)])
      = .error (.parser "Failed to bind value to the attributes field") ∧
    decode Witness.env Witness.jctx {} 16 Witness.Doc false (Witness.o [("at", .str ['s'])])
      = .error (.parser "Failed to bind value to the attributes field") ∧
    decode Witness.env Witness.jctx {} 16 Witness.Doc false (Witness.o [("t", .arr [.null])])
      = .error (.parser "Failed to bind value: null item in a list of tokens") ∧
    (decode Witness.env Witness.jctx {} 16 Witness.Doc false (Witness.o [("b", .arr [.str ['a']])])).toBool = true ∧
    (decode Witness.env Witness.jctx {} 16 Witness.Doc false (Witness.o [("items", Witness.o [("b", .arr [.str ['a']])])])).toBool = true ∧
    decode Witness.env Witness.jctx {} 16 Witness.Doc false
      (Witness.o [("x", Witness.o [("qname", .str ['q']), ("type", .arr [.int 1]), ("value", Witness.o [])])])
      = .error (.parser "Unable to locate xsi:type") ∧
    parseJson Witness.env Witness.jctx {} 16 Witness.Doc false .recursionError = .error (.parser "RecursionError") :=
  ⟨rfl, rfl, rfl, rfl, rfl, rfl, rfl, rfl⟩

/-- **json_malformed_rejected.** Text that is not JSON, bytes that are not UTF-8, integer
literals beyond the digit limit and documents nested beyond the recursion limit are reported
as `ParserError`. -/
theorem json_malformed_rejected (e : BEnv) (Γ : Ctx) (cfg : ParserConfig) (fuel : Nat) (c : ClassId) (listOf : Bool) :
    (∃ m, parseJson e Γ cfg fuel c listOf .decodeError = .error (.parser m)) ∧
    (∃ m, parseJson e Γ cfg fuel c listOf .unicodeError = .error (.parser m)) ∧
    (∃ m, parseJson e Γ cfg fuel c listOf .intLimit = .error (.parser m)) ∧
    (∃ m, parseJson e Γ cfg fuel c listOf .recursionError = .error (.parser m)) :=
  ⟨⟨_, rfl⟩, ⟨_, rfl⟩, ⟨_, rfl⟩, ⟨_, rfl⟩⟩

/-- **non_object_rejected.** A document that is not a JSON object (scalar, null, array for a
class target; object for a `list[class]` target; any non-object item of the array) is
reported as `ParserError` (repaired in ca8f47f; before: AttributeError). -/
theorem non_object_rejected (e : BEnv) (Γ : Ctx) (cfg : ParserConfig) (fuel : Nat) (c : ClassId) (data : J)
    (h : data.isObj = false) :
    (∃ m, decode e Γ cfg (fuel + 1) c false data = .error (.parser m)) ∧
    (∃ m, decode e Γ cfg (fuel + 1) c true (.arr [data]) = .error (.parser m)) := by
  cases data <;> simp [J.isObj] at h <;>
    exact ⟨⟨_, rfl⟩, ⟨_, rfl⟩⟩

/-- a document whose first item is not an object is a `ParserError` for `detect_type` too -/
theorem detect_type_non_object_rejected (e : BEnv) (Γ : Ctx) (cfg : ParserConfig) (fuel : Nat) (data : J) (rest : List J)
    (h : data.isObj = false) :
    (∃ m, decodeAuto e Γ cfg fuel (.arr (data :: rest)) = .error (.parser m)) ∧
    (data.isArr = false → ∃ m, decodeAuto e Γ cfg fuel data = .error (.parser m)) := by
  constructor
  · cases data <;> simp [J.isObj] at h <;> exact ⟨_, rfl⟩
  · intro ha
    cases data <;> simp [J.isObj] at h <;> simp [J.isArr] at ha <;>
      (unfold decodeAuto; split <;> exact ⟨_, rfl⟩)

/-! ## the hypotheses of the theorems above are satisfiable (concrete non-trivial instances) -/

/-- the hypotheses of `non_object_rejected` / `detect_type_non_object_rejected` hold of scalars,
null and arrays, and the conclusion is met on the witness universe -/
example : (J.int 5).isObj = false ∧ J.null.isObj = false ∧ (J.arr [.str ['a']]).isObj = false ∧
    (J.str ['s']).isArr = false ∧
    (decode Witness.env Witness.jctx {} 17 Witness.Doc false (.int 5)).toBool = false ∧
    (decode Witness.env Witness.jctx {} 17 Witness.Doc true (.arr [.null])).toBool = false ∧
    (decodeAuto Witness.env Witness.jctx {} 16 (.arr [.int 5, Witness.o []])).toBool = false := by
  decide

end Props.C15
