/- C13 helper lemmas: `reduce_classes` admits every class it was given. -/
import XsdataModel.Proofs.SamplesReduce

namespace Xs.Samples
open Py

/-! ### `group_by(classes, key=get_qname)` -/

structure GroupInv (L : List Cls) (G : List (Str × List Cls)) : Prop where
  keys : (G.map (·.1)).Nodup
  members : ∀ kv ∈ G, kv.2 ≠ [] ∧ ∀ c ∈ kv.2, c.qname = kv.1 ∧ c ∈ L
  covers : ∀ c ∈ L, ∃ kv ∈ G, kv.1 = c.qname ∧ c ∈ kv.2

def groupStep (acc : List (Str × List Cls)) (c : Cls) : List (Str × List Cls) :=
  if acc.any (fun kv => kv.1 = c.qname) then acc.map (fun kv => if kv.1 = c.qname then (kv.1, kv.2 ++ [c]) else kv)
  else acc ++ [(c.qname, [c])]

theorem groupByQName_eq (classes : List Cls) : groupByQName classes = classes.foldl groupStep [] := rfl

theorem groupStep_inv {L : List Cls} {G : List (Str × List Cls)} (c : Cls) (h : GroupInv L G) :
    GroupInv (L ++ [c]) (groupStep G c) := by
  simp only [groupStep]
  by_cases hany : G.any (fun kv => kv.1 = c.qname) = true
  · simp only [hany, if_true]
    have hkeys : (G.map (fun kv => if kv.1 = c.qname then (kv.1, kv.2 ++ [c]) else kv)).map (·.1) = G.map (·.1) := by
      simp only [List.map_map]
      apply List.map_congr_left
      intro kv _
      simp only [Function.comp]
      split <;> rfl
    refine ⟨by rw [hkeys]; exact h.keys, ?_, ?_⟩
    · intro kv hkv
      simp only [List.mem_map] at hkv
      obtain ⟨kv0, hkv0, rfl⟩ := hkv
      have hm := h.members kv0 hkv0
      split
      · rename_i heq
        refine ⟨by simp, ?_⟩
        intro c' hc'
        simp only [List.mem_append, List.mem_singleton] at hc'
        rcases hc' with hc' | rfl
        · exact ⟨(hm.2 c' hc').1, by simp [(hm.2 c' hc').2]⟩
        · exact ⟨heq.symm, by simp⟩
      · exact ⟨hm.1, fun c' hc' => ⟨(hm.2 c' hc').1, by simp [(hm.2 c' hc').2]⟩⟩
    · intro c' hc'
      simp only [List.mem_append, List.mem_singleton] at hc'
      rcases hc' with hc' | rfl
      · obtain ⟨kv, hkv, hk, hmem⟩ := h.covers c' hc'
        refine ⟨_, List.mem_map.2 ⟨kv, hkv, rfl⟩, ?_⟩
        split
        · exact ⟨hk, by simp [hmem]⟩
        · exact ⟨hk, hmem⟩
      · simp only [List.any_eq_true, decide_eq_true_eq] at hany
        obtain ⟨kv, hkv, hk⟩ := hany
        refine ⟨_, List.mem_map.2 ⟨kv, hkv, rfl⟩, ?_⟩
        simp [hk]
  · simp only [hany, Bool.false_eq_true, if_false]
    have hnone : ∀ kv ∈ G, kv.1 ≠ c.qname := by
      intro kv hkv heq
      apply hany
      simp only [List.any_eq_true, decide_eq_true_eq]
      exact ⟨kv, hkv, heq⟩
    refine ⟨?_, ?_, ?_⟩
    · simp only [List.map_append, List.map_cons, List.map_nil]
      rw [List.nodup_append]
      refine ⟨h.keys, by simp, ?_⟩
      intro a ha b hb
      simp only [List.mem_singleton] at hb
      subst hb
      simp only [List.mem_map] at ha
      obtain ⟨kv, hkv, rfl⟩ := ha
      exact hnone kv hkv
    · intro kv hkv
      simp only [List.mem_append, List.mem_singleton] at hkv
      rcases hkv with hkv | rfl
      · have hm := h.members kv hkv
        exact ⟨hm.1, fun c' hc' => ⟨(hm.2 c' hc').1, by simp [(hm.2 c' hc').2]⟩⟩
      · exact ⟨by simp, fun c' hc' => by simp at hc'; subst hc'; simp⟩
    · intro c' hc'
      simp only [List.mem_append, List.mem_singleton] at hc'
      rcases hc' with hc' | rfl
      · obtain ⟨kv, hkv, hk, hmem⟩ := h.covers c' hc'
        exact ⟨kv, by simp [hkv], hk, hmem⟩
      · exact ⟨(c'.qname, [c']), by simp, rfl, by simp⟩

theorem group_fold_inv (rest : List Cls) : ∀ (L : List Cls) (G : List (Str × List Cls)), GroupInv L G →
    GroupInv (L ++ rest) (rest.foldl groupStep G) := by
  induction rest with
  | nil => intro L G h; simpa using h
  | cons c rest ih =>
    intro L G h
    have := ih (L ++ [c]) (groupStep G c) (groupStep_inv c h)
    simpa using this

theorem groupByQName_inv (classes : List Cls) : GroupInv classes (groupByQName classes) := by
  have h0 : GroupInv [] [] := ⟨by simp, by simp, by simp⟩
  simpa [groupByQName_eq] using group_fold_inv classes [] [] h0

/-! the group of the first class keeps it at its head (used by `Props.C13.nillable_first_occurrence_partial`) -/

theorem groupStep_head (first c : Cls) (xs : List Cls) (G : List (Str × List Cls)) :
    ∃ xs' G', groupStep ((first.qname, first :: xs) :: G) c = (first.qname, first :: xs') :: G' := by
  simp only [groupStep]
  split
  · simp only [List.map_cons]
    split
    · exact ⟨xs ++ [c], _, rfl⟩
    · exact ⟨xs, _, rfl⟩
  · exact ⟨xs, G ++ [(c.qname, [c])], rfl⟩

theorem group_fold_head (first : Cls) (rest : List Cls) : ∀ (xs : List Cls) (G : List (Str × List Cls)),
    ∃ xs' G', rest.foldl groupStep ((first.qname, first :: xs) :: G) = (first.qname, first :: xs') :: G' := by
  induction rest with
  | nil => intro xs G; exact ⟨xs, G, rfl⟩
  | cons c rest ih =>
    intro xs G
    obtain ⟨xs', G', h⟩ := groupStep_head first c xs G
    simp only [List.foldl_cons, h]
    exact ih xs' G'

/-! ### retyping does not disturb admission -/

theorem admitsAttrs_map (g : Attr → Attr) (hg : ∀ a, (g a).tag = a.tag ∧ (g a).name = a.name ∧ (g a).ns = a.ns ∧
    (g a).min = a.min ∧ (g a).max = a.max) (R occ : List Attr) :
    admitsAttrs (R.map g) occ = admitsAttrs R occ := by
  have hsame : ∀ m a, (g m).same a = m.same a := by
    intro m a; simp [Attr.same, (hg m).1, (hg m).2.1, (hg m).2.2.1]
  have hsame' : ∀ m a : Attr, a.same (g m) = a.same m := by
    intro m a; simp [Attr.same, (hg m).1, (hg m).2.1, (hg m).2.2.1]
  simp only [admitsAttrs]
  congr 1
  · apply List.all_congr rfl
    intro a
    rw [List.find?_map]
    simp only [Function.comp_def, hsame]
    cases R.find? (fun m => m.same a) with
    | none => rfl
    | some m => simp [Attr.within, (hg m).2.2.2.1, (hg m).2.2.2.2]
  · rw [List.all_map]
    apply List.all_congr rfl
    intro m
    simp only [Function.comp, hsame', (hg m).2.2.2.1]


/-! ### `reduce_classes` -/

/-- the body of the loop of `reduce_classes` -/
def reduceGroup (kv : Str × List Cls) : Option Cls :=
  match kv.2 with
  | [] => none
  | first :: _ =>
    (reduceAttributes (kv.2.map (·.attrs))).map fun attrs =>
      { first with
        attrs := attrs.map (fun a => { a with types := filterTypes a.types })
        mixed := kv.2.any (·.mixed)
        nillable := kv.2.any (·.nillable) }

theorem reduceClasses_eq (classes : List Cls) : reduceClasses classes = (groupByQName classes).mapM reduceGroup := rfl

theorem mapM_option_some {α β : Type} (f : α → Option β) (G : List α) (h : ∀ a ∈ G, ∃ r, f a = some r) :
    ∃ rs, G.mapM f = some rs ∧ (∀ r ∈ rs, ∃ a ∈ G, f a = some r) ∧ (∀ a ∈ G, ∀ r, f a = some r → r ∈ rs) := by
  induction G with
  | nil => exact ⟨[], by simp, by simp, by simp⟩
  | cons a G ih =>
    obtain ⟨r, hr⟩ := h a (by simp)
    obtain ⟨rs, h1, h2, h3⟩ := ih (fun b hb => h b (by simp [hb]))
    refine ⟨r :: rs, by simp [List.mapM_cons, hr, h1], ?_, ?_⟩
    · intro r' hr'
      simp only [List.mem_cons] at hr'
      rcases hr' with rfl | hr'
      · exact ⟨a, by simp, hr⟩
      · obtain ⟨b, hb, hfb⟩ := h2 r' hr'
        exact ⟨b, by simp [hb], hfb⟩
    · intro b hb r' hfb
      simp only [List.mem_cons] at hb
      rcases hb with rfl | hb
      · rw [hr] at hfb; cases hfb; simp
      · simp [h3 b hb r' hfb]

theorem keys_unique {G : List (Str × List Cls)} (h : (G.map (·.1)).Nodup) {a b : Str × List Cls}
    (ha : a ∈ G) (hb : b ∈ G) (hk : a.1 = b.1) : a = b := by
  induction G with
  | nil => simp at ha
  | cons x xs ih =>
    simp only [List.map_cons, List.nodup_cons, List.mem_map, not_exists, not_and] at h
    simp only [List.mem_cons] at ha hb
    rcases ha with rfl | ha <;> rcases hb with rfl | hb
    · rfl
    · exact absurd hk.symm (h.1 b hb)
    · exact absurd hk (h.1 a ha)
    · exact ih h.2 ha hb

/-- `reduce_classes` does not crash on classes without duplicate attrs and its result admits each
of them -/
theorem reduceClasses_admits (classes : List Cls) (hn : ∀ c ∈ classes, NodupKeys c.attrs) :
    ∃ merged, reduceClasses classes = some merged ∧ ∀ c ∈ classes, admits merged c = true := by
  have hG := groupByQName_inv classes
  -- what one group reduces to
  have hgroup : ∀ kv ∈ groupByQName classes, ∃ r R, reduceGroup kv = some r ∧ r.qname = kv.1 ∧
      r.attrs = R.map (fun a => { a with types := filterTypes a.types }) ∧
      ∀ c ∈ kv.2, admitsAttrs R c.attrs = true := by
    intro kv hkv
    obtain ⟨hne, hmem⟩ := hG.members kv hkv
    have hnd : ∀ l ∈ kv.2.map (·.attrs), NodupKeys l := by
      intro l hl
      simp only [List.mem_map] at hl
      obtain ⟨c, hc, rfl⟩ := hl
      exact hn c (hmem c hc).2
    obtain ⟨R, hR, hadm⟩ := reduceAttributes_admits _ hnd
    cases hkv2 : kv.2 with
    | nil => exact absurd hkv2 hne
    | cons first tl =>
      refine ⟨_, R, by simp only [reduceGroup, hkv2]; rw [← hkv2, hR]; rfl, ?_, rfl, ?_⟩
      · exact (hmem first (by simp [hkv2])).1
      · intro c hc
        exact hadm c.attrs (by simp only [List.mem_map]; exact ⟨c, by rw [hkv2]; exact hc, rfl⟩)
  obtain ⟨merged, hm1, hm2, hm3⟩ := mapM_option_some reduceGroup (groupByQName classes)
    (fun kv hkv => by obtain ⟨r, _, hr, _⟩ := hgroup kv hkv; exact ⟨r, hr⟩)
  refine ⟨merged, by rw [reduceClasses_eq]; exact hm1, ?_⟩
  intro c hc
  obtain ⟨kv, hkv, hk, hcm⟩ := hG.covers c hc
  obtain ⟨r, R, hr, hrq, hra, hadm⟩ := hgroup kv hkv
  have hrm : r ∈ merged := hm3 kv hkv r hr
  simp only [admits]
  cases hf : merged.find? (fun m => m.qname = c.qname) with
  | none =>
    have := List.find?_eq_none.1 hf r hrm
    simp [hrq, hk] at this
  | some r' =>
    have hr'm := List.mem_of_find?_eq_some hf
    have hr'q : r'.qname = c.qname := by simpa using List.find?_some hf
    obtain ⟨kv', hkv', hr'⟩ := hm2 r' hr'm
    obtain ⟨r'', _, hr'', hr''q, _, _⟩ := hgroup kv' hkv'
    rw [hr'] at hr''; cases hr''
    have : kv' = kv := keys_unique hG.keys hkv' hkv (by rw [← hr''q, hr'q, hk])
    subst this
    rw [hr] at hr'; cases hr'
    simp only
    rw [hra, admitsAttrs_map (fun a => { a with types := filterTypes a.types }) (fun a => ⟨rfl, rfl, rfl, rfl, rfl⟩)]
    exact hadm c hcm

/-- the driver's `smp.e2e_*` verdict is a theorem -/
theorem allAdmitted_true (classes : List Cls) (hn : ∀ c ∈ classes, NodupKeys c.attrs) :
    allAdmitted classes = some true := by
  obtain ⟨merged, h1, h2⟩ := reduceClasses_admits classes hn
  simp only [allAdmitted, h1, Option.map_some, Option.some.injEq, List.all_eq_true]
  exact h2

theorem mapM_option_mem {α β : Type} (f : α → Option β) : ∀ (xs : List α) (rs : List β),
    xs.mapM f = some rs → ∀ r ∈ rs, ∃ x ∈ xs, f x = some r := by
  intro xs
  induction xs with
  | nil => intro rs h r hr; simp at h; subst h; simp at hr
  | cons x xs ih =>
    intro rs h r hr
    simp only [List.mapM_cons] at h
    cases hx : f x with
    | none => simp [hx] at h
    | some b =>
      cases hxs : xs.mapM f with
      | none => simp [hx, hxs] at h
      | some bs =>
        simp [hx, hxs] at h
        subst h
        simp only [List.mem_cons] at hr
        rcases hr with rfl | hr
        · exact ⟨x, by simp, hx⟩
        · obtain ⟨y, hy, hfy⟩ := ih bs hxs r hr
          exact ⟨y, by simp [hy], hfy⟩


theorem mapM_option_all {α β : Type} (f : α → Option β) : ∀ (xs : List α) (rs : List β),
    xs.mapM f = some rs → ∀ x ∈ xs, ∃ r ∈ rs, f x = some r := by
  intro xs
  induction xs with
  | nil => intro rs _ x hx; simp at hx
  | cons a xs ih =>
    intro rs h x hx
    simp only [List.mapM_cons] at h
    cases ha : f a with
    | none => simp [ha] at h
    | some b =>
      cases hxs : xs.mapM f with
      | none => simp [ha, hxs] at h
      | some bs =>
        simp [ha, hxs] at h
        subst h
        simp only [List.mem_cons] at hx
        rcases hx with rfl | hx
        · exact ⟨b, by simp, ha⟩
        · obtain ⟨r, hr, hfr⟩ := ih bs hxs x hx
          exact ⟨r, by simp [hr], hfr⟩

/-- what `reduce_classes` makes of one group: name and flags -/
theorem reduceGroup_flags {kv : Str × List Cls} {m : Cls} (h : reduceGroup kv = some m)
    (hq : ∀ c ∈ kv.2, c.qname = kv.1) :
    m.qname = kv.1 ∧ m.nillable = kv.2.any (·.nillable) ∧ m.mixed = kv.2.any (·.mixed) := by
  simp only [reduceGroup] at h
  cases hk : kv.2 with
  | nil => simp [hk] at h
  | cons first tl =>
    simp only [hk, Option.map_eq_some_iff] at h
    obtain ⟨attrs, _, rfl⟩ := h
    exact ⟨by simpa using hq first (by simp [hk]), rfl, rfl⟩

/-- the nillable (and mixed) flag of a reduced class is the disjunction over the occurrences of its name -/
theorem reduceClasses_flags (classes cs : List Cls) (h : reduceClasses classes = some cs) :
    (∀ c ∈ classes, ∃ m ∈ cs, m.qname = c.qname ∧ (c.nillable = true → m.nillable = true) ∧ (c.mixed = true → m.mixed = true)) ∧
    (∀ m ∈ cs, m.nillable = true → ∃ c ∈ classes, c.qname = m.qname ∧ c.nillable = true) := by
  have hG := groupByQName_inv classes
  rw [reduceClasses_eq] at h
  constructor
  · intro c hc
    obtain ⟨kv, hkv, hk, hcm⟩ := hG.covers c hc
    obtain ⟨m, hm, hfm⟩ := mapM_option_all reduceGroup _ cs h kv hkv
    obtain ⟨h1, h2, h3⟩ := reduceGroup_flags hfm (fun c' hc' => ((hG.members kv hkv).2 c' hc').1)
    refine ⟨m, hm, by rw [h1, hk], ?_, ?_⟩
    · intro hn; rw [h2, List.any_eq_true]; exact ⟨c, hcm, hn⟩
    · intro hn; rw [h3, List.any_eq_true]; exact ⟨c, hcm, hn⟩
  · intro m hm hn
    obtain ⟨kv, hkv, hfm⟩ := mapM_option_mem reduceGroup _ cs h m hm
    obtain ⟨h1, h2, _⟩ := reduceGroup_flags hfm (fun c' hc' => ((hG.members kv hkv).2 c' hc').1)
    rw [h2, List.any_eq_true] at hn
    obtain ⟨c, hc, hcn⟩ := hn
    exact ⟨c, ((hG.members kv hkv).2 c hc).2, by rw [h1]; exact ((hG.members kv hkv).2 c hc).1, hcn⟩

end Xs.Samples
