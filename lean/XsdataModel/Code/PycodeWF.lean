/-
Decidable side conditions used by the C18 theorems: well-formedness of a value
with respect to the classes that exist (`wf`), the property's own domain
(`domOK`, and `valOK`, the same predicate in the shape the induction uses),
and the one region in which the code serializer still does not round-trip
(`importsOK`: import name clashes).  All are `Bool` functions, so concrete inputs are checked by
`decide`.
-/
import XsdataModel.Code.Pycode

namespace Xs.Code
open Py

def nodupB : List Str → Bool
  | [] => true
  | x :: xs => !xs.contains x && nodupB xs

/-- the class can be reached from its module by the attribute walk
`Outer.Mid.Inner` (every enclosing class exists) -/
def reachable (W : World) (c : ClsRef) : Bool :=
  match c.path with
  | [] => false
  | h :: rest =>
    match walk W c.module [h] rest with
    | .ok _ => true
    | .error _ => false

def isModelWith (W : World) (c : ClsRef) (n : Nat) : Bool :=
  match W.find c with
  | some ⟨_, .model fs⟩ => n == fs.length && nodupB (fs.map (·.name))
  | _ => false

def isEnumWith (W : World) (c : ClsRef) (m : Str) : Bool :=
  match W.find c with
  | some ⟨_, .enum ms⟩ => ms.contains m
  | _ => false

mutual
/-- the value is an instance of classes that exist in `W`, shaped as they say -/
def wf (W : World) : Val → Bool
  | .model c attrs => isModelWith W c attrs.length && reachable W c && c.module != builtinsMod && wfL W attrs
  | .enum c m => isEnumWith W c m && reachable W c && c.module != builtinsMod
  | .opaque c _ _ _ => reachable W c && c.module != builtinsMod
  | .list xs => wfL W xs
  | .tuple xs => wfL W xs
  | .set _ xs => wfL W xs
  | .dict kvs => wfKV W kvs
  | _ => true
def wfL (W : World) : List Val → Bool
  | [] => true
  | x :: xs => wf W x && wfL W xs
def wfKV (W : World) : List (Val × Val) → Bool
  | [] => true
  | (k, v) :: r => wf W k && wf W v && wfKV W r
end

/-- attributes of `init=False` fields hold the class default -/
def initFalseOK : List FieldSpec → List Val → Bool
  | f :: fs, v :: vs => (f.init || elide f.dflt v) && initFalseOK fs vs
  | _, _ => true

def notNan : Option NumV → Bool
  | some .nan => false
  | some .snan => false
  | _ => true

mutual
/-- the region in which `PycodeSerializer` as it stands round-trips (implied
by `domOK`, see `valOK_of_dom`): no NaN, opaque values print their class by its
qualified name, dict keys and set elements are hashable, `init=False`
attributes are at their default. -/
def valOK (W : World) : Val → Bool
  | .enum _ m => enumNameOK m
  | .str t r => decodeStrLit r == some t
  | .bytes _ bs r => decodeBytesLit r == some bs
  | .float x r => x != .nan && f64Canonical x && r == x.repr
  | .opaque c callee _ n => notNan n && callee == c.path
  | .decimal d r => notNan (some (numOfDec d)) && r == decRepr d
  | .set _ xs => hashableL xs && valOKL W xs
  | .tuple xs => valOKL W xs
  | .list xs => valOKL W xs
  | .dict kvs => valOKKV W kvs
  | .model c attrs => initFalseOK (W.fieldsOf c) attrs && valOKL W attrs
  | _ => true
def valOKL (W : World) : List Val → Bool
  | [] => true
  | x :: xs => valOK W x && valOKL W xs
def valOKKV (W : World) : List (Val × Val) → Bool
  | [] => true
  | (k, v) :: r => hashable k && valOK W k && valOK W v && valOKKV W r
end

mutual
/-- the property's own domain: values for which "equal to the original" can
hold at all and that a constructor call can produce — a float is a value of
the binary64 format and its `repr` is the shortest one (`Xs.Conv.F64.repr`), the `repr` given for a
`str`/`bytes` denotes it (true of CPython's `repr`: `str_repr_roundtrips`, `bytes_repr_roundtrips`), no NaN, dict keys and
set elements hashable, opaque values print their
class by its qualified name -/
def domOK (W : World) : Val → Bool
  | .enum _ m => enumNameOK m
  | .str t r => decodeStrLit r == some t
  | .bytes _ bs r => decodeBytesLit r == some bs
  | .float x r => x != .nan && f64Canonical x && r == x.repr
  | .opaque c callee _ n => notNan n && callee == c.path
  | .decimal d r => notNan (some (numOfDec d)) && r == decRepr d
  | .tuple xs => domOKL W xs
  | .set _ xs => hashableL xs && domOKL W xs
  | .list xs => domOKL W xs
  | .dict kvs => domOKKV W kvs
  | .model _ attrs => domOKL W attrs
  | _ => true
def domOKL (W : World) : List Val → Bool
  | [] => true
  | x :: xs => domOK W x && domOKL W xs
def domOKKV (W : World) : List (Val × Val) → Bool
  | [] => true
  | (k, v) :: r => hashable k && domOK W k && domOK W v && domOKKV W r
end

mutual
/-- every attribute of an `init=False` field still holds the class default
(compared with `==`, as the serializer's own elision test does).  The renderer
skips these fields and the constructor call cannot set them, so an instance on
which such an attribute was changed after construction is *not* restored:
`Props.C18.init_false_attribute_not_restored`. -/
def initFalseAtDefault (W : World) : Val → Bool
  | .model c attrs => initFalseOK (W.fieldsOf c) attrs && initFalseAtDefaultL W attrs
  | .list xs => initFalseAtDefaultL W xs
  | .tuple xs => initFalseAtDefaultL W xs
  | .set _ xs => initFalseAtDefaultL W xs
  | .dict kvs => initFalseAtDefaultKV W kvs
  | _ => true
def initFalseAtDefaultL (W : World) : List Val → Bool
  | [] => true
  | x :: xs => initFalseAtDefault W x && initFalseAtDefaultL W xs
def initFalseAtDefaultKV (W : World) : List (Val × Val) → Bool
  | [] => true
  | (k, v) :: r => initFalseAtDefault W k && initFalseAtDefault W v && initFalseAtDefaultKV W r
end

/-- every import that binds the first name of a reference comes from the
module of the class the reference means -/
def importsOKe (e : PyExpr) : Bool :=
  e.refs.all fun pc => e.types.all fun t =>
    t.module == builtinsMod || t.path.headD [] != pc.1.headD [] || t.module == pc.2.module

def importsOK (W : World) (v : Val) : Bool := importsOKe (render W v)  -- implied by `renders W v` for well-formed values in the domain

/-- all references of `e` resolve in `env` to the classes they mean -/
def EnvGood (W : World) (env : Env) (refs : List (List Str × ClsRef)) : Prop :=
  ∀ pc ∈ refs, resolve W env pc.1 = .ok pc.2

end Xs.Code
