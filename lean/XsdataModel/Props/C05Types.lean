/- C05 — property theorems, part 2: the Xml* proxy converters, XmlDuration /
XmlPeriod, the binary wrapper classes, missing formats, `test()` soundness and
`DataType.from_value` against the lexical spaces. -/
import XsdataModel.Props.C05
import XsdataModel.Props.C06FormatParse

namespace Props.C05
open Py Xs.Conv Xs.Spec Xs.Dates

/-! ## `ProxyConverter` over XmlDate / XmlTime / XmlDateTime (C06's scanner) -/

/-- every valid `XmlDate` (any year, any offset up to ±14:00) is written by the
proxy converter as `str(value)` and read back as the same value -/
theorem xmldate_rt (e : CEnv) (kw : Kw) (v : XmlDate) (h : Props.C06.validDate v) :
    atomSerialize (.date v) kw = .ok (v.str, kw.nsMap) ∧
    atomDeserialize e .xmlDate v.str kw = some (.date v) := by
  refine ⟨rfl, ?_⟩
  simp [atomDeserialize, Props.C06.date_format_parse e.toEnv v h]

theorem xmltime_rt (e : CEnv) (kw : Kw) (v : XmlTime) (h : Props.C06.validTime v) :
    atomSerialize (.time v) kw = .ok (v.str, kw.nsMap) ∧
    atomDeserialize e .xmlTime v.str kw = some (.time v) := by
  refine ⟨rfl, ?_⟩
  simp [atomDeserialize, Props.C06.time_format_parse e.toEnv v h]

theorem xmldatetime_rt (e : CEnv) (kw : Kw) (v : XmlDateTime) (h : Props.C06.validDateTime v) :
    atomSerialize (.dateTime v) kw = .ok (v.str, kw.nsMap) ∧
    atomDeserialize e .xmlDateTime v.str kw = some (.dateTime v) := by
  refine ⟨rfl, ?_⟩
  simp [atomDeserialize, Props.C06.datetime_format_parse e.toEnv v h]

example : Props.C06.validDate ⟨2024, 2, 29, some (-300)⟩ := by
  refine ⟨by decide, ?_⟩
  intro x hx; cases hx; omega

/-! ## XmlDuration / XmlPeriod as field types -/

/-- a duration that was read from `s` is written as the stripped text, and that
text is read back as the same value -/
theorem duration_rt (e : CEnv) (kw : Kw) (s t : Str) (iv : TimeInterval)
    (h : XmlDuration.ofString e.toEnv s = some (t, iv)) :
    atomDeserialize e .xmlDuration s kw = some (.duration t) ∧
    atomSerialize (.duration t) kw = .ok (t, kw.nsMap) ∧
    atomDeserialize e .xmlDuration t kw = some (.duration t) := by
  unfold XmlDuration.ofString at h
  cases hp : parseInterval e.toEnv (e.toEnv.strip s) with
  | none => simp [hp] at h
  | some iv' =>
    simp only [hp, Option.map_some, Option.some.injEq, Prod.mk.injEq] at h
    obtain ⟨ht, _⟩ := h
    subst ht
    have hidem : e.toEnv.strip (e.toEnv.strip s) = e.toEnv.strip s := by
      rw [strip_eq_stripBy, strip_eq_stripBy]; exact stripBy_idem _ _
    refine ⟨?_, rfl, ?_⟩
    · simp [atomDeserialize, XmlDuration.ofString, hp]
    · simp [atomDeserialize, XmlDuration.ofString, hidem, hp]

/-- likewise for gYear / gYearMonth / gMonth / gMonthDay / gDay values -/
theorem period_rt (e : CEnv) (kw : Kw) (s t : Str) (p : TimePeriod)
    (h : XmlPeriod.ofString e.toEnv s = some (t, p)) :
    atomDeserialize e .xmlPeriod s kw = some (.period t) ∧
    atomSerialize (.period t) kw = .ok (t, kw.nsMap) ∧
    atomDeserialize e .xmlPeriod t kw = some (.period t) := by
  unfold XmlPeriod.ofString at h
  cases hp : parsePeriod e.toEnv (e.toEnv.strip s) with
  | none => simp [hp] at h
  | some p' =>
    simp only [hp, Option.map_some, Option.some.injEq, Prod.mk.injEq] at h
    obtain ⟨ht, _⟩ := h
    subst ht
    have hidem : e.toEnv.strip (e.toEnv.strip s) = e.toEnv.strip s := by
      rw [strip_eq_stripBy, strip_eq_stripBy]; exact stripBy_idem _ _
    refine ⟨?_, rfl, ?_⟩
    · simp [atomDeserialize, XmlPeriod.ofString, hp]
    · simp [atomDeserialize, XmlPeriod.ofString, hidem, hp]

example : XmlPeriod.ofString asciiCEnv.toEnv [' ', '-', '-', '1', '0', ' '] =
    some (['-', '-', '1', '0'], ⟨none, some 10, none, none⟩) := by decide

/-- `XmlPeriod` is in the strict list of `test()`, but `str(XmlPeriod(s))` is the
stripped input: the strict test accepts exactly what the lax one accepts -/
theorem test_strict_period (e : CEnv) (s : Str) (kw : Kw) :
    test e s [.xmlPeriod] true kw = test e s [.xmlPeriod] false kw := by
  simp only [test, deserialize, deserializeFrom, deserializeOne, atomDeserialize, XmlPeriod.ofString]
  cases parsePeriod e.toEnv (e.toEnv.strip s) <;> simp

/-! ## binary values: wrapper classes and formats -/

/-- `XmlHexBinary` / `XmlBase64Binary` as target types reach `BytesConverter` through the
MRO: same acceptance and same (plain `bytes`) result as `bytes`, still driven by `format` -/
theorem wrapper_types_read_as_bytes (e : CEnv) (s : Str) (kw : Kw) :
    atomDeserialize e .xmlHexBinary s kw = atomDeserialize e .bytes s kw ∧
    atomDeserialize e .xmlBase64Binary s kw = atomDeserialize e .bytes s kw := ⟨rfl, rfl⟩

/-- on output the wrapper class decides, whatever `format` says -/
theorem wrapper_kind_wins (bs : Bytes) (fmt : Option Str) :
    bytesSerialize .hex bs fmt = some (hexEncode bs) := by
  simp [bytesSerialize]

/-- a `bytes` value without wrapper class and without a known `format` cannot be
converted in either direction (`ConverterError`, never a guess) -/
theorem bytes_need_format (e : Env) (s : Str) (bs : Bytes) (fmt : Option Str)
    (h16 : fmt ≠ some Tables.fmtBase16) (h64 : fmt ≠ some Tables.fmtBase64) :
    bytesDeserialize e s fmt = none ∧ bytesSerialize .plain bs fmt = none := by
  simp [bytesDeserialize, bytesSerialize, h16, h64]

example : (none : Option Str) ≠ some Tables.fmtBase16 ∧ (some ['b', 'a', 's', 'e', '3', '2']) ≠ some Tables.fmtBase64 := by
  decide

/-! ## `test()` -/

/-- `test` is sound: whenever it answers `True`, `deserialize` succeeds on the same arguments -/
theorem test_sound (e : CEnv) (s : Str) (tys : List Ty) (strict : Bool) (kw : Kw)
    (h : test e s tys strict kw = true) : (deserialize e s tys kw).isSome = true := by
  unfold test at h
  cases hd : deserialize e s tys kw with
  | none => simp [hd] at h
  | some v => rfl

/-- the lax test is exactly "deserialize succeeds" -/
theorem test_lax_iff (e : CEnv) (s : Str) (tys : List Ty) (kw : Kw) :
    test e s tys false kw = (deserialize e s tys kw).isSome := by
  unfold test
  cases deserialize e s tys kw with
  | none => rfl
  | some v => cases v <;> rfl

/-- the strict test implies the lax one -/
theorem test_strict_implies_lax (e : CEnv) (s : Str) (tys : List Ty) (kw : Kw)
    (h : test e s tys true kw = true) : test e s tys false kw = true := by
  rw [test_lax_iff]; exact test_sound e s tys true kw h

/-- strict test on `float`: the input is `INF`/`-INF`/`NaN` (any accepted spelling)
or, up to surrounding white space, exactly the canonical spelling of the value read -/
theorem test_strict_float_sound (e : CEnv) (s : Str) (kw : Kw) (h : test e s [.float] true kw = true) :
    ∃ f, floatDeserialize e s = some f ∧ (f.isInf = true ∨ f.isNan = true ∨ e.strip s = floatSerialize f) := by
  simp only [test, deserialize, deserializeFrom, deserializeOne, atomDeserialize] at h
  cases hd : floatDeserialize e s with
  | none => simp [hd] at h
  | some f =>
    refine ⟨f, rfl, ?_⟩
    simp [hd] at h
    by_cases h1 : f.isInf = true
    · exact Or.inl h1
    · by_cases h2 : f.isNan = true
      · exact Or.inr (Or.inl h2)
      · simp [h1, h2] at h
        exact Or.inr (Or.inr h)

example : test asciiCEnv ['1', '.', '5'] [.float] false {} = true := by decide

/-! ## `DataType.from_value`: the inferred datatype's lexical space contains the serialised value -/

/-- lexical spaces of the datatypes `from_value` can infer for the modelled values
(codes as in `DataType.<X>.code`) -/
inductive InLexicalSpace : Str → Str → Prop
  | boolean (s : Str) (v : Bool) : XsdBoolean s v → InLexicalSpace ['b','o','o','l','e','a','n'] s
  | short (s : Str) (v : Int) : XsdInteger s v → -(2 ^ 15) ≤ v → v ≤ 2 ^ 15 - 1 → InLexicalSpace ['s','h','o','r','t'] s
  | int (s : Str) (v : Int) : XsdInteger s v → -(2 ^ 31) ≤ v → v ≤ 2 ^ 31 - 1 → InLexicalSpace ['i','n','t'] s
  | long (s : Str) (v : Int) : XsdInteger s v → -(2 ^ 63) ≤ v → v ≤ 2 ^ 63 - 1 → InLexicalSpace ['l','o','n','g'] s
  | integer (s : Str) (v : Int) : XsdInteger s v → InLexicalSpace ['i','n','t','e','g','e','r'] s
  | decimal (s : Str) (n : Bool) (c : Nat) (x : Int) : XsdDecimal s n c x → InLexicalSpace ['d','e','c','i','m','a','l'] s
  | float (s : Str) (l : FloatLit) : XsdDouble s l → InLexicalSpace ['f','l','o','a','t'] s
  | double (s : Str) (l : FloatLit) : XsdDouble s l → InLexicalSpace ['d','o','u','b','l','e'] s
  | hexBinary (s : Str) (bs : Bytes) : XsdHexBinary s bs → InLexicalSpace ['h','e','x','B','i','n','a','r','y'] s
  | base64Binary (s : Str) (bs : Bytes) : XsdBase64 s bs →
      InLexicalSpace ['b','a','s','e','6','4','B','i','n','a','r','y'] s
  | string (s : Str) : InLexicalSpace ['s','t','r','i','n','g'] s

/-- bool, int (all four integer datatypes), str -/
theorem from_value_lexical_bool_int_str (e : Env) :
    (∀ b, InLexicalSpace (fromValue e (.bool b)) (boolSerialize b)) ∧
    (∀ i, InLexicalSpace (fromValue e (.int i)) (intSerialize i)) ∧
    (∀ s, InLexicalSpace (fromValue e (.str s)) s) := by
  obtain ⟨hb, hs, _, _, _, _, _, hi⟩ := from_value_table e
  refine ⟨?_, ?_, ?_⟩
  · intro b; rw [hb]; exact .boolean _ b (bool_ser_valid b)
  · intro i
    rw [hi, int_datatype_narrowest]
    have hv := int_ser_valid i
    by_cases h1 : -(2 ^ 15) ≤ i ∧ i ≤ 2 ^ 15 - 1
    · rw [if_pos h1]; exact .short _ i hv h1.1 h1.2
    · rw [if_neg h1]
      by_cases h2 : -(2 ^ 31) ≤ i ∧ i ≤ 2 ^ 31 - 1
      · rw [if_pos h2]; exact .int _ i hv h2.1 h2.2
      · rw [if_neg h2]
        by_cases h3 : -(2 ^ 63) ≤ i ∧ i ≤ 2 ^ 63 - 1
        · rw [if_pos h3]; exact .long _ i hv h3.1 h3.2
        · rw [if_neg h3]; exact .integer _ i hv
  · intro s; rw [hs]; exact .string s

/-- finite Decimals -/
theorem from_value_lexical_decimal (e : Env) (neg : Bool) (c : Nat) (x : Int) :
    InLexicalSpace (fromValue e (.dec (.fin neg c x))) (decimalSerialize (.fin neg c x)) := by
  rw [(from_value_table e).2.2.1]
  exact .decimal _ _ _ _ (decimal_ser_valid neg c x)

/-- **not** for the non-finite Decimals: `Decimal('Infinity')` is announced as xs:decimal and
written `INF`, which is no xs:decimal lexical form (xs:decimal has no infinities; the value
is outside the value space the property ranges over) -/
theorem from_value_decimal_inf_not_lexical (e : Env) :
    fromValue e (.dec (.inf false)) = ['d','e','c','i','m','a','l'] ∧
    decimalSerialize (.inf false) = ['I', 'N', 'F'] ∧
    ¬ ∃ n c x, XsdDecimal ['I', 'N', 'F'] n c x := by
  refine ⟨(from_value_table e).2.2.1 _, by decide, ?_⟩
  rintro ⟨n, c, x, sg, ip, fp, dot, hs, hip, hfp, hne, _⟩
  -- the first character of an xs:decimal form is a sign, a digit or a point
  cases sg <;> cases ip with
  | nil =>
    cases dot
    · rcases hne with h | ⟨h, _⟩
      · exact h rfl
      · cases h
    · simp [Sign.str] at hs
  | cons a r =>
    simp [Sign.str] at hs
    first
      | (have := hip a (by simp); rw [← hs.1] at this; revert this; decide)
      | skip

/-- floats: finite values (through their `repr`) and the three special values -/
theorem from_value_lexical_float (e : Env) (r : Str) (lit : FloatLit) (h : PyReprFinite r lit) :
    InLexicalSpace (fromValue e (.float ⟨r⟩)) (floatSerialize ⟨r⟩) := by
  have hinf : Tables.dataTypeInferIndex.contains ['f', 'l', 'o', 'a', 't'] = true := by decide
  have hlit := (float_rt e r lit h).2
  have hv := float_ser_valid r lit h
  simp only [fromValue, Atom.typeName, hinf, if_true, hlit]
  unfold floatDatatype
  cases lit with
  | fin n c x =>
    simp only [Tables.floatDatatypeCodes, nthCode, List.getD_cons_zero, List.getD_cons_succ]
    split
    · exact .float _ _ hv
    · exact .double _ _ hv
  | inf n => exact .double _ _ hv
  | nan => exact .double _ _ hv

/-- the binary wrapper classes -/
theorem from_value_lexical_binary (e : Env) (bs : Bytes) (h : AllBytes bs) (fmt : Option Str) :
    (∃ s, bytesSerialize .hex bs fmt = some s ∧ InLexicalSpace (fromValue e (.bytes .hex bs)) s) ∧
    (∃ s, bytesSerialize .b64 bs none = some s ∧ InLexicalSpace (fromValue e (.bytes .b64 bs)) s) := by
  obtain ⟨_, _, _, _, hh, hb, _, _⟩ := from_value_table e
  refine ⟨⟨hexEncode bs, wrapper_kind_wins bs fmt, ?_⟩, ⟨b64Encode bs, ?_, ?_⟩⟩
  · rw [hh]; exact .hexBinary _ bs (hexEncode_valid bs h)
  · simp [bytesSerialize]
  · rw [hb]; exact .base64Binary _ bs (b64Encode_valid bs h)

/-! ## the hypotheses of the theorems above are satisfiable -/

-- xmltime_rt / xmldatetime_rt
example : Props.C06.validTime ⟨23, 59, 59, 500000000, some 840⟩ := by
  refine ⟨by decide, ?_⟩
  intro x hx; cases hx; omega

example : Props.C06.validDateTime ⟨-44, 3, 15, 0, 0, 0, 0, none⟩ := by
  refine ⟨by decide, by decide, ?_⟩
  intro x hx; cases hx

-- duration_rt
example : (XmlDuration.ofString asciiCEnv.toEnv [' ', 'P', '1', 'D', 'T', '2', 'H']).map (·.1) =
    some ['P', '1', 'D', 'T', '2', 'H'] := by decide

end Props.C05
