/-
Helper lemmas for C06: the hand model of `xml_duration_re` /
`XmlDuration._parse_interval` accepts every XSD-valid `xs:duration` lexical form
(`Spec/XsdDate.lean`) with the components XSD assigns.  Core Lean only.
-/
import XsdataModel.Proofs.DatesAccept
import XsdataModel.Lex.Period

namespace Proofs.DurationAccept
open Py Xs.Dates Xs.Spec Proofs.DatesFormatParse Proofs.DatesAccept
open Xs.Conv (AllDigits charVal AllXsdSpace Tight strip_xsd_pad)

/-! ### digit runs -/

/-- the remainder does not start with a digit -/
def NoDig (r : Str) : Prop := ∀ c, r.head? = some c → isAsciiDigit c = false

theorem noDig_nil : NoDig [] := by intro c hc; simp at hc

theorem noDig_cons {c : Char} (r : Str) (h : isAsciiDigit c = false) : NoDig (c :: r) := by
  intro d hd; simp at hd; subst hd; exact h

theorem digitRun_append (e : Env) (ds r : Str) (hd : AllD ds) (hr : NoDig r) :
    digitRun e (ds ++ r) = (ds, r) := by
  unfold digitRun reDigit
  induction ds with
  | nil =>
    cases r with
    | nil => rfl
    | cons c r' => simp [hr c rfl]
  | cons c t ih =>
    rw [AllD_cons] at hd
    have := ih hd.2
    simp only [List.cons_append, List.takeWhile_cons, List.dropWhile_cons, hd.1, if_true]
    simp only [Prod.mk.injEq] at this ⊢
    exact ⟨by rw [this.1], this.2⟩

/-- the designator a string starts with: the character after a non-empty digit run -/
def lead (s : Str) : Option Char :=
  if (s.takeWhile isAsciiDigit).isEmpty then none else (s.dropWhile isAsciiDigit).head?

theorem lead_nil : lead [] = none := rfl

theorem lead_nodigit {c : Char} (r : Str) (h : isAsciiDigit c = false) : lead (c :: r) = none := by
  simp [lead, h]

theorem lead_digits (ds : Str) (c : Char) (r : Str) (hd : AllD ds) (hne : ds ≠ [])
    (hc : isAsciiDigit c = false) : lead (ds ++ c :: r) = some c := by
  have := digitRun_append Env.ascii ds (c :: r) hd (noDig_cons r hc)
  unfold digitRun reDigit at this
  simp only [Prod.mk.injEq] at this
  unfold lead
  rw [this.1, this.2]
  cases ds with
  | nil => exact absurd rfl hne
  | cons _ _ => rfl

/-- `(?:(\d+)X)?` in terms of `lead` -/
theorem optGroup_hit (e : Env) (ds : Str) (x : Char) (r : Str) (hd : AllD ds) (hne : ds ≠ [])
    (hx : isAsciiDigit x = false) : optGroup e (ds ++ x :: r) x = (some ds, r) := by
  unfold optGroup
  rw [digitRun_append e ds (x :: r) hd (noDig_cons r hx)]
  cases ds with
  | nil => exact absurd rfl hne
  | cons a t => simp

theorem optGroup_miss (e : Env) (s : Str) (x : Char) (h : lead s ≠ some x) :
    optGroup e s x = (none, s) := by
  unfold optGroup digitRun reDigit
  unfold lead at h
  cases htw : s.takeWhile isAsciiDigit with
  | nil => rfl
  | cons a t =>
    rw [htw] at h
    simp only [List.isEmpty_cons, Bool.false_eq_true, if_false] at h
    cases hdw : s.dropWhile isAsciiDigit with
    | nil => rfl
    | cons c r =>
      rw [hdw] at h
      simp only [List.head?_cons, ne_eq, Option.some.injEq] at h
      simp [h]

/-! ### fragments -/

theorem duFrag_none (c : Char) : duFrag none c = [] := rfl
theorem duFrag_some (t : Str) (c : Char) : duFrag (some t) c = t ++ [c] := rfl

theorem lead_frag (o : Option Str) (x : Char) (rest : Str) (ho : duDigits o)
    (hx : isAsciiDigit x = false) :
    lead (duFrag o x ++ rest) = match o with | some _ => some x | none => lead rest := by
  cases o with
  | none => rfl
  | some t =>
    obtain ⟨hne, hd⟩ := ho t rfl
    simp only [duFrag_some, List.append_assoc, List.singleton_append]
    exact lead_digits t x rest hd hne hx

theorem optGroup_frag (e : Env) (o : Option Str) (x : Char) (rest : Str) (ho : duDigits o)
    (hx : isAsciiDigit x = false) (hrest : lead rest ≠ some x) :
    optGroup e (duFrag o x ++ rest) x = (o, rest) := by
  cases o with
  | none => exact optGroup_miss e rest x hrest
  | some t =>
    obtain ⟨hne, hd⟩ := ho t rfl
    simp only [duFrag_some, List.append_assoc, List.singleton_append]
    exact optGroup_hit e t x rest hd hne hx

/-- the seconds text: integer part, optional point and fraction -/
theorem lead_seconds (sec : Option Str) (hs : duSeconds sec) :
    lead (duFrag sec 'S') = none ∨ lead (duFrag sec 'S') = some 'S' ∨ lead (duFrag sec 'S') = some '.' := by
  cases sec with
  | none => exact Or.inl rfl
  | some t =>
    obtain ⟨ip, fp, hne, hip, hfp, rfl⟩ := hs t rfl
    by_cases hf : fp = []
    · subst hf
      simp only [duFrag_some, if_true, List.append_nil]
      exact Or.inr (Or.inl (lead_digits ip 'S' [] hip hne (by decide)))
    · simp only [duFrag_some, hf, if_false, List.append_assoc, List.cons_append]
      exact Or.inr (Or.inr (lead_digits ip '.' _ hip hne (by decide)))

theorem optSeconds_frag (e : Env) (sec : Option Str) (hs : duSeconds sec) :
    optSeconds e (duFrag sec 'S') = (sec, []) := by
  cases sec with
  | none => rfl
  | some t =>
    obtain ⟨ip, fp, hne, hip, hfp, rfl⟩ := hs t rfl
    have hipne : ip.isEmpty = false := by cases ip <;> simp_all
    by_cases hf : fp = []
    · subst hf
      simp only [duFrag_some, if_true, List.append_nil]
      unfold optSeconds
      rw [digitRun_append e ip ['S'] hip (noDig_cons [] (by decide))]
      simp [hipne]
    · have hfpne : fp.isEmpty = false := by cases fp <;> simp_all
      have hstr : duFrag (some (ip ++ if fp = [] then [] else '.' :: fp)) 'S' = ip ++ '.' :: (fp ++ ['S']) := by
        simp [duFrag_some, hf]
      rw [hstr]
      unfold optSeconds
      rw [digitRun_append e ip ('.' :: (fp ++ ['S'])) hip (noDig_cons _ (by decide))]
      simp only [hipne, Bool.false_eq_true, if_false, ne_eq, not_true_eq_false]
      rw [digitRun_append e fp ['S'] hfp (noDig_cons [] (by decide))]
      simp [hfpne, hf]

theorem floatOk_seconds (e : Env) (t : Str) (hs : duSeconds (some t)) : floatOk e t = true := by
  obtain ⟨ip, fp, hne, hip, hfp, rfl⟩ := hs t rfl
  have hipne : ip.isEmpty = false := by cases ip <;> simp_all
  unfold floatOk
  by_cases hf : fp = []
  · subst hf
    have := digitRun_append e ip [] hip noDig_nil
    simp only [List.append_nil] at this
    simp [this, hipne]
  · have hfpne : fp.isEmpty = false := by cases fp <;> simp_all
    simp only [hf, if_false]
    rw [digitRun_append e ip ('.' :: fp) hip (noDig_cons _ (by decide))]
    have := digitRun_append e fp [] hfp noDig_nil
    simp only [List.append_nil] at this
    simp [hipne, this, hfpne]

theorem groupInt_frag (e : Env) (o : Option Str) (ho : duDigits o) :
    groupInt e o = o.map (fun t => Int.ofNat (digitsNat t)) := by
  cases o with
  | none => rfl
  | some t =>
    obtain ⟨hne, hd⟩ := ho t rfl
    simp [groupInt, pyInt_digits e t hd hne, digitsNat_eq_dval]

/-! ### the regular expression body -/

theorem matchBody_frag (e : Env) (y mo d h mi sec : Option Str)
    (hy : duDigits y) (hmo : duDigits mo) (hd : duDigits d) (hh : duDigits h) (hmi : duDigits mi)
    (hs : duSeconds sec) :
    matchBody e (duFrag y 'Y' ++ duFrag mo 'M' ++ duFrag d 'D' ++
      (if h.isSome || mi.isSome || sec.isSome then
        'T' :: (duFrag h 'H' ++ duFrag mi 'M' ++ duFrag sec 'S') else [])) =
      some (y, mo, d, h, mi, sec) := by
  -- what follows the seconds / minutes / hours positions
  have ls := lead_seconds sec hs
  have l_mi : lead (duFrag mi 'M' ++ duFrag sec 'S') ≠ some 'H' := by
    rw [lead_frag mi 'M' _ hmi (by decide)]
    cases mi <;> simp <;> rcases ls with h | h | h <;> simp [h]
  have l_s : lead (duFrag sec 'S') ≠ some 'M' := by
    rcases ls with h | h | h <;> simp [h]
  -- the time part
  generalize htp : (if h.isSome || mi.isSome || sec.isSome then
        'T' :: (duFrag h 'H' ++ duFrag mi 'M' ++ duFrag sec 'S') else []) = tp
  have ltp : lead tp = none := by
    rw [← htp]; split
    · exact lead_nodigit _ (by decide)
    · rfl
  have l_d : lead (duFrag d 'D' ++ tp) ≠ some 'M' := by
    rw [lead_frag d 'D' _ hd (by decide)]
    cases d <;> simp [ltp]
  have l_mo : lead (duFrag mo 'M' ++ (duFrag d 'D' ++ tp)) ≠ some 'Y' := by
    rw [lead_frag mo 'M' _ hmo (by decide)]
    cases mo
    · simp only []
      rw [lead_frag d 'D' _ hd (by decide)]
      cases d <;> simp [ltp]
    · simp
  have ltp' : lead tp ≠ some 'D' := by simp [ltp]
  unfold matchBody
  simp only [List.append_assoc]
  rw [optGroup_frag e y 'Y' _ hy (by decide) l_mo]
  simp only []
  rw [optGroup_frag e mo 'M' _ hmo (by decide) l_d]
  simp only []
  rw [optGroup_frag e d 'D' _ hd (by decide) ltp']
  simp only []
  by_cases hany : (h.isSome || mi.isSome || sec.isSome) = true
  · rw [if_pos hany] at htp
    subst htp
    simp only [List.append_assoc]
    rw [optGroup_frag e h 'H' _ hh (by decide) l_mi]
    simp only []
    rw [optGroup_frag e mi 'M' _ hmi (by decide) l_s]
    simp only []
    rw [optSeconds_frag e sec hs]
    simp [atEnd]
  · rw [if_neg hany] at htp
    subst htp
    have : h = none ∧ mi = none ∧ sec = none := by
      cases h <;> cases mi <;> cases sec <;> simp at hany ⊢
    obtain ⟨rfl, rfl, rfl⟩ := this
    simp [atEnd]

/-! ### length and last character of a lexical form -/

/-- concatenation of optional fragments -/
def joinF : List (Option Str × Char) → Str
  | [] => []
  | (o, c) :: L => duFrag o c ++ joinF L

theorem joinF_none (L : List (Option Str × Char)) (h : ∀ p ∈ L, p.1 = none) : joinF L = [] := by
  induction L with
  | nil => rfl
  | cons p L ih =>
    obtain ⟨o, c⟩ := p
    have : o = none := h (o, c) (by simp)
    subst this
    simp only [joinF, duFrag_none, List.nil_append]
    exact ih (fun q hq => h q (by simp [hq]))

/-- a non-empty sequence of fragments ends with the designator of one of them,
preceded by at least one more character -/
theorem joinF_last (L : List (Option Str × Char))
    (hne : ∀ p ∈ L, ∀ t, p.1 = some t → t ≠ [])
    (hany : ∃ p ∈ L, p.1.isSome = true) :
    ∃ r z, joinF L = r ++ [z] ∧ z ∈ L.map (·.2) ∧ 1 ≤ r.length := by
  induction L with
  | nil => obtain ⟨p, hp, _⟩ := hany; simp at hp
  | cons p L ih =>
    obtain ⟨o, c⟩ := p
    by_cases hrest : ∃ q ∈ L, q.1.isSome = true
    · obtain ⟨r, z, hj, hz, hl⟩ := ih (fun q hq => hne q (by simp [hq])) hrest
      refine ⟨duFrag o c ++ r, z, by simp [joinF, hj], by simp at hz ⊢; exact Or.inr hz, by simp; omega⟩
    · have hnone : ∀ q ∈ L, q.1 = none := by
        intro q hq
        cases hq1 : q.1 with
        | none => rfl
        | some t => exact absurd ⟨q, hq, by simp [hq1]⟩ hrest
      have ho : o.isSome = true := by
        obtain ⟨q, hq, hqs⟩ := hany
        simp at hq
        rcases hq with rfl | hq
        · exact hqs
        · rw [hnone q hq] at hqs; simp at hqs
      cases o with
      | none => simp at ho
      | some t =>
        have htne := hne (some t, c) (by simp) t rfl
        refine ⟨t, c, by simp [joinF, joinF_none L hnone, duFrag_some], by simp, ?_⟩
        cases t with
        | nil => exact absurd rfl htne
        | cons _ _ => simp

theorem duSeconds_ne (sec : Option Str) (hs : duSeconds sec) : ∀ t, sec = some t → t ≠ [] := by
  intro t ht
  obtain ⟨ip, fp, hne, _, _, rfl⟩ := hs t ht
  cases ip with
  | nil => exact absurd rfl hne
  | cons _ _ => simp

/-- shape of every XSD duration: at least three characters, the last one a designator -/
theorem duration_shape {s : Str} {neg : Bool} {y mo d h mi sec : Option Str}
    (hx : XsdDuration s neg y mo d h mi sec) :
    ∃ r z, s = r ++ [z] ∧ 2 ≤ r.length ∧ z ∈ ['Y', 'M', 'D', 'H', 'M', 'S'] := by
  obtain ⟨hy, hmo, hd, hh, hmi, hs, hany, rfl⟩ := hx
  have e1 : duFrag y 'Y' ++ duFrag mo 'M' ++ duFrag d 'D' = joinF [(y, 'Y'), (mo, 'M'), (d, 'D')] := by
    simp [joinF]
  have e2 : duFrag h 'H' ++ duFrag mi 'M' ++ duFrag sec 'S' = joinF [(h, 'H'), (mi, 'M'), (sec, 'S')] := by
    simp [joinF]
  rw [e1, e2]
  by_cases h2 : (h.isSome || mi.isSome || sec.isSome) = true
  · rw [if_pos h2]
    obtain ⟨r, z, hj, hz, hl⟩ := joinF_last [(h, 'H'), (mi, 'M'), (sec, 'S')]
      (by
        intro p hp t ht
        simp at hp
        rcases hp with rfl | rfl | rfl
        · exact (hh t ht).1
        · exact (hmi t ht).1
        · exact duSeconds_ne sec hs t ht)
      (by
        simp only [Bool.or_eq_true] at h2
        rcases h2 with (h2 | h2) | h2
        · exact ⟨(h, 'H'), by simp, h2⟩
        · exact ⟨(mi, 'M'), by simp, h2⟩
        · exact ⟨(sec, 'S'), by simp, h2⟩)
    rw [hj]
    refine ⟨(if neg then ['-'] else []) ++ 'P' :: (joinF [(y, 'Y'), (mo, 'M'), (d, 'D')] ++ 'T' :: r), z,
      by simp, by simp; omega, ?_⟩
    simp at hz ⊢
    rcases hz with rfl | rfl | rfl <;> simp
  · rw [if_neg h2]
    have h2' : h.isSome = false ∧ mi.isSome = false ∧ sec.isSome = false := by
      cases h <;> cases mi <;> cases sec <;> simp at h2 ⊢
    obtain ⟨r, z, hj, hz, hl⟩ := joinF_last [(y, 'Y'), (mo, 'M'), (d, 'D')]
      (by
        intro p hp t ht
        simp at hp
        rcases hp with rfl | rfl | rfl
        · exact (hy t ht).1
        · exact (hmo t ht).1
        · exact (hd t ht).1)
      (by
        rcases hany with h1 | h1 | h1 | h1 | h1 | h1
        · exact ⟨(y, 'Y'), by simp, h1⟩
        · exact ⟨(mo, 'M'), by simp, h1⟩
        · exact ⟨(d, 'D'), by simp, h1⟩
        · rw [h2'.1] at h1; simp at h1
        · rw [h2'.2.1] at h1; simp at h1
        · rw [h2'.2.2] at h1; simp at h1)
    rw [hj]
    refine ⟨(if neg then ['-'] else []) ++ 'P' :: r, z, by simp, by simp; omega, ?_⟩
    simp at hz ⊢
    rcases hz with rfl | rfl | rfl <;> simp

/-- `_parse_interval` once the guards pass and the pattern body matched -/
theorem parseInterval_body (e : Env) (neg : Bool) (body : Str) (y mo d h mi sec : Option Str)
    (hguard : ¬ (((if neg then ['-'] else []) ++ 'P' :: body).length < 3 ∨
      ((if neg then ['-'] else []) ++ 'P' :: body).getLast? = some 'T'))
    (hb : matchBody e body = some (y, mo, d, h, mi, sec))
    (hf : ∀ t, sec = some t → floatOk e t = true) :
    parseInterval e ((if neg then ['-'] else []) ++ 'P' :: body) =
      some ⟨neg, groupInt e y, groupInt e mo, groupInt e d, groupInt e h, groupInt e mi, sec⟩ := by
  unfold parseInterval
  rw [if_neg (by simpa using hguard)]
  cases neg with
  | true =>
    simp only [if_true, List.cons_append, List.nil_append, List.head?_cons, beq_self_eq_true,
      List.tail_cons, hb]
    cases sec with
    | none => rfl
    | some t => simp [hf t rfl]
  | false =>
    have hP : (some 'P' == some '-') = false := by decide
    simp only [Bool.false_eq_true, if_false, List.nil_append, List.head?_cons, hP, hb]
    cases sec with
    | none => rfl
    | some t => simp [hf t rfl]

/-- literals for the examples -/
theorem duDigits_lit {t : Str} (h : t.all isAsciiDigit = true) (hne : t ≠ []) : duDigits (some t) := by
  intro u hu; cases hu; exact ⟨hne, allDigits_of_all h⟩

theorem duDigits_none : duDigits none := by intro u hu; cases hu

end Proofs.DurationAccept
