/- C08 — helper lemmas for the native handler's prefix-map bookkeeping. -/
import XsdataModel.Backends.Handler

namespace Xs.Backends
open Py Xs.Bind

theorem rev_ind {α : Type} {P : List α → Prop} (nil : P [])
    (snoc : ∀ l x, P l → P (l ++ [x])) : ∀ l, P l := by
  intro l
  rw [← List.reverse_reverse l]
  induction l.reverse with
  | nil => simpa using nil
  | cons x r ih => rw [List.reverse_cons]; exact snoc _ _ ih

theorem get_nil (p : Option Str) : NsMap.get [] p = none := rfl

theorem get_cons (k : Option Str) (w : Str) (m : NsMap) (p : Option Str) :
    NsMap.get ((k, w) :: m) p = if k = p then some w else NsMap.get m p := by
  unfold NsMap.get
  by_cases h : k = p <;> simp [List.find?, h]

theorem get_nsSet (m : NsMap) (k : Option Str) (v : Str) (p : Option Str) :
    NsMap.get (nsSet m k v) p = if k = p then some v else NsMap.get m p := by
  induction m with
  | nil => simp [nsSet, get_cons, get_nil]
  | cons kw rest ih =>
    obtain ⟨k', w⟩ := kw
    unfold nsSet
    by_cases h : k' = k
    · subst h; simp only [if_true, get_cons]; split <;> rfl
    · simp only [h, if_false, get_cons, ih]
      by_cases h2 : k' = p
      · subst h2; simp [Ne.symm h]
      · simp [h2]

def keys (m : NsMap) : List (Option Str) := m.map (·.1)

theorem keys_nsSet_sub (m : NsMap) (k : Option Str) (v : Str) (x : Option Str) :
    x ∈ keys (nsSet m k v) → x = k ∨ x ∈ keys m := by
  induction m with
  | nil => simp [nsSet, keys]
  | cons kw rest ih =>
    obtain ⟨k', w⟩ := kw
    unfold nsSet
    by_cases h : k' = k
    · simp [h, keys]
    · simp only [h, if_false]
      intro hx
      simp only [keys, List.map_cons, List.mem_cons] at hx ⊢
      rcases hx with hx | hx
      · exact Or.inr (Or.inl hx)
      · rcases ih hx with h1 | h1
        · exact Or.inl h1
        · exact Or.inr (Or.inr h1)

theorem nodup_nsSet (m : NsMap) (k : Option Str) (v : Str) (h : (keys m).Nodup) :
    (keys (nsSet m k v)).Nodup := by
  induction m with
  | nil => simp [nsSet, keys]
  | cons kw rest ih =>
    obtain ⟨k', w⟩ := kw
    simp only [keys, List.map_cons, List.nodup_cons] at h
    unfold nsSet
    by_cases hk : k' = k
    · simp only [hk, if_true, keys, List.map_cons, List.nodup_cons]
      exact ⟨hk ▸ h.1, h.2⟩
    · simp only [hk, if_false, keys, List.map_cons, List.nodup_cons]
      refine ⟨?_, ih h.2⟩
      intro hx
      rcases keys_nsSet_sub rest k v k' hx with h1 | h1
      · exact hk h1
      · exact h.1 h1

/-- the last binding of `p` in an association list -/
def lastGet (m : NsMap) (p : Option Str) : Option Str := (m.reverse.find? (·.1 = p)).map (·.2)

theorem lastGet_append_one (m : NsMap) (k : Option Str) (v : Str) (p : Option Str) :
    lastGet (m ++ [(k, v)]) p = if k = p then some v else lastGet m p := by
  unfold lastGet
  simp only [List.reverse_append, List.reverse_cons, List.reverse_nil, List.nil_append,
    List.cons_append, List.find?]
  by_cases h : k = p <;> simp [h]

theorem get_none_of_not_mem (m : NsMap) (p : Option Str) (h : p ∉ keys m) : NsMap.get m p = none := by
  induction m with
  | nil => rfl
  | cons kw rest ih =>
    obtain ⟨k, w⟩ := kw
    simp only [keys, List.map_cons, List.mem_cons, not_or] at h
    rw [get_cons]
    simp [show ¬ k = p from fun e => h.1 e.symm]
    exact ih h.2

theorem lastGet_cons (k : Option Str) (w : Str) (m : NsMap) (p : Option Str) :
    lastGet ((k, w) :: m) p = match lastGet m p with
      | some u => some u
      | none => if k = p then some w else none := by
  unfold lastGet
  simp only [List.reverse_cons, List.find?_append]
  cases h : List.find? (fun x => decide (x.1 = p)) m.reverse with
  | some x => simp
  | none => by_cases hk : k = p <;> simp [List.find?, hk]

theorem lastGet_none_of_not_mem (m : NsMap) (p : Option Str) (h : p ∉ keys m) : lastGet m p = none := by
  induction m with
  | nil => rfl
  | cons kw rest ih =>
    obtain ⟨k, w⟩ := kw
    simp only [keys, List.map_cons, List.mem_cons, not_or] at h
    rw [lastGet_cons, ih h.2]
    simp [show ¬ k = p from fun e => h.1 e.symm]

theorem lastGet_eq_get (m : NsMap) (p : Option Str) (h : (keys m).Nodup) : lastGet m p = NsMap.get m p := by
  induction m with
  | nil => rfl
  | cons kw rest ih =>
    obtain ⟨k, w⟩ := kw
    simp only [keys, List.map_cons, List.nodup_cons] at h
    rw [lastGet_cons, get_cons]
    by_cases hk : k = p
    · subst hk
      rw [lastGet_none_of_not_mem rest k h.1]; simp
    · rw [ih h.2]; simp only [hk, if_false]
      cases NsMap.get rest p <;> rfl

theorem nsUpdate_append_one (dst src : NsMap) (k : Option Str) (v : Str) :
    nsUpdate dst (src ++ [(k, v)]) = nsSet (nsUpdate dst src) k v := by
  simp [nsUpdate, List.foldl_append]

theorem get_nsUpdate (dst src : NsMap) (p : Option Str) :
    NsMap.get (nsUpdate dst src) p = match lastGet src p with
      | some u => some u
      | none => NsMap.get dst p := by
  induction src using rev_ind with
  | nil => simp [nsUpdate, lastGet]
  | snoc src kv ih =>
    obtain ⟨k, v⟩ := kv
    rw [nsUpdate_append_one, get_nsSet, lastGet_append_one, ih]
    by_cases h : k = p <;> simp [h]

/-- `element_ns_map` after the `start-ns` events of one element -/
def declMap (d : List (Str × Str)) (el : NsMap) : NsMap :=
  d.foldl (fun e pu => nsSet e (orNone pu.1) pu.2) el

theorem nodup_declMap (d : List (Str × Str)) (el : NsMap) (h : (keys el).Nodup) :
    (keys (declMap d el)).Nodup := by
  induction d generalizing el with
  | nil => exact h
  | cons x rest ih => exact ih _ (nodup_nsSet el _ _ h)

/-- the last declaration of `p` among the declarations of one element -/
def declLast (d : List (Str × Str)) (p : Option Str) : Option Str :=
  (d.reverse.find? (fun x => orNone x.1 = p)).map (·.2)

theorem get_declMap (d : List (Str × Str)) (el : NsMap) (p : Option Str) :
    NsMap.get (declMap d el) p = match declLast d p with
      | some u => some u
      | none => NsMap.get el p := by
  induction d using rev_ind with
  | nil => simp [declMap, declLast]
  | snoc d x ih =>
    have : declMap (d ++ [x]) el = nsSet (declMap d el) (orNone x.1) x.2 := by
      simp [declMap, List.foldl_append]
    rw [this, get_nsSet, ih]
    unfold declLast
    simp only [List.reverse_append, List.reverse_cons, List.reverse_nil, List.nil_append,
      List.cons_append, List.find?]
    by_cases h : orNone x.1 = p <;> simp [h]

theorem pump_decls (queue : List NsMap) (el : NsMap) (d : List (Str × Str)) (rest : List Tok) :
    pump queue el (d.map (fun pu => Tok.startNs pu.1 pu.2) ++ rest)
      = d.map (fun pu => PEv.registerNs (orNone pu.1) pu.2) ++ pump queue (declMap d el) rest := by
  induction d generalizing el with
  | nil => rfl
  | cons x d ih =>
    simp only [List.map_cons, List.cons_append, pump]
    rw [ih]
    rfl

/-- the map of the node on top of the queue -/
def topMap (queue : List NsMap) : NsMap := queue.head?.getD []

theorem get_mergeParent (queue : List NsMap) (d : List (Str × Str)) (p : Option Str) :
    NsMap.get (mergeParent queue (declMap d [])) p = match declLast d p with
      | some u => some u
      | none => NsMap.get (topMap queue) p := by
  have nd : (keys (declMap d [])).Nodup := nodup_declMap d [] (by simp [keys])
  have hl := lastGet_eq_get (declMap d []) p nd
  have hg := get_declMap d [] p
  rw [get_nil] at hg
  cases queue with
  | nil =>
    simp only [mergeParent, topMap, List.head?, Option.getD]
    rw [get_nsUpdate, hl, hg]
    cases declLast d p <;> simp [get_nil]
  | cons parent qs =>
    simp only [mergeParent, topMap, List.head?, Option.getD]
    split
    · rename_i hempty
      have : declMap d [] = [] := by simpa [List.isEmpty_iff] using hempty
      rw [this, get_nil] at hg
      cases hd : declLast d p with
      | none => rfl
      | some u => rw [hd] at hg; simp at hg
    · rw [get_nsUpdate, hl, hg]
      cases declLast d p <;> simp

theorem inScope_cons (d : List (Str × Str)) (frames : List (List (Str × Str))) (p : Option Str) :
    inScope (d :: frames) p = match declLast d p with
      | some u => some u
      | none => inScope frames p := by
  unfold inScope declLast
  simp only [List.findSome?]
  cases h : (List.find? (fun x => decide (orNone x.1 = p)) d.reverse) <;> simp

end Xs.Backends

namespace Xs.Backends
open Py Xs.Bind

theorem map_view_decls (d : List (Str × Str)) :
    (d.map (fun pu => PEv.registerNs (orNone pu.1) pu.2)).map PEv.view
      = d.map (fun pu => SEv.registerNs (orNone pu.1) pu.2) := by
  simp [List.map_map, Function.comp_def, PEv.view]

mutual
theorem pump_tree (t : XTree) (queue : List NsMap) (frames : List (List (Str × Str))) (rest : List Tok)
    (hq : ∀ p, NsMap.get (topMap queue) p = inScope frames p) :
    (pump queue [] (toks t ++ rest)).map PEv.view
      = spec frames t ++ (pump queue [] rest).map PEv.view := by
  match t with
  | .node d q a st tx kids tl =>
    have hq' : ∀ p, NsMap.get (topMap (mergeParent queue (declMap d []) :: queue)) p
        = inScope (d :: frames) p := by
      intro p
      simp only [topMap, List.head?, Option.getD]
      rw [get_mergeParent, inScope_cons, hq]
    have ih := pump_kids kids (mergeParent queue (declMap d []) :: queue) (d :: frames)
      (Tok.end q tx tl :: rest) hq'
    simp only [toks, spec, List.append_assoc, List.cons_append, List.nil_append]
    rw [pump_decls, List.map_append, map_view_decls]
    congr 1
    simp only [pump, List.map_cons]
    rw [ih]
    simp only [pump, List.map_cons, PEv.view]
    congr 1
    congr 1
    funext p
    have := hq' p
    simpa [topMap] using this
theorem pump_kids (ks : List XTree) (queue : List NsMap) (frames : List (List (Str × Str))) (rest : List Tok)
    (hq : ∀ p, NsMap.get (topMap queue) p = inScope frames p) :
    (pump queue [] (toksKids ks ++ rest)).map PEv.view
      = specKids frames ks ++ (pump queue [] rest).map PEv.view := by
  match ks with
  | [] => simp [toksKids, specKids]
  | k :: ks' =>
    simp only [toksKids, specKids, List.append_assoc]
    rw [pump_tree k queue frames _ hq, pump_kids ks' queue frames rest hq]
end

end Xs.Backends

namespace Xs.Backends
open Py Xs.Bind

/-! ### ElementTree sources -/

mutual
theorem iterwalk_eq_toks (wk : List (Str × Str)) (t : XTree) (m : NsMap) :
    (iterwalk wk t m).1 = toks (redecl wk t m).1 ∧ (iterwalk wk t m).2 = (redecl wk t m).2 := by
  match t with
  | .node d q a st tx kids tl =>
    cases hu : targetUri q with
    | none =>
      have ih := iterwalkKids_eq_toks wk kids m
      simp only [iterwalk, redecl, hu, toks, List.map_nil, List.nil_append]
      exact ⟨by rw [ih.1], ih.2⟩
    | some uri =>
      have ih := iterwalkKids_eq_toks wk kids (loadPrefix wk uri m).2
      simp only [iterwalk, redecl, hu, toks, List.map_cons, List.map_nil, List.cons_append, List.nil_append]
      exact ⟨by rw [ih.1], ih.2⟩
theorem iterwalkKids_eq_toks (wk : List (Str × Str)) (ks : List XTree) (m : NsMap) :
    (iterwalkKids wk ks m).1 = toksKids (redeclKids wk ks m).1 ∧ (iterwalkKids wk ks m).2 = (redeclKids wk ks m).2 := by
  match ks with
  | [] => simp [iterwalkKids, redeclKids, toksKids]
  | k :: ks' =>
    have h1 := iterwalk_eq_toks wk k m
    have h2 := iterwalkKids_eq_toks wk ks' (iterwalk wk k m).2
    simp only [iterwalkKids, redeclKids, toksKids]
    rw [h1.2] at h2
    rw [h1.1, h1.2]
    exact ⟨by rw [h2.1], h2.2⟩
end

end Xs.Backends
