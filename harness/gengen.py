"""Generators and real-code adapters for the code-generator cores (C02, C16):
particles, XSD / DTD texts, valid words, real SchemaMapper / DtdMapper sites and the
three occurrence handlers."""
from __future__ import annotations

import io
import sys

MAXSIZE = sys.maxsize
NAMES = ["a", "b", "c", "d"]


# --------------------------------------------------------------------------
# particles
# --------------------------------------------------------------------------
def rand_occ(rng):
    r = rng.random()
    if r < 0.45:
        return 1, 1
    if r < 0.6:
        return 0, 1
    if r < 0.72:
        return 0, MAXSIZE
    if r < 0.82:
        return 1, MAXSIZE
    if r < 0.9:
        return rng.choice([(2, 2), (0, 2), (1, 3), (2, MAXSIZE), (2, 3)])
    return rng.choice([(1, 1), (0, 1)])


def gen_particle(rng, depth=0, names=None, top=True, distinct=None):
    """random particle; `distinct`: a list to draw each element name from at most once"""
    names = names or NAMES
    r = rng.random()
    if not top and (depth >= 3 or r < 0.45):
        if distinct is not None:
            if not distinct:
                return None
            n = distinct.pop(rng.randrange(len(distinct)))
        else:
            n = rng.choice(names)
        mn, mx = rand_occ(rng)
        return {"elem": [n, mn, mx]}
    kind = "seq" if rng.random() < 0.55 else "choice"
    kids = []
    for _ in range(rng.randint(1, 3)):
        k = gen_particle(rng, depth + 1, names, False, distinct)
        if k is not None:
            kids.append(k)
    if not kids:
        return None
    mn, mx = rand_occ(rng)
    return {kind: [mn, mx, kids]}


def particle_names(p):
    if "elem" in p:
        return [p["elem"][0]]
    kids = (p.get("seq") or p.get("choice"))[2]
    out = []
    for k in kids:
        out += particle_names(k)
    return out


def sample_word(rng, p, budget=3):
    """a word of the particle's language (each repetition count drawn within bounds)"""

    def reps(mn, mx):
        hi = mn + budget if mx == MAXSIZE else mx
        hi = min(hi, mn + budget)
        return rng.randint(mn, max(mn, hi))

    if "elem" in p:
        n, mn, mx = p["elem"]
        return [n] * reps(mn, mx)
    if "seq" in p:
        mn, mx, kids = p["seq"]
        out = []
        for _ in range(reps(mn, mx)):
            for k in kids:
                out += sample_word(rng, k, budget)
        return out
    mn, mx, kids = p["choice"]
    out = []
    for _ in range(reps(mn, mx)):
        out += sample_word(rng, rng.choice(kids), budget)
    return out


# element types for typed content models: XSD type (or named union) and canonical sample values
ELEM_TYPES = {
    "string": ("xs:string", ["v", "x y", "1"]),
    "int": ("xs:int", ["7", "-3", "0"]),
    "boolean": ("xs:boolean", ["true", "false"]),
    "date": ("xs:date", ["2020-01-01", "1999-12-31Z"]),
    "decimal": ("xs:decimal", ["1.5", "-2"]),
    "token": ("xs:token", ["tok"]),
    "long": ("xs:long", ["9999999999"]),
    "u_int_string": ("u_int_string", ["5", "word"]),
    "u_date_int": ("u_date_int", ["2020-02-02", "12"]),
    # xs:list types (token lists: ONE element per list; a repeating element is a list of token lists); never the empty
    # list (finding C02-empty-list-element-dropped)
    "l_int": ("l_int", ["1 2", "3 4 5", "6"]),
    "l_date": ("l_date", ["2020-01-01 1999-12-31Z", "2021-02-03"]),
    "nmtokens": ("xs:NMTOKENS", ["a b", "c", "d e f"]),
}
LIST_TYPES = ("l_int", "l_date", "nmtokens")
UNIONS = {"u_int_string": '<xs:union memberTypes="xs:int xs:string"/>', "u_date_int": '<xs:union memberTypes="xs:date xs:int"/>',
          "l_int": '<xs:list itemType="xs:int"/>', "l_date": '<xs:list itemType="xs:date"/>'}  # the named simple types


def assign_types(rng, p, types=None):
    """name -> type key (one type per element name: Element Declarations Consistent)"""
    return {n: rng.choice(types or list(ELEM_TYPES)) for n in set(particle_names(p))}


def occ_attrs(mn, mx):
    s = ""
    if mn != 1:
        s += f' minOccurs="{mn}"'
    if mx != 1:
        s += f' maxOccurs="{"unbounded" if mx == MAXSIZE else mx}"'
    return s


def particle_xsd(p, ns="urn:t", qualified=True, types=None, refs=(), subs=()):
    """XSD text; `types`: name -> key of ELEM_TYPES (default: every element xs:string);
    `refs`: element names written as references to global elements; `subs`: (member, head) pairs of
    global elements with substitutionGroup="head" """
    types = types or {}

    def tname(n):
        key = types.get(n, "string")
        t = ELEM_TYPES[key][0]
        return t if t.startswith("xs:") else t  # named union types live in the target namespace

    def go(q, ind):
        pad = "  " * ind
        if "elem" in q:
            n, mn, mx = q["elem"]
            if n in refs:
                return f'{pad}<xs:element ref="{n}"{occ_attrs(mn, mx)}/>\n'
            return f'{pad}<xs:element name="{n}" type="{tname(n)}"{occ_attrs(mn, mx)}/>\n'
        kind = "sequence" if "seq" in q else "choice"
        mn, mx, kids = q.get("seq") or q.get("choice")
        return f"{pad}<xs:{kind}{occ_attrs(mn, mx)}>\n" + "".join(go(k, ind + 1) for k in kids) + f"{pad}</xs:{kind}>\n"

    body = go(p, 3)
    tns = f' targetNamespace="{ns}" xmlns="{ns}"' if ns else ""
    form = ' elementFormDefault="qualified"' if qualified and ns else ""
    unions = "".join(
        f' <xs:simpleType name="{u}">{members}</xs:simpleType>\n'
        for u, members in UNIONS.items()
        if u in {types.get(n) for n in types}
    )
    heads = dict(subs)
    globals_ = "".join(
        f' <xs:element name="{n}" type="{tname(n)}"' + (f' substitutionGroup="{heads[n]}"' if n in heads else "") + "/>\n"
        for n in list(dict.fromkeys(list(refs) + [m for m, _ in subs] + [h for _, h in subs]))
    )
    unions += globals_
    return (
        f'<?xml version="1.0"?>\n<xs:schema xmlns:xs="http://www.w3.org/2001/XMLSchema"{tns}{form}>\n{unions}'
        f' <xs:element name="r">\n  <xs:complexType>\n{body}  </xs:complexType>\n </xs:element>\n</xs:schema>\n'
    )


def word_values(word, types=None):
    """the text of each child: a canonical value of the element's type (default v<i>)"""
    out = []
    for i, n in enumerate(word):
        if types and n in types:
            vals = ELEM_TYPES[types[n]][1]
            out.append(vals[i % len(vals)])
        else:
            out.append(f"v{i}")
    return out


def word_doc(word, ns="urn:t", qualified=True, types=None, root="r"):
    vals = word_values(word, types)
    if ns:
        kids = "".join(f"<t:{n}>{v}</t:{n}>" if qualified else f"<{n}>{v}</{n}>" for n, v in zip(word, vals))
        return f'<t:{root} xmlns:t="{ns}">{kids}</t:{root}>'
    return f"<{root}>" + "".join(f"<{n}>{v}</{n}>" for n, v in zip(word, vals)) + f"</{root}>"


def group_refs_xsd(group, refs, ns="urn:t", types=None):
    """One named model group (`group`: a seq/choice particle, written with occurrence 1..1) referenced
    from the complex types of the global elements r0, r1, ... with the occurrence ranges `refs`
    (even indexes: the reference is the whole content; odd indexes: inside an xs:sequence)."""
    full = particle_xsd(group, ns=ns, types=types)
    head, rest = full.split(' <xs:element name="r">', 1)
    body = rest.split("<xs:complexType>\n", 1)[1].rsplit("  </xs:complexType>", 1)[0]
    out = head + f' <xs:group name="g">\n{body} </xs:group>\n'
    for i, (mn, mx) in enumerate(refs):
        ref = f'<xs:group ref="g"{occ_attrs(mn, mx)}/>'
        inner = ref if i % 2 == 0 else f"<xs:sequence>{ref}</xs:sequence>"
        out += f' <xs:element name="r{i}"><xs:complexType>{inner}</xs:complexType></xs:element>\n'
    return out + "</xs:schema>\n"


# --------------------------------------------------------------------------
# schemas with named model groups and xs:all  (model: lean/XsdataModel/Gen/Groups.lean)
#   particle := {"elem":[n,mn,mx]} | {"seq":[mn,mx,kids]} | {"choice":[...]} | {"all":[mn,mx,kids]} | {"ref":[g,mn,mx]}
#   schema   := {"defs": [[name, particle], ...], "types": [particle, ...]}   (type i = complex type of element r<i>)
# --------------------------------------------------------------------------
def gkind(p):
    return next(k for k in ("elem", "seq", "choice", "all", "ref") if k in p)


def gen_gbody(rng, names, refs, depth=0, top=True, allow_all=True, valid=False):
    """a model group (seq/choice/all) over element names drawn (without replacement) from `names`
    and references drawn from `refs`; `valid`: keep inside what XSD 1.0 allows for xs:all"""
    r = rng.random()
    if not top and (depth >= 2 or r < 0.5):
        if refs and rng.random() < 0.3:
            mn, mx = rand_occ(rng)
            return {"ref": [rng.choice(refs), mn, mx]}
        if not names:
            return None
        n = names.pop(rng.randrange(len(names)))
        mn, mx = rand_occ(rng)
        return {"elem": [n, mn, mx]}
    if top and allow_all and rng.random() < 0.25:
        kids = []
        for _ in range(rng.randint(1, 3)):
            if not names:
                break
            n = names.pop(rng.randrange(len(names)))
            mn, mx = rng.choice([(1, 1), (0, 1)]) if valid or rng.random() < 0.7 else rand_occ(rng)
            kids.append({"elem": [n, mn, mx]})
        if not kids:
            return None
        mn, mx = rng.choice([(1, 1), (0, 1)]) if valid or rng.random() < 0.8 else rand_occ(rng)
        return {"all": [mn, mx, kids]}
    kind = "seq" if rng.random() < 0.55 else "choice"
    kids = []
    for _ in range(rng.randint(1, 3)):
        k = gen_gbody(rng, names, refs, depth + 1, False, allow_all, valid)
        if k is not None:
            kids.append(k)
    if not kids:
        return None
    mn, mx = (1, 1) if top and valid and rng.random() < 0.5 else rand_occ(rng)
    return {kind: [mn, mx, kids]}


def gen_gschema(rng, valid=False, dup=False):
    """1..3 named groups (group k may refer to groups k+1.., so the references are not circular) and
    2..3 types that refer to them with their own occurrence ranges"""
    nd = rng.randint(1, 3)
    pool = list("abcdefghijklmnopq")
    rng.shuffle(pool)
    gnames = [f"g{k}" for k in range(nd)]
    defs = []
    for k in range(nd):
        names = [pool.pop() for _ in range(3)] if not dup else list("abc")
        later = gnames[k + 1:]
        body = None
        while body is None:
            body = gen_gbody(rng, names, later, allow_all=not valid or not later, valid=valid)
            if body is not None and "all" in body and valid and any("ref" in x for x in body["all"][2]):
                body = None
        # the model group of a definition carries no occurrence range of its own
        kind = gkind(body)
        if kind != "all" or valid:
            body = {kind: [1, 1, body[kind][2]]}
        defs.append([gnames[k], body])
    all_groups = {n for n, b in defs if "all" in b}
    types = []
    for _ in range(rng.randint(2, 3)):
        names = [pool.pop() for _ in range(2)] if not dup else list("abx")
        r = rng.random()
        if r < 0.35:
            mn, mx = rand_occ(rng)
            g = rng.choice(gnames)
            if valid and g in all_groups:
                mn, mx = rng.choice([(1, 1), (0, 1)])
            t = {"ref": [g, mn, mx]}
        else:
            refs = [g for g in gnames if not (valid and g in all_groups)]
            t = None
            while t is None:
                t = gen_gbody(rng, names, refs or None, allow_all=not valid, valid=valid)
        types.append(t)
    return {"defs": defs, "types": types}


def gparticle_xsd_body(p, ind, tname):
    pad = "  " * ind
    k = gkind(p)
    if k == "elem":
        n, mn, mx = p["elem"]
        return f'{pad}<xs:element name="{n}" type="{tname(n)}"{occ_attrs(mn, mx)}/>\n'
    if k == "ref":
        g, mn, mx = p["ref"]
        return f'{pad}<xs:group ref="{g}"{occ_attrs(mn, mx)}/>\n'
    tag = {"seq": "sequence", "choice": "choice", "all": "all"}[k]
    mn, mx, kids = p[k]
    return f"{pad}<xs:{tag}{occ_attrs(mn, mx)}>\n" + "".join(gparticle_xsd_body(c, ind + 1, tname) for c in kids) + f"{pad}</xs:{tag}>\n"


def gschema_xsd(schema, ns="urn:t", types=None, defs_last=False):
    """XSD text: the named groups, then global elements r0, r1, … whose anonymous complex types have
    the content models `schema["types"]`"""
    types = types or {}

    def tname(n):
        return ELEM_TYPES[types.get(n, "string")][0]

    tns = f' targetNamespace="{ns}" xmlns="{ns}" elementFormDefault="qualified"' if ns else ""
    out = f'<?xml version="1.0"?>\n<xs:schema xmlns:xs="http://www.w3.org/2001/XMLSchema"{tns}>\n'
    out += "".join(
        f' <xs:simpleType name="{u}">{members}</xs:simpleType>\n'
        for u, members in UNIONS.items()
        if u in set(types.values())
    )
    gtext = "".join(f' <xs:group name="{g}">\n{gparticle_xsd_body(body, 2, tname)} </xs:group>\n' for g, body in schema["defs"])
    ttext = "".join(
        f' <xs:element name="r{i}">\n  <xs:complexType>\n{gparticle_xsd_body(t, 3, tname)}  </xs:complexType>\n </xs:element>\n'
        for i, t in enumerate(schema["types"])
    )
    return out + (ttext + gtext if defs_last else gtext + ttext) + "</xs:schema>\n"


def gparticle_names(schema, p, depth=0):
    """element names of the expansion of `p`, with multiplicity, in document order"""
    k = gkind(p)
    if k == "elem":
        return [p["elem"][0]]
    if k == "ref":
        body = dict(map(tuple, schema["defs"])).get(p["ref"][0])
        return [] if body is None or depth > 8 else gparticle_names(schema, body, depth + 1)
    out = []
    for c in p[k][2]:
        out += gparticle_names(schema, c, depth)
    return out


def sample_gword(rng, schema, p, budget=3, depth=0):
    """a word of the language of `p` (the children of xs:all in a random order)"""

    def reps(mn, mx):
        hi = min(mn + budget if mx == MAXSIZE else mx, mn + budget)
        return rng.randint(mn, max(mn, hi))

    k = gkind(p)
    if k == "elem":
        n, mn, mx = p["elem"]
        return [n] * reps(mn, mx)
    if k == "ref":
        g, mn, mx = p["ref"]
        body = dict(map(tuple, schema["defs"]))[g]
        out = []
        for _ in range(reps(mn, mx)):
            out += sample_gword(rng, schema, body, budget, depth + 1)
        return out
    mn, mx, kids = p[k]
    out = []
    for _ in range(reps(mn, mx)):
        if k == "choice":
            out += sample_gword(rng, schema, rng.choice(kids), budget, depth)
        else:
            order = list(kids)
            if k == "all":
                rng.shuffle(order)
            for c in order:
                out += sample_gword(rng, schema, c, budget, depth)
    return out


def renumber_classes(classes):
    """like `renumber`, with one table for all the classes of a schema (the ids of a group definition
    are shared by every class that refers to it); `index` (number of the element declaration, shared
    by the clones of one declaration) by order of first appearance inside each class"""
    ids = {}

    def m(i):
        if i is None or i <= 0:
            return i
        if i not in ids:
            ids[i] = len(ids) + 1
        return ids[i]

    out = []
    for sites in classes:
        idx = {}
        cls = []
        for s in sites:
            path = [[k, m(i), mn, mx] for k, i, mn, mx in s["path"]]
            cls.append({**s, "index": idx.setdefault(s["index"], len(idx)), "path": path, "choice": m(s["choice"]), "sequence": m(s["sequence"])})
        out.append(cls)
    return out


def real_schema_classes(xsd: str, upto="ungroup"):
    """SchemaParser + SchemaMapper + the real ClassContainer up to the UNGROUP step (FlattenAttributeGroups)
    or up to the FLATTEN step: the element attrs of the classes of r0, r1, … (raw ids)"""
    from xsdata.codegen.container import ClassContainer, Steps
    from xsdata.codegen.mappers.schema import SchemaMapper
    from xsdata.codegen.parsers.schema import SchemaParser
    from xsdata.models.config import GeneratorConfig
    from xsdata.models.xsd import Schema

    schema = SchemaParser(location="mem.xsd").from_bytes(xsd.encode(), Schema)
    container = ClassContainer(GeneratorConfig())
    container.extend(SchemaMapper.map(schema))
    container.validate_classes()
    container.process_classes(Steps.UNGROUP)
    container.remove_groups()
    if upto == "flatten":
        container.process_classes(Steps.FLATTEN)
    roots = sorted((c for c in container if c.name[:1] == "r" and c.name[1:].isdigit()), key=lambda c: int(c.name[1:]))
    return [[export_attr(a) for a in c.attrs if a.is_element] for c in roots]


def real_calc_classes(classes):
    """one CalculateAttributePaths handler (as the container holds one) over all the classes in order"""
    from xsdata.codegen.handlers.calculate_attribute_paths import CalculateAttributePaths

    handler = CalculateAttributePaths()
    out = []
    for sites in classes:
        target = build_class(sites)
        handler.process(target)
        out.append([export_attr(a) for a in target.attrs])
    return out


# --------------------------------------------------------------------------
# attribute / element declarations: use, default, fixed  (model: lean/XsdataModel/Gen/Attrs.lean)
#   decl := {"kind": "attribute", "use": None|"optional"|"required"|"prohibited", "default", "fixed", "type": "string"|None}
#         | {"kind": "element", "min", "max", "default", "fixed", "type": "string"|None}
# --------------------------------------------------------------------------
def gen_decl(rng, kind=None):
    kind = kind or rng.choice(["attribute", "element"])
    r = rng.random()
    default = fixed = None
    if r < 0.3:
        default = rng.choice(["dv", "x y", "7", ""])
    elif r < 0.55:
        fixed = rng.choice(["fv", "1", "a b"])
    elif r < 0.6:
        default, fixed = "dv", "fv"  # not a valid declaration; the mapper does not care
    tp = rng.choice(["string", "string", None])
    enum = None
    if rng.random() < 0.25:
        # the type is a restriction of xs:string by enumeration (values that may collide after slugging);
        # default / fixed is one of the members
        enum = rng.choice(ENUM_SETS)
        tp = "string"
        default = rng.choice(enum) if default is not None else None
        fixed = rng.choice(enum) if fixed is not None else None
    if kind == "attribute":
        d = {"kind": kind, "use": rng.choice([None, "optional", "required", "required", "prohibited"]), "default": default, "fixed": fixed, "type": tp,
             "group": rng.random() < 0.3}
    else:
        mn, mx = rng.choice([(1, 1), (0, 1), (0, MAXSIZE), (1, MAXSIZE), (2, 2), (0, 0), (1, 1), (0, 1)])
        d = {"kind": kind, "min": mn, "max": mx, "default": default, "fixed": fixed, "type": tp}
    if enum:
        d["enum"] = enum
    return d


def decl_valid(d):
    """what XSD allows (attribute: 3.2.3 / au-props-correct; element: default and fixed exclusive)"""
    if d["default"] is not None and d["fixed"] is not None:
        return False
    if d["kind"] == "attribute":
        if d["default"] is not None and d["use"] not in (None, "optional"):
            return False
        if d["use"] == "prohibited" and (d["default"] is not None or d["fixed"] is not None):
            return False
    elif d["max"] == 0:
        return False
    return True


def decls_xsd(decls, ns="urn:t"):
    els, ats, grouped, simple = [], [], [], []
    for i, d in enumerate(decls):
        extra = "".join(f' {k}="{_xml_attr(d[k])}"' for k in ("default", "fixed") if d[k] is not None)
        tp = ' type="xs:string"' if d["type"] == "string" else ""
        if d.get("enum"):
            tp = f' type="e{i}"'
            simple.append(f' <xs:simpleType name="e{i}"><xs:restriction base="xs:string">'
                          + "".join(f'<xs:enumeration value="{_xml_attr(v)}"/>' for v in d["enum"]) + "</xs:restriction></xs:simpleType>\n")
            if d.get("enum_list"):
                tp = f' type="l{i}"'
                simple.append(f' <xs:simpleType name="l{i}"><xs:list itemType="e{i}"/></xs:simpleType>\n')
        if d["kind"] == "attribute":
            use = f' use="{d["use"]}"' if d["use"] else ""
            (grouped if d.get("group") else ats).append(f'   <xs:attribute name="d{i}"{tp}{use}{extra}/>\n')
        else:
            nil = ' nillable="true"' if d.get("nillable") else ""
            els.append(f'    <xs:element name="d{i}"{tp}{occ_attrs(d["min"], d["max"])}{extra}{nil}/>\n')
    tns = f' targetNamespace="{ns}" xmlns="{ns}" elementFormDefault="qualified"' if ns else ""
    groups = ""
    if grouped:
        # the declarations marked "group" sit in an attribute group (nested once) that the type refers to
        groups = (f' <xs:attributeGroup name="ag1">\n{"".join(grouped[1:])} </xs:attributeGroup>\n'
                  f' <xs:attributeGroup name="ag0">\n{grouped[0]}   <xs:attributeGroup ref="ag1"/>\n </xs:attributeGroup>\n')
        ats.append('   <xs:attributeGroup ref="ag0"/>\n')
    return (
        f'<?xml version="1.0"?>\n<xs:schema xmlns:xs="http://www.w3.org/2001/XMLSchema"{tns}>\n{"".join(simple)}{groups}'
        f' <xs:element name="r">\n  <xs:complexType>\n   <xs:sequence>\n{"".join(els)}   </xs:sequence>\n{"".join(ats)}  </xs:complexType>\n </xs:element>\n</xs:schema>\n'
    )


def _xml_attr(v):
    return v.replace("&", "&amp;").replace('"', "&quot;").replace("<", "&lt;")


def export_gattr(attr):
    r = attr.restrictions
    return {
        "is_attribute": attr.is_attribute,
        "min": r.min_occurs if r.min_occurs is not None else 0,
        "max": r.max_occurs if r.max_occurs is not None else 0,
        "default": attr.default,
        "fixed": bool(attr.fixed),
        "any_obj": object in attr.native_types,
    }


def real_attr_map(decls):
    """SchemaParser + SchemaMapper + the UNGROUP step of the real container (attribute groups) +
    CalculateAttributePaths: the Attr of every declaration"""
    from xsdata.codegen.container import ClassContainer, Steps
    from xsdata.codegen.handlers.calculate_attribute_paths import CalculateAttributePaths
    from xsdata.codegen.mappers.schema import SchemaMapper
    from xsdata.codegen.parsers.schema import SchemaParser
    from xsdata.models.config import GeneratorConfig
    from xsdata.models.xsd import Schema

    schema = SchemaParser(location="mem.xsd").from_bytes(decls_xsd(decls).encode(), Schema)
    container = ClassContainer(GeneratorConfig())
    container.extend(SchemaMapper.map(schema))
    container.validate_classes()
    container.process_classes(Steps.UNGROUP)
    root = next(c for c in container if c.name == "r")
    CalculateAttributePaths().process(root)
    by_name = {a.name: a for a in root.attrs}
    return [export_gattr(by_name[f"d{i}"]) for i in range(len(decls))]


def build_gattr(g, name="x"):
    from xsdata.codegen.models import Attr, AttrType, Restrictions
    from xsdata.models.enums import DataType, Namespace, Tag

    if g["is_attribute"]:
        dt = DataType.ANY_SIMPLE_TYPE if g["any_obj"] else DataType.STRING
        tag = Tag.ATTRIBUTE
    else:
        dt = DataType.ANY_TYPE if g["any_obj"] else DataType.STRING
        tag = Tag.ELEMENT
    a = Attr(name=name, tag=tag, types=[AttrType(qname=str(dt), native=True)], default=g["default"], fixed=g["fixed"],
             restrictions=Restrictions(min_occurs=g["min"], max_occurs=g["max"], tokens=True if g.get("tokens") else None))
    if g.get("xsi_type"):
        a.name, a.namespace = "type", Namespace.XSI.uri
    return a


def real_attr_sanitize(gattrs):
    from xsdata.codegen.container import ClassContainer
    from xsdata.codegen.handlers import SanitizeAttributesDefaultValue
    from xsdata.codegen.models import Class
    from xsdata.models.config import GeneratorConfig
    from xsdata.models.enums import Tag

    handler = SanitizeAttributesDefaultValue(ClassContainer(GeneratorConfig()))
    target = Class(qname="r", tag=Tag.ELEMENT, location="mem")
    out = []
    for g in gattrs:
        a = build_gattr(g)
        target.attrs = [a]
        handler.process_attribute(target, a)
        out.append(export_gattr(a))
    return out


def dataclass_field_shape(f):
    import dataclasses

    if f.default_factory is not dataclasses.MISSING:
        if f.default_factory in (list, tuple):
            d = "list"
        else:
            v = f.default_factory()  # the default of a tokens field: `lambda: [t1, t2]` — the declared tokens
            d = [" ".join(x if isinstance(x, str) else repr(x) for x in v)] if isinstance(v, (list, tuple)) else "factory"
    elif f.default is dataclasses.MISSING:
        d = "MISSING"
    elif f.default is None:
        d = "None"
    else:
        import enum

        v = f.default.value if isinstance(f.default, enum.Enum) else f.default
        d = [v if isinstance(v, str) else repr(v)]
    return {"init": f.init, "default": d}


# --------------------------------------------------------------------------
# derived complex types: restriction overrides, extension  (model: lean/XsdataModel/Gen/Derive.lean)
#   oattr := {"name", "min", "max", "default", "fixed"}
# --------------------------------------------------------------------------
def build_oattr(o, name="x"):
    from xsdata.codegen.models import Attr, AttrType, Restrictions
    from xsdata.models.enums import DataType, Tag

    return Attr(name=o.get("name", name), tag=Tag.ELEMENT, types=[AttrType(qname=str(DataType.STRING), native=True)],
                default=o.get("default"), fixed=bool(o.get("fixed")), restrictions=Restrictions(min_occurs=o["min"], max_occurs=o["max"]))


def export_oattr(a):
    return {"min": a.restrictions.min_occurs, "max": a.restrictions.max_occurs, "default": a.default, "fixed": bool(a.fixed)}


def real_override(child, parent):
    import logging

    from xsdata.codegen.handlers import ValidateAttributesOverrides
    from xsdata.codegen.models import Class
    from xsdata.models.enums import Tag

    c, p = build_oattr(child), build_oattr(parent)
    p.parent = "{urn:t}A"
    target = Class(qname="{urn:t}C", tag=Tag.COMPLEX_TYPE, location="mem", attrs=[c])
    logging.getLogger("xsdata.logger").disabled = True
    try:
        ValidateAttributesOverrides.validate_override(target, c, p)
    finally:
        logging.getLogger("xsdata.logger").disabled = False
    return {"child": export_oattr(c) if any(x is c for x in target.attrs) else None, "parent": export_oattr(p)}


def real_restrict_attrs(base, own):
    """the real handler on constructed classes A and C(restriction of A) in a real container"""
    import logging

    from xsdata.codegen.container import ClassContainer
    from xsdata.codegen.handlers import ValidateAttributesOverrides
    from xsdata.codegen.models import AttrType, Class, Extension, Restrictions
    from xsdata.models.config import GeneratorConfig
    from xsdata.models.enums import Tag

    a = Class(qname="{urn:t}A", tag=Tag.COMPLEX_TYPE, location="mem", attrs=[build_oattr(o) for o in base])
    c = Class(qname="{urn:t}C", tag=Tag.COMPLEX_TYPE, location="mem", attrs=[build_oattr(o) for o in own],
              extensions=[Extension(tag=Tag.RESTRICTION, type=AttrType(qname="{urn:t}A"), restrictions=Restrictions())])
    container = ClassContainer(GeneratorConfig())
    container.extend([a, c])
    logging.getLogger("xsdata.logger").disabled = True
    try:
        ValidateAttributesOverrides(container).process(c)
    finally:
        logging.getLogger("xsdata.logger").disabled = False
    return {"derived": [[x.name, export_oattr(x)] for x in c.attrs], "base": [[x.name, export_oattr(x)] for x in a.attrs]}


def gen_oattr(rng, name=None):
    mn, mx = rng.choice([(1, 1), (0, 1), (0, MAXSIZE), (1, MAXSIZE), (2, 2), (0, 0), (2, 5), (1, 1), (0, 1)])
    d = rng.choice([None, None, "dv", "x"])
    o = {"min": mn, "max": mx, "default": d, "fixed": d is not None and rng.random() < 0.4}
    if name:
        o["name"] = name
    return o


def derive_xsd(base, own=None, ext=None, ns="urn:t"):
    """complexType A (a sequence of `base` elements); C = restriction of A re-declaring `own`;
    B = extension of A by the particle `ext`; global elements ra, rc, rb"""

    def el(o):
        extra = ""
        if o.get("default") is not None:
            extra = f' {"fixed" if o.get("fixed") else "default"}="{_xml_attr(o["default"])}"'
        return f'<xs:element name="{o["name"]}" type="xs:string"{occ_attrs(o["min"], o["max"])}{extra}/>'

    out = f'<?xml version="1.0"?>\n<xs:schema xmlns:xs="http://www.w3.org/2001/XMLSchema" targetNamespace="{ns}" xmlns="{ns}" elementFormDefault="qualified">\n'
    if isinstance(base, list):
        out += ' <xs:complexType name="A"><xs:sequence>' + "".join(el(o) for o in base) + "</xs:sequence></xs:complexType>\n"
    else:
        body = particle_xsd(base, ns=ns).split("<xs:complexType>\n", 1)[1].rsplit("  </xs:complexType>", 1)[0]
        out += f' <xs:complexType name="A">\n{body} </xs:complexType>\n'
    out += ' <xs:element name="ra" type="A"/>\n'
    if own is not None:
        out += ' <xs:complexType name="C"><xs:complexContent><xs:restriction base="A"><xs:sequence>' + "".join(el(o) for o in own) + "</xs:sequence></xs:restriction></xs:complexContent></xs:complexType>\n <xs:element name=\"rc\" type=\"C\"/>\n"
    if ext is not None:
        body = particle_xsd(ext, ns=ns).split("<xs:complexType>\n", 1)[1].rsplit("  </xs:complexType>", 1)[0]
        out += f' <xs:complexType name="B"><xs:complexContent><xs:extension base="A">\n{body}</xs:extension></xs:complexContent></xs:complexType>\n <xs:element name="rb" type="B"/>\n'
    return out + "</xs:schema>\n"


# --------------------------------------------------------------------------
# substitution groups  (model: lean/XsdataModel/Gen/Subst.lean)
# --------------------------------------------------------------------------
def real_subst_sites(sites, subs, refs, ns="urn:t"):
    """the real AddAttributeSubstitutions on a constructed class whose `refs` attrs are typed by global
    element classes; `subs`: (member, head) pairs"""
    from xsdata.codegen.container import ClassContainer
    from xsdata.codegen.handlers import AddAttributeSubstitutions
    from xsdata.codegen.models import AttrType, Class
    from xsdata.models.config import GeneratorConfig
    from xsdata.models.enums import Tag

    q = lambda n: "{%s}%s" % (ns, n)  # noqa: E731
    target = build_class(sites)
    for a in target.attrs:
        if a.name in refs:
            a.types = [AttrType(qname=q(a.name))]
    heads = dict(map(tuple, subs))
    classes = [target]
    for n in dict.fromkeys(list(refs) + list(heads) + list(heads.values())):
        classes.append(Class(qname=q(n), tag=Tag.ELEMENT, location="mem", namespace=ns, substitutions=[q(heads[n])] if n in heads else []))
    # one handler for all the classes of a container: a class with the same attrs goes first, the result for
    # `target` must not depend on it (the handler keeps the substitution map, the types keep a `substituted` flag)
    decoy = build_class(sites)
    decoy.qname = "decoy"
    for a in decoy.attrs:
        if a.name in refs:
            a.types = [AttrType(qname=q(a.name))]
    classes.append(decoy)
    container = ClassContainer(GeneratorConfig())
    container.extend(classes)
    handler = AddAttributeSubstitutions(container)
    handler.process(decoy)
    handler.process(target)
    return [export_attr(a) for a in target.attrs]


def by_name(sites):
    """order of insertion and `index` of the clones are not modelled"""
    return renumber(sorted(({**s, "index": 0} for s in sites), key=lambda s: s["name"]))


# --------------------------------------------------------------------------
# namespaces and forms  (model: lean/XsdataModel/Gen/Ns.lean)
#   ctx  := {"tns": str|None, "default": str|None (xmlns="…"), "prefixes": {prefix: uri}, "eform": None|"qualified"|"unqualified", "aform": …}
#   decl := {"attr": bool, "kind": "local", "name", "form": None|"qualified"|"unqualified", "tnsattr": str|None}
#         | {"attr": bool, "kind": "ref", "prefix": str|None, "name"}      (reference to a global element / attribute)
#   The main schema s.xsd has the context `ctx`; o.xsd (target namespace urn:o) and n.xsd (no target namespace)
#   declare the global elements g / attributes ga that references may point to.
# --------------------------------------------------------------------------
NS_O = "urn:o"


def ns_spec(ctx, d):
    """XSD: the namespace name of the element / attribute a declaration or reference stands for ('' = none)"""
    if d["kind"] == "ref":
        if d["prefix"] is not None:
            return ctx["prefixes"].get(d["prefix"]) or ""
        if ctx["default"]:
            return ctx["default"]
        # chameleon include: the names without namespace move to the includer's target namespace
        return (ctx["tns"] or "") if ctx.get("chameleon") else ""
    if d["kind"] == "global":
        return ctx["tns"] or ""
    if d.get("tnsattr") is not None:
        return d["tnsattr"]
    form = d["form"] or (ctx["aform"] if d["attr"] else ctx["eform"]) or "unqualified"
    return (ctx["tns"] or "") if form == "qualified" else ""


def ns_ref_target(ctx, d):
    """the namespace a reference points into, and whether the three fixture schemas declare it there"""
    ns = ns_spec(ctx, d)
    return ns


def gen_ns_ctx(rng):
    tns = rng.choice(["urn:t", "urn:t", "urn:t", None])
    prefixes = {}
    default = None
    if tns and rng.random() < 0.75:
        prefixes["t"] = tns
    r = rng.random()
    if r < 0.4:
        default = tns
    elif r < 0.6:
        default = NS_O
    if rng.random() < 0.6 or default == NS_O:
        prefixes["o"] = NS_O
    chameleon = bool(tns) and rng.random() < 0.25
    if chameleon and rng.random() < 0.7:
        prefixes.pop("t", None)
        default = None if default == tns else default
    return {"tns": tns, "chameleon": chameleon, "default": default, "prefixes": prefixes,
            "eform": rng.choice([None, "qualified", "unqualified"]), "aform": rng.choice([None, None, "qualified", "unqualified"])}


def gen_ns_decls(rng, ctx, n=None):
    """declarations that resolve: a reference names a global element/attribute that one of the schemas declares"""
    decls = []
    names = iter("abcdefghij")
    used_refs = set()
    for _ in range(n or rng.randint(1, 6)):
        attr = rng.random() < 0.4
        r = rng.random()
        if r < 0.55:
            decls.append({"attr": attr, "kind": "local", "name": next(names), "form": rng.choice([None, None, "qualified", "unqualified"]), "tnsattr": None})
            continue
        # a reference: into the target namespace (global h*/ha* of s.xsd), into urn:o (g / ga), or into no namespace (n / na)
        cands = []
        for pfx in [None] + list(ctx["prefixes"]):
            ns = ns_spec(ctx, {"kind": "ref", "prefix": pfx})
            if ns == (ctx["tns"] or ""):
                cands.append((pfx, "ha" if attr else "h"))
            elif ns == NS_O:
                cands.append((pfx, "ga" if attr else "g"))
            elif ns == "" and ctx["tns"] and not ctx.get("chameleon"):
                cands.append((pfx, "na" if attr else "n"))
        cands = [c for c in cands if (c, attr) not in used_refs and (c[1], attr) not in {(x[0][1], x[1]) for x in used_refs}]
        if not cands:
            continue
        c = rng.choice(cands)
        used_refs.add((c, attr))
        decls.append({"attr": attr, "kind": "ref", "prefix": c[0], "name": c[1]})
    return decls


def ns_sources(ctx, decls):
    """the three schema documents: s.xsd (context `ctx`, root element r with the declarations), o.xsd, n.xsd"""
    xmlns = "".join(f' xmlns:{p}="{u}"' for p, u in ctx["prefixes"].items())
    if ctx["default"]:
        xmlns += f' xmlns="{ctx["default"]}"'
    tns = f' targetNamespace="{ctx["tns"]}"' if ctx["tns"] and not ctx.get("chameleon") else ""
    forms = (f' elementFormDefault="{ctx["eform"]}"' if ctx["eform"] else "") + (f' attributeFormDefault="{ctx["aform"]}"' if ctx["aform"] else "")
    els, ats = [], []
    for d in decls:
        if d["kind"] == "ref":
            q = (d["prefix"] + ":" if d["prefix"] is not None else "") + d["name"]
            (ats if d["attr"] else els).append(f'<xs:attribute ref="{q}"/>' if d["attr"] else f'<xs:element ref="{q}" minOccurs="0"/>')
        else:
            form = f' form="{d["form"]}"' if d["form"] else ""
            ta = f' targetNamespace="{d["tnsattr"]}"' if d.get("tnsattr") is not None else ""
            (ats if d["attr"] else els).append(f'<xs:attribute name="{d["name"]}" type="xs:string"{form}{ta}/>' if d["attr"] else f'<xs:element name="{d["name"]}" type="xs:string" minOccurs="0"{form}{ta}/>')
    imports = '<xs:import namespace="urn:o" schemaLocation="o.xsd"/>'
    if ctx["tns"] and not ctx.get("chameleon"):
        imports += '<xs:import schemaLocation="n.xsd"/>'
    s = (f'<?xml version="1.0"?>\n<xs:schema xmlns:xs="http://www.w3.org/2001/XMLSchema"{xmlns}{tns}{forms}>\n {imports}\n'
         f' <xs:element name="h" type="xs:string"/>\n <xs:attribute name="ha" type="xs:string"/>\n'
         f' <xs:element name="r"><xs:complexType><xs:sequence>{"".join(els)}</xs:sequence>{"".join(ats)}</xs:complexType></xs:element>\n</xs:schema>\n')
    o = ('<?xml version="1.0"?>\n<xs:schema xmlns:xs="http://www.w3.org/2001/XMLSchema" targetNamespace="urn:o">\n'
         ' <xs:element name="g" type="xs:string"/>\n <xs:attribute name="ga" type="xs:string"/>\n</xs:schema>\n')
    n = ('<?xml version="1.0"?>\n<xs:schema xmlns:xs="http://www.w3.org/2001/XMLSchema">\n'
         ' <xs:element name="n" type="xs:string"/>\n <xs:attribute name="na" type="xs:string"/>\n</xs:schema>\n')
    out = {"s.xsd": s, "o.xsd": o, "n.xsd": n}
    if ctx.get("chameleon"):
        # the document without target namespace is included by one that has it
        out["m.xsd"] = (f'<?xml version="1.0"?>\n<xs:schema xmlns:xs="http://www.w3.org/2001/XMLSchema" targetNamespace="{ctx["tns"]}">\n'
                        ' <xs:include schemaLocation="s.xsd"/>\n</xs:schema>\n')
    return out


def ns_entry(ctx):
    return ["m.xsd"] if ctx.get("chameleon") else ["s.xsd"]


def real_ns_attrs(ctx, decls):
    """SchemaParser (with the includer's target namespace for a chameleon include) + SchemaMapper: the
    namespace of the class of r and of the attr of every declaration"""
    from xsdata.codegen.mappers.schema import SchemaMapper
    from xsdata.codegen.parsers.schema import SchemaParser
    from xsdata.models.xsd import Schema

    text = ns_sources(ctx, decls)["s.xsd"]
    parser = SchemaParser(location="mem.xsd", target_namespace=ctx["tns"] if ctx.get("chameleon") else None)
    schema = parser.from_bytes(text.encode(), Schema)
    root = next(c for c in SchemaMapper.map(schema) if c.name == "r")
    els = [a for a in root.attrs if a.is_element]
    ats = [a for a in root.attrs if a.is_attribute]
    out = []
    for d in decls:
        pool = ats if d["attr"] else els
        out.append(next(a for a in pool if a.name == d["name"]).namespace)
    return {"class": root.namespace, "attrs": out}


def real_ns_meta(cases):
    """Filters.field_metadata (the namespace entry) and XmlMetaBuilder.resolve_namespaces on constructed attrs"""
    from xsdata.codegen.models import Attr, AttrType, Class
    from xsdata.formats.dataclass.filters import Filters
    from xsdata.formats.dataclass.models.builders import XmlVarBuilder
    from xsdata.formats.dataclass.models.elements import XmlType
    from xsdata.models.config import GeneratorConfig
    from xsdata.models.enums import DataType, Tag

    filters = Filters(GeneratorConfig())
    out = []
    for c in cases:
        tag = Tag.ATTRIBUTE if c["is_attr"] else Tag.ELEMENT
        attr = Attr(name="x", tag=tag, namespace=c["attr"], types=[AttrType(qname=str(DataType.STRING), native=True)])
        obj = Class(qname="r", tag=Tag.ELEMENT, location="mem", attrs=[attr])
        meta = filters.field_metadata(obj, attr, c["parent"]).get("namespace")
        nss = XmlVarBuilder.resolve_namespaces(XmlType.ATTRIBUTE if c["is_attr"] else XmlType.ELEMENT, meta, c["parent"])
        out.append({"meta": meta, "bound": (nss[0] if nss else None)})
    return out


def real_ns_fields(ctx, decls):
    """whole pipeline + XmlContext: the namespace of the qualified name the class of r and every field is bound to"""
    import codegen_run as CG
    from xsdata.formats.dataclass.context import XmlContext
    from xsdata.utils.namespaces import split_qname

    g = CG.run_pipeline(ns_sources(ctx, decls), entry=ns_entry(ctx))
    try:
        if g.error is not None:
            raise g.error
        meta = XmlContext().build(g.classes()["R"])
        els = {}
        for v in meta.get_element_vars():
            els[split_qname(v.qname)[1]] = split_qname(v.qname)[0]
        ats = {split_qname(v.qname)[1]: split_qname(v.qname)[0] for v in meta.get_attribute_vars()}
        fields = [(ats if d["attr"] else els).get(d["name"], "MISSING") or None for d in decls]
        return {"class": split_qname(meta.qname)[0] or None, "fields": fields}
    finally:
        g.close()


def ns_doc(ctx, decls, present):
    """an instance of r carrying the declared children / attributes `present` (indexes) under their spec names"""
    tns = ctx["tns"] or ""
    nsmap = {}

    def q(ns, name):
        if not ns:
            return name
        pfx = nsmap.setdefault(ns, f"p{len(nsmap)}")
        return f"{pfx}:{name}"

    root = q(tns, "r")
    kids = "".join(f"<{q(ns_spec(ctx, d), d['name'])}>v{i}</{q(ns_spec(ctx, d), d['name'])}>" for i, d in enumerate(decls) if not d["attr"] and i in present)
    ats = "".join(f' {q(ns_spec(ctx, d), d["name"])}="w{i}"' for i, d in enumerate(decls) if d["attr"] and i in present)
    decl = "".join(f' xmlns:{p}="{u}"' for u, p in nsmap.items())
    return f"<{root}{decl}{ats}>{kids}</{root}>"


# --------------------------------------------------------------------------
# DTD attribute declarations  (model: lean/XsdataModel/Gen/DtdAttrs.lean)
#   decl := {"default": "required"|"implied"|"fixed"|"none", "value": str|None, "type": "CDATA"|"NMTOKEN"|"ID"|"enum"}
# --------------------------------------------------------------------------
def real_dtd_attr(decls):
    from xsdata.codegen.mappers.dtd import DtdMapper
    from xsdata.codegen.models import Class
    from xsdata.models.dtd import DtdAttribute, DtdAttributeDefault, DtdAttributeType
    from xsdata.models.enums import Tag

    out = []
    for d in decls:
        target = Class(qname="r", tag=Tag.ELEMENT, location="mem")
        a = DtdAttribute(name="x", prefix=None, type=DtdAttributeType.CDATA, default=DtdAttributeDefault(d["default"]),
                         default_value=d["value"], values=[])
        DtdMapper.build_attribute(target, a)
        out.append(export_gattr(target.attrs[0]))
    return out


def dtd_attlist(decls):
    parts = []
    for i, d in enumerate(decls):
        tp = d.get("type", "CDATA")
        if tp == "enum":
            tp = "(" + "|".join(d.get("values") or ["x", "y", "z"]) + ")"
        kw = {"required": "#REQUIRED", "implied": "#IMPLIED", "fixed": "#FIXED ", "none": ""}[d["default"]]
        val = f'"{d["value"]}"' if d["value"] is not None else ""
        parts.append(f"d{i} {tp} {kw}{val}")
    return "<!ATTLIST r " + "  ".join(parts) + ">\n" if parts else ""


DTD_LIST_TYPES = ("NMTOKENS", "IDREFS", "ENTITIES")  # attribute types whose value is a list of tokens


def gen_dtd_attr_decl(rng, grammatical=True):
    k = rng.choice(["required", "implied", "fixed", "none"])
    tp = rng.choice(["CDATA", "CDATA", "NMTOKEN", "enum", "enum"] + list(DTD_LIST_TYPES))
    values = rng.choice(ENUM_SETS) if tp == "enum" else None
    v = None
    if k in ("fixed", "none") or (not grammatical and rng.random() < 0.3):
        v = rng.choice(values) if tp == "enum" else rng.choice(["D", "x", "v1"] + (["t1 t2", "a b c"] * 2 if tp in DTD_LIST_TYPES else []))
    if not grammatical and rng.random() < 0.2:
        v = None
    d = {"default": k, "value": v, "type": tp}
    if values:
        d["values"] = values
    return d


# --------------------------------------------------------------------------
# DTD element declarations  (model: lean/XsdataModel/Gen/DtdElem.lean)
# --------------------------------------------------------------------------
def real_dtd_elem(dtd_text: str):
    """DtdParser + DtdMapper.build_class + the FLATTEN handlers that touch the attrs of a DTD class:
    the element type and content tree lxml reports, and the element fields of the class"""
    from xsdata.codegen.handlers import ProcessMixedContentClass
    from xsdata.codegen.handlers.calculate_attribute_paths import CalculateAttributePaths
    from xsdata.codegen.handlers.merge_attributes import MergeAttributes
    from xsdata.codegen.handlers.update_attributes_effective_choice import UpdateAttributesEffectiveChoice
    from xsdata.codegen.mappers.dtd import DtdMapper
    from xsdata.codegen.parsers.dtd import DtdParser
    from xsdata.models.dtd import DtdContentType

    dtd = DtdParser.parse(dtd_text.encode(), location="mem.dtd")
    el = next(e for e in dtd.elements if e.name == "r")

    def conv(c):
        if c is None:
            return None
        o = c.occur.value
        if c.type == DtdContentType.PCDATA:
            return {"pcdata": o}
        if c.type == DtdContentType.ELEMENT:
            return {"element": [c.name, o]}
        return {("seq" if c.type == DtdContentType.SEQ else "or"): [o, conv(c.left), conv(c.right)]}

    args = {"type": el.type.name.lower(), "content": conv(el.content)}
    cls = DtdMapper.build_class(el, "mem.dtd")
    CalculateAttributePaths().process(cls)
    UpdateAttributesEffectiveChoice().process(cls)
    MergeAttributes().process(cls)
    ProcessMixedContentClass().process(cls)
    wild = [a for a in cls.attrs if a.is_wildcard]
    if wild:
        w = wild[0]
        assert cls.mixed and w.mixed and w.restrictions.min_occurs == 0 and w.restrictions.max_occurs == MAXSIZE and len(cls.attrs) == 1
        out = {"mixed": [c.name for c in w.choices]}
    elif cls.extensions:
        # <!ELEMENT e ANY>: an extension of xs:anyType (FlattenClassExtensions turns it into one optional wildcard)
        e = cls.extensions[0]
        assert len(cls.extensions) == 1 and e.type.native and e.type.qname.endswith("}anyType") and not cls.mixed and not [a for a in cls.attrs if not a.is_attribute]
        out = {"any_extension": True}
    else:
        out = {"plain": [[a.name, a.restrictions.min_occurs, a.restrictions.max_occurs] for a in cls.attrs if not a.is_attribute]}
    return args, out


# --------------------------------------------------------------------------
# compound fields  (model: lean/XsdataModel/Gen/Compound.lean)
# --------------------------------------------------------------------------
def real_compound(sites):
    """the real CreateCompoundFields (compound fields enabled) on a constructed class"""
    from xsdata.codegen.container import ClassContainer
    from xsdata.codegen.handlers import CreateCompoundFields
    from xsdata.models.config import GeneratorConfig
    from xsdata.models.enums import Tag

    cfg = GeneratorConfig()
    cfg.output.compound_fields.enabled = True
    container = ClassContainer(cfg)
    target = build_class(sites)
    container.extend([target])
    CreateCompoundFields(container).process(target)
    out = []
    for a in target.attrs:
        if a.tag == Tag.CHOICE:
            r = a.restrictions
            out.append({"compound": {"names": [c.name for c in a.choices], "min": r.min_occurs, "max": r.max_occurs, "sequence": r.sequence}})
        else:
            out.append({"plain": a.name})
    return out


# --------------------------------------------------------------------------
# enumerations whose values collide after slugging, and their defaults  (model: lean/XsdataModel/Gen/EnumDefault.lean)
# --------------------------------------------------------------------------
ENUM_SETS = [
    ["x", "y", "z"],                 # no collision
    ["on", "ON", "off"],             # case
    ["A", "a"],
    ["x-1", "x1"],                   # punctuation (x-1 -> X_1, x1 -> X1: distinct slugs, one alnum)
    ["a.b", "a_b", "ab"],
    ["a-b", "a.b", "a_b", "A-B"],
    ["1", "2", "10"],                # leading digits (VALUE_ prefix)
    ["value", "Value", "VALUE"],
    ["x", "X", "x_1"],               # the index suffix itself collides
    ["True", "true", "None"],        # python keywords / constants
]


def real_enum_members(values, qname="{urn:t}e"):
    """the enumeration class of `values` after the real RenameDuplicateAttributes: (value, member attr name)"""
    from xsdata.codegen.handlers import RenameDuplicateAttributes
    from xsdata.codegen.models import Attr, AttrType, Class
    from xsdata.models.enums import DataType, Tag

    tp = AttrType(qname=str(DataType.STRING), native=True)
    source = Class(qname=qname, tag=Tag.SIMPLE_TYPE, location="mem",
                   attrs=[Attr(name=v, default=v, fixed=True, tag=Tag.ENUMERATION, types=[tp.clone()]) for v in values])
    RenameDuplicateAttributes().process(source)
    return source, [{"value": a.default, "name": a.name} for a in source.attrs]


def real_enum_default(values, default, tokens=False):
    """the real SanitizeAttributesDefaultValue.is_valid_enum_type on the renamed enumeration class, and the values
    of the members the real Filters.field_default_enum / constant_name make of the placeholder"""
    from xsdata.codegen.handlers import SanitizeAttributesDefaultValue
    from xsdata.codegen.models import Attr, AttrType, Restrictions
    from xsdata.formats.dataclass.filters import Filters
    from xsdata.models.config import GeneratorConfig
    from xsdata.models.enums import Tag
    from xsdata.utils import namespaces

    source, members = real_enum_members(values)
    attr = Attr(name="x", tag=Tag.ATTRIBUTE, types=[AttrType(qname=source.qname)], default=default,
                restrictions=Restrictions(min_occurs=0, max_occurs=1, tokens=True if tokens else None))
    okk = SanitizeAttributesDefaultValue.is_valid_enum_type(source, attr)
    if not okk:
        return {"placeholder": None, "values": None}
    assert attr.default.startswith("@enum@" + source.qname + "::")
    names = attr.default.split("::", 1)[1].split("@")
    f = Filters(GeneratorConfig())
    cname = namespaces.local_name(source.qname)
    consts = {f.constant_name(a.name, cname): a.default for a in source.attrs}
    rendered = f.field_default_enum(attr)
    refs = [f.constant_name(n, cname) for n in names]
    assert all(r in rendered for r in refs)
    return {"placeholder": names, "values": [consts.get(r) for r in refs]}


# --------------------------------------------------------------------------
# the strict parser on the generated class, one attribute  (model: readAttr in lean/XsdataModel/Gen/Attrs.lean)
# --------------------------------------------------------------------------
def real_read_attr(sources, givens, doc_of, entry=None):
    """generate the classes, then parse one document per `given` (None: attribute absent) under
    fail_on_unknown_attributes: what the field of attribute d0 holds, or "ParserError" """
    import enum

    import codegen_run as CG
    from xsdata.exceptions import ParserError
    from xsdata.formats.dataclass.context import XmlContext
    from xsdata.formats.dataclass.parsers import XmlParser
    from xsdata.formats.dataclass.parsers.config import ParserConfig

    g = CG.run_pipeline(sources, entry=entry)
    try:
        if g.error is not None:
            raise g.error
        import dataclasses

        R = g.classes()["R"]
        fields = {f.metadata.get("name", f.name): f.name for f in dataclasses.fields(R) if f.metadata.get("type") == "Attribute"}
        parser = XmlParser(context=XmlContext(), config=ParserConfig(fail_on_unknown_properties=True, fail_on_unknown_attributes=True))
        out = []
        for given in givens:
            try:
                obj = parser.from_string(doc_of(given), R)
            except ParserError:
                out.append("ParserError")
                continue
            v = getattr(obj, fields["d0"]) if "d0" in fields else None
            if isinstance(v, enum.Enum):
                v = v.value
            if isinstance(v, (list, tuple)):  # a tokens attribute: the tokens; no token = no attribute
                v = " ".join(x.value if isinstance(x, enum.Enum) else x for x in v) if v else None
            out.append([v])
        return out
    finally:
        g.close()


# --------------------------------------------------------------------------
# type name lookup  (model: lean/XsdataModel/Gen/TypeLookup.lean)
# --------------------------------------------------------------------------
def real_find_dependency(tag, cands, target):
    """ProcessAttributeTypes.find_dependency in a real container that holds one class per candidate tag, all
    with one qualified name; `target`: the index of the class that owns the attr (None: another class)"""
    from xsdata.codegen.container import ClassContainer
    from xsdata.codegen.handlers import ProcessAttributeTypes
    from xsdata.codegen.models import AttrType, Class
    from xsdata.models.config import GeneratorConfig

    classes = [Class(qname="{urn:t}n", tag=t, location="mem") for t in cands]
    other = Class(qname="{urn:t}owner", tag="Element", location="mem")
    container = ClassContainer(GeneratorConfig())
    container.extend(classes + [other])
    owner = classes[target] if target is not None else other
    res = ProcessAttributeTypes(container).find_dependency(owner, AttrType(qname="{urn:t}n"), tag)
    return None if res is None else next(i for i, c in enumerate(classes) if c is res)


# --------------------------------------------------------------------------
# real sites
# --------------------------------------------------------------------------
def renumber(sites):
    """ids are Python id() values in the real code and preorder numbers in the model:
    rename both by order of first appearance"""
    ids = {}

    def m(i):
        if i is None:
            return None
        if i <= 0:
            return i
        if i not in ids:
            ids[i] = len(ids) + 1
        return ids[i]

    out = []
    for s in sites:
        path = [[k, m(i), mn, mx] for k, i, mn, mx in s["path"]]
        out.append({**s, "path": path, "choice": m(s["choice"]) if s["choice"] and s["choice"] > 0 else s["choice"], "sequence": m(s["sequence"])})
    return out


def export_attr(attr, index=None):
    r = attr.restrictions
    return {
        "name": attr.name,
        "index": attr.index if index is None else index,
        "min": r.min_occurs if r.min_occurs is not None else 0,
        "max": r.max_occurs if r.max_occurs is not None else 0,
        "path": [[k, i, mn, mx] for k, i, mn, mx in r.path],
        "choice": r.choice,
        "sequence": r.sequence,
    }


def real_xsd_sites(xsd: str):
    """SchemaParser + SchemaMapper: the element attrs of the class of root element `r`"""
    from xsdata.codegen.mappers.schema import SchemaMapper
    from xsdata.codegen.parsers.schema import SchemaParser
    from xsdata.models.xsd import Schema

    schema = SchemaParser(location="mem.xsd").from_bytes(xsd.encode(), Schema)
    classes = SchemaMapper.map(schema)
    root = next(c for c in classes if c.name == "r")
    return renumber([export_attr(a, i) for i, a in enumerate(a for a in root.attrs if a.is_element)])


def build_class(sites):
    from xsdata.codegen.models import Attr, AttrType, Class, Restrictions
    from xsdata.models.enums import DataType, Tag

    target = Class(qname="r", tag=Tag.ELEMENT, location="mem")
    for s in sites:
        res = Restrictions(
            min_occurs=s["min"], max_occurs=s["max"], path=[tuple(p) for p in s["path"]], choice=s["choice"], sequence=s["sequence"]
        )
        a = Attr(name=s["name"], tag=Tag.ELEMENT, types=[AttrType(qname=str(DataType.STRING), native=True)], restrictions=res)
        a.index = s["index"]
        target.attrs.append(a)
    return target


def real_stage(sites, stage):
    from xsdata.codegen.handlers.calculate_attribute_paths import CalculateAttributePaths
    from xsdata.codegen.handlers.merge_attributes import MergeAttributes
    from xsdata.codegen.handlers.update_attributes_effective_choice import UpdateAttributesEffectiveChoice

    target = build_class(sites)
    if stage in ("calc", "all"):
        CalculateAttributePaths().process(target)  # the container holds an instance; `process` is a classmethod today
    if stage in ("effective", "all"):
        UpdateAttributesEffectiveChoice().process(target)
    if stage in ("merge", "all"):
        MergeAttributes().process(target)
    return [export_attr(a) for a in target.attrs]


# --------------------------------------------------------------------------
# DTD
# --------------------------------------------------------------------------
OCC = {"once": "", "opt": "?", "mult": "*", "plus": "+"}


def gen_dtd_content(rng, depth=0, top=True, distinct=None):
    r = rng.random()
    occ = rng.choice(["once", "once", "opt", "mult", "plus"])
    if not top and (depth >= 3 or r < 0.45):
        if distinct is not None:
            if not distinct:
                return None
            n = distinct.pop(rng.randrange(len(distinct)))
        else:
            n = rng.choice(NAMES)
        return {"n": n, "o": occ}
    kind = "seq" if rng.random() < 0.55 else "or"
    kids = []
    for _ in range(rng.randint(2, 3)):
        k = gen_dtd_content(rng, depth + 1, False, distinct)
        if k is not None:
            kids.append(k)
    if len(kids) < 2:
        return kids[0] if kids and not top else ({"k": "seq", "o": occ, "c": kids} if kids else None)
    return {"k": kind, "o": occ, "c": kids}


def dtd_text_of(c):
    if "n" in c:
        return c["n"] + OCC[c["o"]]
    sep = "," if c["k"] == "seq" else "|"
    return "(" + sep.join(dtd_text_of(k) for k in c["c"]) + ")" + OCC[c["o"]]


CHILD_DECL = {"pcdata": "(#PCDATA)", "empty": "EMPTY", "any": "ANY", "mixed": "(#PCDATA|zz)*", "elems": "(zz,zz?)"}


def dtd_doc(c, names=None, kinds=None):
    """`kinds`: name -> declaration of that child element (default `(#PCDATA)`): EMPTY, ANY, mixed content
    `(#PCDATA|zz)*`, element content `(zz,zz?)`; `zz` is declared `(#PCDATA)`"""
    body = dtd_text_of(c)
    if "n" in c:
        body = "(" + body + ")"
    out = f"<!ELEMENT r {body}>\n"
    kinds = kinds or {}
    for n in sorted(set(names or dtd_names(c))):
        out += f"<!ELEMENT {n} {CHILD_DECL[kinds.get(n, 'pcdata')]}>\n"
    if any(k in ("any", "mixed", "elems") for k in kinds.values()):
        out += "<!ELEMENT zz (#PCDATA)>\n"
    return out


def dtd_child_xml(n, i, kinds=None):
    """the i-th child of a document: content by the kind of its declaration"""
    k = (kinds or {}).get(n, "pcdata")
    if k == "pcdata":
        return f"<{n}>v{i}</{n}>"
    if k == "empty":
        return f"<{n}/>"
    if k == "elems":
        return f"<{n}><zz>e{i}</zz></{n}>" if i % 2 else f"<{n}><zz>e{i}</zz><zz>f{i}</zz></{n}>"
    # any / mixed: text and declared elements interleaved
    variants = [f"<{n}/>", f"<{n}>t{i}</{n}>", f"<{n}>t{i}<zz>q{i}</zz>u{i}</{n}>", f"<{n}><zz>q{i}</zz><zz>r{i}</zz>u{i}</{n}>"]
    return variants[i % len(variants)]


def dtd_names(c):
    if "n" in c:
        return [c["n"]]
    out = []
    for k in c["c"]:
        out += dtd_names(k)
    return out


def dtd_particle(c):
    b = {"once": (1, 1), "opt": (0, 1), "mult": (0, MAXSIZE), "plus": (1, MAXSIZE)}[c["o"]]
    if "n" in c:
        return {"elem": [c["n"], b[0], b[1]]}
    return {("seq" if c["k"] == "seq" else "choice"): [b[0], b[1], [dtd_particle(k) for k in c["c"]]]}


def real_dtd(dtd_text: str):
    """lxml's binary content tree as the model's JSON, and the DtdMapper attrs of `r`"""
    from xsdata.codegen.mappers.dtd import DtdMapper
    from xsdata.codegen.parsers.dtd import DtdParser
    from xsdata.models.dtd import DtdContentType

    dtd = DtdParser.parse(dtd_text.encode(), location="mem.dtd")
    el = next(e for e in dtd.elements if e.name == "r")

    def conv(c):
        if c is None:
            return None
        o = c.occur.value
        if c.type == DtdContentType.PCDATA:
            return {"pcdata": o}
        if c.type == DtdContentType.ELEMENT:
            return {"element": [c.name, o]}
        key = "seq" if c.type == DtdContentType.SEQ else "or"
        return {key: [o, conv(c.left), conv(c.right)]}

    content = conv(el.content)
    cls = DtdMapper.build_class(el, "mem.dtd")
    sites = renumber([export_attr(a, i) for i, a in enumerate(a for a in cls.attrs if a.is_element)])
    return content, sites


# --------------------------------------------------------------------------
# simple types -> python field types  (model: lean/XsdataModel/Gen/FieldType.lean)
#   sty := {"b": code} | {"r": sty, "pattern": bool} | {"l": sty} | {"u": [sty…]}
#   decl := {"attr": bool, "min": n, "max": n}
# --------------------------------------------------------------------------
TYPE_DECLS = [{"attr": False, "min": 1, "max": 1}, {"attr": False, "min": 0, "max": 1}, {"attr": False, "min": 0, "max": 3},
              {"attr": False, "min": 1, "max": 3}, {"attr": True, "min": 1, "max": 1}, {"attr": True, "min": 0, "max": 1}]
LIST_CODES = ("NMTOKENS", "IDREFS", "ENTITIES")


def datatype_codes():
    from xsdata.models.enums import DataType

    return [d.code for d in DataType]


def sty_has_list(t):
    if "b" in t:
        return t["b"] in LIST_CODES
    if "r" in t:
        return sty_has_list(t["r"])
    if "l" in t:
        return True
    return any(sty_has_list(m) for m in t["u"])


def sty_shape(t):
    if "b" in t:
        return "b"
    if "r" in t:
        return ("rp(" if t["pattern"] else "r(") + sty_shape(t["r"]) + ")"
    if "l" in t:
        return ("la(" if t.get("anon") else "l(") + sty_shape(t["l"]) + ")"
    return "u(" + ",".join(sty_shape(m) for m in t["u"]) + ")"


def gen_sty(rng, depth, atomic=False):
    """a random simple type; `atomic`: usable as the item type of a list (no list inside)"""
    codes = [c for c in datatype_codes() if c != "anyType"]
    if depth == 0 or rng.random() < 0.25:
        pool = [c for c in codes if not (atomic and c in LIST_CODES)]
        # the members the handlers treat specially come up often
        if rng.random() < 0.3:
            pool = [c for c in ("error", "anySimpleType", "NMTOKENS", "ENTITIES", "IDREFS", "hexBinary", "string", "int", "long") if c in pool]
        return {"b": rng.choice(pool)}
    k = rng.choice(["r", "r", "l", "u", "u"] if not atomic else ["r", "u"])
    if k == "r":
        return {"r": gen_sty(rng, depth - 1, atomic), "pattern": rng.random() < 0.3}
    if k == "l":
        item = gen_sty(rng, depth - 1, True)
        t = {"l": item}
        if ("r" in item and not item["pattern"] and "b" in item["r"]) or ("u" in item and all("b" in m for m in item["u"])):
            t["anon"] = rng.random() < 0.6
        return t
    return {"u": [gen_sty(rng, depth - 1, atomic) for _ in range(rng.randint(1, 3))]}


def sty_xsd(t, decls):
    """every derived simple type as a NAMED xs:simpleType (children first), one element r whose
    type declares d0… with the type"""
    defs = []

    def name_of(t):
        if "b" in t:
            return "xs:" + t["b"]
        if "r" in t:
            base = name_of(t["r"])
            body = f'<xs:restriction base="{base}">' + ('<xs:pattern value="[^#]*"/>' if t["pattern"] else "") + "</xs:restriction>"
        elif "l" in t and t.get("anon"):
            # the item type as an anonymous simpleType child (a facet-free restriction or a union of builtins)
            it = t["l"]
            inner = (f'<xs:restriction base="{name_of(it["r"])}"/>' if "r" in it
                     else '<xs:union memberTypes="' + " ".join(name_of(m) for m in it["u"]) + '"/>')
            body = f"<xs:list><xs:simpleType>{inner}</xs:simpleType></xs:list>"
        elif "l" in t:
            body = f'<xs:list itemType="{name_of(t["l"])}"/>'
        else:
            body = '<xs:union memberTypes="' + " ".join(name_of(m) for m in t["u"]) + '"/>'
        n = f"t{len(defs)}"
        defs.append(f' <xs:simpleType name="{n}">{body}</xs:simpleType>\n')
        return n

    tn = name_of(t)
    els = "".join(f'    <xs:element name="d{i}" type="{tn}"{occ_attrs(d["min"], d["max"])}/>\n' for i, d in enumerate(decls) if not d["attr"])
    ats = "".join(f'   <xs:attribute name="d{i}" type="{tn}"{" use=" + chr(34) + "required" + chr(34) if d["min"] else ""}/>\n'
                  for i, d in enumerate(decls) if d["attr"])
    return (f'<?xml version="1.0"?>\n<xs:schema xmlns:xs="http://www.w3.org/2001/XMLSchema">\n{"".join(defs)}'
            f' <xs:element name="r">\n  <xs:complexType>\n   <xs:sequence>\n{els}   </xs:sequence>\n{ats}  </xs:complexType>\n </xs:element>\n</xs:schema>\n')


def real_field_types(t, decls):
    """the whole real pipeline (+ stand-in renderer, which calls the real Filters.field_type): the
    annotation of the field of every declaration, the tokens flag and whether a pattern is recorded"""
    import dataclasses

    import codegen_run as CG

    g = CG.run_pipeline({"s.xsd": sty_xsd(t, decls)})
    try:
        if g.error is not None:
            raise g.error
        fs = {f.metadata.get("name", f.name): f for f in dataclasses.fields(g.classes()["R"])}
        fl = [fs[f"d{i}"] for i in range(len(decls))]
        tokens = {bool(f.metadata.get("tokens")) for f in fl}
        pattern = {"pattern" in f.metadata for f in fl}
        assert len(tokens) == 1 and len(pattern) == 1, (tokens, pattern)
        return {"tokens": tokens.pop(), "pattern": pattern.pop(), "fields": [str(f.type) for f in fl]}
    finally:
        g.close()
