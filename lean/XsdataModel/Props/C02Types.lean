/- C02 — "nothing … retyped": the python type of the field generated for a declaration of a builtin
or user simple type: property theorems (only). Model and Spec: `Gen/FieldType`; the live `DataType`
enumeration: `Tables.dataTypeMembers`; the converter registry of C05: `Conv/Factory` (`Ty`). -/
import XsdataModel.Gen.FieldType
import XsdataModel.Proofs.FieldType
import XsdataModel.Conv.Factory

namespace Props.C02Types
open Xs.Gen Py

/-- **field_type_faithful** (builtins): for EVERY member of the live `DataType` enumeration, the
field generated for an element or attribute declared with that builtin has exactly the python type
XML Schema part 2 gives the builtin's value space (`specPy`), and is a list of tokens exactly for
the list builtins (`xs:NMTOKENS`, `xs:IDREFS`, `xs:ENTITIES` — the last after the repair
`fix: xs:ENTITIES is a list type`). -/
theorem field_type_faithful :
    ∀ e ∈ Tables.dataTypeMembers,
      specPy e.1 = some ((pyNames (attrOf (.builtin e.1))).headD [], (attrOf (.builtin e.1)).tokens)
      ∧ (pyNames (attrOf (.builtin e.1))).length = 1 := by
  decide

/-- … and the spec table has an entry for exactly the builtins of the live table -/
theorem spec_covers_the_table :
    ∀ e ∈ Tables.dataTypeMembers, (specPy e.1).isSome := by
  decide

/-- **field_type_faithful** (user simple types), `_partial`: for every simple type built from the
builtins of the live table by restriction (no pattern facet), list and union (any nesting), the
python types of the generated field are exactly those of the value spaces of its builtin leaves,
the field is a list of tokens exactly when the type is a list, and no pattern is recorded.
Not covered (counterexamples below): a pattern facet, `xs:anySimpleType` / `xs:error` as a leaf. -/
theorem user_type_faithful_partial (t : STy) (h : plainSTy t = true) :
    (∀ n, n ∈ pyNames (attrOf t) ↔ n ∈ specTypes t)
    ∧ (attrOf t).tokens = isListTy t ∧ (attrOf t).pattern = false := by
  obtain ⟨h1, h2, h3, h4⟩ := attrOf_plain t h
  refine ⟨?_, h2, h1⟩
  intro n
  simp only [pyNames, specTypes, mem_uniqueSeq, List.mem_filterMap]
  constructor
  · rintro ⟨c, hc, hn⟩
    have hcl := (h3 c).1 hc
    refine ⟨c, hcl, ?_⟩
    have hp := h4 c hcl
    simp only [plainCode, Bool.and_eq_true] at hp
    rw [← py_eq_spec c hp.1.1]; exact hn
  · rintro ⟨c, hcl, hn⟩
    refine ⟨c, (h3 c).2 hcl, ?_⟩
    have hp := h4 c hcl
    simp only [plainCode, Bool.and_eq_true] at hp
    rw [py_eq_spec c hp.1.1]; exact hn

/-- the hypothesis is satisfiable: a union of a list of restricted dates and `xs:int` -/
example : plainSTy (.union [.list (.restriction (.builtin "date".toList) false), .builtin "int".toList]) = true := by decide

/-- the annotation the model renders for it (optional element): `list[XmlDate | int]` -/
example : fieldTypeOf (.union [.list (.restriction (.builtin "date".toList) false), .builtin "int".toList]) false 0 1
    = "list[XmlDate | int]".toList := by decide

/-- **A pattern facet retypes the field** (finding `C02-pattern-facet-retypes-str`): a restriction
of `xs:int` with a pattern has integers as values, the generated field is `str`; -/
theorem pattern_facet_retypes :
    pyNames (attrOf (.restriction (.builtin "int".toList) true)) = ["str".toList]
    ∧ specTypes (.restriction (.builtin "int".toList) true) = ["int".toList] := by decide

/-- … and in a union the pattern of one member retypes the members that FOLLOW it (the pattern is
merged into the attr's restrictions while its types are processed in order): `date` after the
patterned member is `str`, before it `XmlDate`. -/
theorem pattern_member_retypes_following :
    pyNames (attrOf (.union [.restriction (.builtin "int".toList) true, .builtin "date".toList])) = ["str".toList]
    ∧ pyNames (attrOf (.union [.builtin "date".toList, .restriction (.builtin "int".toList) true]))
        = ["XmlDate".toList, "str".toList] := by decide

/-- `ClassUtils.filter_types` drops `xs:anySimpleType` next to another member: the union admits every
value, the field only `int` (finding `C02-union-any-member-dropped`) -/
theorem union_any_member_dropped :
    pyNames (attrOf (.union [.builtin "anySimpleType".toList, .builtin "int".toList])) = ["int".toList]
    ∧ specTypes (.union [.builtin "anySimpleType".toList, .builtin "int".toList]) = ["object".toList, "int".toList] := by
  decide

/-- the value types of C05's converter model (`Conv/Factory`: `Ty`), by name -/
def convTyNames : List Str :=
  [Xs.Conv.Ty.int, .bool, .float, .decimal, .str, .qname, .bytes, .xmlDate, .xmlTime, .xmlDateTime, .xmlDuration,
    .xmlPeriod].map (·.name)

/-- **Tie to C05**: the python type of the field of every builtin is registered in the live converter
registry (`Tables.registryTypes`, `ConverterFactory.registry`) and is a value type of C05's converter
model, or `object` (any value; `xs:anyType` / `xs:anySimpleType`) -/
theorem field_type_registered :
    ∀ e ∈ Tables.dataTypeMembers, ∀ n ∈ pyNames (attrOf (.builtin e.1)),
      n ∈ Tables.registryTypes ∧ (n ∈ convTyNames ∨ n = "object".toList) := by
  decide

end Props.C02Types
