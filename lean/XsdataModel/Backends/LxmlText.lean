/-
C08 — the character data the lxml handler reads (`get_text`, `get_tail` in
xsdata/formats/dataclass/parsers/handlers/lxml.py).

libxml2 keeps comments and processing instructions as nodes of the tree, so the character data of
an element is split: `element.text` is the run up to the first node of any kind, and every node
(element, comment, PI) carries the run that follows it as its `tail`.  ElementTree / expat have no
such nodes: `element.text` is all the character data up to the first child *element*, a tail all of
it up to the next element.  The lxml handler joins the pieces again.

External: the tree libxml2 builds.  Its shape for a content sequence is `view` (adjacent character
runs are one text node; checked against lxml by op `c08.lxml_text`).
-/
import XsdataModel.Py.Basic

namespace Xs.Backends
open Py

/-- the content of an element, or what follows a node, in document order -/
inductive Content
  | chars (s : Str)        -- character data (plain, CDATA, references: one kind for the tree)
  | misc                   -- a comment or a processing instruction
  | elem                   -- a child element
deriving Repr, DecidableEq

/-- a child / sibling node as lxml shows it: `isinstance(node.tag, str)` and `node.tail` -/
structure LNode where
  isElem : Bool
  tail : Option Str
deriving Repr, DecidableEq

/-- `(result or "") + tail` -/
def addTail (result : Option Str) (tail : Str) : Option Str := some (result.getD [] ++ tail)

/-- the loop of `get_text` (over `element.iterchildren()`) and of `get_tail`
(over `element.itersiblings()`): stop at the first element, append the tails that exist -/
def joinTails (result : Option Str) : List LNode → Option Str
  | [] => result
  | n :: rest =>
    if n.isElem then result
    else joinTails (match n.tail with | some t => addTail result t | none => result) rest

/-- `get_text(element)` -/
def getText (text : Option Str) (children : List LNode) : Option Str := joinTails text children

/-- `get_tail(element)` -/
def getTail (tail : Option Str) (siblings : List LNode) : Option Str := joinTails tail siblings

/-! ### the tree libxml2 builds for a content sequence -/

/-- the run at the head of the sequence (`None`: no text node there) and the nodes that follow, each
with the run behind it as its tail.  For the content of an element: `element.text` and its children;
for what follows a node: `node.tail` and its following siblings. -/
def view : List Content → Option Str × List LNode
  | [] => (none, [])
  | .chars s :: rest => (some (s ++ (view rest).1.getD []), (view rest).2)
  | .misc :: rest => (none, ⟨false, (view rest).1⟩ :: (view rest).2)
  | .elem :: rest => (none, ⟨true, (view rest).1⟩ :: (view rest).2)

/-- the infoset: all the character data in front of the first element (comments and processing
instructions are not part of it); `None` when there is none — ElementTree's `text` / `tail` -/
def leadData : List Content → Option Str
  | [] => none
  | .chars s :: rest => some (s ++ (leadData rest).getD [])
  | .misc :: rest => leadData rest
  | .elem :: _ => none

/-! ### whole documents -/

/-- a document with its comments and processing instructions -/
inductive CNode
  | chars (s : Str)
  | misc (comment : Bool)
  | elem (kids : List CNode)
deriving Repr

def CNode.kind : CNode → Content
  | .chars s => .chars s
  | .misc _ => .misc
  | .elem _ => .elem

/-- `remove_comments=True` of `etree.iterparse`: the comment nodes are not built -/
def dropComments : List CNode → List CNode
  | [] => []
  | .misc true :: rest => dropComments rest
  | .elem kids :: rest => .elem (dropComments kids) :: dropComments rest
  | n :: rest => n :: dropComments rest

mutual
/-- `(get_text(el), get_tail(el))` for every element, in document order; `after` is what follows the
node among its siblings -/
def readsNode : CNode → List CNode → List (Option Str × Option Str)
  | .elem kids, after =>
    (getText (view (kids.map CNode.kind)).1 (view (kids.map CNode.kind)).2,
     getTail (view (after.map CNode.kind)).1 (view (after.map CNode.kind)).2) :: readsList kids
  | .chars _, _ => []
  | .misc _, _ => []
def readsList : List CNode → List (Option Str × Option Str)
  | [] => []
  | n :: rest => readsNode n rest ++ readsList rest
end

mutual
/-- the same from the infoset -/
def specNode : CNode → List CNode → List (Option Str × Option Str)
  | .elem kids, after => (leadData (kids.map CNode.kind), leadData (after.map CNode.kind)) :: specList kids
  | .chars _, _ => []
  | .misc _, _ => []
def specList : List CNode → List (Option Str × Option Str)
  | [] => []
  | n :: rest => specNode n rest ++ specList rest
end

end Xs.Backends
