import Driver.Proto
import Driver.OpsBackends
import XsdataModel.Backends.XInclude
open Lean Proto Py Xs.Bind Xs.Backends OpsBind OpsBackends

namespace OpsXInclude

/-- `urljoin(base, href)` on the generator's domain: relative hrefs without `.`/`..` segments, query or
scheme; an absolute href wins, an empty base leaves the href alone -/
def simpleJoin (base href : Str) : Str :=
  match href with
  | '/' :: _ => href
  | _ =>
    let dir := (base.reverse.dropWhile (· ≠ '/')).reverse
    dir ++ href

def xiErrName : XiErr → String
  | .io => "FileNotFoundError"
  | .recursive => "FatalIncludeError"
  | .depth => "LimitedRecursiveIncludeError"
  | .fatal => "FatalIncludeError"
  | .unsupported => "unsupported"

def run (op : String) (a : Json) : Option (Except String Json) :=
  match op with
  | "c09.xinclude" => some do
      let files ← dList (dPair dStr dXTree) (field a "files")
      let main ← dStr (field a "main")
      let cfgBase ← dOptStr (field a "base")
      let isPath ← dBool (field a "path_source")
      let wk ← dList (dPair dStr dStr) (field a "well_known")
      let W : XiWorld := ⟨simpleJoin, fun f => (files.find? (·.1 = f)).map (·.2)⟩
      match W.load main with
      | none => pure (err "FileNotFoundError")
      | some root =>
        match nativeXiCalls W wk 64 cfgBase (if isPath then some main else none) root with
        | .error .unsupported => pure (jObj [("unsupported", Json.str "xinclude")])
        | .error e => pure (err (xiErrName e))
        | .ok evs => pure (ok (jObj [("events", jList jPEv evs), ("ns_map", jNs (recorded evs))]))
  | _ => none

end OpsXInclude
