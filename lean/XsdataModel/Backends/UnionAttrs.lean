/-
C08 — `UnionNode.child` (xsdata/formats/dataclass/parsers/nodes/union.py) under the lxml handler.

For an element field typed as a union of model classes the parser cannot pick the class before the
element ends: `UnionNode.child` records the start events of the nested elements and `bind` replays
them for every candidate.  The lxml handler passes `element.attrib` — a live view of the libxml2
node — and calls `element.clear()` once the element has ended, which empties it.  So a recorded
start event has to hold a *copy* of the attributes (`copy.deepcopy(attrs)`), taken when the event
arrives.  (The native handler passes a detached dict; there the copy is not observable.)
-/
import XsdataModel.Bind.Basic

namespace Xs.Backends
open Py Xs.Bind

/-- the nested elements of a union element in document order; `id` names the libxml2 node whose
attributes the `attrs` argument is a view of -/
inductive UTok
  | start (id : Nat) (q : QN)
  | «end» (id : Nat) (q : QN)
deriving Repr, DecidableEq

/-- the attributes of the libxml2 nodes -/
abbrev AStore := List (Nat × List (QN × Str))

def AStore.get (s : AStore) (id : Nat) : List (QN × Str) := ((s.find? (·.1 = id)).map (·.2)).getD []

/-- `element.clear()` -/
def AStore.clear (s : AStore) (id : Nat) : AStore := s.map (fun kv => if kv.1 = id then (kv.1, []) else kv)

/-- an entry of `UnionNode.events` -/
inductive URec
  | start (q : QN) (attrs : List (QN × Str))
  | «end» (q : QN)
deriving Repr, DecidableEq

/-- `UnionNode.child` (`copy.deepcopy(attrs)` reads the view when the event arrives) and `UnionNode.bind`
at a nested level, with the handler's `element.clear()` after every end -/
def unionRecord : AStore → List UTok → List URec
  | _, [] => []
  | s, .start id q :: r => .start q (s.get id) :: unionRecord s r
  | s, .end id q :: r => .end q :: unionRecord (s.clear id) r

/-- the store when the union element itself ends (when the events are replayed) -/
def finalStore : AStore → List UTok → AStore
  | s, [] => s
  | s, .start _ _ :: r => finalStore s r
  | s, .end id _ :: r => finalStore (s.clear id) r

/-- a recorder that keeps the view instead of a copy: the attributes are read at replay time -/
def unionRecordLive (s : AStore) (toks : List UTok) : List URec :=
  toks.map fun
    | .start id q => .start q ((finalStore s toks).get id)
    | .end _ q => .end q

/-- the document: every start event with the attributes written on the element -/
def unionSpec (s0 : AStore) (toks : List UTok) : List URec :=
  toks.map fun
    | .start id q => .start q (s0.get id)
    | .end _ q => .end q

def startIds : List UTok → List Nat
  | [] => []
  | .start id _ :: r => id :: startIds r
  | .end _ _ :: r => startIds r

/-- an element does not start again after it has ended (ids name nodes) -/
def noReuse : List UTok → Bool
  | [] => true
  | .start _ _ :: r => noReuse r
  | .end id _ :: r => !(startIds r).contains id && noReuse r

end Xs.Backends
