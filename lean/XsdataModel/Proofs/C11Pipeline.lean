/- C11 helper lemmas, part 5: composing parse → generate → write → re-read. -/
import XsdataModel.Proofs.C11Sax

namespace Proofs.C11
open Py Xs.Bind Xs.Generic

/-! ### no QName-valued data: the abstract writer needs no prefixes -/

def evUris (ev : Ev) : List Str :=
  match ev with
  | .attr _ d => dataUris d
  | .data d => dataUris d
  | _ => []

theorem collectUris_eq (evs : List Ev) : collectUris evs = ((evs.map evUris).flatten).eraseDups := rfl

theorem textData_uris (t : Option Str) : dataUris (textData t) = [] := by
  cases t <;> simp [textData, dataUris]

theorem tailEv_uris (t : Option Str) : ((tailEv t).map evUris).flatten = [] := by
  cases t with
  | none => simp [tailEv]
  | some s => by_cases h : s = [] <;> simp [tailEv, h, evUris, dataUris]

theorem attrEv_uris (a : List (QN × Str)) : ((a.map attrEv).map evUris).flatten = [] := by
  induction a with
  | nil => simp
  | cons kv r ih => simp [attrEv, evUris, dataUris] at ih ⊢

theorem nilFlush_uris (a : List (QN × Str)) : ((nilFlush a).map evUris).flatten = [] := by
  by_cases h : a.any (·.1 = xsiNil) = true
  · simp [nilFlush, h, evUris, dataUris]
  · simp [nilFlush, h]

mutual
theorem treeEv_uris (e : Env) (nil : Bool) : ∀ t : Tree, ((treeEv e nil t).map evUris).flatten = []
  | .node q a n tx c tl => by
    have ih := forestEv_uris e nil c
    simp only [treeEv, List.map_append, List.flatten_append, attrEv_uris, nilFlush_uris, ih, tailEv_uris, List.map_cons,
      List.map_nil, List.flatten_cons, List.flatten_nil, evUris, textData_uris, List.append_nil]
theorem forestEv_uris (e : Env) (nil : Bool) : ∀ ts : List Tree, ((forestEv e nil ts).map evUris).flatten = []
  | [] => by simp [forestEv]
  | t :: ts => by
    have h1 := treeEv_uris e nil t
    have h2 := forestEv_uris e nil ts
    simp [forestEv, h1, h2]
end

/-! ### parse and generate on forests -/

mutual
theorem treeOK_names (isDt : Str → Bool) : ∀ t : Tree, treeOK isDt t = true → namesOK t = true
  | .node q a n tx c tl, h => by
    obtain ⟨hq, _, _, _, hc⟩ := treeOK_node h
    simp [namesOK, treeOKList_names isDt c hc]
    simpa using hq
theorem treeOKList_names (isDt : Str → Bool) : ∀ ts : List Tree, treeOKList isDt ts = true → namesOKList ts = true
  | [], _ => by simp [namesOKList]
  | t :: ts, h => by
    simp [treeOKList] at h
    simp [namesOKList, treeOK_names isDt t h.1, treeOKList_names isDt ts h.2]
end

theorem wildValue_eq (e : BEnv) (Γ : Ctx) (cfg : ParserConfig) (var : XmlVar) (hw : var.isWildcard = true)
    (t : Tree) : wildValue e Γ cfg var t = .ok (anyOf e.py var.nillable t) := by
  cases t with
  | node q a n tx c tl =>
    have := parseNode_wildcard e Γ cfg var hw (.node q a n tx c tl)
    simp only at this
    simp [wildValue, this, bind, Except.bind, pure, Except.pure]

theorem wildValue_forest (e : BEnv) (Γ : Ctx) (cfg : ParserConfig) (var : XmlVar) (hw : var.isWildcard = true)
    (ts : List Tree) : ts.mapM (wildValue e Γ cfg var) = .ok (anyOfList e.py var.nillable ts) := by
  induction ts with
  | nil => simp [anyOfList, pure, Except.pure]
  | cons t ts ih =>
    simp [List.mapM_cons, wildValue_eq e Γ cfg var hw t, ih, anyOfList, bind, Except.bind, pure, Except.pure]

/-! ### writer + reader on a host element -/

theorem textSax_normText (e : Env) (T : Option Str) : textSax (normText e false T) = textSax T := by
  cases T with
  | none => simp [normText]
  | some s => cases s <;> simp [normText, textSax]

theorem hostEvents_uris (e : Env) (nil : Bool) (host : QN) (pre : List Ev) (ts : List Tree)
    (hpre : ((pre.map evUris).flatten) = []) :
    collectUris (hostEvents host pre (ts.map (treeEv e nil))) = [] := by
  rw [collectUris_eq, hostEvents, ← forestEv_eq]
  simp only [List.map_append, List.flatten_append, forestEv_uris, hpre, List.map_cons, List.map_nil,
    List.flatten_cons, List.flatten_nil, evUris, List.append_nil]
  rfl

/-- the SAX calls of the host element with text `T` and generic content `ts` -/
def hostSax (e : Env) (host : QN) (a : List (QN × Str)) (T : Option Str) (ts : List Tree) : List Sax :=
  [Sax.open host a] ++ textSax T ++ forestSax e ts ++ [Sax.close host]

theorem hostSax_tree (e : Env) (m : NsMap) (host : QN) (a : List (QN × Str)) (T : Option Str) (ts : List Tree) :
    saxTree m (hostSax e host a T ts) [] none
      = some (.node host a m (normText e false T) (normList e m ts) none) := by
  have h := sax_forest e m ts [Sax.close host] ⟨host, a, normText e false T, []⟩ []
  simp only [hostSax, List.append_assoc, List.cons_append, List.nil_append]
  rw [saxTree]
  simp only [Option.isSome_none, Bool.false_eq_true, if_false]
  rw [← textSax_normText e T, sax_text m host a _ (normText_nonempty e false T)]
  rw [h]
  simp [saxTree]

theorem eventsSax_host_data (e : Env) (m : NsMap) (isDt : Str → Bool) (nil : Bool) (host : QN)
    (T : Option Str) (ts : List Tree) (hok : treeOKList isDt ts = true) :
    eventsSax m isDt (hostEvents host [Ev.data (textData T)] (ts.map (treeEv e nil)))
      = .ok (hostSax e host [] T ts) := by
  obtain ⟨b1, hf⟩ := write_forest e m isDt nil ts hok ([Sax.open host []] ++ textSax T) true
  have h1 : WState.step m isDt {} (Ev.start host) = .ok ⟨[], some host, [], false, none⟩ := by
    simp [WState.step, WState.flush]
  have h2 := step_data_pending m isDt [] host [] false T (by simp)
  have h5 : ∀ o bb, WState.step m isDt (idle o bb) (Ev.end host) = .ok (idle (o ++ [Sax.close host]) false) := by
    intro o bb; simp [WState.step, WState.flush]
  simp only [eventsSax, hostEvents, ← forestEv_eq, List.cons_append, List.nil_append]
  rw [foldlM_cons_ok _ _ _ _ _ h1, foldlM_cons_ok _ _ _ _ _ h2]
  simp only [List.nil_append] at hf ⊢
  rw [foldlM_append_ok _ _ _ _ _ hf, foldlM_cons_ok _ _ _ _ _ (h5 _ _)]
  simp [hostSax, bind, Except.bind, pure, Except.pure]

/-- the first `start` of generic content flushes the host's pending start tag -/
theorem foldlM_tree_pending (e : Env) (m : NsMap) (isDt : Str → Bool) (nil : Bool) (out : List Sax)
    (h : QN) (b : Bool) (t : Tree) (l : List Ev) :
    (treeEv e nil t ++ l).foldlM (WState.step m isDt) ⟨out, some h, [], b, none⟩
      = (treeEv e nil t ++ l).foldlM (WState.step m isDt) (idle (out ++ [Sax.open h []]) false) := by
  cases t with
  | node q a n tx c tl =>
    simp [treeEv, List.foldlM_cons, WState.step, WState.flush]

theorem eventsSax_host_nodata (e : Env) (m : NsMap) (isDt : Str → Bool) (nil : Bool) (host : QN)
    (ts : List Tree) (hok : treeOKList isDt ts = true) :
    eventsSax m isDt (hostEvents host [] (ts.map (treeEv e nil))) = .ok (hostSax e host [] none ts) := by
  have h1 : WState.step m isDt {} (Ev.start host) = .ok ⟨[], some host, [], false, none⟩ := by
    simp [WState.step, WState.flush]
  have h5 : ∀ o bb, WState.step m isDt (idle o bb) (Ev.end host) = .ok (idle (o ++ [Sax.close host]) false) := by
    intro o bb; simp [WState.step, WState.flush]
  simp only [eventsSax, hostEvents, ← forestEv_eq, List.cons_append, List.nil_append, List.append_nil]
  rw [foldlM_cons_ok _ _ _ _ _ h1]
  cases ts with
  | nil => simp [forestEv, WState.step, WState.flush, hostSax, forestSax, bind, Except.bind, pure, Except.pure]
  | cons t ts =>
    obtain ⟨b1, hf⟩ := write_forest e m isDt nil (t :: ts) hok [Sax.open host []] false
    simp only [forestEv, List.append_assoc] at hf ⊢
    rw [foldlM_tree_pending]
    simp only [List.nil_append, ← List.append_assoc] at hf ⊢
    rw [foldlM_append_ok _ _ _ _ _ hf, foldlM_cons_ok _ _ _ _ _ (h5 _ _)]
    simp [hostSax, forestSax, bind, Except.bind, pure, Except.pure]

theorem eventsSax_single (e : Env) (m : NsMap) (isDt : Str → Bool) (nil : Bool)
    (t : Tree) (hok : treeOK isDt t = true) :
    eventsSax m isDt (treeEv e nil t) = .ok (treeSax e t) := by
  obtain ⟨b1, hf⟩ := write_tree e m isDt nil t hok [] false
  simp only [eventsSax]
  have : ({} : WState) = idle [] false := rfl
  rw [this, hf]
  simp [bind, Except.bind, pure, Except.pure]

theorem normText_false_idem (e : Env) (T : Option Str) (h : ∀ s, T = some s → s.isEmpty = false) :
    normText e false T = T := by
  cases T with
  | none => simp [normText]
  | some s =>
    cases s with
    | nil => simp at h
    | cons c cs => simp [normText]

theorem treeSax_tree (e : Env) (m : NsMap) (q : QN) (a : List (QN × Str)) (n : NsMap) (tx : Option Str)
    (c : List Tree) (tl : Option Str) (htl : normalizeContent e tl = none) :
    saxTree m (treeSax e (.node q a n tx c tl)) [] none = some (normTree e m (.node q a n tx c tl)) := by
  have := hostSax_tree e m q a (normText e (!c.isEmpty) tx) c
  rw [normText_false_idem e _ (normText_nonempty e _ tx)] at this
  simpa [treeSax, hostSax, htl, normTree] using this

/-! ### the whole pipeline -/

theorem prefixMap_nil : prefixMap [] = [] := by simp [prefixMap]

theorem eventsTree_of (isDt : Str → Bool) (evs : List Ev) (sax : List Sax) (t : Tree)
    (hu : collectUris evs = []) (hs : eventsSax [] isDt evs = .ok sax) (ht : saxTree [] sax [] none = some t) :
    eventsTree isDt evs = .ok t := by
  simp [eventsTree, hu, prefixMap_nil, hs, ht, bind, Except.bind, pure, Except.pure]

theorem wildRoundtrip_data (e : BEnv) (Γ : Ctx) (cfg : ParserConfig) (isDt : Str → Bool) (var : XmlVar)
    (host : QN) (T : Option Str) (ts : List Tree)
    (hw : var.isWildcard = true) (hok : treeOKList isDt ts = true) :
    wildRoundtrip e Γ cfg isDt var host [Ev.data (textData T)] ts
      = .ok (.node host [] [] (normText e.py false T) (normList e.py [] ts) none) := by
  have h1 := wildValue_forest e Γ cfg var hw ts
  have h2 := genAnyType_forest e Γ {} var var.nillable ts (depthList ts + 1) none
    (treeOKList_names isDt ts hok) (by omega)
  have h3 := eventsTree_of isDt _ _ _
    (hostEvents_uris e.py var.nillable host [Ev.data (textData T)] ts (by simp [evUris, textData_uris]))
    (eventsSax_host_data e.py [] isDt var.nillable host T ts hok)
    (hostSax_tree e.py [] host [] T ts)
  simp [wildRoundtrip, h1, h2, h3, bind, Except.bind]

theorem wildRoundtrip_nodata (e : BEnv) (Γ : Ctx) (cfg : ParserConfig) (isDt : Str → Bool) (var : XmlVar)
    (host : QN) (ts : List Tree)
    (hw : var.isWildcard = true) (hok : treeOKList isDt ts = true) :
    wildRoundtrip e Γ cfg isDt var host [] ts
      = .ok (.node host [] [] none (normList e.py [] ts) none) := by
  have h1 := wildValue_forest e Γ cfg var hw ts
  have h2 := genAnyType_forest e Γ {} var var.nillable ts (depthList ts + 1) none
    (treeOKList_names isDt ts hok) (by omega)
  have h3 := eventsTree_of isDt _ _ _
    (hostEvents_uris e.py var.nillable host [] ts (by simp))
    (eventsSax_host_nodata e.py [] isDt var.nillable host ts hok)
    (hostSax_tree e.py [] host [] none ts)
  simp only [normText] at h3
  simp [wildRoundtrip, h1, h2, h3, bind, Except.bind]

theorem wildRoundtrip1_eq (e : BEnv) (Γ : Ctx) (cfg : ParserConfig) (isDt : Str → Bool) (var : XmlVar)
    (t : Tree) (hw : var.isWildcard = true) (hok : treeOK isDt t = true)
    (htl : rootTailBlank e.py t = true) :
    wildRoundtrip1 e Γ cfg isDt var t = .ok (normTree e.py [] t) := by
  have h1 := wildValue_eq e Γ cfg var hw t
  have h2 := genAnyType_anyOf e Γ {} var var.nillable t (depthTree t + 1) none
    (treeOK_names isDt t hok) (by omega)
  have hu : collectUris (treeEv e.py var.nillable t) = [] := by
    rw [collectUris_eq, treeEv_uris]; rfl
  cases t with
  | node q a n tx c tl =>
    have htl' : normalizeContent e.py tl = none := by simpa [rootTailBlank] using htl
    have h3 := eventsTree_of isDt _ _ _ hu
      (eventsSax_single e.py [] isDt var.nillable _ hok) (treeSax_tree e.py [] q a n tx c tl htl')
    simp [wildRoundtrip1, h1, h2, h3, bind, Except.bind]

/-! ### the normal form is idempotent -/

theorem normalizeContent_idem (e : Env) (t : Option Str) :
    normalizeContent e (normalizeContent e t) = normalizeContent e t := by
  cases t with
  | none => simp [normalizeContent]
  | some s =>
    by_cases h : (!s.isEmpty && !(e.strip s).isEmpty) = true
    · simp [normalizeContent, h]
    · simp [normalizeContent, h]

theorem normText_idem (e : Env) (k : Bool) (t : Option Str) :
    normText e k (normText e k t) = normText e k t := by
  cases k with
  | true => simp [normText, normalizeContent_idem]
  | false => exact normText_false_idem e _ (normText_nonempty e false t)

theorem normList_isEmpty (e : Env) (m : NsMap) (ts : List Tree) : (normList e m ts).isEmpty = ts.isEmpty := by
  cases ts <;> simp [normList]

mutual
theorem normTree_idem (e : Env) (m : NsMap) : ∀ t : Tree, normTree e m (normTree e m t) = normTree e m t
  | .node q a n tx c tl => by
    simp [normTree, normList_isEmpty, normText_idem, normalizeContent_idem, normList_idem e m c]
theorem normList_idem (e : Env) (m : NsMap) : ∀ ts : List Tree, normList e m (normList e m ts) = normList e m ts
  | [] => by simp [normList]
  | t :: ts => by simp [normList, normTree_idem e m t, normList_idem e m ts]
end

end Proofs.C11
