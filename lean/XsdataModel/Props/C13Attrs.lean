/- C13 — property theorems (only): `ElementMapper.build_attributes` maps EVERY ordinary attribute of a
   sample element, wherever `xsi:nil` stands among them (pins seeded/C13-nil-attrs-break-r7). -/
import XsdataModel.Proofs.SamplesOccur

namespace Props.C13
open Py Xs.Samples

/-- `add_attribute` keeps an entry for every key it had and has one for the new attr -/
theorem addAttribute_keeps (l : List Attr) (a : Attr) :
    (∀ x ∈ l, ∃ y ∈ addAttribute l a, y.same x = true) ∧ (∃ y ∈ addAttribute l a, y.same a = true) := by
  induction l with
  | nil => exact ⟨by simp, a, by simp [addAttribute], same_refl a⟩
  | cons ex rest ih =>
    simp only [addAttribute]
    split
    · rename_i hs
      have hk : ({ ex with max := maxsize, types := uniqueByQName (ex.types ++ a.types) } : Attr).same ex = true := by
        simp [Attr.same]
      refine ⟨?_, _, List.mem_cons_self, same_trans hk hs⟩
      intro x hx
      simp only [List.mem_cons] at hx
      rcases hx with rfl | hx
      · exact ⟨_, List.mem_cons_self, hk⟩
      · exact ⟨x, by simp [hx], same_refl x⟩
    · refine ⟨?_, ?_⟩
      · intro x hx
        simp only [List.mem_cons] at hx
        rcases hx with rfl | hx
        · exact ⟨x, List.mem_cons_self, same_refl x⟩
        · obtain ⟨y, hy, hys⟩ := ih.1 x hx
          exact ⟨y, by simp [hy], hys⟩
      · obtain ⟨y, hy, hys⟩ := ih.2
        exact ⟨y, by simp [hy], hys⟩

/-- one round of the loop of `build_attributes` -/
def attrStep (e : SEnv) (ns : Option Str) (st : Bool × List Attr) (kv : Str × Str) : Bool × List Attr :=
  if kv.1 = Tables.qnXsiNil then
    let v := e.py.strip kv.2
    (v = "true".toList || v = ['1'], st.2)
  else
    let ty : AType := { qname := buildAttrType e kv.1 (.str kv.2), native := true }
    (st.1, buildAttr st.2 kv.1 ty ns .attribute 0 false)

theorem buildAttributes_eq (e : SEnv) (ns : Option Str) (kvs : List (Str × Str)) :
    buildAttributes e ns kvs = kvs.foldl (attrStep e ns) (false, []) := rfl

/-- the key `build_attr` gives the attr of an ordinary attribute: its local name and its own namespace -/
def attrKey (key : Str) : Attr :=
  { tag := .attribute, name := (Xs.Bind.splitQName key).2, ns := (Xs.Bind.splitQName key).1, index := 0, types := [], min := 1, max := 1 }

theorem attrStep_keeps (e : SEnv) (ns : Option Str) (st : Bool × List Attr) (kv : Str × Str) :
    (∀ x ∈ st.2, ∃ y ∈ (attrStep e ns st kv).2, y.same x = true) ∧
    (kv.1 ≠ Tables.qnXsiNil → ∃ y ∈ (attrStep e ns st kv).2, y.same (attrKey kv.1) = true) := by
  simp only [attrStep]
  split
  · rename_i h
    exact ⟨fun x hx => ⟨x, hx, same_refl x⟩, fun hne => absurd h hne⟩
  · simp only [buildAttr]
    constructor
    · exact (addAttribute_keeps _ _).1
    · intro _
      obtain ⟨y, hy, hys⟩ := (addAttribute_keeps st.2
        { tag := .attribute, name := (Xs.Bind.splitQName kv.1).2,
          ns := selectNamespace (Xs.Bind.splitQName kv.1).1 ns .attribute, index := st.2.length,
          types := [{ qname := buildAttrType e kv.1 (.str kv.2), native := true }], min := 1, max := 1, seq := none }).2
      refine ⟨y, hy, ?_⟩
      rw [same_iff] at hys ⊢
      simpa [attrKey, selectNamespace] using hys

/-- **build_attributes_covers.** Every attribute of a sample element other than `xsi:nil` becomes an attr
(tag Attribute, its local name, its own namespace) of the element's class — whether it is written before
or after `xsi:nil`, and however often the key occurs. -/
theorem build_attributes_covers (e : SEnv) (ns : Option Str) (kvs : List (Str × Str)) :
    ∀ kv ∈ kvs, kv.1 ≠ Tables.qnXsiNil →
      ∃ a ∈ (buildAttributes e ns kvs).2, a.tag = .attribute ∧ a.name = (Xs.Bind.splitQName kv.1).2 ∧
        a.ns = (Xs.Bind.splitQName kv.1).1 := by
  rw [buildAttributes_eq]
  suffices h : ∀ (st : Bool × List Attr),
      (∀ x ∈ st.2, ∃ y ∈ (kvs.foldl (attrStep e ns) st).2, y.same x = true) ∧
      (∀ kv ∈ kvs, kv.1 ≠ Tables.qnXsiNil → ∃ y ∈ (kvs.foldl (attrStep e ns) st).2, y.same (attrKey kv.1) = true) by
    intro kv hkv hne
    obtain ⟨y, hy, hys⟩ := (h (false, [])).2 kv hkv hne
    rw [same_iff] at hys
    exact ⟨y, hy, hys.1, hys.2.1, hys.2.2⟩
  induction kvs with
  | nil => intro st; exact ⟨fun x hx => ⟨x, hx, same_refl x⟩, by simp⟩
  | cons kv0 rest ih =>
    intro st
    obtain ⟨k1, k2⟩ := attrStep_keeps e ns st kv0
    obtain ⟨r1, r2⟩ := ih (attrStep e ns st kv0)
    simp only [List.foldl_cons]
    constructor
    · intro x hx
      obtain ⟨y, hy, hys⟩ := k1 x hx
      obtain ⟨z, hz, hzs⟩ := r1 y hy
      exact ⟨z, hz, same_trans hzs hys⟩
    · intro kv hkv hne
      simp only [List.mem_cons] at hkv
      rcases hkv with rfl | hkv
      · obtain ⟨y, hy, hys⟩ := k2 hne
        obtain ⟨z, hz, hzs⟩ := r1 y hy
        exact ⟨z, hz, same_trans hzs hys⟩
      · exact r2 kv hkv hne

/-- the demo's element: `xsi:nil` first, two ordinary attributes after it, both mapped -/
example :
    let e : SEnv := ⟨{ toEnv := Env.ascii, isAlphaNA := fun _ => false, floatRepr := fun s => s }⟩
    (buildAttributes e none [(Tables.qnXsiNil, "true".toList), ("code".toList, "SUMMER".toList), ("rate".toList, "15".toList)]).1 = true ∧
    ((buildAttributes e none [(Tables.qnXsiNil, "true".toList), ("code".toList, "SUMMER".toList), ("rate".toList, "15".toList)]).2.map (·.name))
      = ["code".toList, "rate".toList] := by
  decide

end Props.C13
