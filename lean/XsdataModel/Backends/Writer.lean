/-
C08 — the Python part of the writer back-ends.

Both writers inherit `EventHandler.write` (serializers/mixins.py, modelled in
`Bind/Write.lean` as `WState.step`).  `XmlEventWriter`
(serializers/writers/native.py) wraps `start_tag` / `end_tag` with the
indentation bookkeeping (`current_level`, `pending_end_element`, `after_characters`) and calls
`handler.ignorableWhitespace`; `LxmlEventWriter` / `LxmlTreeBuilder`
(serializers/writers/lxml.py) build the tree un-indented and then apply
`etree.indent`, modelled here as a transformation of the ElementTree infoset.
-/
import XsdataModel.Bind.Write

namespace Xs.Backends
open Py Xs.Bind

deriving instance DecidableEq for Sax

/-- calls on the content handler of the native writer -/
inductive ISax
  | sax (s : Sax)
  | ws (s : Str)              -- `handler.ignorableWhitespace(s)`
deriving Repr, DecidableEq

def Sax.isChars : Sax → Bool
  | .chars _ => true
  | _ => false

/-- `XmlEventWriter` : the inherited `EventHandler` state plus `current_level`, `pending_end_element`
and `after_characters` (character data was written since the last tag) -/
structure IState where
  w : WState := {}
  out : List ISax := []
  level : Int := 0
  pendingEnd : Bool := false
  afterChars : Bool := false

/-- the inherited method (`super().start_tag`, `super().end_tag`, `add_attribute`, `set_data`):
the SAX calls it makes are the ones `WState.step` appends; every `characters` call goes through
the overridden `set_characters`, which sets `after_characters` -/
def IState.super (m : NsMap) (isDt : Str → Bool) (s : IState) (ev : Ev) : Except Err IState :=
  match s.w.step m isDt ev with
  | .error e => .error e
  | .ok w' =>
    let d := w'.out.drop s.w.out.length
    .ok { s with w := w', out := s.out ++ d.map ISax.sax, afterChars := s.afterChars || d.any Sax.isChars }

def IState.ignorableWs (s : IState) (c : Str) : IState := { s with out := s.out ++ [ISax.ws c] }

/-- `s * n` for a Python int `n` -/
def strMul (s : Str) (n : Int) : Str := (List.replicate n.toNat s).flatten

/-- `if self.config.indent:` -/
def indentOn (indent : Option Str) : Option Str :=
  match indent with
  | some i => if i.isEmpty then none else some i
  | none => none

/-- `XmlEventWriter.start_tag / end_tag`; the other events go straight to the inherited handler -/
def IState.step (m : NsMap) (isDt : Str → Bool) (indent : Option Str) (s : IState) : Ev → Except Err IState
  | .start q =>
    match s.super m isDt (.start q) with
    | .error e => .error e
    | .ok s =>
      match indentOn indent with
      | none => .ok s
      | some i =>
        let s := if s.level ≠ 0 && !s.afterChars then (s.ignorableWs ['\n']).ignorableWs (strMul i s.level) else s
        .ok { s with level := s.level + 1, pendingEnd := false, afterChars := false }
  | .end q =>
    match indentOn indent with
    | none => s.super m isDt (.end q)
    | some i =>
      let s := { s with level := s.level - 1 }
      let s := if s.pendingEnd && !s.afterChars then (s.ignorableWs ['\n']).ignorableWs (strMul i s.level) else s
      let s := { s with afterChars := false }
      match s.super m isDt (.end q) with
      | .error e => .error e
      | .ok s =>
        let s := { s with pendingEnd := true }
        .ok (if s.level = 0 then s.ignorableWs ['\n'] else s)
  | ev => s.super m isDt ev

/-- all handler calls of `XmlEventWriter.write(events)` -/
def eventsSaxIndent (m : NsMap) (isDt : Str → Bool) (indent : Option Str) (evs : List Ev) :
    Except Err (List ISax) :=
  match evs.foldlM (IState.step m isDt indent) {} with
  | .error e => .error e
  | .ok s => .ok s.out

/-- the calls without the `ignorableWhitespace` ones -/
def eraseWs : List ISax → List Sax
  | [] => []
  | .sax x :: r => x :: eraseWs r
  | .ws _ :: r => eraseWs r

/-- `XmlWriter.start_document`: the declaration the native and the lxml writer both write by hand -/
def xmlDeclaration (on : Bool) (version encoding : Str) : Str :=
  if on then "<?xml version=\"".toList ++ version ++ "\"".toList ++ " encoding=\"".toList ++ encoding ++ "\"?>\n".toList
  else []

/-! ### what a reader of the native output sees -/

/-- `XMLGenerator.ignorableWhitespace` writes non-empty content verbatim, so to a reader it is
character data; outside the root element it is not part of the infoset -/
def renderDoc : Nat → List ISax → List Sax
  | _, [] => []
  | d, .sax (.open q a) :: r => .open q a :: renderDoc (d + 1) r
  | d, .sax (.close q) :: r => .close q :: renderDoc (d - 1) r
  | d, .sax (.chars s) :: r => .chars s :: renderDoc d r
  | d, .ws s :: r => if d = 0 || s.isEmpty then renderDoc d r else .chars s :: renderDoc d r

/-- native writer: events → infoset of the written document -/
def nativeTree (isDt : Str → Bool) (indent : Option Str) (evs : List Ev) : Except Err Tree :=
  let m := prefixMap (collectUris evs)
  match eventsSaxIndent m isDt indent evs with
  | .error e => .error e
  | .ok calls =>
    match saxTree m (renderDoc 0 calls) [] none with
    | some t => .ok t
    | none => .error (.serializer "not a well-formed document")

/-! ### `lxml.etree.indent(tree, space)` as a tree transformation -/

/-- `not _hasNonWhitespaceText(node)` / `not _hasNonWhitespaceTail(node)` -/
def wsOnly (e : Env) : Option Str → Bool
  | none => true
  | some s => s.all e.isSpace

/-- `indentations[level]` = `"\n" + level * space` -/
def indentation (space : Str) (level : Nat) : Str := '\n' :: strMul space level

def treeSetTail : Tree → Option Str → Tree
  | .node q a ns t c _, tl => .node q a ns t c tl

def treeTail : Tree → Option Str
  | .node _ _ _ _ _ tl => tl

mutual
/-- `_indent_children(node, level, …)` when the node has children, identity otherwise -/
def indentNode (e : Env) (space : Str) (level : Nat) : Tree → Tree
  | .node q a ns t kids tl =>
    match kids with
    | [] => .node q a ns t [] tl
    | _ :: _ =>
      let t' := if wsOnly e t then some (indentation space level) else t
      .node q a ns t' (indentKids e space level kids) tl
/-- the loop over the children: indent each one that has children, then set its tail
(the last child dedents) unless the tail has non-whitespace text -/
def indentKids (e : Env) (space : Str) (level : Nat) : List Tree → List Tree
  | [] => []
  | k :: ks =>
    let k' := indentNode e space (level + 1) k
    let ind := if ks.isEmpty then indentation space (level - 1) else indentation space level
    let k'' := if wsOnly e (treeTail k') then treeSetTail k' (some ind) else k'
    k'' :: indentKids e space level ks
end

/-- `etree.indent(tree, space)` -/
def lxmlIndent (e : Env) (space : Str) (t : Tree) : Tree := indentNode e space 1 t

/-- lxml writer / tree serializer: events → tree handed to `etree.tostring` (or returned) -/
def lxmlTree (e : Env) (isDt : Str → Bool) (indent : Option Str) (evs : List Ev) : Except Err Tree :=
  match eventsTree isDt evs with
  | .error err => .error err
  | .ok t =>
    match indentOn indent with
    | none => .ok t
    | some i => .ok (lxmlIndent e i t)

mutual
/-- "indentation aside" on trees: whitespace-only text of elements with children and
whitespace-only tails of child elements are dropped -/
def stripLayout (e : Env) : Tree → Tree
  | .node q a ns t kids tl =>
    match kids with
    | [] => .node q a ns t [] tl
    | _ :: _ => .node q a ns (if wsOnly e t then none else t) (stripLayoutKids e kids) tl
def stripLayoutKids (e : Env) : List Tree → List Tree
  | [] => []
  | k :: ks =>
    let k' := stripLayout e k
    (if wsOnly e (treeTail k') then treeSetTail k' none else k') :: stripLayoutKids e ks
end

/-! ### comparing streams up to layout -/

/-- a reader's normal form of a call stream: adjacent character runs are one run;
whitespace-only runs are dropped unless they are the whole content of a leaf element -/
structure NState where
  emitted : List Sax := []
  buf : Str := []
  prevOpen : Bool := false
  depth : Int := 0
  /-- a `characters` call was made outside every element (not a document) -/
  bad : Bool := false

def NState.flush (e : Env) (n : NState) (nextClose : Bool) : NState :=
  if n.buf.isEmpty then n
  else if n.buf.all e.isSpace && !(n.prevOpen && nextClose) then { n with buf := [] }
  else { n with emitted := n.emitted ++ [Sax.chars n.buf], buf := [] }

def NState.feed (e : Env) (n : NState) : ISax → NState
  | .ws s => { n with buf := n.buf ++ s }
  | .sax (.chars s) => { n with buf := n.buf ++ s, bad := n.bad || n.depth == 0 }
  | .sax (.open q a) =>
    let n := n.flush e false
    { n with emitted := n.emitted ++ [Sax.open q a], prevOpen := true, depth := n.depth + 1 }
  | .sax (.close q) =>
    let n := n.flush e true
    { n with emitted := n.emitted ++ [Sax.close q], prevOpen := false, depth := n.depth - 1 }

def normState (e : Env) (xs : List ISax) : NState := xs.foldl (NState.feed e) {}

/-- the layout-insensitive normal form (`ignorableWhitespace` content read as character data) -/
def layoutNorm (e : Env) (xs : List ISax) : List Sax := ((normState e xs).flush e false).emitted

/-- all character data is inside an element: the depth is not 0 at any `characters` call -/
def charsInsideFrom : Int → List Sax → Bool
  | _, [] => true
  | d, .open _ _ :: r => charsInsideFrom (d + 1) r
  | d, .close _ :: r => charsInsideFrom (d - 1) r
  | d, .chars _ :: r => d != 0 && charsInsideFrom d r

/-- what every call stream that denotes a document satisfies -/
def charsInside (xs : List Sax) : Bool := charsInsideFrom 0 xs

end Xs.Backends
