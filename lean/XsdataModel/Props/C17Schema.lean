/- C17 — inline schemas of one WSDL document are read independently of each other.

`readSchemas init docs` (Wsdl/SchemaForms.lean) is what the single `DefinitionsParser`
instance leaves behind for the inline `xs:schema` elements of `wsdl:types`, in order. -/
import XsdataModel.Wsdl.SchemaForms

namespace Props.C17Schema
open Py Xs.Wsdl

/-- **schema_state_is_local**: the element/attribute form defaults (and `defaultAttributes`) the
parser holds while reading a schema are exactly what that schema declares — whatever it read
before. -/
theorem schema_state_is_local (prev₁ prev₂ : SchemaState) (attrs : Dict) :
    startSchema prev₁ attrs = startSchema prev₂ attrs ∧
    (startSchema prev₁ attrs).elementForm = aget attrs ws!"elementFormDefault" ∧
    (startSchema prev₁ attrs).attributeForm = aget attrs ws!"attributeFormDefault" :=
  ⟨rfl, rfl, rfl⟩

/-- **schemas_read_independently**: every inline schema of a document is read as if it were
the only one: the k-th result of `readSchemas` is `readSchema` of the k-th schema from a fresh
parser — the forms of an earlier schema never reach a later one. -/
theorem schemas_read_independently (docs : List SchemaDoc) (prev : SchemaState) :
    readSchemas prev docs = docs.map (readSchema SchemaState.init) := by
  induction docs generalizing prev with
  | nil => rfl
  | cons s rest ih =>
    simp only [readSchemas, List.map_cons]
    rw [ih]
    rfl

/-- **declaration_form** (decision table): a local declaration keeps its own `form=`; without
one it gets the schema's default if the schema declares one; otherwise none (= unqualified,
the XSD default). -/
theorem declaration_form (dflt own : Option Str) :
    declForm dflt own =
      match own, dflt with
      | some f, _ => some (some f)
      | none, none => some none
      | none, some d => if d = [] then some none
          else if d = ws!"qualified" ∨ d = ws!"unqualified" then some (some d) else none := by
  cases own with
  | some f => rfl
  | none =>
    cases dflt with
    | none => rfl
    | some d =>
      cases d with
      | nil => rfl
      | cons c cs =>
        simp only [declForm, formType, List.isEmpty_cons, Bool.false_eq_true, ↓reduceIte, reduceCtorEq]
        by_cases h1 : (c :: cs) = ws!"qualified"
        · simp [h1]
        · by_cases h2 : (c :: cs) = ws!"unqualified"
          · simp [h2]
          · have e1 : ((c :: cs) == ws!"qualified") = false := by simpa using h1
            have e2 : ((c :: cs) == ws!"unqualified") = false := by simpa using h2
            simp [e1, e2, h1, h2]

/-- a qualified schema followed by one that declares nothing: the second one's local
elements stay unqualified (the seeded regression C17-schema-form-default-leaks-r6 made them qualified) -/
example : (readSchemas SchemaState.init
    [⟨[(ws!"elementFormDefault", ws!"qualified"), (ws!"attributeFormDefault", ws!"qualified")], [none], [none]⟩,
     ⟨[(ws!"targetNamespace", ws!"urn:b")], [none, some ws!"qualified"], [none]⟩]).map
      (fun o => (o.state.elementForm, o.elements, o.attributes))
    = [(some ws!"qualified", [some (some ws!"qualified")], [some (some ws!"qualified")]),
       (none, [some none, some (some ws!"qualified")], [some none])] := by decide

end Props.C17Schema
