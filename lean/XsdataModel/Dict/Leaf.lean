/-
L6 — converter-typed leaves.  The dictionary layer models str / int / bool (and QName) itself;
every other primitive type (Decimal, bytes, the Xml* types, enumerations, …) reaches it through
`converter.serialize` (encoder: the value is not a dict/int/float/str/bool, so it is written as
the string the converter gives) and `converter.deserialize` (decoder: `bind_text` hands the JSON
string to `parse_var` with the field's types).  `LeafRT` is what the layer needs to know about
such a converter; `DEnv.other` is where the decoder model looks it up.
-/
import XsdataModel.Dict.Frag

namespace Xs.Dict
open Py Xs.Bind

/-- a converter seen from the dictionary layer: `serialize`, `deserialize` (`none` =
ConverterError) and the round trip on the values of the type (`dom`) -/
structure LeafRT (α : Type) where
  ser : α → Str
  de : Str → Option α
  dom : α → Prop
  rt : ∀ v, dom v → de (ser v) = some v

/-- the canonical lexical form of the value a string denotes: `serialize(deserialize(s))` -/
def LeafRT.canon {α} (L : LeafRT α) (s : Str) : Option Str := (L.de s).map L.ser

/-- `serialize v` is canonical -/
theorem LeafRT.canon_ser {α} (L : LeafRT α) (v : α) (h : L.dom v) : L.canon (L.ser v) = some (L.ser v) := by
  simp [LeafRT.canon, L.rt v h]

/-- an environment that knows one more converter -/
def DEnv.withLeaf {α} (e : DEnv) (name : Str) (L : LeafRT α) : DEnv :=
  { e with other := fun n s => if n = name then L.canon s else e.other n s }

end Xs.Dict
