/- Helper lemmas: the string `repr` prints denotes a decimal that rounds to the double. -/
import XsdataModel.Proofs.FloatReprL
import XsdataModel.Proofs.FloatRtL

namespace Xs.Conv
open Py Xs.Spec

/-! ### trailing zeros of a digit string -/

theorem takeWhile_zero_replicate (l : Str) :
    l.takeWhile (· = '0') = List.replicate (l.takeWhile (· = '0')).length '0' := by
  induction l with
  | nil => rfl
  | cons c cs ih =>
    by_cases hc : c = '0'
    · subst hc
      simp only [List.takeWhile_cons, decide_true, if_true, List.length_cons, List.replicate_succ]
      rw [← ih]
    · simp [List.takeWhile_cons, hc]

theorem stripTrailingZeros_append (s : Str) :
    ∃ t, s = stripTrailingZeros s ++ List.replicate t '0' := by
  refine ⟨(s.reverse.takeWhile (· = '0')).length, ?_⟩
  unfold stripTrailingZeros
  have h := List.takeWhile_append_dropWhile (p := (· = '0')) (l := s.reverse)
  have h2 : s = (s.reverse.dropWhile (· = '0')).reverse ++ (s.reverse.takeWhile (· = '0')).reverse := by
    calc s = s.reverse.reverse := (List.reverse_reverse s).symm
      _ = (s.reverse.takeWhile (· = '0') ++ s.reverse.dropWhile (· = '0')).reverse := by rw [h]
      _ = _ := List.reverse_append
  rw [takeWhile_zero_replicate s.reverse] at h2
  simpa using h2

theorem digitsNat_natStr (n : Nat) : digitsNat (natStr n) = n := (natStr_spec n).2.2

theorem digitsNat_cons_zero (s : Str) : digitsNat ('0' :: s) = digitsNat s := by
  have : ('0' :: s) = ['0'] ++ s := rfl
  rw [this, digitsNat_append]
  have : digitsNat ['0'] = 0 := by decide
  simp [this]

theorem digitsNat_lead_zeros (z : Nat) (s : Str) : digitsNat (List.replicate z '0' ++ s) = digitsNat s := by
  rw [digitsNat_append, digitsNat_zeros]; simp

/-- the digits `repr` prints for `D > 0`: `D` without its trailing zeros -/
theorem digitsOf_value (D : Nat) (hD : 0 < D) :
    ∃ t, (natStr D).length = (digitsOf D).length + t ∧ D = digitsNat (digitsOf D) * 10 ^ t ∧
      0 < digitsNat (digitsOf D) := by
  obtain ⟨t, ht⟩ := stripTrailingZeros_append (natStr D)
  have hval := digitsNat_natStr D
  have hnonempty : stripTrailingZeros (natStr D) ≠ [] := by
    intro h0
    rw [h0, List.nil_append] at ht
    rw [ht, digitsNat_zeros] at hval
    omega
  have hdo : digitsOf D = stripTrailingZeros (natStr D) := by
    unfold digitsOf
    simp only
    cases hs : stripTrailingZeros (natStr D) with
    | nil => exact absurd hs hnonempty
    | cons a r => simp
  have hv2 : D = digitsNat (digitsOf D) * 10 ^ t := by
    have h1 : digitsNat (natStr D) = digitsNat (stripTrailingZeros (natStr D) ++ List.replicate t '0') := by
      rw [← ht]
    rw [hval, digitsNat_append, digitsNat_zeros] at h1
    rw [hdo]; simpa using h1
  refine ⟨t, ?_, hv2, ?_⟩
  · have := congrArg List.length ht
    rw [hdo]; simpa using this
  · cases hc : digitsNat (digitsOf D) with
    | zero => rw [hc] at hv2; omega
    | succ k => omega

/-! ### what the layout denotes -/

/-- the printed layout of digits `0.ds × 10^decpt` is a finite-repr shape whose literal rounds
like `digitsNat ds × 10^(decpt - |ds|)` -/
theorem reprLayout_value (ds : Str) (decpt : Int) (hne : ds ≠ []) (hd : AllDigits ds) (hpos : 0 < digitsNat ds) :
    ∃ (ip fp : Str) (ex : Option (Bool × Str)),
      reprLayout ds decpt = ip ++ ((if fp = [] then [] else '.' :: fp) ++ reprExp ex) ∧
      ip ≠ [] ∧ AllDigits ip ∧ AllDigits fp ∧ ReprExpOk ex ∧
      ∀ neg, roundDecimal neg (digitsNat (ip ++ fp)) (reprExpVal ex - (fp.length : Int)) =
        roundDecimal neg (digitsNat ds) (decpt - (ds.length : Int)) := by
  unfold reprLayout
  simp only
  by_cases hsci : (decide (decpt - 1 < -4) || decide (decpt - 1 ≥ 16)) = true
  · rw [if_pos hsci]
    have hea := natStr_spec (decpt - 1).natAbs
    -- the exponent digits, at least two
    have hexpOk : ReprExpOk (some (decide (decpt - 1 < 0),
        if (natStr (decpt - 1).natAbs).length < 2 then '0' :: natStr (decpt - 1).natAbs else natStr (decpt - 1).natAbs)) := by
      constructor
      · split <;> simp [hea.2.1]
      · split
        · intro c hc
          rcases List.mem_cons.mp hc with rfl | h
          · decide
          · exact hea.1 c h
        · exact hea.1
    have hexpVal : reprExpVal (some (decide (decpt - 1 < 0),
        if (natStr (decpt - 1).natAbs).length < 2 then '0' :: natStr (decpt - 1).natAbs else natStr (decpt - 1).natAbs))
        = decpt - 1 := by
      have hv : digitsNat (if (natStr (decpt - 1).natAbs).length < 2 then '0' :: natStr (decpt - 1).natAbs
          else natStr (decpt - 1).natAbs) = (decpt - 1).natAbs := by
        split
        · rw [digitsNat_cons_zero, digitsNat_natStr]
        · rw [digitsNat_natStr]
      simp only [reprExpVal, hv]
      by_cases hneg : decpt - 1 < 0
      · simp [hneg]; omega
      · simp [hneg]; omega
    cases ds with
    | nil => exact absurd rfl hne
    | cons d rest =>
      cases rest with
      | nil =>
        refine ⟨[d], [], _, ?_, by simp, hd, (by intro c hc; cases hc), hexpOk, ?_⟩
        · simp only [reprExp, if_true, List.nil_append]
          by_cases hneg : decpt - 1 < 0 <;> simp [hneg]
        · intro neg
          rw [hexpVal]
          simp
      | cons r rs =>
        refine ⟨[d], r :: rs, _, ?_, by simp, (by intro c hc; exact hd c (by simp at hc; simp [hc])),
          (by intro c hc; exact hd c (List.mem_cons_of_mem d hc)), hexpOk, ?_⟩
        · simp only [reprExp]
          by_cases hneg : decpt - 1 < 0 <;> simp [hneg]
        · intro neg
          rw [hexpVal]
          have e : decpt - 1 - ((r :: rs).length : Int) = decpt - ((d :: r :: rs).length : Int) := by
            simp; omega
          rw [e]
          rfl
  · rw [if_neg hsci]
    by_cases h2 : decpt ≤ 0
    · -- 0.000ddd
      rw [if_pos h2]
      refine ⟨['0'], List.replicate (-decpt).toNat '0' ++ ds, none,
        by simp [reprExp, hne], by simp, (by intro c hc; simp at hc; subst hc; decide),
        allDigits_append _ _ (allDigits_zeros _) hd, trivial, ?_⟩
      intro neg
      have hc : digitsNat (['0'] ++ (List.replicate (-decpt).toNat '0' ++ ds)) = digitsNat ds := by
        show digitsNat ('0' :: (List.replicate (-decpt).toNat '0' ++ ds)) = digitsNat ds
        rw [digitsNat_cons_zero, digitsNat_lead_zeros]
      have he : reprExpVal none - ((List.replicate (-decpt).toNat '0' ++ ds).length : Int) = decpt - (ds.length : Int) := by
        simp [reprExpVal]; omega
      rw [hc, he]
    · rw [if_neg h2]
      by_cases h3 : decpt.toNat ≥ ds.length
      · -- ddd000.0
        rw [if_pos h3]
        refine ⟨ds ++ List.replicate (decpt.toNat - ds.length) '0', ['0'], none,
          by simp [reprExp], by simp [hne], allDigits_append _ _ hd (allDigits_zeros _),
          (by intro c hc; simp at hc; subst hc; decide), trivial, ?_⟩
        intro neg
        have hc : digitsNat (ds ++ List.replicate (decpt.toNat - ds.length) '0' ++ ['0']) =
            digitsNat ds * 10 ^ (decpt.toNat - ds.length + 1) := by
          have : ds ++ List.replicate (decpt.toNat - ds.length) '0' ++ ['0'] =
              ds ++ List.replicate (decpt.toNat - ds.length + 1) '0' := by
            rw [List.replicate_succ', List.append_assoc]
          rw [this, digitsNat_append, digitsNat_zeros]; simp
        have he : reprExpVal none - ((['0'] : Str).length : Int) =
            (decpt - (ds.length : Int)) - ((decpt.toNat - ds.length + 1 : Nat) : Int) := by
          simp [reprExpVal]; omega
        rw [hc, he]
        exact roundDecimal_zeros neg _ _ _ hpos
      · -- dd.ddd
        rw [if_neg h3]
        have hpos' : 0 < decpt.toNat := by omega
        have hlt : decpt.toNat < ds.length := by omega
        refine ⟨ds.take decpt.toNat, ds.drop decpt.toNat, none, ?_, ?_,
          fun c hc => hd c (List.mem_of_mem_take hc), fun c hc => hd c (List.mem_of_mem_drop hc), trivial, ?_⟩
        · have : ds.drop decpt.toNat ≠ [] := by
            intro h0
            have h4 : (ds.drop decpt.toNat).length = 0 := by rw [h0]; rfl
            rw [List.length_drop] at h4; omega
          simp [reprExp, this]
        · intro h0
          have h4 : (ds.take decpt.toNat).length = 0 := by rw [h0]; rfl
          rw [List.length_take] at h4; omega
        · intro neg
          rw [List.take_append_drop]
          have he : reprExpVal none - ((ds.drop decpt.toNat).length : Int) = decpt - (ds.length : Int) := by
            simp [reprExpVal, List.length_drop]; omega
          rw [he]

/-! ### the decimal `repr` chooses reads back as the double -/

theorem shortestWith_pos (m : Nat) (q : Int) (vn vd : Nat) (decpt : Int) (k D : Nat)
    (h : shortestWith m q vn vd decpt k = some D) : 0 < D := by
  unfold shortestWith at h
  rcases pickShortest_sound _ _ _ _ _ _ D h with ⟨h1, h2⟩ | ⟨h1, _⟩
  · simp only [Bool.and_eq_true, bne_iff_ne, ne_eq, decide_eq_true_eq] at h2
    have := h2.1
    rw [h1]
    exact Nat.pos_of_ne_zero this
  · rw [h1]
    exact Nat.succ_pos _

theorem shortestSearch_pos (m : Nat) (q : Int) (vn vd : Nat) (decpt : Int) (fuel k0 D k : Nat)
    (h : shortestSearch m q vn vd decpt fuel k0 = some (D, k)) : 0 < D := by
  induction fuel generalizing k0 with
  | zero => simp [shortestSearch] at h
  | succ fuel ih =>
    unfold shortestSearch at h
    cases hw : shortestWith m q vn vd decpt k0 with
    | some D' =>
      simp only [hw, Option.some.injEq, Prod.mk.injEq] at h
      obtain ⟨h1, _⟩ := h
      subst h1
      exact shortestWith_pos m q vn vd decpt k0 D' hw
    | none =>
      simp only [hw] at h
      exact ih (k0 + 1) h

/-- whatever branch produced it, the decimal printed for a positive double reads back as that double -/
theorem shortestDecimal_reads_back (m : Nat) (q : Int) (h : PosCanonical m q) :
    0 < (shortestDecimal m q).1 ∧
    roundDecimal false (shortestDecimal m q).1 (shortestDecimal m q).2 = .fin false m q := by
  unfold shortestDecimal
  simp only
  cases hs : shortestSearch m q (f64Ratio m q).1 (f64Ratio m q).2
      (decimalPoint (f64Ratio m q).1 (f64Ratio m q).2) 18 1 with
  | some r =>
    obtain ⟨D, k⟩ := r
    simp only
    refine ⟨shortestSearch_pos _ _ _ _ _ _ _ D k hs, ?_⟩
    have := shortestSearch_back _ _ _ _ _ _ _ D k hs
    have e : decimalPoint (f64Ratio m q).1 (f64Ratio m q).2 - (k : Int) =
        -((k : Int) - decimalPoint (f64Ratio m q).1 (f64Ratio m q).2) := by omega
    rw [e]; exact this
  | none =>
    simp only
    refine ⟨?_, roundDecimal_exact m q h⟩
    have hm := posCanonical_pos m q h
    unfold exactDecimal
    split
    · exact Nat.mul_pos hm (Nat.pow_pos (by omega))
    · exact Nat.mul_pos hm (Nat.pow_pos (by omega))

/-! ### the lower-case special spellings `repr` prints -/

theorem pyFloatLit_repr_special (e : Env) :
    pyFloatLit e ['n', 'a', 'n'] = some .nan ∧ pyFloatLit e ['i', 'n', 'f'] = some (.inf false) ∧
    pyFloatLit e ['-', 'i', 'n', 'f'] = some (.inf true) := by
  have ns : ∀ c, isAscii c = true → isCSpace c = false → numSpace e c = false := by
    intro c h1 h2; rw [numSpace_ascii e c h1]; exact h2
  have strip : ∀ (core : Str), Tight (numSpace e) core → numStrip e core = core := by
    intro core ht
    have := numStrip_xsd_pad e [] core [] (by intro c h; cases h) (by intro c h; cases h) ht
    simpa using this
  refine ⟨?_, ?_, ?_⟩
  · unfold pyFloatLit
    rw [stripUnderscores_id e _ .other (by decide) (by decide)]
    simp only
    rw [strip ['n', 'a', 'n'] (Or.inr ⟨⟨'n', _, rfl, ns _ (by decide) (by decide)⟩, ⟨['n', 'a'], 'n', rfl, ns _ (by decide) (by decide)⟩⟩)]
    rw [if_neg (by decide), if_pos (by decide)]
  · unfold pyFloatLit
    rw [stripUnderscores_id e _ .other (by decide) (by decide)]
    simp only
    rw [strip ['i', 'n', 'f'] (Or.inr ⟨⟨'i', _, rfl, ns _ (by decide) (by decide)⟩, ⟨['i', 'n'], 'f', rfl, ns _ (by decide) (by decide)⟩⟩)]
    rw [if_pos (by decide)]
    decide
  · unfold pyFloatLit
    rw [stripUnderscores_id e _ .other (by decide) (by decide)]
    simp only
    rw [strip ['-', 'i', 'n', 'f'] (Or.inr ⟨⟨'-', _, rfl, ns _ (by decide) (by decide)⟩, ⟨['-', 'i', 'n'], 'f', rfl, ns _ (by decide) (by decide)⟩⟩)]
    rw [if_pos (by decide)]
    decide

end Xs.Conv
