/-
C01 (fragments F2…): the hypothesis `ctxOK ft` is monotone in the feature set (for a fixed
`inherit` flag, which also *adds* a condition: no declared attribute named `xsi:type`).
-/
import XsdataModel.Bind.FN

namespace Proofs.C01
open Py Xs.Bind Xs.Bind.F1 Xs.Bind.FN

/-- `a ≤ b` on `Bool` -/
def BLe (a b : Bool) : Prop := a = true → b = true

theorem BLe.refl (a : Bool) : BLe a a := fun h => h
theorem BLe.and {a a' b b' : Bool} (h1 : BLe a a') (h2 : BLe b b') : BLe (a && b) (a' && b') := by
  intro h; simp only [Bool.and_eq_true] at h ⊢; exact ⟨h1 h.1, h2 h.2⟩
theorem BLe.or {a a' b b' : Bool} (h1 : BLe a a') (h2 : BLe b b') : BLe (a || b) (a' || b') := by
  intro h; simp only [Bool.or_eq_true] at h ⊢; exact h.imp h1 h2
theorem BLe.all {α : Type} {f g : α → Bool} (l : List α) (h : ∀ x, BLe (f x) (g x)) : BLe (l.all f) (l.all g) := by
  intro hl; simp only [List.all_eq_true] at hl ⊢; exact fun x hx => h x (hl x hx)

/-- one feature set allows what the other allows, with the same `inherit` flag -/
structure FeatLe (ft ft' : Feat) : Prop where
  nillable : BLe ft.nillable ft'.nillable
  tokens : BLe ft.tokens ft'.tokens
  wrapper : BLe ft.wrapper ft'.wrapper
  sequence : BLe ft.sequence ft'.sequence
  fixed : BLe ft.fixed ft'.fixed
  anyAttrs : BLe ft.anyAttrs ft'.anyAttrs
  wildcard : BLe ft.wildcard ft'.wildcard
  union : BLe ft.union ft'.union
  qname : BLe ft.qname ft'.qname
  inherit : ft.inherit = ft'.inherit

/- follow the syntax tree of a Boolean formula (`hb`, `ha`, `he`, `ht`, `hm`: the monotonicity of the
sub-predicates, when in scope) -/
set_option hygiene false in
macro "bmono" : tactic =>
  `(tactic| repeat (first | exact BLe.refl _ | assumption | exact hb | exact ha _ | exact he _ | exact ht _ | exact hm _ _ | apply BLe.and | apply BLe.or | (apply BLe.all; intro _)))

theorem varBase_mono {ft ft' : Feat} (h : FeatLe ft ft') (v : XmlVar) : BLe (FN.varBase ft v) (FN.varBase ft' v) := by
  have h1 := h.nillable; have h2 := h.tokens; have h3 := h.wrapper; have h4 := h.sequence; have h5 := h.fixed
  unfold FN.varBase
  bmono

attribute [local irreducible] FN.varBase

theorem attrVarOK_mono {ft ft' : Feat} (h : FeatLe ft ft') (m : XmlMeta) (ci : ClassInfo) (v : XmlVar) :
    BLe (FN.attrVarOK ft m ci v) (FN.attrVarOK ft' m ci v) := by
  have hb := varBase_mono h v
  unfold FN.attrVarOK
  bmono

theorem textVarOK_mono {ft ft' : Feat} (h : FeatLe ft ft') (ci : ClassInfo) (v : XmlVar) :
    BLe (FN.textVarOK ft ci v) (FN.textVarOK ft' ci v) := by
  have hb := varBase_mono h v
  unfold FN.textVarOK
  bmono

theorem elemVarOK_mono {ft ft' : Feat} (h : FeatLe ft ft') (Γ : Ctx) (m : XmlMeta) (ci : ClassInfo) (v : XmlVar) :
    BLe (FN.elemVarOK ft Γ m ci v) (FN.elemVarOK ft' Γ m ci v) := by
  have hb := varBase_mono h v
  have h1 := h.union; have h2 := h.qname
  unfold FN.elemVarOK
  cases v.clazz <;> cases FN.primTypeOf v <;> dsimp only <;> bmono

attribute [local irreducible] FN.attrVarOK FN.textVarOK FN.elemVarOK

theorem metaOK_mono {ft ft' : Feat} (h : FeatLe ft ft') (Γ : Ctx) (ci : ClassInfo) (m : XmlMeta) :
    BLe (FN.metaOK ft Γ ci m) (FN.metaOK ft' Γ ci m) := by
  have h1 := h.nillable; have h2 := h.wildcard; have h3 := h.anyAttrs
  have ha := attrVarOK_mono h m ci
  have he := elemVarOK_mono h Γ m ci
  have ht := textVarOK_mono h ci
  unfold FN.metaOK
  rw [← h.inherit]
  cases m.text <;> dsimp only <;> bmono

attribute [local irreducible] FN.metaOK

/-- **monotonicity of the universe hypothesis** -/
theorem ctxOK_mono {ft ft' : Feat} (h : FeatLe ft ft') (Γ : Ctx) (hΓ : FN.ctxOK ft Γ = true) : FN.ctxOK ft' Γ = true := by
  have hm := metaOK_mono h Γ
  have : BLe (FN.ctxOK ft Γ) (FN.ctxOK ft' Γ) := by
    unfold FN.ctxOK
    bmono
  exact this hΓ

end Proofs.C01
