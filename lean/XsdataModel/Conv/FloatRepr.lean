/-
L1 — CPython's `float(str)` rounding and `repr(float)`, computed exactly.

`pyFloatLit` (Number.lean) reads the exact decimal written in a string.  This
file rounds that decimal to IEEE 754 binary64 (round-half-even, gradual
underflow, overflow to infinity) and prints the shortest decimal string that
reads back as the same double, in `repr`'s layout (`float_repr_style = 'short'`:
David Gay's mode 0, closest of the shortest, fixed notation for
`-4 ≤ exponent < 16`, otherwise `d.ddde±XX`).  It replaces the oracle
`CEnv.floatRepr` in the driver; agreement with CPython is checked by the
correspondence op `conv.float_repr` (bounded-exhaustive ≤ 3-digit mantissas ×
exponents −330…310, random doubles, boundaries).
-/
import XsdataModel.Conv.Number

namespace Xs.Conv
open Py

/-- a binary64 value: `±m × 2^q` with `m < 2^53`, `-1074 ≤ q ≤ 971`; zero is `m = 0` -/
inductive F64
  | fin (neg : Bool) (m : Nat) (q : Int)
  | inf (neg : Bool)
  | nan
deriving DecidableEq, Repr

/-- the values of the format: zero, normal numbers (53-bit significand), subnormal numbers -/
def F64.Canonical : F64 → Prop
  | .fin _ m q =>
    (m = 0 ∧ q = -1074) ∨ (2 ^ 52 ≤ m ∧ m < 2 ^ 53 ∧ -1074 ≤ q ∧ q ≤ 971) ∨ (0 < m ∧ m < 2 ^ 52 ∧ q = -1074)
  | _ => True

/-- `round(n / d)` to the nearest integer, ties to even -/
def divRoundHalfEven (n d : Nat) : Nat :=
  let qt := n / d
  let r := n % d
  if 2 * r < d then qt else if 2 * r > d then qt + 1 else if qt % 2 = 0 then qt else qt + 1

/-- `round(n / (d × 2^q))`, ties to even -/
def scaledRound (n d : Nat) (q : Int) : Nat :=
  if q ≥ 0 then divRoundHalfEven n (d * 2 ^ q.toNat) else divRoundHalfEven (n * 2 ^ (-q).toNat) d

/-- `floor(log2(n / d))` for positive `n`, `d` -/
def floorLog2Ratio (n d : Nat) : Int :=
  let lg : Int := (Nat.log2 n : Int) - (Nat.log2 d : Int)
  -- 2^(lg-1) < n/d < 2^(lg+1): decide which side of 2^lg
  let ge := if lg ≥ 0 then n ≥ d * 2 ^ lg.toNat else n * 2 ^ (-lg).toNat ≥ d
  if ge then lg else lg - 1

/-- the positive rational `n / d` rounded to binary64; `none` = overflow.
The binary exponent comes from the exact magnitude (not from a rounded
significand: just below a power of two the grid is twice as fine). -/
def roundRatio (n d : Nat) : Option (Nat × Int) :=
  if n = 0 then some (0, -1074) else
  let q : Int := max (floorLog2Ratio n d - 52) (-1074)
  let m := scaledRound n d q
  -- a carry out of the rounding gives 2^53: the next power of two
  let r : Nat × Int := if m = 2 ^ 53 then (2 ^ 52, q + 1) else (m, q)
  if r.2 > 971 then none else some r

/-- number of decimal digits of `n` (`0` has one) -/
def numDigits (n : Nat) : Nat := (natStr n).length

/-- the exact decimal `c × 10^x` as a ratio of naturals -/
def decRatio (c : Nat) (x : Int) : Nat × Nat :=
  if x ≥ 0 then (c * 10 ^ x.toNat, 1) else (c, 10 ^ (-x).toNat)

/-- `float()` of the exact decimal `±c × 10^x` -/
def roundDecimal (neg : Bool) (c : Nat) (x : Int) : F64 :=
  if c = 0 then .fin neg 0 (-1074)
  else if x + (numDigits c : Int) > 310 then .inf neg
  else if x + (numDigits c : Int) < -330 then .fin neg 0 (-1074)
  else
    match roundRatio (decRatio c x).1 (decRatio c x).2 with
    | some (m, q) => .fin neg m q
    | none => .inf neg

def FloatLit.toF64 : FloatLit → F64
  | .fin neg c x => roundDecimal neg c x
  | .inf neg => .inf neg
  | .nan => .nan

/-! ### shortest repr -/

/-- the double `m × 2^q` as a ratio -/
def f64Ratio (m : Nat) (q : Int) : Nat × Nat :=
  if q ≥ 0 then (m * 2 ^ q.toNat, 1) else (m, 2 ^ (-q).toNat)

/-- move the estimate `p` until `10^(p-1) ≤ n/d < 10^p` -/
def adjustDecpt (n d : Nat) : Nat → Int → Int
  | 0, p => p
  | fuel + 1, p =>
    -- n/d ≥ 10^p ?
    let ge := if p ≥ 0 then n ≥ d * 10 ^ p.toNat else n * 10 ^ (-p).toNat ≥ d
    if ge then adjustDecpt n d fuel (p + 1)
    else
      -- n/d < 10^(p-1) ?
      let lt := if p - 1 ≥ 0 then n < d * 10 ^ (p - 1).toNat else n * 10 ^ (-(p - 1)).toNat < d
      if lt then adjustDecpt n d fuel (p - 1) else p

/-- `decpt` with `10^(decpt-1) ≤ n/d < 10^decpt` -/
def decimalPoint (n d : Nat) : Int :=
  let lg : Int := (Nat.log2 n : Int) - (Nat.log2 d : Int)
  adjustDecpt n d 8 (lg * 30103 / 100000 + 1)

/-- choose between the two candidates: only those that read back (`okLo`, `okHi`);
of two, the one closer to the value (`dLo`, `dHi` are the distances), ties to even -/
def pickShortest (okLo okHi : Bool) (lo hi dLo dHi : Nat) : Option Nat :=
  if okLo && okHi then
    (if dLo < dHi then some lo else if dHi < dLo then some hi else if lo % 2 = 0 then some lo else some hi)
  else if okLo then some lo
  else if okHi then some hi
  else none

/-- does the decimal `D × 10^x` read back as the double `m × 2^q`? -/
def readsBack (m : Nat) (q : Int) (D : Nat) (x : Int) : Bool :=
  roundDecimal false D x = .fin false m q

/-- candidates with `k` significant digits: the two integers around `v × 10^(k - decpt)`;
returns the one that reads back as `(m, q)` and is closest to `v` -/
def shortestWith (m : Nat) (q : Int) (vn vd : Nat) (decpt : Int) (k : Nat) : Option Nat :=
  let s : Int := (k : Int) - decpt
  let num := if s ≥ 0 then vn * 10 ^ s.toNat else vn
  let den := if s ≥ 0 then vd else vd * 10 ^ (-s).toNat
  let lo := num / den
  let hi := lo + 1
  -- distances, scaled by den: v - lo = num - lo*den ; hi - v = hi*den - num
  pickShortest (lo ≠ 0 && readsBack m q lo (-s)) (readsBack m q hi (-s)) lo hi (num - lo * den) (hi * den - num)

def shortestSearch (m : Nat) (q : Int) (vn vd : Nat) (decpt : Int) : Nat → Nat → Option (Nat × Nat)
  | 0, _ => none
  | fuel + 1, k =>
    match shortestWith m q vn vd decpt k with
    | some D => some (D, k)
    | none => shortestSearch m q vn vd decpt fuel (k + 1)

/-- drop trailing `'0'` characters -/
def stripTrailingZeros (ds : Str) : Str := (ds.reverse.dropWhile (· = '0')).reverse

/-- digits of `D` without trailing zeros (`"0"` if none are left) -/
def digitsOf (D : Nat) : Str :=
  let t := stripTrailingZeros (natStr D)
  if t.isEmpty then ['0'] else t

/-- the exact decimal expansion of the double `m × 2^q`: `(D, x)` with `m × 2^q = D × 10^x` -/
def exactDecimal (m : Nat) (q : Int) : Nat × Int :=
  if q ≥ 0 then (m * 2 ^ q.toNat, 0) else (m * 5 ^ (-q).toNat, q)

/-- the decimal `D × 10^x` that `repr` prints for the positive double `m × 2^q`: the
shortest one (up to 17 significant digits) that reads back as the double and is
closest to it. Seventeen digits always suffice in IEEE arithmetic (not proved here:
it only matters for the *length* of the output); should the search ever fail, the exact
expansion is printed, which reads back as the double by idempotence of rounding. -/
def shortestDecimal (m : Nat) (q : Int) : Nat × Int :=
  let v := f64Ratio m q
  let decpt := decimalPoint v.1 v.2
  match shortestSearch m q v.1 v.2 decpt 18 1 with
  | some r => (r.1, decpt - (r.2 : Int))
  | none => exactDecimal m q

/-- digits (without trailing zeros) and decimal point position: the value is
`0.d₁d₂… × 10^decpt`. `D` may be `10^k` (all nines rounded up): the position moves. -/
def shortestDigits (m : Nat) (q : Int) : Str × Int :=
  let r := shortestDecimal m q
  (digitsOf r.1, r.2 + ((natStr r.1).length : Int))

/-- `repr` layout of digits `0.ds × 10^decpt` -/
def reprLayout (ds : Str) (decpt : Int) : Str :=
  let ex := decpt - 1
  if ex < -4 || ex ≥ 16 then
    let mant := match ds with
      | [] => ['0']
      | [d] => [d]
      | d :: rest => d :: '.' :: rest
    let ea := natStr ex.natAbs
    mant ++ ['e', if ex < 0 then '-' else '+'] ++ (if ea.length < 2 then '0' :: ea else ea)
  else if decpt ≤ 0 then
    '0' :: '.' :: (List.replicate (-decpt).toNat '0' ++ ds)
  else if decpt.toNat ≥ ds.length then
    ds ++ List.replicate (decpt.toNat - ds.length) '0' ++ ['.', '0']
  else
    ds.take decpt.toNat ++ '.' :: ds.drop decpt.toNat

/-- `repr(x)` -/
def F64.repr : F64 → Str
  | .nan => ['n', 'a', 'n']
  | .inf neg => if neg then ['-', 'i', 'n', 'f'] else ['i', 'n', 'f']
  | .fin neg m q =>
    let body :=
      if m = 0 then ['0', '.', '0']
      else
        let r := shortestDigits m q
        reprLayout r.1 r.2
    if neg then '-' :: body else body

/-- `repr(float(s))`; `none` = `ValueError` -/
def pyFloatRepr (e : Env) (s : Str) : Option Str :=
  (pyFloatLit e s).map (fun l => l.toF64.repr)

/-- total version for `CEnv.floatRepr` -/
def pyFloatReprD (e : Env) (s : Str) : Str := (pyFloatRepr e s).getD []

end Xs.Conv
