/- C14 — Parsers, serializers and the binding context are history-independent.
   Property theorems only; helper lemmas live in Proofs/CtxInv.lean. -/
import XsdataModel.Proofs.CtxInv
import XsdataModel.Proofs.CtxMemo
import XsdataModel.Proofs.CtxEvict

namespace Props.C14
open Py Xs.Ctx

/-! ## The binding context (`XmlContext.cache`, `xsi_cache`, `sys_modules`) -/

/-- **Full-strength statement**: on a shared context that has already served an
arbitrary history `h` of calls (succeeding or failing, in worlds that may have
loaded more classes and modules over time), every call returns what it returns
on a freshly created context. -/
def HistoryIndependent (U : Universe) : Prop :=
  ∀ (h : List (World × Op)) (w : World) (op : Op),
    (step U w (run U State.init h) op).2 = fresh U w op

/-- the two-parent universe: `C` has no `Meta.namespace`, `PA` and `PB` declare
`urn:a` / `urn:b` and both have a field of type `C` -/
def witnessU : Universe :=
  ⟨[ { name := "C".toList, base := none, isModel := true, inPkg := true, ns := none, mname := none,
       targetNs := none, moduleNs := none, globalType := true, inner := false, bad := false,
       fields := [⟨"x".toList, .element, none, none, none⟩] },
     { name := "PA".toList, base := none, isModel := true, inPkg := true, ns := some (some "urn:a".toList),
       mname := none, targetNs := none, moduleNs := none, globalType := true, inner := false, bad := false,
       fields := [⟨"c".toList, .element, none, none, some 0⟩] },
     { name := "PB".toList, base := none, isModel := true, inPkg := true, ns := some (some "urn:b".toList),
       mname := none, targetNs := none, moduleNs := none, globalType := true, inner := false, bad := false,
       fields := [⟨"c".toList, .element, none, none, some 0⟩] } ]⟩

def w3 : World := ⟨3, 0⟩

/-- **The full statement is false of the code as it stands** (finding C14-F1):
after `C` has been built as a child of `PA` (parent namespace `urn:a`), building
it as a child of `PB` returns the cached `urn:a` metadata. -/
theorem cache_parent_ns_counterexample : ¬ HistoryIndependent witnessU := by
  intro h
  have := h [(w3, .build 0 (some "urn:a".toList))] w3 (.build 0 (some "urn:b".toList))
  revert this
  decide

/-- the contaminated result, spelled out: the shared context answers with qname
`{urn:a}C` and element `{urn:a}x`, a fresh one with `{urn:b}C` / `{urn:b}x` -/
theorem cache_parent_ns_witness_values :
    (step witnessU w3 (run witnessU State.init [(w3, .build 0 (some "urn:a".toList))])
        (.build 0 (some "urn:b".toList))).2
      = outMeta (pureBuild witnessU 0 (some "urn:a".toList)) ∧
    fresh witnessU w3 (.build 0 (some "urn:b".toList))
      = outMeta (pureBuild witnessU 0 (some "urn:b".toList)) ∧
    outMeta (pureBuild witnessU 0 (some "urn:a".toList)) ≠ outMeta (pureBuild witnessU 0 (some "urn:b".toList)) := by
  decide

/-- (finding C14-F2) the type index is only refreshed when `len(sys.modules)`
changes: a class defined later in an already imported module stays invisible
to a shared context. World 1: only `C` exists; world 2: `PA`, `PB` were defined
without importing a module. -/
theorem stale_index_counterexample :
    (step witnessU ⟨3, 0⟩ (run witnessU State.init [(⟨1, 0⟩, .findType "PA".toList)])
        (.findType "{urn:a}PA".toList)).2 = .gotType none ∧
    fresh witnessU ⟨3, 0⟩ (.findType "{urn:a}PA".toList) = .gotType (some 1) := by
  decide

/-- universe with an unbuildable class `T` and a good class `T2` under the same xsi name -/
def evictU : Universe :=
  ⟨[ { name := "T".toList, base := none, isModel := true, inPkg := true, ns := some (some "urn:a".toList),
       mname := none, targetNs := none, moduleNs := none, globalType := true, inner := false, bad := true,
       fields := [⟨"x".toList, .element, none, none, none⟩] },
     { name := "T2".toList, base := none, isModel := true, inPkg := true, ns := some (some "urn:a".toList),
       mname := some "T".toList, targetNs := none, moduleNs := none, globalType := true, inner := false,
       bad := false, fields := [⟨"x".toList, .element, none, none, none⟩] } ]⟩

/-- the same two classes, the unbuildable one created last (so that it is the
one `find_type` picks: `types[-1]`) -/
def evictU2 : Universe := ⟨evictU.classes.reverse⟩

/-- (finding C14-F3, what remains after 7df03d4) `local_names_match` still evicts
an unbuildable class from the *published* index.  The by-fields lookup itself is
repaired — first and second lookup agree with each other and with a fresh
context — but afterwards `find_types` no longer reports the evicted class, a
repeated direct `local_names_match` raises `ValueError`, and `find_type` can
switch from the unbuildable class (fresh context: the parse then fails with
`XmlContextError`) to a buildable namesake (shared context: the parse succeeds). -/
theorem eviction_residual_counterexample :
    fresh evictU ⟨2, 0⟩ (.findTypeByFields ["x".toList]) = .gotType (some 1) ∧
    (step evictU ⟨2, 0⟩ (run evictU State.init [(⟨2, 0⟩, .findTypeByFields ["x".toList])])
        (.findTypeByFields ["x".toList])).2 = .gotType (some 1) ∧
    fresh evictU ⟨2, 0⟩ (.findTypes "{urn:a}T".toList) = .gotTypes [0, 1] ∧
    (step evictU ⟨2, 0⟩ (run evictU State.init [(⟨2, 0⟩, .findTypeByFields ["x".toList])])
        (.findTypes "{urn:a}T".toList)).2 = .gotTypes [1] ∧
    fresh evictU ⟨2, 0⟩ (.localNamesMatch ["x".toList] 0) = .gotBool false ∧
    (step evictU ⟨2, 0⟩ (run evictU State.init [(⟨2, 0⟩, .findTypeByFields ["x".toList])])
        (.localNamesMatch ["x".toList] 0)).2 = .raised .value ∧
    fresh evictU2 ⟨2, 0⟩ (.findType "{urn:a}T".toList) = .gotType (some 1) ∧
    (step evictU2 ⟨2, 0⟩ (run evictU2 State.init [(⟨2, 0⟩, .findTypeByFields ["x".toList])])
        (.findType "{urn:a}T".toList)).2 = .gotType (some 0) := by
  decide

/-- **history_independent_evicting** (new with 7df03d4): the third side condition
of `history_independent_partial` is *not needed* for calls that do not read the
index by qualified name.  For every history — by-fields lookups and
`local_names_match` calls meeting unbuildable indexed classes, evictions and
`ValueError`s included; only `fetch` with an xsi:type is excluded from the
history — `build`, `fetch` without xsi:type, `serialize`, `find_type_by_fields`,
`build_xsi_cache` and `reset` return on the shared context what they return on
a fresh one, provided parent namespaces are consistent and `len(sys.modules)`
is faithful.  In particular the first by-fields lookup equals every later one. -/
theorem history_independent_evicting (U : Universe) (h : List (World × Op)) (w : World) (op : Op)
    (hok : histOKW U Track.empty (h ++ [(w, op)])) (hblind : op.evictionBlind = true) :
    (step U w (run U State.init h) op).2 = fresh U w op := by
  obtain ⟨t', hI, hnext⟩ :=
    run_invW h Track.empty State.init (InvR.init U _) (histOKW_prefix h _ _ hok)
  have hstep := hnext w op hok
  rw [(stepW_spec hI hstep).2 hblind]
  exact ((stepW_spec (InvR.init U Track.empty) (okStepW_empty hstep)).2 hblind).symm

/-- the hypotheses hold for a history that evicts `T`, hits the `ValueError`
and then looks up by fields again -/
example : histOKW evictU Track.empty
    [(⟨2, 0⟩, .findTypeByFields ["x".toList]), (⟨2, 0⟩, .localNamesMatch ["x".toList] 0),
     (⟨2, 0⟩, .findTypes "{urn:a}T".toList), (⟨2, 0⟩, .build 1 none),
     (⟨2, 0⟩, .findTypeByFields ["x".toList])] ∧
    (Op.findTypeByFields ["x".toList]).evictionBlind = true := by
  decide

/-- whereas that history is outside `histOK` (condition iii) -/
example : ¬ histOK evictU Track.empty [(⟨2, 0⟩, .findTypeByFields ["x".toList])] := by
  decide

/-- **Refinement**: under the side conditions a call on the shared context
returns exactly what the cache-free specification `pureOut` says. -/
theorem shared_refines_spec (U : Universe) (h : List (World × Op)) (w : World) (op : Op)
    (hok : histOK U Track.empty (h ++ [(w, op)])) :
    (step U w (run U State.init h) op).2 = pureOut U w op := by
  have hpre : histOK U Track.empty h := histOK_prefix h _ _ hok
  obtain ⟨t', hI, hnext⟩ := run_inv h Track.empty State.init (Inv.init U _) hpre
  exact (step_spec hI (hnext w op hok)).1

/-- a fresh context computes the specification -/
theorem fresh_refines_spec (U : Universe) (w : World) (op : Op) (hok : okStep U Track.empty w op) :
    fresh U w op = pureOut U w op :=
  (step_spec (Inv.init U _) hok).1

/-- **history_independent_partial**: the statement holds for every history in
which (i) no class without `Meta.namespace` is requested under two different
parent namespaces, (ii) `len(sys.modules)` changes whenever the set of loaded
classes does, (iii) nothing has been evicted from the index:
`find_type_by_fields` / `local_names_match` never meet an indexed class whose
metadata cannot be built — all three decidable, checked call by call by
`histOK`.  Failing calls are allowed anywhere in the history.  Since 7df03d4
condition (iii) matters only for calls that read the index by qualified name
(`find_types`, `find_type`, `find_subclass`, `fetch` with xsi:type); for all
other calls see `history_independent_evicting`. -/
theorem history_independent_partial (U : Universe) (h : List (World × Op)) (w : World) (op : Op)
    (hok : histOK U Track.empty (h ++ [(w, op)])) :
    (step U w (run U State.init h) op).2 = fresh U w op := by
  have h1 := shared_refines_spec U h w op hok
  obtain ⟨t', ht'⟩ := histOK_last h _ w op hok
  rw [h1, fresh_refines_spec U w op (okStep_empty ht')]

/-- the hypotheses are satisfiable by a non-trivial history with failing calls:
`PA` and `PB` built, `C` requested twice under the same parent, an unknown class,
a type lookup that misses, a reset -/
example : histOK witnessU Track.empty
    [(w3, .build 1 none), (w3, .build 0 (some "urn:a".toList)), (w3, .build 7 none),
     (w3, .findType "Nope".toList), (w3, .fetch 0 (some "urn:a".toList) (some "C".toList)),
     (w3, .reset), (w3, .build 0 (some "urn:b".toList))] := by
  decide

/-- and the witness history violates exactly condition (i) -/
example : ¬ histOK witnessU Track.empty
    [(w3, .build 0 (some "urn:a".toList)), (w3, .build 0 (some "urn:b".toList))] := by
  decide

/-- call-by-call form: all results of an admissible history equal the fresh results -/
theorem all_calls_equal_fresh (U : Universe) (h : List (World × Op))
    (hok : histOK U Track.empty h) :
    runOuts U State.init h = h.map fun x => fresh U x.1 x.2 := by
  suffices ∀ (t : Track) (s : State) (h : List (World × Op)), Inv U t s → histOK U t h →
      runOuts U s h = h.map fun x => fresh U x.1 x.2 from this _ _ _ (Inv.init U _) hok
  intro t s h
  induction h generalizing t s with
  | nil => intro _ _; rfl
  | cons a rest ih =>
    intro hI hh
    obtain ⟨w, op⟩ := a
    obtain ⟨hs, hI'⟩ := step_spec hI hh.1
    simp only [runOuts, List.map_cons]
    rw [ih _ _ hI' hh.2, hs, fresh_refines_spec U w op (okStep_empty hh.1)]

/-- a universe in which every class declares `Meta.namespace` (what xsdata
generates for schemas with a target namespace) can never violate condition (i) -/
theorem declared_consistent (U : Universe) (hd : allDeclared U) (us : List Use) : consistent U us := by
  intro a _ b _ _ hs
  unfold nsSensitive at hs
  cases hg : U.get? a.1 with
  | none => simp [hg] at hs
  | some d =>
    have hmem : d ∈ U.classes := by
      unfold Universe.get? at hg
      exact List.mem_of_getElem? hg
    have := hd d hmem
    simp [hg] at hs
    simp [hs] at this

/-- **history independence for fully declared models**: with a fixed world,
every indexed class buildable and no unbuildable class carrying an xsi name,
any history whatsoever (failing calls included) is harmless -/
theorem history_independent_declared (U : Universe) (hd : allDeclared U) (w : World)
    (hb : ∀ c ∈ indexedClasses (pureIndex U w.loaded), buildable U c = true)
    (hb2 : ∀ c < U.classes.length, buildable U c = true ∨ indexKey U c = none)
    (h : List Op) (op : Op) :
    (step U w (run U State.init (h.map fun o => (w, o))) op).2 = fresh U w op := by
  apply history_independent_partial
  suffices ∀ (t : Track) (ops : List Op), (∀ w' ∈ t.worlds, w' = w) →
      histOK U t (ops.map fun o => (w, o)) from by
    have := this Track.empty (h ++ [op]) (by simp [Track.empty])
    simpa using this
  intro t ops
  induction ops generalizing t with
  | nil => intro _; trivial
  | cons o rest ih =>
    intro hw
    refine ⟨⟨declared_consistent U hd _, ?_, ?_⟩, ih _ ?_⟩
    · intro a ha b hb' _
      have ha' : a = w := by
        cases List.mem_cons.mp ha with
        | inl h => exact h
        | inr h => exact hw a h
      have hb'' : b = w := by
        cases List.mem_cons.mp hb' with
        | inl h => exact h
        | inr h => exact hw b h
      rw [ha', hb'']
    · cases o <;> simp only [noEvict]
      · exact hb
      · rename_i names c
        rcases Nat.lt_or_ge c U.classes.length with hlt | hge
        · exact hb2 c hlt
        · right
          unfold indexKey Universe.get?
          rw [List.getElem?_eq_none hge]
    · intro w' hw'
      unfold Track.next at hw'
      split at hw'
      · simp [Track.empty] at hw'
      · cases List.mem_cons.mp hw' with
        | inl h => exact h
        | inr h => exact hw w' h

/-- the hypotheses of `history_independent_declared` are satisfiable -/
def declaredU : Universe :=
  ⟨[ { name := "A".toList, base := none, isModel := true, inPkg := true, ns := some (some "urn:a".toList),
       mname := none, targetNs := none, moduleNs := none, globalType := true, inner := false, bad := false,
       fields := [⟨"x".toList, .element, none, none, none⟩] },
     { name := "B".toList, base := some 0, isModel := true, inPkg := true, ns := some none,
       mname := none, targetNs := none, moduleNs := none, globalType := true, inner := false, bad := false,
       fields := [⟨"a".toList, .element, none, none, some 0⟩] } ]⟩

example : allDeclared declaredU ∧
    (∀ c ∈ indexedClasses (pureIndex declaredU 2), buildable declaredU c = true) ∧
    (∀ c < declaredU.classes.length, buildable declaredU c = true ∨ indexKey declaredU c = none) := by
  decide


/-! ## Document level: serialising through a shared context -/

/-- `PA(c=C(x=..))` -/
def docPA : List Tok := [.enter 0 1, .enter 0 0, .leaf 0, .leave, .leave]
/-- `PB(c=C(x=..))` -/
def docPB : List Tok := [.enter 0 2, .enter 0 0, .leaf 0, .leave, .leave]

/-- (finding C14-F1 at document level) serialising `PB` after `PA` through one
context puts `PA`'s namespace on `C`'s child element. -/
theorem serialize_counterexample :
    fresh witnessU w3 (.serialize docPB)
      = .gotNames ["{urn:b}PB".toList, "{urn:b}c".toList, "{urn:b}x".toList] ∧
    (step witnessU w3 (run witnessU State.init [(w3, .serialize docPA)]) (.serialize docPB)).2
      = .gotNames ["{urn:b}PB".toList, "{urn:b}c".toList, "{urn:a}x".toList] := by
  decide

/-- whereas any number of repetitions of the *same* documents is harmless
(instance of `history_independent_partial`; the side conditions are decided) -/
example : histOK witnessU Track.empty
    [(w3, .serialize docPA), (w3, .serialize docPA), (w3, .build 1 none), (w3, .serialize docPA)] := by
  decide

/-! ## Memoised helpers -/

/-- **memo_pure**: whatever queries a field has answered before, `match_namespace`
returns the value of the un-memoised `_match_namespace`. -/
theorem memo_pure (nss : List Str) (history : List Str) (q : Str) :
    (matchRun nss none (history ++ [q])).getLast? = some (matchNamespacePure nss q) := by
  rw [matchRun_spec _ _ (MemoInv.none nss)]
  simp

/-- all answers of a query sequence against one shared field equal the pure function -/
theorem memo_pure_all (nss : List Str) (qs : List Str) :
    matchRun nss none qs = qs.map (matchNamespacePure nss) :=
  matchRun_spec _ _ (MemoInv.none nss)

/-- **lru_transparent**: a function wrapped in `functools.lru_cache` of any size
returns, after any sequence of earlier calls (including raising ones and ones
that caused evictions), exactly what the bare function returns. -/
theorem lru_transparent {κ ν} [BEq κ] [LawfulBEq κ] [DecidableEq κ] (f : κ → Option ν) (cap : Nat)
    (ks : List κ) : (lruRun f cap [] ks).map (·.1) = ks.map f :=
  lruRun_spec cap ks [] (by intro k v h; simp [List.lookup] at h)

/-- in particular for `build_qname` and `split_qname` with the size the code declares -/
theorem build_qname_lru_transparent (calls : List (List (Option Str))) :
    (lruRun buildQNameArgs Tables.lruMaxBuildQName [] calls).map (·.1) = calls.map buildQNameArgs :=
  lru_transparent _ _ _

theorem split_qname_lru_transparent (calls : List Str) :
    (lruRun splitQNameArgs Tables.lruMaxSplitQName [] calls).map (·.1) = calls.map splitQNameArgs :=
  lru_transparent _ _ _

/-- **nsmap_not_observed**: the prefix map kept on the parser instance never flows
into a parse result, and a map passed by the caller is filled from that map and
the document only; the instance is left untouched in that case. -/
theorem nsmap_not_observed {Doc R} (decls : Doc → NsMap) (bind : Doc → R) (p p' : ParserInst)
    (doc : Doc) (arg : Option NsMap) :
    (parseCall decls bind p doc arg).2.1 = (parseCall decls bind p' doc arg).2.1 ∧
    (∀ m, parseCall decls bind p doc (some m) = (p, bind doc, some (registerAll m (decls doc)))) := by
  cases arg <;> exact ⟨rfl, fun _ => rfl⟩

/-- but the instance attribute itself is history dependent (finding C14-F4):
after a document binding prefix `p` to `urn:a`, a second document binding `p`
to `urn:b` leaves `parser.ns_map["p"] == "urn:a"`. -/
theorem recorder_accumulates_counterexample :
    let d1 : NsMap := [(some "p".toList, "urn:a".toList)]
    let d2 : NsMap := [(some "p".toList, "urn:b".toList)]
    let call := parseCall (Doc := NsMap) (R := Unit) id (fun _ => ())
    (call (call ⟨[]⟩ d1 none).1 d2 none).1.nsMap = [(some "p".toList, "urn:a".toList)] ∧
    (call ⟨[]⟩ d2 none).1.nsMap = [(some "p".toList, "urn:b".toList)] := by
  decide

end Props.C14
