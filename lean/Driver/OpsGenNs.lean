import Driver.Proto
import Driver.OpsGen
import Driver.OpsGenAttrs
import XsdataModel.Gen.Ns
open Lean Proto Py Xs.Gen

namespace OpsGenNs
open OpsGen OpsGenAttrs

def dForm (j : Json) : Except String (Option Form) :=
  match j with
  | .null => pure none
  | .str "qualified" => pure (some .qualified)
  | .str "unqualified" => pure (some .unqualified)
  | _ => .error "bad form"

def dCtx (j : Json) : Except String NsCtx := do
  let prefixes ← match fld j "prefixes" with
    | .obj kvs => kvs.toList.mapM fun (k, v) => do pure (k.toList, ← asStr v)
    | _ => .error "bad prefixes"
  pure { tns := ← dOptS (fld j "tns"), chameleon := (getBool j "chameleon").toOption.getD false,
         defaultNs := ← dOptS (fld j "default"), prefixes,
         elementForm := ← dForm (fld j "eform"), attributeForm := ← dForm (fld j "aform") }

def dNsDecl (j : Json) : Except String NsDecl := do
  let isAttr ← getBool j "attr"
  match fld j "kind" with
  | .str "local" => pure (.localD isAttr (← dForm (fld j "form")) (← dOptS (fld j "tnsattr")))
  | .str "ref" => pure (.refD isAttr (← dOptS (fld j "prefix")))
  | .str "global" => pure (.globalD isAttr)
  | _ => .error "bad declaration kind"

def run (op : String) (a : Json) : Option (Except String Json) :=
  match op with
  | "gen.ns_attrs" => some do
      let ctx ← dCtx (fld a "ctx")
      let decls ← (← asArr (fld a "decls")).mapM dNsDecl
      pure <| ok (jObj [("class", jOpt jStr (elementNamespace ctx (.globalD false))),
                        ("attrs", jList (fun d => jOpt jStr (elementNamespace ctx d)) decls)])
  | "gen.ns_meta" => some do
      let cases ← (← asArr (fld a "cases")).mapM fun j => do
        pure (← dOptS (fld j "parent"), ← dOptS (fld j "attr"), ← getBool j "is_attr")
      pure <| ok (jList (fun (c : Option Str × Option Str × Bool) =>
        let m := fieldMetaNs c.1 c.2.1 c.2.2
        jObj [("meta", jOpt jStr m), ("bound", jOpt jStr (boundNs m c.1 c.2.2))]) cases)
  | "gen.ns_fields" => some do
      let ctx ← dCtx (fld a "ctx")
      let decls ← (← asArr (fld a "decls")).mapM dNsDecl
      let classNs := elementNamespace ctx (.globalD false)
      pure <| ok (jObj [("class", jOpt jStr (normNs classNs)),
                        ("fields", jList (fun d => jOpt jStr (fieldNs ctx classNs d)) decls)])
  | _ => none

end OpsGenNs
