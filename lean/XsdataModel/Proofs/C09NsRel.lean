/- C09 helper lemmas: the parser reads the prefix map of an element only to resolve the lexical
values of that element (`QNameConverter.resolve` on attribute values, text and their tokens;
`ParserUtils.parse_any_attribute` on attribute values).  Two prefix maps that answer these
questions alike are interchangeable — whatever the classes are. -/
import XsdataModel.Proofs.C09Ns
import XsdataModel.Proofs.C09Xsi

namespace Proofs.C09
open Py Xs.Bind

/-! ### the questions the parser can ask a prefix map about one lexical value -/

/-- `n` and `n'` resolve the value, each of its white space separated tokens, and its reading as a
wildcard attribute value alike -/
def strStable (e : BEnv) (n n' : NsMap) (v : Str) : Bool :=
  decide (resolveQName e v n = resolveQName e v n') &&
  (pySplitWs e.py v).all (fun t => decide (resolveQName e t n = resolveQName e t n')) &&
  decide (parseAnyAttribute v n = parseAnyAttribute v n')

def optStable (e : BEnv) (n n' : NsMap) : Option Str → Bool
  | some s => strStable e n n' s
  | none => true

/-- all lexical values of one element -/
def valuesStable (e : BEnv) (n n' : NsMap) (a : List (QN × Str)) (text : Option Str) : Bool :=
  a.all (fun kv => strStable e n n' kv.2) && optStable e n n' text

mutual
/-- the same document under other prefix maps: names, attributes, character data equal; at every
element the two maps answer every question about the element's own values alike -/
def nsRel (e : BEnv) : Tree → Tree → Bool
  | .node q a n t c tl, .node q' a' n' t' c' tl' =>
    decide (q = q') && decide (a = a') && decide (t = t') && decide (tl = tl') && valuesStable e n n' a t && nsRelL e c c'
def nsRelL (e : BEnv) : List Tree → List Tree → Bool
  | [], [] => true
  | x :: xs, y :: ys => nsRel e x y && nsRelL e xs ys
  | _, _ => false
end

def Node.withNs (n' : NsMap) : Node → Node
  | .element m a _ d xt xn => .element m a n' d xt xn
  | .primitive pm v _ nil => .primitive pm v n' nil
  | .standard v dt _ nl d mx => .standard v dt n' nl d mx
  | .wildcard v a _ => .wildcard v a n'
  | .skip => .skip
  | .wrapper q => .wrapper q

/-- the node was created for an element with these attributes and this prefix map -/
def nodeFits (a : List (QN × Str)) (n : NsMap) : Node → Prop
  | .element _ a' n' _ _ _ => a' = a ∧ n' = n
  | .primitive _ _ n' _ => n' = n
  | .standard _ _ n' _ _ _ => n' = n
  | .wildcard _ a' n' => a' = a ∧ n' = n
  | .skip => True
  | .wrapper _ => True

/-! ### converters -/

theorem deOne_stable (e : BEnv) (s : Str) (t : TypeRef) (n n' : NsMap)
    (h : resolveQName e s n = resolveQName e s n') : deOne e s t n = deOne e s t n' := by
  cases t with
  | prim p => cases p <;> simp [deOne, h]
  | cls c => rfl
  | obj => rfl
  | other o => rfl

theorem deserialize_stable (e : BEnv) (s : Str) (ts : List TypeRef) (n n' : NsMap)
    (h : resolveQName e s n = resolveQName e s n') : deserialize e s ts n = deserialize e s ts n' := by
  unfold deserialize
  induction ts with
  | nil => rfl
  | cons t ts ih => simp only [List.findSome?_cons, deOne_stable e s t n n' h, ih]

theorem mapM_congr_mem {α β} (f g : α → Option β) (l : List α) (h : ∀ x ∈ l, f x = g x) :
    l.mapM f = l.mapM g := by
  induction l with
  | nil => rfl
  | cons x xs ih =>
    simp only [List.mapM_cons, h x (List.mem_cons_self ..), ih (fun y hy => h y (List.mem_cons_of_mem _ hy))]

theorem parseVar_stable (e : BEnv) (cfg : ParserConfig) (var : VarCore) (value : Option Str) (n n' : NsMap)
    (types : Option (List TypeRef)) (h : optStable e n n' value = true) :
    parseVar e cfg var value n types = parseVar e cfg var value n' types := by
  unfold parseVar
  cases value with
  | none => rfl
  | some s =>
    simp only [optStable, strStable, Bool.and_eq_true, decide_eq_true_eq, List.all_eq_true] at h
    have h1 := deserialize_stable e s (types.getD var.types) n n' h.1.1
    have h2 : (pySplitWs e.py s).mapM (fun t => deserialize e t (types.getD var.types) n) =
        (pySplitWs e.py s).mapM (fun t => deserialize e t (types.getD var.types) n') :=
      mapM_congr_mem _ _ _ (fun t ht => deserialize_stable e t _ n n' (h.1.2 t ht))
    simp only [h1, h2]

theorem xsiTypeOf_stable (e : BEnv) (a : List (QN × Str)) (n n' : NsMap)
    (h : a.all (fun kv => strStable e n n' kv.2) = true) : xsiTypeOf e a n = xsiTypeOf e a n' := by
  unfold xsiTypeOf
  cases hf : a.find? (·.1 = xsiType) with
  | none => rfl
  | some kv =>
    have hm := List.mem_of_find?_eq_some hf
    simp only [List.all_eq_true] at h
    have := h kv hm
    simp only [strStable, Bool.and_eq_true, decide_eq_true_eq] at this
    simp only [Option.map_some]
    cases hv : kv.2 with
    | nil => rfl
    | cons c cs =>
      have h1 := this.1.1
      rw [hv] at h1
      simp only [h1]

theorem parseAnyAttributes_stable (e : BEnv) (a : List (QN × Str)) (n n' : NsMap)
    (h : a.all (fun kv => strStable e n n' kv.2) = true) : parseAnyAttributes a n = parseAnyAttributes a n' := by
  unfold parseAnyAttributes
  apply foldl_congr_mem
  intro kv hkv acc
  simp only [List.all_eq_true] at h
  have := h kv hkv
  simp only [strStable, Bool.and_eq_true, decide_eq_true_eq] at this
  obtain ⟨k, v⟩ := kv
  simp only at this
  simp only [this.2]

theorem bindAttrs_stable (e : BEnv) (cfg : ParserConfig) (m : XmlMeta) (a : List (QN × Str)) (n n' : NsMap)
    (h : a.all (fun kv => strStable e n n' kv.2) = true) : bindAttrs e cfg m a n = bindAttrs e cfg m a n' := by
  unfold bindAttrs
  apply foldlM_congr_mem
  intro kv hkv acc
  simp only [List.all_eq_true] at h
  have hs := h kv hkv
  have hs' := hs
  simp only [strStable, Bool.and_eq_true, decide_eq_true_eq] at hs'
  obtain ⟨k, v⟩ := kv
  obtain ⟨params, warns⟩ := acc
  simp only at hs'
  simp only [hs'.2]
  cases hfa : m.findAttribute k with
  | none => rfl
  | some var =>
    have hp := parseVar_stable e cfg var.toVarCore (some v) n n' none (by simpa [optStable] using hs)
    by_cases hh : params.has var.name = true
    · simp [hh]
    · simp [hh, hp]

theorem bindText_stable (e : BEnv) (cfg : ParserConfig) (m : XmlMeta) (xn : Option Bool) (n n' : NsMap)
    (params : Params) (text : Option Str) (h : optStable e n n' text = true) :
    bindText e cfg m xn n params text = bindText e cfg m xn n' params text := by
  unfold bindText
  cases ht : m.text with
  | none => rfl
  | some var =>
    have hp := parseVar_stable e cfg var.toVarCore text n n' none h
    simp only [hp]

theorem bindWildText_stable (e : BEnv) (w : XmlVar) (a : List (QN × Str)) (n n' : NsMap)
    (h : a.all (fun kv => strStable e n n' kv.2) = true) (params : Params) (text tail : Option Str) :
    bindWildText e w a n params text tail = bindWildText e w a n' params text tail := by
  unfold bindWildText
  simp only [parseAnyAttributes_stable e a n n' h]

/-! ### the nodes the parser creates carry the map they were given, and nothing depends on it -/

theorem buildElementNode_rel (Γ : Ctx) (pns c d nl a n n' df xt xn) :
    buildElementNode Γ pns c d nl a n' df xt xn =
      (buildElementNode Γ pns c d nl a n df xt xn).map (Option.map (Node.withNs n')) := by
  unfold buildElementNode
  cases hf : Γ.fetch c pns xt with
  | error err => rfl
  | ok m =>
    cases xn with
    | none => rfl
    | some b =>
      by_cases hb : (nl || m.nillable) = b
      · simp [bind, Except.bind, hb, pure, Except.pure, Except.map, Node.withNs]
      · simp [bind, Except.bind, hb, pure, Except.pure, Except.map, Node.withNs]

theorem buildElementNode_fits (Γ : Ctx) (pns c d nl a n df xt xn) (node : Node)
    (h : buildElementNode Γ pns c d nl a n df xt xn = .ok (some node)) : nodeFits a n node := by
  unfold buildElementNode at h
  cases hf : Γ.fetch c pns xt with
  | error err => simp [hf, bind, Except.bind] at h
  | ok m =>
    simp only [hf, bind, Except.bind, pure, Except.pure] at h
    split at h
    · split at h
      · cases h
      · cases h; exact ⟨rfl, rfl⟩
    · cases h; exact ⟨rfl, rfl⟩

theorem buildNode_rel (e : BEnv) (Γ : Ctx) (pm : XmlMeta) (q : QN) (var : XmlVar) (a : List (QN × Str)) (n n' : NsMap)
    (hx : xsiTypeOf e a n = xsiTypeOf e a n') :
    buildNode e Γ pm q var a n' = (buildNode e Γ pm q var a n).map (Option.map (Node.withNs n')) := by
  unfold buildNode
  rw [← hx]
  simp only [buildElementNode_rel Γ _ _ _ _ a n n']
  by_cases hu : var.isClazzUnion = true
  · simp [hu, bind, Except.bind, throw, throwThe, MonadExceptOf.throw, Except.map]
  · simp only [hu, Bool.false_eq_true, if_false]
    cases hxt : xsiTypeOf e a n with
    | error err => rfl
    | ok xt =>
      simp only [bind, Except.bind, pure, Except.pure]
      cases hc : var.clazz with
      | some c => rfl
      | none =>
        by_cases hp : (!var.anyType && !var.isWildcard) = true
        · simp [hp, Except.map, Node.withNs]
        · simp only [hp, Bool.false_eq_true, if_false]
          cases hd : (xt.bind fun q => (Γ.datatypes.find? (·.1 = q)).map (·.2)) with
          | some dt =>
            cases dt <;> simp [Except.map, Node.withNs, throw, throwThe, MonadExceptOf.throw]
          | none =>
            simp only []
            cases h1 : xt.bind Γ.findType with
            | some c1 =>
              simp only []
              cases hb1 : buildElementNode Γ pm.namespace c1 var.isWildcard var.nillable a n true xt (xsiNilOf a) with
              | error err => simp [Except.map, hb1]
              | ok r1 =>
                cases r1 with
                | some nd => simp [Except.map, hb1]
                | none =>
                  simp only [Except.map, hb1, Option.map]
                  cases h2 : (if var.processContents ≠ "skip".toList then Γ.findType q else some c1) with
                  | none => simp [Except.map, Node.withNs]
                  | some c =>
                    cases hb : buildElementNode Γ pm.namespace c false var.nillable a n false xt (xsiNilOf a) with
                    | error err => simp [Except.map, hb]
                    | ok r => cases r <;> simp [Except.map, hb, Node.withNs]
            | none =>
              simp only []
              cases h2 : (if var.processContents ≠ "skip".toList then Γ.findType q else none) with
              | none => simp [Except.map, Node.withNs]
              | some c =>
                cases hb : buildElementNode Γ pm.namespace c false var.nillable a n false xt (xsiNilOf a) with
                | error err => simp [Except.map, hb]
                | ok r => cases r <;> simp [Except.map, hb, Node.withNs]

theorem buildNode_fits (e : BEnv) (Γ : Ctx) (pm : XmlMeta) (q : QN) (var : XmlVar) (a : List (QN × Str)) (n : NsMap)
    (node : Node) (h : buildNode e Γ pm q var a n = .ok (some node)) : nodeFits a n node := by
  unfold buildNode at h
  by_cases hu : var.isClazzUnion = true
  · simp [hu, bind, Except.bind, throw, throwThe, MonadExceptOf.throw] at h
  · simp only [hu, Bool.false_eq_true, if_false] at h
    cases hxt : xsiTypeOf e a n with
    | error err => simp [hxt, bind, Except.bind] at h
    | ok xt =>
      simp only [hxt, bind, Except.bind, pure, Except.pure] at h
      cases hc : var.clazz with
      | some c =>
        simp only [hc] at h
        exact buildElementNode_fits Γ _ _ _ _ a n _ _ _ node h
      | none =>
        simp only [hc] at h
        by_cases hp : (!var.anyType && !var.isWildcard) = true
        · simp only [hp, if_true] at h
          cases h; exact rfl
        · simp only [hp, Bool.false_eq_true, if_false] at h
          cases hd : (xt.bind fun q => (Γ.datatypes.find? (·.1 = q)).map (·.2)) with
          | some dt =>
            cases dt with
            | none => simp [hd, throw, throwThe, MonadExceptOf.throw] at h
            | some d => simp [hd] at h; subst h; exact rfl
          | none =>
            simp only [hd] at h
            cases h1 : xt.bind Γ.findType with
            | some c1 =>
              simp only [h1] at h
              cases hb1 : buildElementNode Γ pm.namespace c1 var.isWildcard var.nillable a n true xt (xsiNilOf a) with
              | error err => simp [hb1] at h
              | ok r1 =>
                cases r1 with
                | some nd => simp [hb1] at h; subst h; exact buildElementNode_fits Γ _ _ _ _ a n _ _ _ nd hb1
                | none =>
                  simp only [hb1] at h
                  generalize (if var.processContents ≠ "skip".toList then Γ.findType q else some c1) = c2 at h
                  cases c2 with
                  | none => simp at h; subst h; exact ⟨rfl, rfl⟩
                  | some c =>
                    simp only [] at h
                    cases hb : buildElementNode Γ pm.namespace c false var.nillable a n false xt (xsiNilOf a) with
                    | error err => simp [hb] at h
                    | ok r =>
                      cases r with
                      | none => simp [hb] at h; subst h; exact ⟨rfl, rfl⟩
                      | some nd => simp [hb] at h; subst h; exact buildElementNode_fits Γ _ _ _ _ a n _ _ _ nd hb
            | none =>
              simp only [h1] at h
              generalize (if var.processContents ≠ "skip".toList then Γ.findType q else none) = c2 at h
              cases c2 with
              | none => simp at h; subst h; exact ⟨rfl, rfl⟩
              | some c =>
                simp only [] at h
                cases hb : buildElementNode Γ pm.namespace c false var.nillable a n false xt (xsiNilOf a) with
                | error err => simp [hb] at h
                | ok r =>
                  cases r with
                  | none => simp [hb] at h; subst h; exact ⟨rfl, rfl⟩
                  | some nd => simp [hb] at h; subst h; exact buildElementNode_fits Γ _ _ _ _ a n _ _ _ nd hb

theorem childNode_go_rel (e : BEnv) (Γ : Ctx) (cfg : ParserConfig) (m : XmlMeta) (st : ElState) (q : QN)
    (a : List (QN × Str)) (n n' : NsMap) (w : Option QN) (hx : xsiTypeOf e a n = xsiTypeOf e a n') (vars : List XmlVar) :
    childNode.go e Γ cfg m st q a n' w vars =
      (childNode.go e Γ cfg m st q a n w vars).map (fun p => (Node.withNs n' p.1, p.2)) := by
  induction vars with
  | nil =>
    unfold childNode.go
    by_cases hc : cfg.failOnUnknownProperties = true <;> simp [hc, Except.map, Node.withNs]
  | cons var rest ih =>
    simp only [childNode.go, ih, buildNode_rel e Γ m q var a n n' hx]
    cases hb : buildNode e Γ m q var a n with
    | error err =>
      simp only [Except.map]
      split
      · rfl
      · split <;> split <;> rfl
    | ok r =>
      cases r with
      | none =>
        simp only [Except.map, Option.map]
        split
        · rfl
        · split <;> split <;> rfl
      | some nd =>
        simp only [Except.map, Option.map]
        split
        · rfl
        · split <;> split <;> rfl

theorem childNode_go_fits (e : BEnv) (Γ : Ctx) (cfg : ParserConfig) (m : XmlMeta) (st : ElState)
    (q : QN) (a : List (QN × Str)) (n : NsMap) (w : Option QN)
    (vars : List XmlVar) (node : Node) (st' : ElState)
    (h : childNode.go e Γ cfg m st q a n w vars = .ok (node, st')) : nodeFits a n node := by
  induction vars with
  | nil =>
    unfold childNode.go at h
    split at h
    · cases h
    · cases h; exact True.intro
  | cons var rest ih =>
    simp only [childNode.go] at h
    cases hb : buildNode e Γ m q var a n with
    | error err =>
      simp only [hb] at h
      repeat' split at h
      all_goals first | exact ih h | cases h
    | ok r =>
      cases r with
      | none =>
        simp only [hb] at h
        repeat' split at h
        all_goals exact ih h
      | some nd =>
        have hnd := buildNode_fits e Γ m q var a n nd hb
        simp only [hb] at h
        repeat' split at h
        all_goals first | exact ih h | (cases h; exact hnd)

theorem childNode_rel (e : BEnv) (Γ : Ctx) (cfg : ParserConfig) (m : XmlMeta) (st : ElState) (q : QN)
    (a : List (QN × Str)) (n n' : NsMap) (w : Option QN) (hx : xsiTypeOf e a n = xsiTypeOf e a n') :
    childNode e Γ cfg m st q a n' w =
      (childNode e Γ cfg m st q a n w).map (fun p => (Node.withNs n' p.1, p.2)) := by
  unfold childNode
  exact childNode_go_rel e Γ cfg m st q a n n' w hx _

theorem childNode_fits (e : BEnv) (Γ : Ctx) (cfg : ParserConfig) (m : XmlMeta) (st : ElState) (q : QN)
    (a : List (QN × Str)) (n : NsMap) (w : Option QN) (node : Node) (st' : ElState)
    (h : childNode e Γ cfg m st q a n w = .ok (node, st')) : nodeFits a n node := by
  unfold childNode at h
  exact childNode_go_fits e Γ cfg m st q a n w _ node st' h

theorem nsRelL_isEmpty (e : BEnv) (c c' : List Tree) (h : nsRelL e c c' = true) : c'.isEmpty = c.isEmpty := by
  cases c <;> cases c' <;> simp_all [nsRelL]

/-! ### the parser asks nothing else -/

theorem parseNode_nsRel (e : BEnv) (Γ : Ctx) (cfg : ParserConfig) (node : Node) (t : Tree) :
    ∀ q a n tx c tl q' a' n' tx' c' tl', t = .node q a n tx c tl →
      nsRel e t (.node q' a' n' tx' c' tl') = true → nodeFits a n node →
      parseNode e Γ cfg node t = parseNode e Γ cfg (Node.withNs n' node) (.node q' a' n' tx' c' tl') := by
  refine parseNode.induct
    (motive_1 := fun node t => ∀ q a n tx c tl q' a' n' tx' c' tl', t = .node q a n tx c tl →
      nsRel e t (.node q' a' n' tx' c' tl') = true → nodeFits a n node →
      parseNode e Γ cfg node t = parseNode e Γ cfg (Node.withNs n' node) (.node q' a' n' tx' c' tl'))
    (motive_2 := fun m st w kids => ∀ kids', nsRelL e kids kids' = true →
      parseKids e Γ cfg m st w kids = parseKids e Γ cfg m st w kids')
    (motive_3 := fun var kids => ∀ kids', nsRelL e kids kids' = true →
      parseWild e Γ cfg var kids = parseWild e Γ cfg var kids')
    ?skip ?wrapper ?prim1 ?prim2 ?std1 ?std2 ?wild ?elem ?knil ?kwrap ?kcons ?wnil ?wcons node t
  case skip => intros; simp [parseNode, Node.withNs]
  case wrapper => intros; simp [parseNode, Node.withNs]
  case prim1 =>
    intro q a n t c tl pm var ns nil hc q0 a0 n0 t0 c0 tl0 q' a' n' t' c' tl' heq hr _
    cases heq
    simp only [nsRel, Bool.and_eq_true, decide_eq_true_eq] at hr
    have he := nsRelL_isEmpty e _ _ hr.2
    simp only [parseNode, Node.withNs, he, hc, if_true]
  case prim2 =>
    intro q a n t c tl pm var ns nil hc q0 a0 n0 t0 c0 tl0 q' a' n' t' c' tl' heq hr hf
    cases heq
    simp only [nsRel, Bool.and_eq_true, decide_eq_true_eq] at hr
    obtain ⟨⟨⟨⟨⟨hq, ha⟩, ht⟩, htl⟩, hv⟩, hk⟩ := hr
    subst hq ha ht htl
    have he := nsRelL_isEmpty e _ _ hk
    have hns : ns = n := hf
    subst hns
    simp only [valuesStable, Bool.and_eq_true] at hv
    have hp := parseVar_stable e cfg var.toVarCore t ns n' none hv.2
    simp only [parseNode, Node.withNs, he, hc, hp]
  case std1 =>
    intro q a n t c tl var dt ns nl d mx hc q0 a0 n0 t0 c0 tl0 q' a' n' t' c' tl' heq hr _
    cases heq
    simp only [nsRel, Bool.and_eq_true, decide_eq_true_eq] at hr
    have he := nsRelL_isEmpty e _ _ hr.2
    simp only [parseNode, Node.withNs, he, hc, if_true]
  case std2 =>
    intro q a n t c tl var dt ns nl d mx hc q0 a0 n0 t0 c0 tl0 q' a' n' t' c' tl' heq hr hf
    cases heq
    simp only [nsRel, Bool.and_eq_true, decide_eq_true_eq] at hr
    obtain ⟨⟨⟨⟨⟨hq, ha⟩, ht⟩, htl⟩, hv⟩, hk⟩ := hr
    subst hq ha ht htl
    have he := nsRelL_isEmpty e _ _ hk
    have hns : ns = n := hf
    subst hns
    simp only [valuesStable, Bool.and_eq_true] at hv
    have hp := parseVar_stable e cfg var.toVarCore t ns n' (some [.prim dt]) hv.2
    simp only [parseNode, Node.withNs, he, hc, hp]
  case wild =>
    intro q a n t c tl var ats ns ih q0 a0 n0 t0 c0 tl0 q' a' n' t' c' tl' heq hr hf
    cases heq
    simp only [nsRel, Bool.and_eq_true, decide_eq_true_eq] at hr
    obtain ⟨⟨⟨⟨⟨hq, ha⟩, ht⟩, htl⟩, hv⟩, hk⟩ := hr
    subst hq ha ht htl
    obtain ⟨hfa, hfn⟩ : ats = a ∧ ns = n := hf
    subst hfa hfn
    simp only [valuesStable, Bool.and_eq_true] at hv
    simp only [parseNode, Node.withNs, ih _ hk, parseAnyAttributes_stable e ats ns n' hv.1]
  case elem =>
    intro q a n t c tl m ats ns d xt xn ih q0 a0 n0 t0 c0 tl0 q' a' n' t' c' tl' heq hr hf
    cases heq
    simp only [nsRel, Bool.and_eq_true, decide_eq_true_eq] at hr
    obtain ⟨⟨⟨⟨⟨hq, ha⟩, ht⟩, htl⟩, hv⟩, hk⟩ := hr
    subst hq ha ht htl
    obtain ⟨hfa, hfn⟩ : ats = a ∧ ns = n := hf
    subst hfa hfn
    simp only [valuesStable, Bool.and_eq_true] at hv
    simp only [parseNode, Node.withNs, ih _ hk, bindAttrs_stable e cfg m ats ns n' hv.1,
      fun params => bindText_stable e cfg m xn ns n' params t hv.2,
      fun w params tail => bindWildText_stable e w ats ns n' hv.1 params t tail]
  case knil =>
    intro m st w kids' h
    cases kids' with
    | nil => rfl
    | cons k ks => simp [nsRelL] at h
  case kwrap =>
    intro m st w q a n t c tl rest hcond ih1 ih2 kids' h
    cases kids' with
    | nil => simp [nsRelL] at h
    | cons k ks =>
      obtain ⟨q', a', n', t', c', tl'⟩ := k
      simp only [nsRelL, nsRel, Bool.and_eq_true, decide_eq_true_eq] at h
      obtain ⟨⟨⟨⟨⟨⟨hq, ha⟩, ht⟩, htl⟩, hv⟩, hk⟩, hrest⟩ := h
      subst hq ha ht htl
      simp only [parseKids, hcond, if_true, ih1 _ hk, fun st' => ih2 st' _ hrest]
  case kcons =>
    intro m st w q a n t c tl rest hcond ih1 ih2 kids' h
    cases kids' with
    | nil => simp [nsRelL] at h
    | cons k ks =>
      obtain ⟨q', a', n', t', c', tl'⟩ := k
      have h0 := h
      simp only [nsRelL, Bool.and_eq_true] at h0
      obtain ⟨hhead, hrest⟩ := h0
      have hh := hhead
      simp only [nsRel, Bool.and_eq_true, decide_eq_true_eq] at hh
      obtain ⟨⟨⟨⟨⟨hq, ha⟩, ht⟩, htl⟩, hv⟩, hk⟩ := hh
      subst hq ha ht htl
      simp only [valuesStable, Bool.and_eq_true] at hv
      have hx := xsiTypeOf_stable e a n n' hv.1
      simp only [parseKids, hcond, Bool.false_eq_true, if_false,
        childNode_rel e Γ cfg m st q a n n' w hx, fun st' => ih2 st' _ hrest]
      cases hch : childNode e Γ cfg m st q a n w with
      | error err => rfl
      | ok p =>
        obtain ⟨nd, st'⟩ := p
        have hfit := childNode_fits e Γ cfg m st q a n w nd st' hch
        have := ih1 nd q a n t c tl q a n' t c' tl rfl hhead hfit
        simp only [Except.map, bind, Except.bind, this]
  case wnil =>
    intro var kids' h
    cases kids' with
    | nil => rfl
    | cons k ks => simp [nsRelL] at h
  case wcons =>
    intro var q a n t c tl rest ih1 ih2 kids' h
    cases kids' with
    | nil => simp [nsRelL] at h
    | cons k ks =>
      obtain ⟨q', a', n', t', c', tl'⟩ := k
      have h0 := h
      simp only [nsRelL, Bool.and_eq_true] at h0
      obtain ⟨hhead, hrest⟩ := h0
      have hh := hhead
      simp only [nsRel, Bool.and_eq_true, decide_eq_true_eq] at hh
      obtain ⟨⟨⟨⟨⟨hq, ha⟩, ht⟩, htl⟩, hv⟩, hk⟩ := hh
      subst hq ha ht htl
      have := ih1 q a n t c tl q a n' t c' tl rfl hhead ⟨rfl, rfl⟩
      simp only [Node.withNs] at this
      simp only [parseWild, this, ih2 _ hrest]

theorem parseRoot_nsRel (e : BEnv) (Γ : Ctx) (cfg : ParserConfig) (c : ClassId) (t t' : Tree)
    (h : nsRel e t t' = true) : parseRoot e Γ cfg c t = parseRoot e Γ cfg c t' := by
  obtain ⟨q, a, n, tx, ch, tl⟩ := t
  obtain ⟨q', a', n', tx', ch', tl'⟩ := t'
  have hh := h
  simp only [nsRel, Bool.and_eq_true, decide_eq_true_eq] at hh
  obtain ⟨⟨⟨⟨⟨hq, ha⟩, ht⟩, htl⟩, hv⟩, hk⟩ := hh
  subst hq ha ht htl
  simp only [valuesStable, Bool.and_eq_true] at hv
  simp only [parseRoot, ← xsiTypeOf_stable e a n n' hv.1, bind, Except.bind]
  cases hx : xsiTypeOf e a n with
  | error err => rfl
  | ok xt =>
    simp only []
    cases hf : Γ.fetch c none xt with
    | error err => rfl
    | ok m =>
      have := parseNode_nsRel e Γ cfg
        (.element m a n (!(xt.isNone || m.qname = q)) (if (!(xt.isNone || m.qname = q)) = true then xt else none) (xsiNilOf a))
        (.node q a n tx ch tl) q a n tx ch tl q a n' tx ch' tl rfl h ⟨rfl, rfl⟩
      simp only [Node.withNs] at this
      simp only [this]

/-! ### sufficient conditions -/

/-- `QNameConverter.resolve` and `parse_any_attribute` use the prefix map as a lookup function only -/
theorem resolveQName_get_congr (e : BEnv) (v : Str) (n n' : NsMap) (h : ∀ p, n.get p = n'.get p) :
    resolveQName e v n = resolveQName e v n' := by
  unfold resolveQName
  simp only [h]

theorem parseAnyAttribute_get_congr (v : Str) (n n' : NsMap) (h : ∀ p, n.get p = n'.get p) :
    parseAnyAttribute v n = parseAnyAttribute v n' := by
  unfold parseAnyAttribute
  simp only [h]

theorem strStable_of_get (e : BEnv) (n n' : NsMap) (h : ∀ p, n.get p = n'.get p) (v : Str) :
    strStable e n n' v = true := by
  simp only [strStable, Bool.and_eq_true, decide_eq_true_eq, List.all_eq_true]
  exact ⟨⟨resolveQName_get_congr e v n n' h, fun t _ => resolveQName_get_congr e t n n' h⟩,
    parseAnyAttribute_get_congr v n n' h⟩

/-- a value without a colon asks for the default namespace only (and as a wildcard attribute value for nothing) -/
theorem parseAnyAttribute_nocolon (v : Str) (n : NsMap) (h : v.contains ':' = false) : parseAnyAttribute v n = v := by
  unfold parseAnyAttribute
  rw [textSplit_nocolon v h]

mutual
/-- the same tree with every prefix map passed through `f` -/
def mapNs (f : NsMap → NsMap) : Tree → Tree
  | .node q a n t c tl => .node q a (f n) t (mapNsL f c) tl
def mapNsL (f : NsMap → NsMap) : List Tree → List Tree
  | [] => []
  | t :: ts => mapNs f t :: mapNsL f ts
end

mutual
theorem nsRel_mapNs (e : BEnv) (f : NsMap → NsMap) (hf : ∀ n p, (f n).get p = n.get p) (t : Tree) :
    nsRel e t (mapNs f t) = true := by
  match t with
  | .node q a n tx c tl =>
    simp only [mapNs, nsRel, decide_true, Bool.true_and, nsRelL_mapNs e f hf c, Bool.and_true, valuesStable,
      Bool.and_eq_true, List.all_eq_true]
    refine ⟨fun kv _ => strStable_of_get e _ _ (fun p => (hf n p).symm) kv.2, ?_⟩
    cases tx with
    | none => rfl
    | some s => exact strStable_of_get e _ _ (fun p => (hf n p).symm) s
theorem nsRelL_mapNs (e : BEnv) (f : NsMap → NsMap) (hf : ∀ n p, (f n).get p = n.get p) (ts : List Tree) :
    nsRelL e ts (mapNsL f ts) = true := by
  match ts with
  | [] => rfl
  | t :: ts' => simp only [mapNsL, nsRelL, nsRel_mapNs e f hf t, nsRelL_mapNs e f hf ts', Bool.and_self]
end

end Proofs.C09
