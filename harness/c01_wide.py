"""C01, fragments F2… (Bind/FN.lean): the Python side of the hypotheses `ctxOK` / `valOK`
(an independent description of the excluded regions), generators that also visit those
regions, and replays of the findings of these fragments."""
import copy
import json

import bindgen as G
import bindlib as B

WIDE_FEATURES = {"attr", "elem", "child", "list", "text", "ns", "nillable", "tokens", "wrapper", "sequence", "attributes", "fixed", "inherit", "wildcard", "punion", "qelem"}
FEAT = {"nillable": True, "tokens": True, "wrapper": True, "sequence": True, "fixed": True, "anyAttrs": True, "inherit": True, "wildcard": True, "union": True, "qname": True}
XSI = "http://www.w3.org/2001/XMLSchema-instance"

TYPING = ("out-of-claim: None inside a list that is not nillable", "out-of-claim: None where the default is not None")
TOKEN_NONE = "out-of-claim: None among the tokens of a token list (typing)"
TOKEN = "out-of-claim: empty token or token with white space (xs:list)"
NIL_CLASS = "out-of-claim: None under a nillable var of a nillable class (same document as an empty object)"
EMPTY_TEXT = "out-of-claim: empty text vs None"
FIXED = "out-of-claim: init=False field that differs from its default (not an __init__ parameter)"
MAP_KEY_NS = "out-of-claim: key of an Attributes map outside the namespaces of the var (typing)"
MAP_KEY_XSI = "out-of-claim: key of an Attributes map in the xsi namespace (xsi:type / xsi:nil are control attributes)"
NOT_INSTANCE = "out-of-claim: the object is not an instance of the declared class of the field (typing)"
TYPE_LOOKUP = "out-of-claim: xsi:type does not lead XmlContext.find_subclass from the declared class back to the class of the object"
TYPE_NAME = "out-of-claim: class name that is not an NCName"
WILD_ITEM = "out-of-claim: item of a list wildcard that is not an AnyElement with a name"
WILD_NAME = "out-of-claim: generic element named like a declared element or wrapper of the class (it is that field's element)"
WILD_NS = "out-of-claim: generic element outside the namespaces of the wildcard (typing)"
WILD_XSI = "out-of-claim: xsi:type / xsi:nil among the attributes of a generic element (control attributes)"
GENERIC_FORM = ("out-of-claim: generic element not in the form the parser builds (text None, a tail, white-space text next to "
                "children): C11")
GENERIC_ATTR = "out-of-claim: attribute value of a generic element that looks like prefix:rest or is the Clark name of a datatype (C11)"
MAP_VALUE_DT = "out-of-claim (model): value of an Attributes map that is the Clark name of a datatype (needs the writer's prefixes)"


def _uri(qname):
    return qname[1:].split("}", 1)[0] if qname.startswith("{") else None


def _admits(namespaces, qname):
    """XmlVar.match_namespace, re-stated"""
    uri = _uri(qname)
    if not namespaces and uri is None:
        return True
    for check in namespaces:
        if (not check and uri is None) or check == uri or check == "##any":
            return True
        if check and check[0] == "!" and check[1:] != uri:
            return True
    return False


def _prefix_like(v):
    left, sep, right = v.partition(":")
    return bool(sep) and bool(right) and bool(left) and not right.startswith("//")


def _ftype(f):
    md = f.get("metadata", {})
    return md.get("type") or "Text"


def _is_list(t):
    return isinstance(t, dict) and "list" in t


QNAME_NOT_ELEMENT = "out-of-claim: QName-typed attribute or text var (not in the fragments)"
QNAME_LOCAL = "out-of-claim: QName whose local part is not an NCName (not representable as prefix:local)"
_NCNAME = __import__("re").compile(r"^[^\W\d][\w.\-]*\Z", __import__("re").ASCII)  # (the driver evaluates NCName on ASCII)
UNION_NOT_ELEMENT = "out-of-claim: union-typed attribute or text var (not in the fragments)"
UNION_EARLIER = "C01-union-value-reads-as-earlier-type"


def union_reads_back(types, y):
    """`converter.deserialize(serialize(y), types)`, re-stated: the first member type (in the order of
    `var.types`) that accepts the text"""
    if "str" in y:
        text = y["str"]
    elif "bool" in y:
        text = "true" if y["bool"] else "false"
    else:
        text = str(y["int"])
    if text == "":
        return {"str": ""}   # the empty element has no text: `""` whatever the types
    for t in types:
        t = t["prim"] if isinstance(t, dict) else t
        if t == "str":
            return {"str": text}
        if t == "int":
            try:
                return {"int": int(text)}
            except ValueError:
                continue
        if t == "bool":
            v = text.strip()
            if v in ("true", "1"):
                return {"bool": True}
            if v in ("false", "0"):
                return {"bool": False}
    return None


SUBCLASS_OFF = "out-of-claim: instance of a proper subclass (fragments without inheritance)"


def regions(desc, value, ctx=None, inherit=True):
    """known findings / out-of-claim regions an instance of a WIDE_FEATURES universe falls under
    (`ctx`: the exported metadata, needed for the qualified names an `Attributes` map may hold)"""
    by = {c["name"]: c for c in desc["classes"]}
    metas = {ci["id"]: [m for _, m in ci["metas"]] for ci in (ctx or {"classes": []})["classes"]}
    infos = {ci["id"]: ci for ci in (ctx or {"classes": []})["classes"]}
    out = []

    def meta_for(cname, pns):
        """`ClassInfo.metaFor`: the metadata built under parent namespace `pns`, else the first one"""
        ms = infos[cname]["metas"]
        for k, m in ms:
            if k == pns:
                return m
        return ms[0][1]

    def find_subclass(c, t):
        """`XmlContext.find_subclass`, re-stated on the exported index"""
        if any(q == t for q, _ in ctx["datatypes"]):
            return None
        cmro = infos[c]["mro"]
        for q, types in ctx["xsi_index"]:
            if q == t:
                for tp in types:
                    if tp in cmro:
                        continue
                    if any(x in cmro for x in infos[tp]["mro"]):
                        return tp
                return None
        return None

    def derived(c, cls, var, pns):
        """regions of an instance of `cls` under a var of declared class `c` (`cls != c`)"""
        if c not in infos[cls]["mro"]:
            out.append(NOT_INSTANCE)
            return
        t = meta_for(cls, pns)["target_qname"]
        local = t.split("}", 1)[1] if t.startswith("{") else t
        if not local or any(ch.isspace() or ch == ":" for ch in local) or local.startswith("{"):
            out.append(TYPE_NAME)
        _ = var  # (xsi:type is written even when the element is named like the subclass: repair c01g-02)
        mc = meta_for(c, pns)
        found = find_subclass(c, t) if mc["target_qname"] != t else None
        if found != cls:
            out.append(TYPE_LOOKUP)

    def map_check(cname, entries):
        from xsdata.models.enums import DataType

        for k, v in entries:
            for m in metas.get(cname, []):
                if not all(_admits(av["namespaces"], k) for av in m["any_attributes"]):
                    out.append(MAP_KEY_NS)
                if any(q == k for q, _ in m["attributes"]):
                    out.append("C01-attributes-key-declared")
            if _uri(k) == XSI:
                out.append(MAP_KEY_XSI)
            if _prefix_like(v):
                out.append("C01-attributes-value-prefix-rewritten")
            if v.startswith("{") and DataType.from_qname(v):
                out.append(MAP_VALUE_DT)

    def generic_form(a):
        """`canonAny` of Bind/FN.lean"""
        from xsdata.models.enums import DataType

        if not a["qname"] or a["text"] is None or a["tail"] is not None:
            out.append(GENERIC_FORM)
            return
        if a["children"] and a["text"] and not a["text"].strip():
            out.append(GENERIC_FORM)
        for k, v in a["attrs"]:
            if _prefix_like(v) or (v.startswith("{") and (k == "{%s}type" % XSI or DataType.from_qname(v))):
                out.append(GENERIC_ATTR)
        for c in a["children"]:
            if not (isinstance(c, dict) and "any" in c):
                out.append(GENERIC_FORM)
            else:
                generic_form(c["any"])

    def wild_check(meta, f, x):
        """`wildItemOK` of Bind/FN.lean: the items of the wildcard of a class (a list, or one generic
        element / None)"""
        wv = next((w for w in (meta or {"wildcards": []})["wildcards"] if w["name"] == f["name"]), None)
        if wv is None:
            return
        if wv["list_element"]:
            if not (isinstance(x, dict) and "list" in x):
                out.append(WILD_ITEM)
                return
            items = x["list"]
        elif x is None:
            if f.get("default", {}).get("value", "<required>") is not None:
                out.append(TYPING[1])
            return
        else:
            items = [x]
        declared = {q for q, _ in meta["elements"]} | {k for k, _ in meta["wrappers"]}
        for y in items:
            if not (isinstance(y, dict) and "any" in y and y["any"]["qname"]):
                out.append(WILD_ITEM)
                continue
            a = y["any"]
            q = a["qname"]
            if q in declared:
                out.append(WILD_NAME)
            if not _admits(wv["namespaces"], q):
                out.append(WILD_NS)
            if wv["process_contents"] != "skip" and not any(t == q for t, _ in ctx["datatypes"]) and \
                    any(t == q and types for t, types in ctx["xsi_index"]):
                out.append("C01-wildcard-item-named-as-class")
            if any(k in ("{%s}type" % XSI, "{%s}nil" % XSI) for k, _ in a["attrs"]):
                out.append(WILD_XSI)
            generic_form(a)

    def cls_nillable(name):
        if name in metas:
            return bool(metas[name][0]["nillable"])
        return bool((by[name].get("meta") or {}).get("nillable"))

    def emits_child(f, x):
        md = f.get("metadata", {})
        if x is None:
            return bool(md.get("nillable"))
        if isinstance(x, dict) and "list" in x:
            return bool(x["list"]) or bool(md.get("tokens") and md.get("nillable"))  # an empty wrapper element is not counted
        return True

    def all_fields(name):
        c = by[name]
        fs = []
        for b in c.get("bases", []):
            fs += all_fields(b)
        return fs + c["fields"]

    def has_map(name):
        return any(_ftype(f) == "Attributes" for f in all_fields(name))

    def has_content(c, v):
        fs = all_fields(v["obj"])
        # a class with a text var: only its character data counts (child elements next to a text var
        # are outside every fragment, `ctx_expected`)
        simple = any(_ftype(f) == "Text" for f in fs)
        for (_, x), f in zip(v["fields"], fs):
            typ = _ftype(f)
            if typ == "Text":
                if x is not None and not (isinstance(x, dict) and "list" in x and not x["list"]):
                    return True
            elif typ in ("Element", "Wildcard") and not simple and emits_child(f, x):
                return True
        return False

    def tok_check(items):
        for y in items:
            if y is None:
                out.append(TOKEN_NONE)
            if isinstance(y, dict) and "str" in y and (y["str"] == "" or any(ch.isspace() for ch in y["str"])):
                out.append(TOKEN)

    def walk(v, nl, pns=None, typed=False):
        c = by[v["obj"]]
        cn = cls_nillable(v["obj"])
        meta = meta_for(v["obj"], pns) if ctx else None
        child_pns = _uri(meta["qname"]) if meta else None
        _ = typed  # (an Attributes map no longer captures xsi:type: repair c01g-07)
        _ = nl  # (the element of an object under a nillable field is not xsi:nil any more: repair c01g-03)
        for (_, x), f in zip(v["fields"], all_fields(v["obj"])):
            md = f.get("metadata", {})
            typ = _ftype(f)
            dflt = f.get("default", {}).get("value", "<factory>") if "default" in f else "<required>"
            tokens, nillable = bool(md.get("tokens")), bool(md.get("nillable"))
            t = f["type"]
            base = G._base(t)
            is_cls = isinstance(base, dict) and "cls" in base

            is_union = isinstance(base, dict) and "union" in base and all(isinstance(m_, str) for m_ in base["union"])

            def item(y, in_list):
                if base == "qname" and isinstance(y, dict) and "qname" in y:
                    local = y["qname"].split("}", 1)[1] if y["qname"].startswith("{") else y["qname"]
                    if not _NCNAME.match(local):
                        out.append(QNAME_LOCAL)
                    return
                if is_union and isinstance(y, dict) and any(k in y for k in ("str", "int", "bool")):
                    var = next(w for _, vs in meta["elements"] for w in vs if w["name"] == f["name"])
                    if union_reads_back(var["types"], y) != y:
                        out.append(UNION_EARLIER)
                    return
                if y is None:
                    if in_list and not nillable:
                        out.append(TYPING[0])
                    elif not in_list and not nillable and dflt is not None:
                        out.append(TYPING[1])
                    elif nillable and is_cls and cls_nillable(base["cls"]):
                        out.append(NIL_CLASS)
                elif isinstance(y, dict) and "obj" in y:
                    sub = is_cls and y["obj"] != base["cls"]
                    if sub and not inherit:
                        out.append(SUBCLASS_OFF)
                    if sub:
                        var = next(w for _, vs in meta["elements"] for w in vs if w["name"] == f["name"])
                        derived(base["cls"], y["obj"], var, child_pns)
                    walk(y, nillable, child_pns, sub)
                elif isinstance(y, dict) and "str" in y and y["str"] == "":
                    # (under a nillable field `<a/>` without xsi:nil is "" now: repair c01g-06)
                    if not in_list and dflt not in (None, "", "<required>"):
                        out.append("C01-empty-str-element-default")

            if typ in ("Attribute", "Text") and base == "qname":
                out.append(QNAME_NOT_ELEMENT)
                continue
            if typ in ("Attribute", "Text") and isinstance(base, dict) and "union" in base:
                out.append(UNION_NOT_ELEMENT)
                continue
            if f.get("init") is False and x != G_val(dflt):
                out.append(FIXED)
            if typ == "Wildcard":
                wild_check(meta, f, x)
            elif typ == "Attributes":
                map_check(v["obj"], x["attrs"])
            elif typ == "Attribute":
                if tokens:
                    tok_check(x["list"])
                elif x is None:
                    if dflt is not None:
                        out.append(TYPING[1])
                elif "str" in x and x["str"].startswith("{"):
                    from xsdata.models.enums import DataType

                    if DataType.from_qname(x["str"]):
                        out.append("C01-attr-datatype-clark-name")
            elif typ == "Text":
                if tokens:
                    tok_check(x["list"])  # (an empty token text of an xsi:nil element stays []: repair c01g-08)
                elif x is None:
                    if not cn and dflt is not None:  # (only a nillable class: repair c01g-03)
                        out.append(TYPING[1])
                elif "str" in x and x["str"] == "" and dflt != "":
                    out.append(EMPTY_TEXT)
            else:
                if tokens:
                    lists = x["list"] if _is_list(t) and _is_list(t["list"]) else [x]
                    for l in lists:
                        tok_check(l["list"])
                elif _is_list(t):
                    for y in x["list"]:
                        item(y, True)
                else:
                    item(x, False)

    walk(value, False)
    return out


def G_val(d):
    """the `Val` of a primitive default"""
    if isinstance(d, bool):
        return {"bool": d}
    if isinstance(d, int):
        return {"int": d}
    if isinstance(d, str):
        return {"str": d}
    return None


def _seq_ok(vs):
    """`seqOK` of Bind/FN.lean: no token-list var and no wrapped var is rolled with a sequence group
    (the group reaches from its first to its last member, vars in between are rolled along)"""
    vs = sorted(vs, key=lambda v: v["index"])
    i = 0
    while i < len(vs):
        sq = vs[i]["sequence"]
        if sq is None:
            i += 1
            continue
        last = max(j for j in range(i, len(vs)) if vs[j]["sequence"] == sq)
        if any(v["tokens"] or v["wrapper_qname"] for v in vs[i:last + 1]):
            return False
        i = last + 1
    return True


def ctx_expected(ctx, ns_agree, feat=None):
    """`ctxOK feat` (default: all features, `FEAT`) on exported universes of WIDE_FEATURES: every
    feature the universe uses is switched on; no class with a text var and child elements; no
    token-list or wrapped var inside a sequence group (`seqOK`); the wildcard (list or single) is not mixed and is found under its own name"""
    feat = FEAT if feat is None else feat
    on = lambda k: bool(feat.get(k))  # noqa: E731
    for ci in ctx["classes"]:
        for _, m in ci["metas"]:
            vs = [v for _, vv in m["elements"] for v in vv]
            if (m["nillable"] and not on("nillable")) or (m["wildcards"] and not on("wildcard")) \
                    or (m["any_attributes"] and not on("anyAttrs")):
                return False
            for v in vs + [w for _, w in m["attributes"]] + ([m["text"]] if m["text"] else []):
                if (not v["init"] and not on("fixed")) or (v["sequence"] is not None and not on("sequence")) \
                        or (v["nillable"] and not on("nillable")) or (v["tokens"] and not on("tokens")) \
                        or (v["wrapper_qname"] and not on("wrapper")):
                    return False
            if any(len(w["types"]) > 1 for _, w in m["attributes"]) or (m["text"] and len(m["text"]["types"]) > 1):
                return False  # a union-typed attribute or text var: not in the fragments
            # QName-typed vars: element vars only, Optional with default None or a list
            isq = lambda v: v["types"] == [{"prim": "qname"}]  # noqa: E731
            if any(isq(w) for _, w in m["attributes"]) or (m["text"] and isq(m["text"])):
                return False
            for v in vs:
                if isq(v) and not (on("qname") and v["init"] and not v["tokens"] and not v["nillable"]
                                   and v["default"] == ("list" if v["list_element"] else None)):
                    return False
            # a union of primitives: an element var, Optional with default None or a list
            for v in vs:
                if len(v["types"]) > 1 and not (on("union") and v["init"] and not v["tokens"] and not v["nillable"]
                                                and v["default"] == ("list" if v["list_element"] else None)):
                    return False
            if m["text"] and (vs or m["wildcards"]):
                return False  # a subclass adds child elements to a class with a text var (not in the fragments)
            if not _seq_ok(vs):
                return False
            # `wildVarOK`: at most one wildcard, not mixed, that `find_children` finds under its own name
            if len(m["wildcards"]) > 1:
                return False
            for w in m["wildcards"]:
                names = {q for q, _ in m["elements"]} | {k for k, _ in m["wrappers"]}
                if w["mixed"] or w["qname"] in names or not _admits(w["namespaces"], w["qname"]):
                    return False
    return True  # (no condition on the namespaces any more: repair c01g-01)


def spoil(rng, value):
    """visit the excluded regions: empty / blank strings, empty objects, None items"""
    v = copy.deepcopy(value)
    leaves = []

    def walk(x):
        if isinstance(x, dict):
            if "obj" in x:
                for kv in x["fields"]:
                    if isinstance(kv[1], dict) and "str" in kv[1]:
                        leaves.append(kv[1])
                    walk(kv[1])
            elif "list" in x:
                for y in x["list"]:
                    if isinstance(y, dict) and "str" in y:
                        leaves.append(y)
                    walk(y)

    maps = []

    def find_maps(x):
        if isinstance(x, dict):
            if "obj" in x:
                for kv in x["fields"]:
                    if isinstance(kv[1], dict) and "attrs" in kv[1]:
                        maps.append((x, kv[1]))
                    find_maps(kv[1])
            elif "list" in x:
                for y in x["list"]:
                    find_maps(y)

    wilds = []

    def find_wilds(x):
        if isinstance(x, dict):
            if "obj" in x:
                classes.add(x["obj"])
                for kv in x["fields"]:
                    if isinstance(kv[1], dict) and "list" in kv[1] and any(isinstance(y, dict) and "any" in y for y in kv[1]["list"]):
                        wilds.append((x, kv[1]))
                    find_wilds(kv[1])
            elif "list" in x:
                for y in x["list"]:
                    find_wilds(y)

    classes = set()
    walk(v)
    find_maps(v)
    find_wilds(v)
    for o, w in wilds:
        for y in w["list"]:
            if not (isinstance(y, dict) and "any" in y):
                continue
            a = y["any"]
            r = rng.random()
            if r < 0.2:
                # named like a field of the object (a declared element), like a class, or in another namespace
                a["qname"] = rng.choice([kv[0] for kv in o["fields"]] + sorted(classes) + ["{urn:zz}w1", "Leaf", "Root"])
            elif r < 0.3:
                a["attrs"].append([rng.choice(["{%s}nil" % XSI, "{%s}type" % XSI]), rng.choice(["true", "x"])])
            elif r < 0.45:
                a["text"] = rng.choice([None, " ", ""])
            elif r < 0.5:
                a["tail"] = rng.choice(["tl", " "])
        if rng.random() < 0.1:
            w["list"].append(rng.choice([None, {"str": "loose"}]))
    # `None` among the items of a list / in place of a primitive (typing regions)
    def nones(x):
        if isinstance(x, dict):
            if "obj" in x:
                for kv in x["fields"]:
                    if isinstance(kv[1], dict) and any(k in kv[1] for k in ("str", "int", "bool")) and rng.random() < 0.04:
                        kv[1] = None
                    else:
                        nones(kv[1])
            elif "list" in x:
                if x["list"] and all(isinstance(y, dict) and any(k in y for k in ("str", "int", "bool")) for y in x["list"]) \
                        and rng.random() < 0.1:
                    x["list"].insert(rng.randrange(len(x["list"]) + 1), None)
                for y in x["list"]:
                    nones(y)

    def qnames(x):
        if isinstance(x, dict):
            if "qname" in x and isinstance(x["qname"], str):
                if rng.random() < 0.15:
                    x["qname"] = rng.choice(["{urn:a}n 1", "a:b", "{urn:q}1x", "{urn:a}-x"])  # (ASCII only: the driver evaluates NCName on ASCII)
            else:
                for y in (x.get("fields") and [kv[1] for kv in x["fields"]]) or x.get("list") or []:
                    qnames(y)

    qnames(v)
    nones(v)
    for leaf in leaves:
        if rng.random() < 0.25:
            leaf["str"] = rng.choice(["", "", " ", "a b", "\tq"])
    for o, m in maps:
        if rng.random() < 0.4:
            # keys named like the other fields of the object (declared attributes), control attributes,
            # values that look like prefixed names
            k = rng.choice([kv[0] for kv in o["fields"]] + ["{%s}nil" % XSI, "{%s}type" % XSI, "{urn:o}q", "w"])
            val = rng.choice(["ns0:bar", "xs:int", "p:", ":x", "http://h", "{http://www.w3.org/2001/XMLSchema}int", "true",
                              " pad ", "  "])
            if all(kv[0] != k for kv in m["attrs"]):
                m["attrs"].append([k, val])
    return v


def normal_generic(value):
    """push the generic elements of an instance into the form the parser builds (the fragment F8):
    text "" for None, no tails, no white-space-only text next to children, plain attribute values"""
    v = copy.deepcopy(value)

    def fix(a):
        a["text"] = a["text"] or ""
        a["tail"] = None
        if a["children"] and not a["text"].strip():
            a["text"] = ""
        a["attrs"] = [[k, x.replace(":", "-")] for k, x in a["attrs"]]
        a["children"] = [c for c in a["children"] if isinstance(c, dict) and "any" in c]
        for c in a["children"]:
            fix(c["any"])

    def walk(x):
        if isinstance(x, dict):
            if "any" in x:
                fix(x["any"])
            elif "obj" in x:
                for kv in x["fields"]:
                    walk(kv[1])
            elif "list" in x:
                for y in x["list"]:
                    walk(y)

    walk(v)
    return v


# the feature sets of the theorems bind_generate_F2 … F8 (Props/C01Wide.lean)
_ORDER = ["nillable", "tokens", "wrapper", "sequence", "fixed", "anyAttrs", "inherit", "wildcard", "union", "qname"]
FRAGMENTS = {
    "F2": {"nillable": True},
    "F3": {"nillable": True, "tokens": True},
    "F4": {"nillable": True, "tokens": True, "wrapper": True},
    "F5": {"nillable": True, "tokens": True, "wrapper": True, "sequence": True},
    "F6": {"nillable": True, "tokens": True, "wrapper": True, "sequence": True, "fixed": True, "anyAttrs": True},
    "F7": {"nillable": True, "tokens": True, "wrapper": True, "sequence": True, "fixed": True, "anyAttrs": True, "inherit": True},
    "F8": {k: True for k in FEAT if k not in ("union", "qname")},
    "F9": {k: True for k in FEAT if k != "qname"},
    "F10": dict(FEAT),
}


def pick_feat(rng):
    """a fragment of the theorems, the empty feature set, or any subset (`bind_generate_FN`)"""
    r = rng.random()
    if r < 0.6:
        name = rng.choice(sorted(FRAGMENTS))
        return name, dict(FRAGMENTS[name])
    if r < 0.7:
        return "F1'", {}
    return "FN", {k: True for k in _ORDER if rng.random() < 0.6}


def features_for(rng, feat):
    """generator features that mostly stay inside `feat` (and sometimes do not)"""
    need = {"nillable": "nillable", "tokens": "tokens", "wrapper": "wrapper", "sequence": "sequence", "attributes": "anyAttrs",
            "fixed": "fixed", "inherit": "inherit", "wildcard": "wildcard", "punion": "union", "qelem": "qname"}
    return {f for f in WIDE_FEATURES if f not in need or feat.get(need[f]) or rng.random() < 0.06}


CORPUS = []


def _case(desc, value):
    CORPUS.append((desc, value))
    return desc, value


def _f(_name, tp, default="REQ", **md):
    f = {"name": _name, "type": tp, "metadata": md}
    if default != "REQ":
        f["default"] = default
    return f


NONE, LIST = {"value": None}, {"factory": "list"}
_leaf = {"name": "Leaf", "fields": [_f("z", {"opt": "str"}, NONE, type="Element")]}

EMPTY_OBJECT = _case(
    {"classes": [_leaf, {"name": "Root", "fields": [_f("c", {"opt": {"cls": "Leaf"}}, NONE, type="Element", nillable=True)]}]},
    {"obj": "Root", "fields": [["c", {"obj": "Leaf", "fields": [["z", None]]}]]},
)
EMPTY_STR = _case(
    {"classes": [{"name": "Root", "fields": [_f("a", {"opt": "str"}, NONE, type="Element", nillable=True)]}]},
    {"obj": "Root", "fields": [["a", {"str": ""}]]},
)
TOKEN_LISTS = _case(
    {"classes": [{"name": "Root", "fields": [_f("a", {"list": {"list": "int"}}, LIST, type="Element", tokens=True, nillable=True)]}]},
    {"obj": "Root", "fields": [["a", {"list": []}]]},
)
EMPTY_TOKENS_TEXT = _case(
    {"classes": [
        {"name": "Leaf", "meta": {"nillable": True}, "fields": [_f("v", {"list": "int"}, LIST, type="Text", tokens=True)]},
        {"name": "Root", "fields": [_f("c", {"list": {"cls": "Leaf"}}, LIST, type="Element")]}]},
    {"obj": "Root", "fields": [["c", {"list": [{"obj": "Leaf", "fields": [["v", {"list": []}]]}]}]]},
)
# excluded at the level of the universe (`seqOK`), and a finding of a fragment that is not proved yet
TOKENS_IN_SEQUENCE = _case(
    {"classes": [{"name": "Root", "fields": [
        _f("a", {"list": "int"}, LIST, type="Element", sequence=1, tokens=True),
        _f("b", {"list": "str"}, LIST, type="Element", sequence=1)]}]},
    {"obj": "Root", "fields": [["a", {"list": [{"int": 1}, {"int": 2}]}], ["b", {"list": [{"str": "x"}]}]]},
)
SEQUENCE_OK = _case(
    {"classes": [{"name": "Root", "fields": [
        _f("a", {"list": "int"}, LIST, type="Element", sequence=1),
        _f("m", {"opt": "str"}, NONE, type="Element"),
        _f("b", {"list": "str"}, LIST, type="Element", sequence=1, nillable=True)]}]},
    {"obj": "Root", "fields": [["a", {"list": [{"int": 1}, {"int": 2}, {"int": 3}]}], ["m", {"str": "mid"}],
                               ["b", {"list": [{"str": "x"}, None]}]]},
)
NIL_IN_ATTRIBUTES = _case(
    {"classes": [
        {"name": "Leaf", "meta": {"nillable": True}, "fields": [
            _f("m", {"dict": 1}, {"factory": "dict"}, type="Attributes", namespace="##any"),
            _f("z", {"opt": "str"}, NONE, type="Element")]},
        {"name": "Root", "fields": [_f("c", {"opt": {"cls": "Leaf"}}, NONE, type="Element")]}]},
    {"obj": "Root", "fields": [["c", {"obj": "Leaf", "fields": [["m", {"attrs": []}], ["z", None]]}]]},
)


_MAP = _f("m", {"dict": 1}, {"factory": "dict"}, type="Attributes", namespace="##any")
_FIXED = [
    _MAP,
    _f("k", {"opt": "int"}, NONE, type="Attribute"),
    {"name": "fx", "type": "str", "metadata": {"type": "Attribute"}, "default": {"value": "v1"}, "init": False},
    {"name": "fe", "type": "int", "metadata": {"type": "Element"}, "default": {"value": 7}, "init": False},
    _f("z", {"opt": "str"}, NONE, type="Element"),
]


def _fixed_val(m, k=None, z=None):
    return {"obj": "Root", "fields": [["m", {"attrs": m}], ["k", k], ["fx", {"str": "v1"}], ["fe", {"int": 7}], ["z", z]]}


MAP_FIXED_OK = _case({"classes": [{"name": "Root", "fields": _FIXED}]},
                     _fixed_val([["x", "1"], ["{urn:q}y", "a b"], ["u", "http://h/p"]], {"int": 3}, {"str": "zz"}))
MAP_KEY_DECLARED = _case({"classes": [{"name": "Root", "fields": _FIXED}]}, _fixed_val([["k", "5"]]))
MAP_VALUE_PREFIX = _case({"classes": [{"name": "Root", "fields": _FIXED}]}, _fixed_val([["{urn:q}x", "ns0:bar"]]))


_Z = _f("z", {"opt": "str"}, NONE, type="Element")
_EXTRA = _f("extra", {"opt": "int"}, NONE, type="Element")
_BASE = {"name": "Base", "fields": [_Z]}


def _sub(_name, fields, bases=("Base",), **meta):
    c = {"name": _name, "bases": list(bases), "fields": fields}
    if meta:
        c["meta"] = meta
    return c


def _o(cls, **kw):
    return {"obj": cls, "fields": [[k, v] for k, v in kw.items()]}


_ROOT_C = {"name": "Root", "fields": [_f("c", {"list": {"cls": "Base"}}, LIST, type="Element"),
                                      _f("d", {"opt": {"cls": "Sub"}}, NONE, type="Element", nillable=True)]}
DERIVED_OK = _case(
    {"classes": [_BASE, _sub("Sub", [_EXTRA], namespace="urn:s"), _sub("SubSub", [], bases=("Sub",), nillable=True), _ROOT_C]},
    _o("Root", c={"list": [_o("Base", z={"str": "a"}), _o("Sub", z=None, extra={"int": 1}),
                           _o("SubSub", z={"str": "b"}, extra={"int": 2}), _o("SubSub", z=None, extra={"int": 0})]},
       d=_o("SubSub", z=None, extra={"int": 3})),
)
DERIVED_NAMED = _case(
    {"classes": [_BASE, _sub("Sub", [_EXTRA]),
                 {"name": "Root", "fields": [_f("c", {"opt": {"cls": "Base"}}, NONE, type="Element", name="Sub")]}]},
    _o("Root", c=_o("Sub", z={"str": "a"}, extra={"int": 1})),
)
DERIVED_MAP = _case(
    {"classes": [_BASE, _sub("Sub", [_MAP]),
                 {"name": "Root", "fields": [_f("c", {"opt": {"cls": "Base"}}, NONE, type="Element")]}]},
    _o("Root", c=_o("Sub", z={"str": "a"}, m={"attrs": []})),
)
# a sibling of the declared class passes `is_derived` and comes back wrapped in a DerivedElement
DERIVED_SIBLING = _case(
    {"classes": [_BASE, _sub("Sub", [_EXTRA]), _sub("Sib", [_f("other", {"opt": "str"}, NONE, type="Element")]),
                 {"name": "Root", "fields": [_f("c", {"opt": {"cls": "Sub"}}, NONE, type="Element")]}]},
    _o("Root", c=_o("Sib", z={"str": "a"}, other={"str": "b"})),
)
# two subclasses with one qualified name: `find_subclass` takes the first
DERIVED_SAME_NAME = _case(
    {"classes": [_BASE, _sub("Sub", [_EXTRA], name="T"), _sub("Sub2", [_f("other", {"opt": "str"}, NONE, type="Element")], name="T"),
                 {"name": "Root", "fields": [_f("c", {"opt": {"cls": "Base"}}, NONE, type="Element")]}]},
    _o("Root", c=_o("Sub2", z={"str": "a"}, other={"str": "b"})),
)


# a list wildcard among typed elements; a generic element named like a class of the context
def _any(q, text="", tail=None, attrs=(), kids=()):
    return {"any": {"qname": q, "text": text, "tail": tail, "attrs": [list(a) for a in attrs], "children": list(kids)}}


def _wild_root(**md):
    return {"classes": [_leaf, {"name": "Root", "fields": [
        _f("a", {"opt": "str"}, NONE, type="Element"),
        _f("w", {"list": "object"}, LIST, type="Wildcard", namespace="##any", **md),
        _f("z", {"list": "int"}, LIST, type="Element")]}]}


WILD_OK = _case(_wild_root(), _o("Root", a={"str": "x"}, w={"list": [
    _any("{urn:g}p", "t", attrs=[("k", "1"), ("{urn:h}l", "a b")]),
    _any("g", "", kids=[_any("{urn:g}h", "u"), _any("i", "", attrs=[("m", "")])])]}, z={"list": [{"int": 1}, {"int": 2}]}))
WILD_CLASS_NAME = _case(_wild_root(), _o("Root", a=None, w={"list": [_any("Leaf")]}, z={"list": []}))
WILD_CLASS_NAME_SKIP = _case(_wild_root(process_contents="skip"), _o("Root", a=None, w={"list": [_any("Leaf")]}, z={"list": []}))
WILD_DECLARED_NAME = _case(_wild_root(), _o("Root", a=None, w={"list": [_any("a", "v")]}, z={"list": []}))
WILD_TAIL = _case(_wild_root(), _o("Root", a=None, w={"list": [_any("g", tail="x")]}, z={"list": []}))
WILD_OTHER = _case(
    {"classes": [{"name": "Root", "meta": {"namespace": "urn:r"}, "fields": [
        _f("w", {"list": "object"}, LIST, type="Wildcard", namespace="##other"),
        _f("a", {"opt": "str"}, NONE, type="Element")]}]},
    _o("Root", w={"list": [_any("{urn:g}p", "t"), _any("q", "")]}, a={"str": "x"}))
WILD_SINGLE_NONE = _case(
    {"classes": [{"name": "Root", "fields": [_f("w", {"opt": "object"}, NONE, type="Wildcard", namespace="##any")]}]},
    _o("Root", w=None))
WILD_SINGLE_CASE = _case(
    {"classes": [{"name": "Root", "fields": [_f("w", {"opt": "object"}, NONE, type="Wildcard", namespace="##any")]}]},
    _o("Root", w=_any("g", "t")))


# QName-typed elements
_QN_ROOT = {"classes": [{"name": "Root", "fields": [
    _f("a", {"opt": "qname"}, NONE, type="Element"), _f("b", {"list": "qname"}, LIST, type="Element")]}]}
QNAME_OK = _case(_QN_ROOT, _o("Root", a={"qname": "{urn:a}n1"},
                              b={"list": [{"qname": "n2"}, {"qname": "{urn:q}n1"}, {"qname": "{urn:a}n2"}]}))
QNAME_NONE = _case(_QN_ROOT, _o("Root", a=None, b={"list": []}))
QNAME_BAD_LOCAL = _case(_QN_ROOT, _o("Root", a={"qname": "{urn:a}n 1"}, b={"list": []}))
QNAME_ATTR = _case({"classes": [{"name": "Root", "fields": [_f("c", {"opt": "qname"}, NONE, type="Attribute")]}]},
                   _o("Root", c={"qname": "{urn:a}n1"}))

# namespace scopes below a wrapper element: the prefix of a QName / xsi:type value is declared on the
# wrapped item itself (seeded change C01-wrapper-child-parent-nsmap-r6)
WRAP_QNAME = _case(
    {"classes": [{"name": "Root", "fields": [
        _f("title", "str", {"value": ""}, type="Attribute"),
        _f("refs", {"list": "qname"}, LIST, type="Element", name="ref", wrapper="refs")]}]},
    _o("Root", title={"str": "demo"}, refs={"list": [{"qname": "{urn:colors}red"}, {"qname": "{urn:shapes}square"}]}))
WRAP_SUB_NS = _case(
    {"classes": [_BASE, _sub("Sub", [_EXTRA], namespace="urn:s"),
                 {"name": "Root", "fields": [_f("c", {"list": {"cls": "Base"}}, LIST, type="Element", wrapper="cs")]}]},
    _o("Root", c={"list": [_o("Base", z={"str": "a"}), _o("Sub", z=None, extra={"int": 1})]}))
WRAP_ITEM_QNAME_ATTR = _case(
    {"classes": [{"name": "Leaf", "fields": [_f("q", {"opt": "qname"}, NONE, type="Attribute"), _Z]},
                 {"name": "Root", "fields": [_f("c", {"list": {"cls": "Leaf"}}, LIST, type="Element", wrapper="cs")]}]},
    _o("Root", c={"list": [_o("Leaf", q={"qname": "{urn:q}n1"}, z={"str": "x"}), _o("Leaf", q={"qname": "n2"}, z=None)]}))

# unions of primitives
_UNION_ROOT = {"classes": [{"name": "Root", "fields": [
    _f("a", {"opt": {"union": ["int", "str"]}}, NONE, type="Element"),
    _f("b", {"list": {"union": ["bool", "str"]}}, LIST, type="Element")]}]}
UNION_OK = _case(_UNION_ROOT, _o("Root", a={"str": "abc"}, b={"list": [{"bool": True}, {"str": "x"}, {"str": ""}]}))
UNION_INT = _case(_UNION_ROOT, _o("Root", a={"int": 5}, b={"list": []}))
UNION_STR_AS_BOOL = _case(_UNION_ROOT, _o("Root", a=None, b={"list": [{"str": "true"}]}))
UNION_STR_AS_INT = _case(_UNION_ROOT, _o("Root", a={"str": "5"}, b={"list": []}))
UNION_ATTR = _case({"classes": [{"name": "Root", "fields": [_f("c", {"opt": {"union": ["bool", "int"]}}, NONE, type="Attribute")]}]},
                   _o("Root", c={"int": 7}))


def replay(desc, value, expect):
    """(still fails on every writer x handler combination, detail)"""
    u = B.Universe(desc)
    obj = u.from_val(value)
    seen = []
    xml = ""
    for writer in ("native", "lxml"):
        try:
            xml = G.real_serialize(u, obj, writer=writer)
        except Exception as e:  # noqa: BLE001
            seen.append("serialize:" + type(e).__name__)
            continue
        for handler in ("native", "lxml"):
            r = G.real_parse_bytes(u, "Root", xml.encode(), handler=handler)
            seen.append(r.get("err") or ("same" if r["ok"]["value"] == value else json.dumps(r["ok"]["value"])))
    return all(expect(x) for x in seen), f"{xml.split('?>')[-1].strip()} -> {sorted(set(seen))}"


# repaired by repo-patches/c01g-01 … c01g-08 (listed as `fixed: … PENDING-c01g-NN` in known_findings.json):
# nillable-empty-object, nillable-empty-str, nillable-token-lists-empty, nillable-class-empty-tokens-text,
# tokens-in-sequence-typeerror, nillable-class-attributes-capture-nil, derived-element-named-as-type,
# derived-class-attributes-capture-type (and C01-ns-chain in props/c01.py); their corpus cases stay as
# regression inputs of the correspondence and of the oracle
FINDINGS = {
    "C01-attributes-key-declared": lambda: replay(*MAP_KEY_DECLARED, lambda x: '["m", {"attrs": []}], ["k", {"int": 5}]' in x),
    "C01-attributes-value-prefix-rewritten": lambda: replay(*MAP_VALUE_PREFIX, lambda x: '"{urn:q}bar"' in x),
    "C01-wildcard-item-named-as-class": lambda: replay(*WILD_CLASS_NAME, lambda x: '["w", {"list": [{"obj": "Leaf"' in x),
    "C01-union-value-reads-as-earlier-type": lambda: replay(*UNION_STR_AS_BOOL, lambda x: '["b", {"list": [{"bool": true}]}]' in x),
}
