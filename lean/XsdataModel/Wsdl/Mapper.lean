/-
C17 — `xsdata/codegen/mappers/definitions.py` `DefinitionsMapper`, function
by function, over the record model of Defs.lean.  The mapper's generators are
consumed completely and in order (`map` is a list comprehension), so an
`Except` computation in the same order ends with the same first error.

Side effects of the Python code that matter and how they are modelled:
* `build_inner_class` mutates the target (`inner.append`, `attrs.append`) —
  here `addInner` returns the new target;
* `build_parts_attributes(parts, ns_map)` updates the dict it is given
  (`inner.ns_map`, or the message class's own `ns_map`) — here `partsNs`
  is the update applied to that map;
* the attributes computed for one extension element do not depend on the state
  of the envelope class, so they are computed first (`extItem`) and then folded
  into the class (`addItem`); a failing element aborts the whole mapping in both.
-/
import XsdataModel.Wsdl.Defs

namespace Xs.Wsdl
open Py

/-! ## `build_attr` -/

/-- `DefinitionsMapper.build_attr` -/
def buildAttr (name qname : Str) (native := false) (forward := false)
    (ns : Option Str := none) (default : Option Str := none) (ref : Option Str := none) : AttrM :=
  let occurs : Option Nat := if default.isSome then some 1 else none
  { name := name, ns := if native then some [] else ns, default := default, type := qname,
    forward := forward, native := native, ref := ref, min := occurs, max := occurs }

/-! ## `attributes`, `operation_namespace` -/

/-- `DefinitionsMapper.attributes`: `{local_name(qname): value for element in elements
for qname, value in element.attributes.items()}` -/
def attributes (exts : List Ext) : Dict :=
  (exts.flatMap (·.attrs)).foldl (fun acc kv => aset acc (localName kv.1) kv.2) []

/-- `DefinitionsMapper.operation_namespace` -/
def operationNamespace (cfg : Dict) : Option Str :=
  match aget cfg ws!"transport" with
  | some t => if t == Tables.c17ClientSoapTransport then Tables.c17EnvelopeNs else Tables.c17EnvelopeNsOther
  | none => Tables.c17EnvelopeNsAbsent

/-- the per-operation configuration of `map_port` + `map_binding`:
`cfg = attributes(binding.ext ++ port.ext).copy(); cfg.update(attributes(operation.ext))` -/
def operationConfig (bindingExt portExt opExt : List Ext) : Dict :=
  aupdate (attributes (bindingExt ++ portExt)) (attributes opExt)

/-! ## `build_parts_attributes` -/

def truthy : Option Str → Bool
  | some s => !s.isEmpty
  | none => false

/-- one iteration of the loop of `build_parts_attributes`: `none` = "Skip untyped message part" -/
def partAttr (p : Part) : Except Err (Option AttrM) :=
  let sel : Option (Str × Bool) :=
    if truthy p.element then some (p.element.getD [], true)
    else if truthy p.type then some (p.type.getD [], false)
    else none
  match sel with
  | none => .ok none
  | some (ref, isElem) => do
    let (prefix?, typeName) := splitColon ref
    let name := if isElem then typeName else p.name
    let ns := aget p.nsMap prefix?
    let typeQ ← buildQName ns typeName
    let native := ns == some Tables.c17XsUri
    let ns' := if truthy p.type then some Tables.c17LazyMarker else ns
    pure (some (buildAttr name typeQ (native := native) (ns := ns')))

/-- `list(build_parts_attributes(parts, ns_map))`: the attrs -/
def partsAttrs : List Part → Except Err (List AttrM)
  | [] => .ok []
  | p :: ps => do
    let a ← partAttr p
    let rest ← partsAttrs ps
    pure (match a with | some x => x :: rest | none => rest)

/-- the `ns_map.update(part.ns_map)` side effect of the same loop (skipped parts do not update) -/
def partsNs (m : NsMap) (parts : List Part) : NsMap :=
  parts.foldl (fun acc p => if truthy p.element || truthy p.type then aupdate acc p.nsMap else acc) m

/-! ## inner classes -/

/-- `collections.first(inner for inner in target.inner if inner.name == name)` -/
def findInner (target : Cls) (name : Str) : Option Cls :=
  target.inner.find? (fun c => c.name == name)

/-- the fresh inner class of `build_inner_class` -/
def mkInner (target : Cls) (name : Str) : Except Err Cls := do
  let q ← buildQName target.targetNamespace name
  pure (Cls.mk q none Tables.c17TagBindingMessage Tables.c17StatusRaw none target.location target.nsMap [] [])

/-- `build_inner_class(target, name, namespace)` followed by
`inner.attrs.extend(attrs)` and the `ns_map` updates `upd` on the inner class:
returns the new target -/
def addInner (target : Cls) (name : Str) (ns : Option Str) (attrs : List AttrM)
    (upd : NsMap → NsMap) : Except Err Cls :=
  match findInner target name with
  | some _ =>
    .ok (target.setInner (target.inner.map (fun c =>
      if c.name == name then (c.setAttrs (c.attrs ++ attrs)).setNsMap (upd c.nsMap) else c)))
  | none => do
    let inner ← mkInner target name
    let attr := buildAttr name inner.qname (forward := true) (ns := ns)
    let inner' := (inner.setAttrs attrs).setNsMap (upd inner.nsMap)
    pure ((target.setInner (target.inner ++ [inner'])).setAttrs (target.attrs ++ [attr]))

/-! ## `map_port_type_message`, `map_binding_message_parts` -/

/-- `map_port_type_message(operation, message, namespace)` -/
def mapPortTypeMessage (operation : Option Str) (m : PtMessage) (ns : Option Str) : Except Err (List AttrM) := do
  let (prefix?, name) := splitColon m.message
  let sourceNs := aget m.nsMap prefix?
  let op := operation.getD name
  let q ← buildQName sourceNs name
  pure [buildAttr op q (ns := ns)]

/-- the parts selected by `part=` / `parts=` of a `soap:body`/`soap:header`
(`[]` = no selection) -/
def selectedNames (ext : Ext) : List Str :=
  match aget ext.attrs ws!"part" with
  | some p => [p]
  | none =>
    match aget ext.attrs ws!"parts" with
    | some ps => wsSplit ps
    | none => []

/-- the message an extension element reads its parts from -/
def extMessageName (message : Str) (ext : Ext) : Str :=
  match aget ext.attrs ws!"message" with
  | some m => localName m
  | none => suffix message

/-- `if parts: message_parts = [part for part in message_parts if part.name in parts]` -/
def selectParts (sel : List Str) (parts : List Part) : List Part :=
  if sel.isEmpty then parts else parts.filter (fun p => sel.contains p.name)

/-- `map_binding_message_parts(definitions, message, extended, ns_map)`: the attrs
and the parts whose `ns_map`s update `ns_map` -/
def mapBindingMessageParts (d : Definitions) (message : Str) (ext : Ext) :
    Except Err (List AttrM × List Part) := do
  let dm ← findMessage d (extMessageName message ext)
  let parts := selectParts (selectedNames ext) dm.parts
  let attrs ← partsAttrs parts
  pure (attrs, parts)

/-! ## `build_envelope_class` -/

/-- what one extension element contributes: inner class name, attrs, parts updating `ns_map` -/
structure ExtItem where
  cname : Str
  attrs : List AttrM
  parts : List Part

/-- loop body of `build_envelope_class` up to `inner.attrs.extend(attrs)` -/
def extItem (d : Definitions) (pm : PtMessage) (style : Str) (operation : Option Str) (ext : Ext) :
    Except Err ExtItem := do
  let cname := titleA (localName ext.qname)
  if style == ws!"rpc" && cname == ws!"Body" then
    let attrs ← mapPortTypeMessage operation pm (aget ext.attrs ws!"namespace")
    pure ⟨cname, attrs, []⟩
  else
    let (attrs, parts) ← mapBindingMessageParts d pm.message ext
    pure ⟨cname, attrs, parts⟩

def extItems (d : Definitions) (pm : PtMessage) (style : Str) (operation : Option Str) :
    List Ext → Except Err (List ExtItem)
  | [] => .ok []
  | e :: es => do
    let i ← extItem d pm style operation e
    let rest ← extItems d pm style operation es
    pure (i :: rest)

def addItem (target : Cls) (i : ExtItem) : Except Err Cls :=
  addInner target i.cname none i.attrs (fun m => partsNs m i.parts)

def addItems : Cls → List ExtItem → Except Err Cls
  | t, [] => .ok t
  | t, i :: is => do
    let t' ← addItem t i
    addItems t' is

/-- the empty envelope class -/
def envelopeBase (d : Definitions) (bm : BMessage) (name : Str) (ns : Option Str) : Except Err Cls := do
  let q ← buildQName d.targetNamespace name
  pure (Cls.mk q (some ws!"Envelope") Tables.c17TagBindingMessage Tables.c17StatusRaw ns bm.location bm.nsMap [] [])

/-- `build_envelope_class` (the inner class of an element is created before its
attrs are computed; the only error that creation can end with is the `ValueError`
of `build_qname` for an empty class name without target namespace, which the XML
parser cannot produce — so computing all items first gives the same result) -/
def buildEnvelopeClass (d : Definitions) (bm : BMessage) (pm : PtMessage) (name style : Str)
    (ns : Option Str) (operation : Option Str) : Except Err Cls := do
  let base ← envelopeBase d bm name ns
  let items ← extItems d pm style operation bm.ext
  addItems base items

/-! ## `build_envelope_fault` -/

def setMin0 (a : AttrM) : AttrM := { a with min := some 0 }

/-- attrs of `detail`: the parts of every fault message of the port type operation -/
def faultDetailAttrs (d : Definitions) : List PtMessage → Except Err (List AttrM)
  | [] => .ok []
  | f :: fs => do
    let m ← findMessage d (suffix f.message)
    let a ← partsAttrs m.parts
    let rest ← faultDetailAttrs d fs
    pure (a ++ rest)

def faultString (f : Str) : AttrM := buildAttr f Tables.c17XsString (native := true) (ns := some [])

def requiredFaultAttrs : List AttrM := [ws!"faultcode", ws!"faultstring"].map faultString

/-- the finished `Fault` class: `fault0` is the fresh inner class of `Body` -/
def finishFault (fault0 : Cls) (detailAttrs : List AttrM) : Except Err Cls :=
  if detailAttrs.isEmpty then
    let optional := [ws!"faultactor", ws!"detail"].map (fun f => setMin0 (faultString f))
    .ok (fault0.setAttrs (requiredFaultAttrs ++ optional))
  else do
    let detail0 ← mkInner fault0 ws!"detail"
    let detail := detail0.setAttrs (detailAttrs.map setMin0)
    -- forward attr of `detail` (namespace ""), made optional
    let detailAttr := setMin0 (buildAttr ws!"detail" detail0.qname (forward := true) (ns := some []))
    let optional := [setMin0 (faultString ws!"faultactor")]
    pure ((fault0.setInner [detail]).setAttrs (requiredFaultAttrs ++ optional ++ [detailAttr]))

/-- `Body` after `build_envelope_fault`: a `Body` class found in an envelope has no
inner classes yet (inner classes are created with `inner = []` and only get attrs),
so `build_inner_class(body, "Fault", …)` always creates the class. -/
def addFault (d : Definitions) (po : PtOperation) (envNs : Option Str) (body : Cls) : Except Err Cls := do
  let fault0 ← mkInner body ws!"Fault"
  let detailAttrs ← faultDetailAttrs d po.faults
  let fault ← finishFault fault0 detailAttrs
  let attr := buildAttr ws!"Fault" fault0.qname (forward := true) (ns := envNs)
  -- for attr in body.attrs: min_occurs = 0
  pure ((body.setInner (body.inner ++ [fault])).setAttrs ((body.attrs ++ [attr]).map setMin0))

/-- replace the first inner class called `Body` (the object `next(...)` returned) -/
def replaceBody (body' : Cls) : List Cls → List Cls
  | [] => []
  | c :: cs => if c.name == ws!"Body" then body' :: cs else c :: replaceBody body' cs

/-- a fault response does not have to repeat the output soap headers: every envelope
attr other than `Body` becomes optional -/
def optionalUnlessBody (a : AttrM) : AttrM := if a.name == ws!"Body" then a else setMin0 a

/-- `build_envelope_fault(definitions, port_type_operation, target)` -/
def buildEnvelopeFault (d : Definitions) (po : PtOperation) (target : Cls) : Except Err Cls :=
  match target.inner.find? (fun c => c.name == ws!"Body") with
  | none => .error .runtimeError
  | some body => do
    let body' ← addFault d po target.ns body
    -- for attr in target.attrs: if attr.name != "Body": min_occurs = 0
    pure ((target.setInner (replaceBody body' target.inner)).setAttrs (target.attrs.map optionalUnlessBody))

/-! ## `build_message_class` (rpc) -/

def buildMessageClass (d : Definitions) (pm : PtMessage) : Except Err Cls := do
  let (prefix?, name) := splitColon pm.message
  let dm ← findMessage d name
  let sourceNs := aget dm.nsMap prefix?
  let q ← buildQName sourceNs name
  let attrs ← partsAttrs dm.parts
  pure (Cls.mk q none Tables.c17TagElement Tables.c17StatusRaw sourceNs pm.location
    (partsNs dm.nsMap dm.parts) attrs [])

/-! ## `map_binding_operation_messages`, `map_binding_operation` -/

/-- `f"{a}_{b}"` -/
def joinU (a b : Str) : Str := a ++ ws!"_" ++ b

/-- `if style == "rpc": yield cls.build_message_class(definitions, port_type_message)` -/
def rpcMessageClass (d : Definitions) (style : Str) (pm : PtMessage) : Except Err (Option Cls) :=
  if style == ws!"rpc" then (buildMessageClass d pm).map some else .ok none

/-- `if suffix == "output": cls.build_envelope_fault(...)` -/
def withFault (d : Definitions) (po : PtOperation) (isOutput : Bool) (env : Cls) : Except Err Cls :=
  if isOutput then buildEnvelopeFault d po env else .ok env

/-- classes of one direction: the rpc message class (if any) and the envelope -/
def mapMessage (d : Definitions) (po : PtOperation) (name style : Str) (ns : Option Str)
    (sfx : Str) (bm : BMessage) (pm? : Option PtMessage) (opName : Option Str) (isOutput : Bool) :
    Except Err (Option Cls × Cls) :=
  match pm? with
  | none => .error .attributeError
  | some pm => do
    let msgCls ← rpcMessageClass d style pm
    let env ← buildEnvelopeClass d bm pm (joinU name sfx) style ns opName
    let env' ← withFault d po isOutput env
    pure (msgCls, env')

/-- `map_binding_operation_messages` as a list of (message class, envelope) per direction -/
def mapMessages (d : Definitions) (bo : BOperation) (po : PtOperation) (name style : Str)
    (ns : Option Str) : Except Err (List (Option Cls × Cls)) := do
  let i ← match bo.input with
    | some bm => (mapMessage d po name style ns ws!"input" bm po.input (some bo.name) false).map (fun x => [x])
    | none => pure []
  let o ← match bo.output with
    | some bm => (mapMessage d po name style ns ws!"output" bm po.output none true).map (fun x => [x])
    | none => pure []
  pure (i ++ o)

/-- the string constants of the service class: `for key in sorted(config.keys(), key=len) if config[key]` -/
def constAttrs (cfg : Dict) : List AttrM :=
  ((Xs.Codegen.pySortedByNat (fun kv : Str × Str => kv.1.length) cfg).filter (fun kv => !kv.2.isEmpty)).map
    (fun kv => buildAttr kv.1 Tables.c17XsString (native := true) (default := some kv.2))

/-- the `input`/`output` attr of the service class -/
def refAttr (env : Cls) : AttrM :=
  buildAttr (lastSeg env.name) env.qname (ref := some env.qname)

def flattenPair : Option Cls × Cls → List Cls
  | (some m, e) => [m, e]
  | (none, e) => [e]

/-- `map_binding_operation` -/
def mapBindingOperation (d : Definitions) (bo : BOperation) (po : PtOperation) (cfg : Dict)
    (ptName : Str) : Except Err (List Cls) := do
  let style := (aget cfg ws!"style").getD ws!"document"
  let name := joinU ptName bo.name
  let ns := operationNamespace cfg
  let pairs ← mapMessages d bo po name style ns
  let attrs := constAttrs cfg ++ pairs.map (fun p => refAttr p.2)
  let q ← buildQName d.targetNamespace name
  let svc := Cls.mk q none Tables.c17TagBindingOperation Tables.c17StatusFlattened none bo.location bo.nsMap attrs []
  pure (pairs.flatMap flattenPair ++ [svc])

/-! ## `map_binding`, `map_port`, `map` -/

/-- `Binding.unique_operations`: the last operation of every name, names in first-seen order -/
def uniqueOperations (b : Binding) : List BOperation :=
  (Xs.Codegen.groupBy (fun o : BOperation => o.name) b.operations).filterMap (fun g => g.2.getLast?)

def mapOperations (d : Definitions) (pt : PortType) (config : Dict) : List BOperation → Except Err (List Cls)
  | [] => .ok []
  | o :: os => do
    let cfg := aupdate config (attributes o.ext)
    let po ← findOperation pt o.name
    let cs ← mapBindingOperation d o po cfg pt.name
    let rest ← mapOperations d pt config os
    pure (cs ++ rest)

/-- `map_port` (+ `map_binding`) -/
def mapPort (d : Definitions) (port : Port) : Except Err (List Cls) := do
  let b ← findBinding d (suffix port.binding)
  let pt ← findPortType d (suffix b.type)
  mapOperations d pt (attributes (b.ext ++ port.ext)) (uniqueOperations b)

def mapPorts (d : Definitions) : List Port → Except Err (List Cls)
  | [] => .ok []
  | p :: ps => do
    let cs ← mapPort d p
    let rest ← mapPorts d ps
    pure (cs ++ rest)

/-- `DefinitionsMapper.map` -/
def mapDefinitions (d : Definitions) : Except Err (List Cls) :=
  mapPorts d (d.services.flatMap (·.ports))

end Xs.Wsdl
