/- C10 — the outcome of a parse depends on (metadata, document, configuration) only: the
   shared binding metadata is not written by a parse.  Property theorems (only). -/
import XsdataModel.Proofs.C10Shared
import XsdataModel.Props.C10

namespace Props.C10
open Py Xs.Bind Proofs.C10 Proofs.C10Shared
open Proofs.C10.Ex (exEnv exCtx metaRoot leafT unk docKids doc)

/-- **meta_unchanged_by_parse**: the binding metadata (every `XmlMeta`, `XmlVar` held by the
context) after any parse — any document, any class, any of the 8 configurations, successful
or failing — is the metadata before it. -/
theorem meta_unchanged_by_parse (e : BEnv) (cfg : ParserConfig) (clazz : ClassId) (t : Tree) (Γ : Ctx) :
    (parseRootS e cfg clazz t Γ).2 = Γ := by
  rw [parseRootS_eq]

/-- **shared_context_transparent**: a program that makes any sequence of parser calls on one
shared context (lenient and strict in any order, documents with unknown content or not)
gets from every call what that call returns on the context alone, and leaves the context
as it found it: the outcome depends on (metadata, document, configuration) only. -/
theorem shared_context_transparent (e : BEnv) (calls : List Call) (Γ : Ctx) :
    parseSeqS e calls Γ = (calls.map (fun c => parseRoot e Γ c.cfg c.clazz c.doc), Γ) := by
  induction calls with
  | nil => rfl
  | cons c cs ih => simp only [parseSeqS, parseRootS_eq, ih, List.map_cons]

/-- **strict_after_lenient**: the situation of the seeded memo: a lenient parse of a document
with an unknown element first, then the same document under the strict default on the same
context: the second call raises `ParserError` (the first one is as in `skip_invariant_root`). -/
theorem strict_after_lenient {e : BEnv} {Γ : Ctx} {lenientCfg strictCfg : ParserConfig} {clazz : ClassId} {q : QN}
    {pa : List (QN × Str)} {pn : NsMap} {m : XmlMeta}
    (hl : lenientCfg.failOnUnknownProperties = false) (hs : strictCfg.failOnUnknownProperties = true)
    (hm : rootMeta e Γ clazz pa pn = some m) (hq : unknownFor m q = true)
    (a : List (QN × Str)) (n : NsMap) (t : Option Str) (c : List Tree) (tl : Option Str)
    (pq : QN) (pt ptl : Option Str) (pre post : List Tree)
    {o1 : Out} {st1 : ElState} (hpre : parseKids e Γ strictCfg m {} none pre = .ok (o1, st1)) :
    let d := Tree.node pq pa pn pt (pre ++ .node q a n t c tl :: post) ptl
    (parseSeqS e [⟨lenientCfg, clazz, d⟩, ⟨strictCfg, clazz, d⟩] Γ).1 =
      [parseRoot e Γ lenientCfg clazz (.node pq pa pn pt (pre ++ post) ptl), .error (.parser "Unknown property")] := by
  have hu : rootUnknown e Γ clazz pa pn q = true := by simp [rootUnknown, hm, hq]
  simp only [shared_context_transparent, List.map_cons, List.map_nil,
    skip_invariant_root hl hu, strict_unknown_fails_root hs hm hq a n t c tl pq pt ptl pre post hpre]

/- non-vacuity: lenient then strict on the example universe, document `<R><a>hi</a><z…/>…</R>` -/
example : (parseSeqS exEnv [⟨lenient, ['R'], doc ([leafT ['h','i'] ['a']] ++ unk :: docKids.drop 1)⟩,
                            ⟨{}, ['R'], doc ([leafT ['h','i'] ['a']] ++ unk :: docKids.drop 1)⟩] exCtx).1
    = [.ok (.obj ['R'] [(['a'], .prim (.str ['h','i'])),
          (['l'], .obj ['L'] [(['x'], .prim (.int 5)), (['i'], .prim (.int 7))])], 0),
       .error (.parser "Unknown property")] := by rfl


end Props.C10
