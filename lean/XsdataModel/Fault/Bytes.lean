/-
C15 — `BytesConverter.deserialize` (formats/converter.py), the converter of xs:hexBinary / xs:base64Binary:

```python
self.validate_input_type(value, str)
try:
    fmt = kwargs.get("format")
    value = re.sub(r"\s+", "", value)
    if fmt == "base16": return binascii.unhexlify(value)
    if fmt == "base64": return base64.b64decode(value, validate=True)
    raise ConverterError(f"Unknown format '{fmt}'")
except ValueError as e:            # binascii.Error is a ValueError; so is the plain ValueError
    raise ConverterError(e)        # "string argument should contain only ASCII characters"
```

base16 is modelled down to the bytes; for base64 the verdict of the stdlib call is an input (`Codec`).
-/
import XsdataModel.Bind.Parse

namespace Xs.Fault
open Py Xs.Bind

/-- what the stdlib codec does with the (whitespace-free) string -/
inductive Codec
  | bytes (bs : List Nat)
  | binasciiError            -- odd length, a character outside the alphabet, bad padding …
  | valueError               -- a non-ASCII character: plain `ValueError`, not `binascii.Error`
deriving Repr, DecidableEq

def hexDigit (c : Char) : Option Nat :=
  if '0' ≤ c ∧ c ≤ '9' then some (c.toNat - 48)
  else if 'a' ≤ c ∧ c ≤ 'f' then some (c.toNat - 87)
  else if 'A' ≤ c ∧ c ≤ 'F' then some (c.toNat - 55)
  else none

/-- `binascii.unhexlify(str)` -/
def unhexlify (s : Str) : Codec :=
  if s.any (fun c => c.toNat ≥ 128) then .valueError
  else
    let rec go : Str → List Nat → Codec
      | [], acc => .bytes acc.reverse
      | [_], _ => .binasciiError                      -- odd-length string
      | a :: b :: rest, acc =>
        match hexDigit a, hexDigit b with
        | some x, some y => go rest ((16 * x + y) :: acc)
        | _, _ => .binasciiError                      -- non-hexadecimal digit
    go s []

inductive BytesFormat | base16 | base64 | other
deriving Repr, DecidableEq

/-- `BytesConverter.deserialize(value, format=fmt)` for a `str` value; `b64` is what
`base64.b64decode(value, validate=True)` does with the whitespace-free string -/
def bytesDeserialize (e : Env) (fmt : BytesFormat) (value : Str) (b64 : Codec) : Except Err (List Nat) :=
  let v := value.filter (fun c => !e.isSpace c)          -- `re.sub(r"\s+", "", value)`
  let translate : Codec → Except Err (List Nat)
    | .bytes bs => .ok bs
    | .binasciiError => .error .converter                 -- `except ValueError` (binascii.Error is one)
    | .valueError => .error .converter                    -- `except ValueError`
  match fmt with
  | .base16 => translate (unhexlify v)
  | .base64 => translate b64
  | .other => .error .converter                           -- "Unknown format"

/-- `ParserUtils.parse_var` around it: a failed conversion is a ConverterWarning (the raw string is kept) or,
with `fail_on_converter_warnings`, a ParserError -/
def parseBytesVar (e : Env) (cfg : ParserConfig) (fmt : BytesFormat) (value : Str) (b64 : Codec) :
    Except Err (Option (List Nat) × Bool) :=
  match bytesDeserialize e fmt value b64 with
  | .ok bs => .ok (some bs, false)
  | .error _ => if cfg.failOnConverterWarnings then .error (.parser "Failed to convert value") else .ok (none, true)

end Xs.Fault
