"""Worker of the C12 check: started with a fixed PYTHONHASHSEED, answers one
JSON request per line (the plug-in's local impl functions / whole generations)."""
import json
import os
import sys

HERE = os.path.dirname(os.path.abspath(__file__))
REPO = os.environ.get("XSDATA_REPO", "/repo")
sys.path.insert(0, HERE)
sys.path.insert(0, os.path.join(HERE, "shims"))
sys.path.insert(0, REPO)
sys.dont_write_bytecode = True


def main():
    import c12_support as S
    from props import c12 as P

    for line in sys.stdin:
        line = line.strip()
        if not line:
            continue
        req = json.loads(line)
        try:
            if req["cmd"] == "impl":
                out = P.IMPLS_LOCAL[req["op"]](req["args"])
            elif req["cmd"] == "generate":
                r = S.generate_full(req["route"], req["schemas"], req["options"], req.get("shuffle"))
                out = {k: r[k] for k in ("digest", "err", "msg") if k in r}
                if req.get("files"):
                    out["files"] = r.get("files")
            elif req["cmd"] == "hashseed":
                out = {"seed": os.environ.get("PYTHONHASHSEED"), "h": hash("xsdata")}
            else:
                out = {"err": "HARNESS:unknown cmd"}
        except Exception as e:  # noqa: BLE001
            out = {"err": "HARNESS:" + type(e).__name__ + ":" + str(e)[:200]}
        sys.stdout.write(json.dumps(out) + "\n")
        sys.stdout.flush()


if __name__ == "__main__":
    main()
