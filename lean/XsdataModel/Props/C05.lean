/- C05 — property theorems (only). Helper lemmas live in `Proofs/*`, the XSD
lexical relations in `Spec/Xsd.lean`. -/
import XsdataModel.Conv.Factory
import XsdataModel.Spec.Xsd
import XsdataModel.Proofs.IntL
import XsdataModel.Proofs.Codec
import XsdataModel.Proofs.SortL
import XsdataModel.Proofs.QNameL
import XsdataModel.Proofs.EnumL
import XsdataModel.Proofs.DecimalL
import XsdataModel.Proofs.FloatL
import XsdataModel.Conv.TblCEnv
import XsdataModel.Spec.XmlName

namespace Props.C05
open Py Xs.Conv Xs.Spec

/-- the environment that knows ASCII only (used for concrete instances and witnesses) -/
def asciiCEnv : CEnv := ⟨Env.ascii, fun _ => false, fun _ => []⟩

/-! ## xs:boolean -/

/-- what `BoolConverter.serialize` writes is an xs:boolean lexical form of the value -/
theorem bool_ser_valid (b : Bool) : XsdBoolean (boolSerialize b) b := by
  cases b <;> (unfold XsdBoolean; decide)

/-- every xs:boolean lexical form, with any XSD white space around it, is read
as the value XSD assigns (for every Unicode environment) -/
theorem bool_accepts (e : Env) (pre post s : Str) (v : Bool)
    (hpre : AllXsdSpace pre) (hpost : AllXsdSpace post) (h : XsdBoolean s v) :
    boolDeserialize e (pre ++ s ++ post) = some v := by
  have ns : ∀ c, isAscii c = true → isAsciiSpace c = false → e.isSpace c = false := by
    intro c h1 h2; rw [isSpace_ascii e c h1]; exact h2
  have ht : Tight e.isSpace s := by
    unfold XsdBoolean boolLex at h
    simp only [List.mem_cons, Prod.mk.injEq, List.mem_nil_iff, or_false] at h
    rcases h with ⟨rfl, _⟩ | ⟨rfl, _⟩ | ⟨rfl, _⟩ | ⟨rfl, _⟩
    · exact Or.inr ⟨⟨'t', _, rfl, ns _ (by decide) (by decide)⟩, ⟨['t', 'r', 'u'], 'e', rfl, ns _ (by decide) (by decide)⟩⟩
    · exact Or.inr ⟨⟨'f', _, rfl, ns _ (by decide) (by decide)⟩, ⟨['f', 'a', 'l', 's'], 'e', rfl, ns _ (by decide) (by decide)⟩⟩
    · exact Or.inr ⟨⟨'1', _, rfl, ns _ (by decide) (by decide)⟩, ⟨[], '1', rfl, ns _ (by decide) (by decide)⟩⟩
    · exact Or.inr ⟨⟨'0', _, rfl, ns _ (by decide) (by decide)⟩, ⟨[], '0', rfl, ns _ (by decide) (by decide)⟩⟩
  unfold boolDeserialize
  rw [strip_xsd_pad e pre s post hpre hpost ht]
  unfold XsdBoolean boolLex at h
  simp only [List.mem_cons, Prod.mk.injEq, List.mem_nil_iff, or_false] at h
  rcases h with ⟨rfl, rfl⟩ | ⟨rfl, rfl⟩ | ⟨rfl, rfl⟩ | ⟨rfl, rfl⟩ <;> decide

/-- bool round trip -/
theorem bool_rt (e : Env) (b : Bool) : boolDeserialize e (boolSerialize b) = some b := by
  have := bool_accepts e [] [] (boolSerialize b) b (by intro c h; cases h) (by intro c h; cases h)
    (bool_ser_valid b)
  simpa using this

/-! ## xs:integer -/

/-- `str(i)` is an xs:integer lexical form denoting `i` -/
theorem int_ser_valid (i : Int) : XsdInteger (intSerialize i) i := by
  obtain ⟨hd, hne, hv⟩ := natStr_spec i.natAbs
  unfold intSerialize intStr
  by_cases h : i < 0
  · refine ⟨.minus, natStr i.natAbs, by simp [h, Sign.str], hne, hd, ?_⟩
    simp only [Sign.neg, if_true, digitsNat, hv, Int.ofNat_eq_natCast]
    omega
  · refine ⟨.none, natStr i.natAbs, by simp [h, Sign.str], hne, hd, ?_⟩
    simp only [Sign.neg, digitsNat, hv, Int.ofNat_eq_natCast]
    simp
    omega

/-- every xs:integer lexical form (`[+-]?[0-9]+`, any number of leading zeros,
any XSD white space around it) is read as the integer it denotes -/
theorem int_accepts (e : Env) (pre post s : Str) (v : Int)
    (hpre : AllXsdSpace pre) (hpost : AllXsdSpace post) (h : XsdInteger s v) :
    intDeserialize e (pre ++ s ++ post) = some v := by
  obtain ⟨sg, ds, rfl, hne, hd, rfl⟩ := h
  exact pyIntC_signed e pre post sg ds hpre hpost hne hd

/-- int round trip, for every integer (no size bound in the model; CPython adds
the 4300-digit limit) -/
theorem int_rt (e : Env) (i : Int) : intDeserialize e (intSerialize i) = some i := by
  have := int_accepts e [] [] (intSerialize i) i (by intro c h; cases h) (by intro c h; cases h)
    (int_ser_valid i)
  simpa using this

/-! ## xs:hexBinary and xs:base64Binary -/

/-- `format="base16"`: the output is an xs:hexBinary lexical form of the octets -/
theorem hex_ser_valid (k : BytesKind) (bs : Bytes) (h : AllBytes bs) :
    ∃ s, bytesSerialize k bs (some Tables.fmtBase16) = some s ∧ XsdHexBinary s bs := by
  refine ⟨hexEncode bs, ?_, hexEncode_valid bs h⟩
  simp [bytesSerialize]

/-- every xs:hexBinary lexical form (either letter case), with white space
anywhere around or inside, is decoded to the octets it denotes -/
theorem hex_accepts (e : Env) (s s' : Str) (bs : Bytes) (h : XsdHexBinary s bs)
    (hws : removeWs e s' = s) :
    bytesDeserialize e s' (some Tables.fmtBase16) = some bs := by
  simp [bytesDeserialize, hws, unhexlify_lex s bs h]

/-- base16 round trip for every octet string -/
theorem hex_rt (e : Env) (k : BytesKind) (bs : Bytes) (h : AllBytes bs) :
    ∃ s, bytesSerialize k bs (some Tables.fmtBase16) = some s ∧
      bytesDeserialize e s (some Tables.fmtBase16) = some bs := by
  obtain ⟨s, hs, hv⟩ := hex_ser_valid k bs h
  refine ⟨s, hs, ?_⟩
  have hu := unhexlify_lex s bs hv
  -- the encoder never emits white space: decoding its output directly succeeds, so no
  -- character was dropped by `removeWs`
  have hnospace : ∀ c ∈ s, e.isSpace c = false := by
    have : s = hexEncode bs := by simpa [bytesSerialize] using hs.symm
    subst this
    clear hs hv hu
    induction bs with
    | nil => intro c hc; cases hc
    | cons b bs ih =>
      have hb : b < 256 := h b (by simp)
      have hd : ∀ v, v < 16 → e.isSpace (hexDigit v) = false := by
        intro v hv
        have h1 : isAscii (hexDigit v) = true := by revert v; decide
        have h2 : isAsciiSpace (hexDigit v) = false := by revert v; decide
        rw [isSpace_ascii e _ h1]; exact h2
      intro c hc
      simp only [hexEncode, List.mem_cons] at hc
      rcases hc with rfl | rfl | hc
      · exact hd _ (by omega)
      · exact hd _ (by omega)
      · exact ih (fun x hx => h x (by simp [hx])) c hc
  exact hex_accepts e s s bs hv (removeWs_noSpace e s hnospace)

/-- `format="base64"`: the output is the canonical xs:base64Binary form of the octets -/
theorem b64_ser_valid (bs : Bytes) (h : AllBytes bs) :
    ∃ s, bytesSerialize .plain bs (some Tables.fmtBase64) = some s ∧ XsdBase64 s bs := by
  refine ⟨b64Encode bs, ?_, b64Encode_valid bs h⟩
  have hne : (Tables.fmtBase64 = Tables.fmtBase16) = False := by decide
  simp [bytesSerialize, hne]

/-- every canonical xs:base64Binary form, with line breaks / blanks anywhere
(as MIME encoders insert them), is decoded to the octets it denotes -/
theorem b64_accepts (e : Env) (s s' : Str) (bs : Bytes) (h : XsdBase64 s bs)
    (hws : removeWs e s' = s) :
    bytesDeserialize e s' (some Tables.fmtBase64) = some bs := by
  have hne : (some Tables.fmtBase64 = some Tables.fmtBase16) = False := by decide
  simp [bytesDeserialize, hws, b64Decode_lex s bs h, hne]

/-- base64 round trip for every octet string, also when the written form is
re-wrapped with white space before it is read -/
theorem b64_rt (e : Env) (bs : Bytes) (h : AllBytes bs) (s' : Str)
    (hws : removeWs e s' = b64Encode bs) :
    bytesSerialize .plain bs (some Tables.fmtBase64) = some (b64Encode bs) ∧
      bytesDeserialize e s' (some Tables.fmtBase64) = some bs := by
  obtain ⟨s, hs, hv⟩ := b64_ser_valid bs h
  have : s = b64Encode bs := by
    have h2 : bytesSerialize .plain bs (some Tables.fmtBase64) = some (b64Encode bs) := by
      have hne : (Tables.fmtBase64 = Tables.fmtBase16) = False := by decide
      simp [bytesSerialize, hne]
    rw [h2] at hs; exact (Option.some.inj hs).symm
  subst this
  exact ⟨hs, b64_accepts e _ s' bs hv hws⟩

example : AllBytes [0, 255, 65] := by intro b hb; simp at hb; omega

example : XsdHexBinary ['0', 'a', 'F', 'f'] [10, 255] :=
  .pair '0' 'a' 0 10 _ _ (by decide) (by decide) (.pair 'F' 'f' 15 15 _ _ (by decide) (by decide) .nil)

example : XsdBase64 ['Q', 'Q', '=', '='] [65] := .one 65 (by decide)

/-! ## xs:decimal -/

/-- `DecimalConverter.serialize` of a finite Decimal `±c × 10^x` is an xs:decimal
lexical form (no exponent, no `E`) denoting the same number, written with
coefficient `c × 10^max(x,0)` and exponent `min(x,0)` -/
theorem decimal_ser_valid (neg : Bool) (c : Nat) (x : Int) :
    XsdDecimal (decimalSerialize (.fin neg c x)) neg (c * 10 ^ x.toNat) (min x 0) := by
  have hspec : Tables.decFormatSpec = ['f'] := by decide
  simp only [decimalSerialize, hspec, if_true]
  exact formatF_valid neg c x

/-- every xs:decimal lexical form (optional sign, leading/trailing zeros, `.5`,
`5.`), with XSD white space around it, is read as exactly the decimal it denotes -/
theorem decimal_accepts (e : Env) (pre post s : Str) (neg : Bool) (c : Nat) (x : Int)
    (hpre : AllXsdSpace pre) (hpost : AllXsdSpace post) (h : XsdDecimal s neg c x)
    (hr : (Dec.fin neg c x).inRange = true) :
    decimalDeserialize e (pre ++ s ++ post) = some (.fin neg c x) := by
  unfold decimalDeserialize
  rw [decimalParse_lex e pre post s neg c x hpre hpost h]
  simp [hr]

/-- what a finite Decimal is read back as (the hypothesis says the written number
has fewer than 10^18 digits, the limit of the decimal module) … -/
theorem decimal_rt (e : Env) (neg : Bool) (c : Nat) (x : Int)
    (hr : (Dec.fin neg (c * 10 ^ x.toNat) (min x 0)).inRange = true) :
    decimalDeserialize e (decimalSerialize (.fin neg c x)) = some (.fin neg (c * 10 ^ x.toNat) (min x 0)) := by
  have := decimal_accepts e [] [] _ neg _ _ (by intro c h; cases h) (by intro c h; cases h)
    (decimal_ser_valid neg c x) hr
  simpa using this

example : (Dec.fin true (150 * 10 ^ (-2 : Int).toNat) (min (-2) 0)).inRange = true := by decide

/-- … which is the same number (`Decimal.__eq__`), for every sign, coefficient and exponent -/
theorem decimal_rt_value (neg : Bool) (c : Nat) (x : Int) :
    (Dec.fin neg (c * 10 ^ x.toNat) (min x 0)).pyEq (.fin neg c x) = true := by
  have key : scaled neg (c * 10 ^ x.toNat) (min x 0) (min (min x 0) x)
      = scaled neg c x (min (min x 0) x) := by
    unfold scaled
    by_cases hx : x ≥ 0
    · have h1 : min x 0 = 0 := by omega
      have h2 : min (0 : Int) x = 0 := by omega
      simp only [h1, h2, Int.sub_zero, Int.toNat_zero, Nat.pow_zero, Nat.mul_one]
    · have h1 : min x 0 = x := by omega
      have h2 : x.toNat = 0 := by omega
      simp only [h1, h2, Nat.pow_zero, Nat.mul_one, Int.min_self]
  have key' : scaled neg c x (min x (min x 0)) = scaled neg (c * 10 ^ x.toNat) (min x 0) (min x (min x 0)) := by
    have : min x (min x 0) = min (min x 0) x := by omega
    rw [this, key]
  simp only [Dec.pyEq, finLe, key, key', Bool.and_eq_true, decide_eq_true_eq]
  omega

/-- infinities are written `INF` / `-INF` (not xs:decimal values) and read back -/
theorem decimal_inf_rt (e : Env) (neg : Bool) :
    decimalDeserialize e (decimalSerialize (.inf neg)) = some (.inf neg) := by
  have ns : ∀ c, isAscii c = true → isAsciiSpace c = false → e.isSpace c = false := by
    intro c h1 h2; rw [isSpace_ascii e c h1]; exact h2
  cases neg with
  | false =>
    have hs : decimalSerialize (.inf false) = ['I', 'N', 'F'] := by decide
    have ht : e.strip ['I', 'N', 'F'] = ['I', 'N', 'F'] := stripBy_tight _ _ (Or.inr
      ⟨⟨'I', _, rfl, ns _ (by decide) (by decide)⟩, ⟨['I', 'N'], 'F', rfl, ns _ (by decide) (by decide)⟩⟩)
    simp only [decimalDeserialize, decimalParse, hs, ht]
    rw [if_pos (by decide)]
    simp [Dec.inRange]
    try decide
  | true =>
    have hs : decimalSerialize (.inf true) = ['-', 'I', 'N', 'F'] := by decide
    have ht : e.strip ['-', 'I', 'N', 'F'] = ['-', 'I', 'N', 'F'] := stripBy_tight _ _ (Or.inr
      ⟨⟨'-', _, rfl, ns _ (by decide) (by decide)⟩, ⟨['-', 'I', 'N'], 'F', rfl, ns _ (by decide) (by decide)⟩⟩)
    simp only [decimalDeserialize, decimalParse, hs, ht]
    rw [if_pos (by decide)]
    simp [Dec.inRange]
    try decide

/-! ## xs:double / xs:float

`float(str)` is modelled as a grammar yielding the exact decimal written in the
string; CPython's rounding to binary64 and `repr` are outside the model. The
theorems say: (1) every xs:double form is accepted with the decimal value XSD
assigns; (2) the converter's post-processing of `repr(x)` (`upper()`,
`replace("E+", "E")`, `INF`/`NaN`) yields an xs:double form denoting the *same*
decimal as `repr(x)` itself. With CPython's guarantee `float(repr(x)) == x` this
is the round trip. -/

/-- every xs:double / xs:float lexical form (`1`, `1.`, `.5`, `1e5`, `1.5E-7`,
`+INF`, `NaN`, …), with XSD white space around it, is read as the value it denotes -/
theorem float_accepts (e : Env) (pre post s : Str) (lit : FloatLit)
    (hpre : AllXsdSpace pre) (hpost : AllXsdSpace post) (h : XsdDouble s lit) :
    pyFloatLit e (pre ++ s ++ post) = some lit := by
  rcases h with h | h
  · exact pyFloatLit_num e pre post s lit hpre hpost h
  · exact pyFloatLit_special e pre post s lit hpre hpost h

/-- **canonical spelling**: for a finite float, `FloatConverter.serialize` turns
`repr(x)` into an xs:double lexical form (upper-case `E`, no `+` in the exponent)
that denotes exactly the decimal `repr(x)` denotes -/
theorem float_ser_valid (r : Str) (lit : FloatLit) (h : PyReprFinite r lit) :
    XsdDouble (floatSerialize ⟨r⟩) lit := by
  obtain ⟨neg, ip, fp, ex, rfl, hipne, hip, hfp, hex, rfl⟩ := h
  rw [floatSerialize_finite neg ip fp ex hipne hip hfp hex, reprMant_eq, List.append_assoc]
  left
  refine ⟨if neg then .minus else .none, ip, fp, decide (fp ≠ []), serExp ex, rfl, hip, hfp,
    Or.inl hipne, ?_, serExp_ok ex hex, ?_⟩
  · intro hd; simpa using hd
  · rw [sign_neg_eq, serExp_val]

/-- `repr(x)` itself is an xs:double form of that decimal -/
theorem pyrepr_is_xsd (r : Str) (lit : FloatLit) (h : PyReprFinite r lit) : XsdDouble r lit := by
  obtain ⟨neg, ip, fp, ex, rfl, hipne, hip, hfp, hex, rfl⟩ := h
  rw [reprMant_eq, List.append_assoc, ← reprExpX_str]
  left
  refine ⟨if neg then .minus else .none, ip, fp, decide (fp ≠ []), reprExpX ex, rfl, hip, hfp,
    Or.inl hipne, ?_, reprExpX_ok ex hex, ?_⟩
  · intro hd; simpa using hd
  · rw [sign_neg_eq, reprExpX_val]

/-- **float round trip (value level)**: reading the serialised form gives the
same literal as reading `repr(x)`: the post-processing loses nothing -/
theorem float_rt (e : Env) (r : Str) (lit : FloatLit) (h : PyReprFinite r lit) :
    pyFloatLit e (floatSerialize ⟨r⟩) = some lit ∧ pyFloatLit e r = some lit := by
  have h1 := float_accepts e [] [] _ lit (by intro c h; cases h) (by intro c h; cases h) (float_ser_valid r lit h)
  have h2 := float_accepts e [] [] _ lit (by intro c h; cases h) (by intro c h; cases h) (pyrepr_is_xsd r lit h)
  simp only [List.nil_append, List.append_nil] at h1 h2
  exact ⟨h1, h2⟩

example : PyReprFinite ['1', 'e', '+', '2', '2'] (.fin false 1 22) :=
  ⟨false, ['1'], [], some (false, ['2', '2']), rfl, (by simp), (by unfold AllDigits; decide),
    (by intro c h; cases h), ⟨by simp, by unfold AllDigits; decide⟩, (by decide)⟩

/-- the special values: `nan` → `NaN`, `inf` → `INF`, `-inf` → `-INF`, all
xs:double forms that are read back as the same special value -/
theorem float_special_rt (e : Env) :
    floatSerialize ⟨['n', 'a', 'n']⟩ = ['N', 'a', 'N'] ∧ pyFloatLit e ['N', 'a', 'N'] = some .nan ∧
    floatSerialize ⟨['i', 'n', 'f']⟩ = ['I', 'N', 'F'] ∧ pyFloatLit e ['I', 'N', 'F'] = some (.inf false) ∧
    floatSerialize ⟨['-', 'i', 'n', 'f']⟩ = ['-', 'I', 'N', 'F'] ∧
    pyFloatLit e ['-', 'I', 'N', 'F'] = some (.inf true) := by
  have sp : ∀ s lit, (s, lit) ∈ xsdDoubleSpecial → pyFloatLit e s = some lit := by
    intro s lit h
    have := pyFloatLit_special e [] [] s lit (by intro c h; cases h) (by intro c h; cases h) h
    simpa using this
  exact ⟨by decide, sp _ _ (by decide), by decide, sp _ _ (by decide), by decide, sp _ _ (by decide)⟩

/-! ## candidate lists: `sort_types` and the priority order -/

/-- `sort_types` returns a permutation of its input -/
theorem sort_types_perm (names : List Str) : (sortTypes names).Perm names := by
  rw [sortTypes_eq]
  split
  · exact List.Perm.refl _
  · exact List.mergeSort_perm names prioLe

/-- … ordered by the priority table (types without entry first) -/
theorem sort_types_sorted (names : List Str) :
    (sortTypes names).Pairwise (fun a b => typePriority a ≤ typePriority b) := by
  rw [sortTypes_eq]
  split
  · exact short_pairwise _ _ ‹_›
  · exact (List.pairwise_mergeSort prioLe_trans prioLe_total names).imp
      (by intro a b h; exact prio_le_of_key_le (by simpa [prioLe] using h))

/-- … with `object`, the catch-all, after every other type that has no table entry
(the sort key is `(priority, tp is object)`): the order of `bytes` and `object`
no longer depends on the order in which they are handed in -/
theorem sort_types_key_sorted (names : List Str) :
    (sortTypes names).Pairwise (fun a b => typeKey a ≤ typeKey b) := by
  rw [sortTypes_eq]
  split
  · exact short_pairwise _ _ ‹_›
  · exact (List.pairwise_mergeSort prioLe_trans prioLe_total names).imp
      (by intro a b h; simpa [prioLe] using h)

/-- `bytes` before `object` whatever the incoming order -/
theorem sort_types_bytes_object :
    sortTypes [['o', 'b', 'j', 'e', 'c', 't'], ['b', 'y', 't', 'e', 's']]
      = [['b', 'y', 't', 'e', 's'], ['o', 'b', 'j', 'e', 'c', 't']] ∧
    sortTypes [['b', 'y', 't', 'e', 's'], ['o', 'b', 'j', 'e', 'c', 't']]
      = [['b', 'y', 't', 'e', 's'], ['o', 'b', 'j', 'e', 'c', 't']] := by
  have key : ∀ l : List Str, l.Perm [['b', 'y', 't', 'e', 's'], ['o', 'b', 'j', 'e', 'c', 't']] →
      sortTypes l = [['b', 'y', 't', 'e', 's'], ['o', 'b', 'j', 'e', 'c', 't']] := by
    intro l hl
    have hp := (sort_types_perm l).trans hl
    refine List.Perm.eq_of_pairwise (le := fun a b => typeKey a ≤ typeKey b) ?_
      (sort_types_key_sorted l) (by decide) hp
    intro a b ha hb h1 h2
    have ha' := hp.subset ha
    simp only [List.mem_cons, List.not_mem_nil, or_false] at ha' hb
    rcases ha' with rfl | rfl <;> rcases hb with rfl | rfl <;> first | rfl | (revert h1 h2; decide)
  exact ⟨key _ (List.Perm.swap _ _ _), key _ (List.Perm.refl _)⟩

/-- … and stable: two candidates that are already in key order keep their relative order -/
theorem sort_types_stable (names : List Str) (a b : Str)
    (hab : typeKey a ≤ typeKey b) (h : [a, b].Sublist names) :
    [a, b].Sublist (sortTypes names) := by
  rw [sortTypes_eq]
  split
  · exact h
  · exact List.pair_sublist_mergeSort prioLe_trans prioLe_total (by simpa [prioLe] using hab) h

/-- The order in which table types are listed in a union does not matter: two
candidate lists that are permutations of each other are sorted to the same list. -/
theorem sort_order_independent (l₁ l₂ : List Ty) (h : l₁.Perm l₂) (ht : ∀ t ∈ l₁, t.inTable = true) :
    sortTys l₁ = sortTys l₂ := by
  have hp : (sortTys l₁).Perm (sortTys l₂) := (sortTys_perm l₁).trans (h.trans (sortTys_perm l₂).symm)
  refine List.Perm.eq_of_pairwise (le := fun a b => a.prio ≤ b.prio) ?_ (sortTys_pairwise l₁)
    (sortTys_pairwise l₂) hp
  intro a b ha hb h1 h2
  have ha' : a ∈ l₁ := (sortTys_perm l₁).subset ha
  have hb' : b ∈ l₁ := h.symm.subset ((sortTys_perm l₂).subset hb)
  exact prio_injective a b (ht a ha') (ht b hb') (by omega)

/-- **The documented priority order decides.** For a candidate list of table
types (int, bool, float, Decimal, XmlTime, XmlDate, XmlDateTime, QName, str) in
any order: if type `t` accepts the string and every candidate with a smaller
priority number rejects it, the sorted list yields `t`'s value. -/
theorem priority_decides (e : CEnv) (s : Str) (kw : Kw) (tys : List Ty) (t : Ty) (a : Atom)
    (hall : ∀ x ∈ tys, x.inTable = true) (ht : t ∈ tys)
    (hacc : atomDeserialize e t s kw = some a)
    (hlow : ∀ x ∈ tys, x.prio < t.prio → atomDeserialize e x s kw = none) :
    deserialize e s (sortTys tys) kw = some (.atom a) := by
  have hperm := sortTys_perm tys
  exact deserializeFrom_sorted e s kw t a (hall t ht) hacc (sortTys tys) 0 (sortTys_pairwise tys)
    (fun x hx => hall x (hperm.subset hx)) (hperm.symm.subset ht)
    (fun x hx => hlow x (hperm.subset hx))

/-- if no candidate accepts, the result is `ConverterError` -/
theorem deserialize_none (e : CEnv) (s : Str) (kw : Kw) (tys : List Ty)
    (h : ∀ pos, ∀ t ∈ tys, deserializeOne e pos t s kw = none) : deserialize e s tys kw = none := by
  unfold deserialize
  generalize 0 = pos
  induction tys generalizing pos with
  | nil => rfl
  | cons t ts ih =>
    unfold deserializeFrom
    rw [h pos t (by simp)]
    exact ih (fun p x hx => h p x (by simp [hx])) (pos + 1)

example : ∀ x ∈ [Ty.str, Ty.float, Ty.int], x.inTable = true := by decide

/-- the hypotheses of `priority_decides` on a concrete union `str | bool | int` and the string `"1"` -/
example : deserialize asciiCEnv ['1'] (sortTys [.str, .bool, .int]) {} = some (.atom (.int 1)) :=
  priority_decides asciiCEnv ['1'] {} [.str, .bool, .int] .int (.int 1) (by decide) (by decide)
    (by decide) (by decide)

/-- the priority numbers the documentation promises for the modelled types:
int < bool < float < Decimal < datetime < date < time < XmlTime < XmlDate < XmlDateTime <
XmlDuration < XmlPeriod < QName < str; the binary types have no entry (key 0, tried first) -/
theorem priority_order :
    Ty.int.prio < Ty.bool.prio ∧ Ty.bool.prio < Ty.float.prio ∧ Ty.float.prio < Ty.decimal.prio ∧
    Ty.decimal.prio < Ty.pyDateTime.prio ∧ Ty.pyDateTime.prio < Ty.pyDate.prio ∧ Ty.pyDate.prio < Ty.pyTime.prio ∧
    Ty.pyTime.prio < Ty.xmlTime.prio ∧ Ty.xmlTime.prio < Ty.xmlDate.prio ∧
    Ty.xmlDate.prio < Ty.xmlDateTime.prio ∧ Ty.xmlDateTime.prio < Ty.xmlDuration.prio ∧
    Ty.xmlDuration.prio < Ty.xmlPeriod.prio ∧ Ty.xmlPeriod.prio < Ty.qname.prio ∧
    Ty.qname.prio < Ty.str.prio ∧
    Ty.bytes.prio = 0 ∧ Ty.xmlHexBinary.prio = 0 ∧ Ty.xmlBase64Binary.prio = 0 := by decide

/-! ## registry lookup -/

/-- an exactly registered class uses its own converter -/
theorem type_converter_exact (reg : List Str) (c : Str) (rest : List Str) (h : reg.contains c = true) :
    typeConverter reg (c :: rest) = some c := by
  show (if reg.contains c = true then some c else _) = some c
  rw [if_pos h]

/-- otherwise the nearest registered proper ancestor other than the last MRO entry (`object`) -/
theorem type_converter_mro (reg : List Str) (c : Str) (rest : List Str) (h : reg.contains c = false) :
    typeConverter reg (c :: rest) = rest.dropLast.find? (reg.contains ·) := by
  show (if reg.contains c = true then some c else _) = _
  rw [if_neg (by rw [h]; decide)]

/-- decision table on the registry as it is in the code now: `bool` is not read as `int`,
enum classes reach `EnumConverter`, an `IntEnum` reaches `IntConverter` first, the binary
wrapper classes reach `BytesConverter`, and a plain class has no converter although
`object` is registered. -/
theorem registry_decisions :
    typeConverter Tables.registryTypes [['b','o','o','l'], ['i','n','t'], ['o','b','j','e','c','t']] = some ['b','o','o','l'] ∧
    typeConverter Tables.registryTypes [['E'], ['E','n','u','m'], ['o','b','j','e','c','t']] = some ['E','n','u','m'] ∧
    typeConverter Tables.registryTypes [['E'], ['I','n','t','E','n','u','m'], ['i','n','t'], ['R','e','p','r','E','n','u','m'],
      ['E','n','u','m'], ['o','b','j','e','c','t']] = some ['i','n','t'] ∧
    typeConverter Tables.registryTypes [['X','m','l','H','e','x','B','i','n','a','r','y'], ['b','y','t','e','s'],
      ['o','b','j','e','c','t']] = some ['b','y','t','e','s'] ∧
    typeConverter Tables.registryTypes [['P','l','a','i','n'], ['o','b','j','e','c','t']] = none := by decide

/-! ## `DataType.from_value` for ints -/

/-- `int_datatype` picks the narrowest of xs:short / xs:int / xs:long / xs:integer
whose value space contains the value (bounds written here as powers of two,
compared with the constants extracted from the code) -/
theorem int_datatype_narrowest (v : Int) :
    intDatatype v =
      if -(2 ^ 15) ≤ v ∧ v ≤ 2 ^ 15 - 1 then ['s','h','o','r','t']
      else if -(2 ^ 31) ≤ v ∧ v ≤ 2 ^ 31 - 1 then ['i','n','t']
      else if -(2 ^ 63) ≤ v ∧ v ≤ 2 ^ 63 - 1 then ['l','o','n','g']
      else ['i','n','t','e','g','e','r'] := by
  simp only [intDatatype, Tables.intDatatypeBounds, Tables.intDatatypeCodes, nthCode, List.getD_cons_zero,
    List.getD_cons_succ, Bool.and_eq_true, decide_eq_true_eq]
  rfl

/-- `float_datatype`: `xs:float` is only inferred for values within
`-1.175494351e-38 ≤ v ≤ 3.402823466e38` (constants compared with the code's) -/
theorem float_datatype_sound (l : FloatLit) (h : floatDatatype l = ['f', 'l', 'o', 'a', 't']) :
    ∃ n c x, l = .fin n c x ∧ finLe true 1175494351 (-47) n c x = true ∧
      finLe n c x false 3402823466 29 = true := by
  cases l with
  | fin n c x =>
    refine ⟨n, c, x, rfl, ?_⟩
    simp only [floatDatatype, Tables.floatDatatypeLo, Tables.floatDatatypeHi, Tables.floatDatatypeCodes,
      nthCode] at h
    by_cases hc : (finLe true 1175494351 (-47) n c x && finLe n c x false 3402823466 29) = true
    · simpa using hc
    · simp [hc] at h
  | inf n => simp [floatDatatype, Tables.floatDatatypeCodes, nthCode] at h
  | nan => simp [floatDatatype, Tables.floatDatatypeCodes, nthCode] at h

/-- `DataType.from_value` for the other primitive values (table regenerated from
`__DataTypeIndex__`): note that plain `bytes` has no datatype of its own -/
theorem from_value_table (e : Env) :
    (∀ b, fromValue e (.bool b) = ['b','o','o','l','e','a','n']) ∧
    (∀ s, fromValue e (.str s) = ['s','t','r','i','n','g']) ∧
    (∀ d, fromValue e (.dec d) = ['d','e','c','i','m','a','l']) ∧
    (∀ t, fromValue e (.qname t) = ['Q','N','a','m','e']) ∧
    (∀ bs, fromValue e (.bytes .hex bs) = ['h','e','x','B','i','n','a','r','y']) ∧
    (∀ bs, fromValue e (.bytes .b64 bs) = ['b','a','s','e','6','4','B','i','n','a','r','y']) ∧
    (∀ bs, fromValue e (.bytes .plain bs) = ['s','t','r','i','n','g']) ∧
    (∀ i, fromValue e (.int i) = intDatatype i) := by
  have hinf : Tables.dataTypeInferIndex.contains ['i', 'n', 't'] = true := by decide
  refine ⟨?_, ?_, ?_, ?_, ?_, ?_, ?_, ?_⟩
  · intro x; show ((Tables.dataTypeIndex.find? (·.1 = ['b','o','o','l'])).map (·.2)).getD Tables.defaultDatatypeCode = _; decide
  · intro x; show ((Tables.dataTypeIndex.find? (·.1 = ['s','t','r'])).map (·.2)).getD Tables.defaultDatatypeCode = _; decide
  · intro x; show ((Tables.dataTypeIndex.find? (·.1 = ['D','e','c','i','m','a','l'])).map (·.2)).getD Tables.defaultDatatypeCode = _; decide
  · intro x; show ((Tables.dataTypeIndex.find? (·.1 = ['Q','N','a','m','e'])).map (·.2)).getD Tables.defaultDatatypeCode = _; decide
  · intro x
    show ((Tables.dataTypeIndex.find? (·.1 = ['X','m','l','H','e','x','B','i','n','a','r','y'])).map
      (·.2)).getD Tables.defaultDatatypeCode = _
    decide
  · intro x
    show ((Tables.dataTypeIndex.find?
      (·.1 = ['X','m','l','B','a','s','e','6','4','B','i','n','a','r','y'])).map (·.2)).getD
        Tables.defaultDatatypeCode = _
    decide
  · intro x; show ((Tables.dataTypeIndex.find? (·.1 = ['b','y','t','e','s'])).map (·.2)).getD Tables.defaultDatatypeCode = _; decide
  · intro x
    simp only [fromValue, Atom.typeName, hinf, if_true]

/-- the format names of the binary encodings, as documented -/
theorem format_names :
    Tables.fmtBase16 = ['b','a','s','e','1','6'] ∧ Tables.fmtBase64 = ['b','a','s','e','6','4'] := by decide

/-- every namespace of the `Namespace` enum (XSI, with its hyphen, included) passes `is_uri` -/
theorem standard_namespaces_are_uris :
    Tables.standardNamespaces.all (fun x => isUri (some x.1)) = true := by
  decide +kernel

/-- the characters `is_uri` lets through, before and after `#`, include every RFC 2396
URI character: letters, digits, `; / ? : @ & = + $ ,` and `- _ . ! ~ * ' ( ) %`
(character sets regenerated from the compiled `URI_REGEX`) -/
theorem uri_chars_cover :
    rfcUriChars.all
      (fun c => Tables.uriBodyChars.contains c.toNat && Tables.uriFragmentChars.contains c.toNat) = true := by
  decide +kernel

/-- **`is_uri` on URI references**: every non-empty string of RFC 2396 URI characters
with at most one `#` is accepted (`urn:a-b`, `a,b`, `x#frag`, and namespace names with
an empty fragment such as `http://www.w3.org/2000/09/xmldsig#`) -/
theorem is_uri_accepts (u : Str) (h : isRfcUriRef u = true) : isUri (some u) = true :=
  isUri_of_rfc u h

example : isRfcUriRef ['u','r','n',':','a','-','b',',','c','#'] = true := by decide

example : floatDatatype (.fin false 15 (-1)) = ['f', 'l', 'o', 'a', 't'] := by decide

/-! ## `test(strict=True)` -/

/-- a strict test on `int` succeeds only for the canonical spelling `str(int(s))` -/
theorem test_strict_int_sound (e : CEnv) (s : Str) (kw : Kw) (h : test e s [.int] true kw = true) :
    ∃ i, intDeserialize e.toEnv s = some i ∧ e.strip s = intSerialize i := by
  simp only [test, deserialize, deserializeFrom, deserializeOne, atomDeserialize] at h
  cases hd : intDeserialize e.toEnv s with
  | none => simp [hd] at h
  | some i =>
    simp [hd] at h
    exact ⟨i, rfl, h⟩

example : test asciiCEnv ['4', '2'] [.int] true {} = true := by decide

/-- a strict test on `Decimal` succeeds only when re-serialising gives the input back -/
theorem test_strict_decimal_sound (e : CEnv) (s : Str) (kw : Kw) (h : test e s [.decimal] true kw = true) :
    ∃ d, decimalDeserialize e.toEnv s = some d ∧ e.strip s = decimalSerialize d := by
  simp only [test, deserialize, deserializeFrom, deserializeOne, atomDeserialize] at h
  cases hd : decimalDeserialize e.toEnv s with
  | none => simp [hd] at h
  | some d =>
    simp [hd] at h
    exact ⟨d, rfl, h⟩

/-- `bool` is an `int` subclass, so a strict test rejects the XSD forms `1` and `0` -/
theorem test_strict_bool_rejects_digits (e : CEnv) (kw : Kw) :
    test e ['1'] [.bool] true kw = false ∧ test e ['0'] [.bool] true kw = false ∧
    test e ['1'] [.bool] false kw = true := by
  have h1 : e.toEnv.strip ['1'] = ['1'] := stripBy_tight _ _ (Or.inr ⟨⟨'1', [], rfl, by
    rw [isSpace_ascii _ _ (by decide)]; decide⟩, ⟨[], '1', rfl, by rw [isSpace_ascii _ _ (by decide)]; decide⟩⟩)
  have h0 : e.toEnv.strip ['0'] = ['0'] := stripBy_tight _ _ (Or.inr ⟨⟨'0', [], rfl, by
    rw [isSpace_ascii _ _ (by decide)]; decide⟩, ⟨[], '0', rfl, by rw [isSpace_ascii _ _ (by decide)]; decide⟩⟩)
  simp only [test, deserialize, deserializeFrom, deserializeOne, atomDeserialize, boolDeserialize, h1, h0]
  decide

/-! ## xs:QName -/

/-- `QName.text` of a qualified name: `local` or `{uri}local` -/
def qtext (ns : Option Str) (l : Str) : Str :=
  match ns with
  | none => l
  | some u => '{' :: u ++ '}' :: l

/-- a prefix map as xsdata builds it: a dict (unique keys) whose keys are `None`
or NCNames -/
def MapOk (e : CEnv) (m : NsMap) : Prop :=
  KeysNodup m ∧ ∀ kv ∈ m, kv.1 = none ∨ ∃ p, kv.1 = some p ∧ isNcName e p = true

/-- a QName value: the local part is an NCName, the namespace (if any) a non-empty
string without `}` -/
def QNameOk (e : CEnv) (ns : Option Str) (l : Str) : Prop :=
  isNcName e l = true ∧ ∀ u, ns = some u → u ≠ [] ∧ '}' ∉ u

/-- **Full strength**: every QName written under a prefix map is read back,
under the (possibly extended) map, as the same QName. -/
def QNameRoundTrip : Prop :=
  ∀ (e : CEnv) (ns : Option Str) (l : Str) (m : NsMap), EnvOk e → MapOk e m → QNameOk e ns l →
    ∃ s m', qnameSerialize (qtext ns l) (some m) = some (s, some m') ∧
      qnameDeserialize e s (some m') = some (qtext ns l)

theorem asciiCEnv_ok : EnvOk asciiCEnv := by
  intro c hs
  simp only [asciiCEnv, Env.isSpace, Env.ascii] at hs
  by_cases hasc : isAscii c = true
  · simp only [hasc, if_true] at hs
    simp only [ncChar, CEnv.isAlpha, Env.isDigit, asciiCEnv, Env.ascii, hasc, if_true]
    simp only [isAsciiSpace, isAsciiAlpha, isAsciiDigit, Bool.or_eq_true, Bool.and_eq_true,
      decide_eq_true_eq, Tables.ncnamePunctuation] at *
    have h95 : c ≠ '_' := by
      intro h; subst h; revert hs; decide
    simp [h95]
    omega
  · simp [hasc] at hs

/-- **The code violates it**: `QName("y")` (no namespace) written under
`{None: "urn:x"}` is `"y"`, which is read back as `{urn:x}y`. -/
theorem qname_default_ns_counterexample : ¬ QNameRoundTrip := by
  intro h
  obtain ⟨s, m', h1, h2⟩ := h asciiCEnv none ['y'] [(none, ['u','r','n',':','x'])] asciiCEnv_ok
    ⟨by unfold KeysNodup; decide, by decide⟩ ⟨by decide, by intro u hu; cases hu⟩
  have hs : qnameSerialize (qtext none ['y']) (some [(none, ['u','r','n',':','x'])])
      = some (['y'], some [(none, ['u','r','n',':','x'])]) := by decide
  rw [hs] at h1
  injection h1 with h1
  injection h1 with hs' hm'
  subst hs'
  injection hm' with hm'
  subst hm'
  revert h2
  decide

/-- the concrete witness, as the code computes it -/
theorem qname_default_ns_witness :
    qnameSerialize ['y'] (some [(none, ['u','r','n',':','x'])]) = some (['y'], some [(none, ['u','r','n',':','x'])]) ∧
    qnameDeserialize asciiCEnv ['y'] (some [(none, ['u','r','n',':','x'])])
      = some ['{','u','r','n',':','x','}','y'] := by decide

/-- **Provable part**: the round trip holds for every QName with a namespace, and
for a QName without namespace whenever the map has no (non-empty) default
namespace. The prefix map may be extended by a generated prefix (`xs`, `ns3`, …);
reading uses the extended map, as the serializer does. -/
theorem qname_rt_partial (e : CEnv) (ns : Option Str) (l : Str) (m : NsMap)
    (hok : EnvOk e) (hm : MapOk e m) (hq : QNameOk e ns l)
    (hdef : ns = none → (m.get none).getD [] = []) :
    ∃ s m', qnameSerialize (qtext ns l) (some m) = some (s, some m') ∧
      qnameDeserialize e s (some m') = some (qtext ns l) := by
  obtain ⟨hl, hns⟩ := hq
  obtain ⟨a, r, hlr, _⟩ := ncName_head e l hl
  have hab : a ≠ '{' := by
    intro hx
    have := (ncName_chars e l hl).2 a (by simp [hlr])
    rw [hx, brace_not_ncChar e] at this; cases this
  have hlne : l ≠ [] := (ncName_chars e l hl).1
  cases ns with
  | none =>
    refine ⟨l, m, ?_, ?_⟩
    · simp only [qtext, qnameSerialize]
      subst hlr
      simp [splitQName_nobrace a r hab]
    · rw [deser_bare e hok l m hl]
      have hd := hdef rfl
      by_cases hme : m.isEmpty
      · simp [hme, qtext]
      · simp only [hme, qtext]
        cases hg : m.get none with
        | none => simp
        | some u =>
          simp [hg] at hd
          simp [hd]
  | some u =>
    obtain ⟨hune, hubr⟩ := hns u rfl
    have hsplit : splitQName (qtext (some u) l) = (some u, l) := by
      have h1 := textSplit_at '}' u l hubr hlne
      cases u with
      | nil => exact absurd rfl hune
      | cons x xs =>
        simp only [List.cons_append] at h1
        simp [qtext, splitQName, h1]
    have htext : (qtext (some u) l).isEmpty = false := by simp [qtext]
    unfold qnameSerialize
    simp only [htext, hsplit]
    unfold loadPrefix
    cases hf : m.find? (·.2 = u) with
    | some pv =>
      obtain ⟨p, v⟩ := pv
      have hmem := find_mem m u p v hf
      have hget := get_of_mem m p u hm.1 hmem
      have hmne : m.isEmpty = false := by cases m <;> simp_all
      cases p with
      | none =>
        refine ⟨l, m, by simp, ?_⟩
        rw [deser_bare e hok l m hl]
        have huE : u.isEmpty = false := by cases u <;> simp_all
        simp [hmne, hget, qtext, hune]
      | some p' =>
        rcases hm.2 _ hmem with h0 | ⟨q, hq1, hq2⟩
        · cases h0
        · injection hq1 with hq1
          subst hq1
          have hp'ne : p'.isEmpty = false := by
            have := (ncName_chars e p' hq2).1
            cases p' <;> simp_all
          refine ⟨p' ++ ':' :: l, m, by simp [hp'ne], ?_⟩
          exact deser_prefixed e hok p' l u m (ncName_goodPrefix e hok p' hq2) hl hune hmne hget
    | none =>
      have hg := generatePrefix_good e u m
      have hmap := generatePrefix_map u m
      obtain ⟨a', r', hpe, _⟩ := hg
      refine ⟨(generatePrefix u m).1 ++ ':' :: l, (generatePrefix u m).2, ?_, ?_⟩
      · simp [hpe]
      · rw [hmap]
        exact deser_prefixed e hok _ l u _ (generatePrefix_good e u m) hl hune (set_ne_nil _ _ _)
          (get_set_same _ _ _)

example : MapOk asciiCEnv [(some ['x','s'], ['u','r','n',':','a']), (none, ['u','r','n',':','d'])] ∧
    QNameOk asciiCEnv (some ['u','r','n',':','b']) ['a','.','b'] := by
  refine ⟨⟨by unfold KeysNodup; decide, by decide⟩, by decide, ?_⟩
  intro u hu; injection hu with hu; subst hu; decide

/-- `prefix:local` with a bound prefix, any XSD white space around it, denotes
`{uri}local` -/
theorem qname_accepts_prefixed (e : CEnv) (hok : EnvOk e) (pre post p l u : Str) (m : NsMap)
    (hpre : AllXsdSpace pre) (hpost : AllXsdSpace post)
    (hp : isNcName e p = true) (hl : isNcName e l = true) (hget : m.get (some p) = some u) (hu : u ≠ []) :
    qnameDeserialize e (pre ++ (p ++ ':' :: l) ++ post) (some m) = some ('{' :: u ++ '}' :: l) := by
  have hg := ncName_goodPrefix e hok p hp
  rw [qnameDeserialize_pad e pre post _ _ hpre hpost (prefixed_tight e hok p l hg hl)]
  have hmne : m.isEmpty = false := by
    cases m with
    | nil => simp [NsMap.get] at hget
    | cons a r => rfl
  exact deser_prefixed e hok p l u m hg hl hu hmne hget

example : qnameDeserialize asciiCEnv [' ', 'x', 's', ':', 'i', 'n', 't', Char.ofNat 10]
    (some [(some ['x', 's'], ['u', 'r', 'n', ':', 'x'])]) = some ['{', 'u', 'r', 'n', ':', 'x', '}', 'i', 'n', 't'] := by
  decide

/-- an unprefixed name denotes a name in the default namespace of the map, or in no
namespace when there is none (XSD's rule for QName values) -/
theorem qname_accepts_bare (e : CEnv) (hok : EnvOk e) (pre post l : Str) (m : NsMap)
    (hpre : AllXsdSpace pre) (hpost : AllXsdSpace post) (hl : isNcName e l = true) :
    qnameDeserialize e (pre ++ l ++ post) (some m) =
      some (match m.get none with
        | some u => if u.isEmpty then l else '{' :: u ++ '}' :: l
        | none => l) := by
  rw [qnameDeserialize_pad e pre post _ _ hpre hpost (ncName_tight e hok l hl), deser_bare e hok l m hl]
  cases m with
  | nil => simp [NsMap.get]
  | cons a r =>
    simp only [List.isEmpty_cons, Bool.false_eq_true, if_false]
    cases NsMap.get (a :: r) none <;> rfl

/-- the names `is_ncname` must at least accept: every ASCII NCName (letters,
digits, `.`, `-`, `_`), whatever the Unicode tables say -/
theorem ncname_ascii_accepts (e : CEnv) (s : Str) (h : isAsciiNcName s = true) : isNcName e s = true :=
  isNcName_of_ascii e s h

example : isAsciiNcName ['f', 'o', 'o', '-', 'b', 'a', 'r', '.', '1', '_'] = true := by decide

/-- **Full strength**: `is_ncname` accepts every XML NCName (so every xs:QName
lexical form with bound prefix is accepted). -/
def NcNameComplete (e : CEnv) : Prop := ∀ s, isXmlNcName s = true → isNcName e s = true

/-- **The code violates it** on the Unicode tables of the running interpreter:
`कि` (U+0915 DEVANAGARI KA, U+093F VOWEL SIGN I) and `á` written with a
combining acute (U+0061 U+0301) are NCNames, but a vowel sign / combining mark is
neither `isalpha()` nor `isdigit()`. The provable part is `ncname_ascii_accepts`. -/
theorem ncname_unicode_counterexample : ¬ NcNameComplete (tblCEnv fun _ => []) := by
  intro h
  have := h [Char.ofNat 0x915, Char.ofNat 0x93F] (by decide +kernel)
  revert this
  decide +kernel

theorem ncname_combining_mark_witness :
    isXmlNcName ['a', Char.ofNat 0x301] = true ∧ isNcName (tblCEnv fun _ => []) ['a', Char.ofNat 0x301] = false := by
  decide +kernel

/-! ### QName without prefix map (`{uri}local` notation) -/

/-- the XML Signature namespace (empty fragment) is a URI for `is_uri` -/
theorem xmldsig_namespace_is_uri :
    isUri (some ['h','t','t','p',':','/','/','w','w','w','.','w','3','.','o','r','g','/','2','0','0','0','/',
      '0','9','/','x','m','l','d','s','i','g','#']) = true := by decide +kernel

/-- round trip for every QName whose namespace `is_uri` accepts (lemma for `qname_nomap_rt`) -/
theorem qname_nomap_rt_of_is_uri (e : CEnv) (ns : Option Str) (l : Str) (hok : EnvOk e)
    (hq : QNameOk e ns l) (huri : ∀ u, ns = some u → isUri (some u) = true) :
    qnameSerialize (qtext ns l) none = some (qtext ns l, none) ∧
    qnameDeserialize e (qtext ns l) none = some (qtext ns l) := by
  refine ⟨rfl, ?_⟩
  obtain ⟨hl, hns⟩ := hq
  obtain ⟨hlne, hlall⟩ := ncName_chars e l hl
  have hsp' : ¬ ' ' ∈ l := ncName_not_mem e _ hl ' ' (space_not_ncChar e)
  cases ns with
  | none =>
    obtain ⟨a, r, rfl, _⟩ := ncName_head e l hl
    have hab : a ≠ '{' := by
      intro hx
      have := hlall a (by simp)
      rw [hx, brace_not_ncChar e] at this; cases this
    have hstrip : e.strip (a :: r) = a :: r := by
      rw [strip_eq_stripBy]; exact stripBy_tight _ _ (ncName_tight e hok _ hl)
    have hcolon : ':' ∉ a :: r := ncName_not_mem e _ hl ':' (colon_not_ncChar e)
    simp only [qtext, qnameDeserialize, qnameResolve, hstrip, hab, if_false,
      textSplit_absent ':' _ hcolon]
    simp [hsp', hl]
  | some u =>
    obtain ⟨hune, hubr⟩ := hns u rfl
    have hu := huri u rfl
    have htight : Tight e.isSpace ('{' :: u ++ '}' :: l) := by
      right
      refine ⟨⟨'{', u ++ '}' :: l, rfl, by rw [isSpace_ascii e.toEnv _ (by decide)]; decide⟩, ?_⟩
      obtain ⟨r', z, hz⟩ := exists_last l hlne
      exact ⟨'{' :: u ++ '}' :: r', z, by simp [hz], ncChar_not_space e hok z (hlall z (by simp [hz]))⟩
    have hstrip : e.strip ('{' :: u ++ '}' :: l) = '{' :: u ++ '}' :: l := by
      rw [strip_eq_stripBy]; exact stripBy_tight _ _ htight
    have hsplit := textSplit_at '}' u l hubr hlne
    have hstrip' : e.strip ('{' :: (u ++ '}' :: l)) = '{' :: (u ++ '}' :: l) := by simpa using hstrip
    simp only [qtext, qnameDeserialize, qnameResolve, List.cons_append, hstrip', if_true, hsplit, hu]
    simp [hsp', hl, hune]

/-- **Full strength** (was refuted by `{urn:x#}c` before the empty fragment was
accepted): without `ns_map` a QName whose namespace is an RFC 2396 URI reference is
written as its `.text` and that text is read back as the same QName. -/
theorem qname_nomap_rt (e : CEnv) (ns : Option Str) (l : Str) (hok : EnvOk e)
    (hq : QNameOk e ns l) (huri : ∀ u, ns = some u → isRfcUriRef u = true) :
    qnameSerialize (qtext ns l) none = some (qtext ns l, none) ∧
    qnameDeserialize e (qtext ns l) none = some (qtext ns l) :=
  qname_nomap_rt_of_is_uri e ns l hok hq (fun u hu => is_uri_accepts u (huri u hu))

example : QNameOk asciiCEnv (some ['u','r','n',':','a','-','b','#']) ['c'] ∧
    isRfcUriRef ['u','r','n',':','a','-','b','#'] = true := by
  refine ⟨⟨by decide, ?_⟩, by decide⟩
  intro u hu; injection hu with hu; subst hu; decide

/-! ## enumerations -/

/-- enum class whose member values are the given strings -/
def strEnum (vals : List Str) : List EnumVal := vals.map (fun v => .atom (.str v))

/-- enum class whose member values are the given ints -/
def intEnum (vals : List Int) : List EnumVal := vals.map (fun v => .atom (.int v))

/-- **Full strength**: every member of a string enumeration with distinct values
is found again from its serialised value. -/
def EnumStrRoundTrip : Prop :=
  ∀ (e : CEnv) (vals : List Str) (i : Nat) (h : i < vals.length) (kw : Kw), vals.Nodup →
    enumSerialize (.atom (.str vals[i])) kw = .ok (vals[i], kw.nsMap) ∧
    enumDeserialize e (strEnum vals) vals[i] kw = some i

/-- **Still false** when two members differ only in white space: the lenient
match on the stripped / re-joined input finds the *other* member first
(`" x"` in an enumeration that also has `"x"`). A member whose value merely has
surrounding white space is found since the verbatim fallback exists. -/
theorem enum_str_variant_counterexample : ¬ EnumStrRoundTrip := by
  intro h
  have := (h asciiCEnv [['x'], [' ', 'x']] 1 (by decide) {} (by decide)).2
  revert this
  decide

/-- no *other* member is a white-space variant (stripped or re-joined form) of member `i` -/
def NoWsVariant (e : CEnv) (vals : List Str) (i : Nat) (h : i < vals.length) : Prop :=
  ∀ j (hj : j < vals.length), j ≠ i →
    vals[j] ≠ e.strip vals[i] ∧ vals[j] ≠ joinSp (splitWs e.toEnv (e.strip vals[i]))

/-- **Provable part**: round trip for every member — whatever white space its value
has — provided no other member is a white-space variant of it -/
theorem enum_str_rt_partial (e : CEnv) (vals : List Str) (i : Nat) (h : i < vals.length) (kw : Kw)
    (hnd : vals.Nodup) (hv : NoWsVariant e vals i h) :
    enumSerialize (.atom (.str vals[i])) kw = .ok (vals[i], kw.nsMap) ∧
    enumDeserialize e (strEnum vals) vals[i] kw = some i := by
  refine ⟨rfl, ?_⟩
  have hlen : i < (strEnum vals).length := by simpa [strEnum] using h
  have hother : ∀ j (hj : j < vals.length), j ≠ i →
      enumMatch e (e.strip vals[i]) (splitWs e.toEnv (e.strip vals[i])) (.atom (.str vals[j])) kw = false := by
    intro j hj hji
    obtain ⟨h1, h2⟩ := hv j hj hji
    simp [enumMatch, h1, h2]
  unfold enumDeserialize
  by_cases hm : vals[i] = e.strip vals[i] ∨ vals[i] = joinSp (splitWs e.toEnv (e.strip vals[i]))
  · -- the member itself matches the stripped / re-joined input
    have hfind : (strEnum vals).findIdx?
        (fun m => enumMatch e (e.strip vals[i]) (splitWs e.toEnv (e.strip vals[i])) m kw) = some i := by
      rw [List.findIdx?_eq_some_iff_getElem]
      refine ⟨hlen, ?_, ?_⟩
      · rcases hm with hm | hm
        · simp only [strEnum, List.getElem_map, enumMatch, Bool.or_eq_true, decide_eq_true_eq]
          exact Or.inl hm
        · simp only [strEnum, List.getElem_map, enumMatch, Bool.or_eq_true, decide_eq_true_eq]
          exact Or.inr hm
      · intro j hji
        have := hother j (Nat.lt_trans hji h) (by omega)
        simp [strEnum, this]
    simp only [hfind]
  · -- otherwise nobody matches, and the verbatim fallback finds exactly this member
    have hnone : (strEnum vals).findIdx?
        (fun m => enumMatch e (e.strip vals[i]) (splitWs e.toEnv (e.strip vals[i])) m kw) = none := by
      rw [List.findIdx?_eq_none_iff]
      intro m hmem
      obtain ⟨j, hj, rfl⟩ := List.getElem_of_mem hmem
      have hj' : j < vals.length := by simpa [strEnum] using hj
      by_cases hji : j = i
      · subst hji
        simp only [strEnum, List.getElem_map, enumMatch, Bool.or_eq_false_iff, decide_eq_false_iff_not]
        exact ⟨fun h1 => hm (Or.inl h1), fun h2 => hm (Or.inr h2)⟩
      · have := hother j hj' hji
        simpa [strEnum] using this
    have hraw : vals[i] ≠ e.strip vals[i] := fun h1 => hm (Or.inl h1)
    simp only [hnone, ne_eq, hraw, not_false_eq_true, if_true]
    rw [List.findIdx?_eq_some_iff_getElem]
    refine ⟨hlen, by simp [strEnum, exactRaw], ?_⟩
    intro j hji
    have hj : j < vals.length := Nat.lt_trans hji h
    have hne : vals[j] ≠ vals[i] := by
      intro heq
      have := (List.getElem_inj hnd).mp heq
      omega
    simp [strEnum, exactRaw, hne]

/-- an enumeration with a single string member: **every** value round-trips,
including `" x"`, `" "` and `"a  b"` (this was finding C05-enum-str-whitespace) -/
theorem enum_str_rt_single (e : CEnv) (v : Str) (kw : Kw) :
    enumSerialize (.atom (.str v)) kw = .ok (v, kw.nsMap) ∧
    enumDeserialize e (strEnum [v]) v kw = some 0 := by
  have := enum_str_rt_partial e [v] 0 (by simp) kw (by simp) (by
    intro j hj hji
    simp at hj
    omega)
  simpa using this

/-- a string value that survives `strip()` and `" ".join(split())` unchanged
(xs:token-like values) -/
def Collapsed (e : CEnv) (v : Str) : Prop := e.strip v = v ∧ joinSp (splitWs e.toEnv v) = v

/-- members with collapsed values round-trip in every enumeration with distinct values -/
theorem enum_str_rt_collapsed (e : CEnv) (vals : List Str) (i : Nat) (h : i < vals.length) (kw : Kw)
    (hnd : vals.Nodup) (hc : Collapsed e vals[i]) :
    enumSerialize (.atom (.str vals[i])) kw = .ok (vals[i], kw.nsMap) ∧
    enumDeserialize e (strEnum vals) vals[i] kw = some i := by
  refine enum_str_rt_partial e vals i h kw hnd ?_
  intro j hj hji
  have hne : vals[j] ≠ vals[i] := by
    intro heq
    exact hji ((List.getElem_inj hnd).mp heq)
  rw [hc.1, hc.2]
  exact ⟨hne, hne⟩

example : Collapsed asciiCEnv ['a', ' ', 'b'] := by unfold Collapsed; decide

example : NoWsVariant asciiCEnv [[' ', 'x'], ['y']] 0 (by decide) := by
  intro j hj hji
  match j, hj, hji with
  | 0, _, h0 => exact absurd rfl h0
  | 1, _, _ =>
    simp only [List.getElem_cons_succ, List.getElem_cons_zero]
    decide

/-- int enumerations: every member is found again from `str(value)` -/
theorem enum_int_rt (e : CEnv) (vals : List Int) (i : Nat) (h : i < vals.length) (kw : Kw)
    (hnd : vals.Nodup) :
    enumSerialize (.atom (.int vals[i])) kw = .ok (intSerialize vals[i], kw.nsMap) ∧
    enumDeserialize e (intEnum vals) (intSerialize vals[i]) kw = some i := by
  refine ⟨rfl, ?_⟩
  have hstrip := intStr_strip e.toEnv vals[i]
  have hsplit := splitWs_token e.toEnv (intStr vals[i]) (intStr_ne_nil _) (intStr_nospace e.toEnv _)
  have hrt := int_rt e.toEnv vals[i]
  unfold enumDeserialize intSerialize
  simp only [hstrip, hsplit]
  suffices hfind : List.findIdx? (fun m => enumMatch e (intStr vals[i]) [intStr vals[i]] m kw) (intEnum vals)
      = some i by simp [hfind]
  rw [List.findIdx?_eq_some_iff_getElem]
  refine ⟨by simpa [intEnum] using h, ?_, ?_⟩
  · simp [intEnum, enumMatch, matchAtomic, Atom.ty, atomDeserialize]
    unfold intSerialize at hrt
    simp [hrt]
  · intro j hji
    have hj : j < vals.length := Nat.lt_trans hji h
    have hne : vals[i] ≠ vals[j] := by
      intro heq
      have := (List.getElem_inj hnd).mp heq
      omega
    unfold intSerialize at hrt
    simp [intEnum, enumMatch, matchAtomic, Atom.ty, atomDeserialize, hrt, hne]

/-- **token-list enumerations** (full strength; `serialize` raised ConverterError for
tuple values before): a member whose value is a tuple of tokens is written as the
tokens joined by blanks and found again from that string -/
theorem enum_tuple_rt (e : CEnv) (hok : EnvOk e) (toks : List Str) (kw : Kw)
    (h : ∀ t ∈ toks, isNcName e t = true) :
    enumSerialize (.tuple (toks.map .str)) kw = .ok (joinSp toks, kw.nsMap) ∧
    enumDeserialize e [.tuple (toks.map .str)] (joinSp toks) kw = some 0 := by
  have htok : ∀ t ∈ toks, Tok e.toEnv t := by
    intro t ht
    obtain ⟨hne, hall⟩ := ncName_chars e t (h t ht)
    exact ⟨hne, fun c hc => ncChar_not_space e hok c (hall c hc)⟩
  constructor
  · simp [enumSerialize, strAtoms_serialize]
  · have hstrip : e.strip (joinSp toks) = joinSp toks := by
      rw [strip_eq_stripBy]; exact stripBy_tight _ _ (joinSp_tight e.toEnv toks htok)
    unfold enumDeserialize
    simp only [hstrip, splitWs_joinSp e.toEnv toks htok]
    have : List.findIdx? (fun m => enumMatch e (joinSp toks) toks m kw) [EnumVal.tuple (toks.map Atom.str)]
        = some 0 := by
      simp [List.findIdx?_cons, enumMatch, matchList_strs]
    simp [this]

example : ∀ t ∈ [['a'], ['b', '-', 'c']], isNcName asciiCEnv t = true := by decide

/-- a tuple value on its own is joined like a list -/
theorem tuple_serializes_like_list (kw : Kw) (items : List Atom) :
    enumSerialize (.tuple items) kw =
      (match listSerialize kw items with
        | .ok (ss, m) => .ok (joinSp ss, m)
        | .error x => .error x) := rfl

/-! ## the hypotheses of the theorems above are satisfiable (one concrete, non-trivial instance each) -/

-- 1 bool_accepts
example : boolDeserialize Env.ascii ([' ', Char.ofNat 10] ++ ['1'] ++ [Char.ofNat 9]) = some true :=
  bool_accepts Env.ascii _ _ _ _ (by intro c hc; simp at hc; rcases hc with rfl | rfl <;> decide)
    (by intro c hc; simp at hc; subst hc; decide) (by unfold XsdBoolean; decide)

-- 2 int_accepts
example : XsdInteger ['+', '0', '0', '7'] 7 :=
  ⟨.plus, ['0', '0', '7'], rfl, by simp, by unfold AllDigits; decide, by decide⟩

-- 3 decimal_accepts
example : XsdDecimal ['-', '.', '5', '0'] true 50 (-2) ∧ (Dec.fin true 50 (-2)).inRange = true :=
  ⟨⟨.minus, [], ['5', '0'], true, rfl, (by intro c h; cases h), by unfold AllDigits; decide,
    Or.inr ⟨rfl, by simp⟩, (by intro h; cases h), rfl, by decide, by decide⟩, by decide⟩

-- 4 float_accepts
example : XsdDouble ['.', '5', 'E', '-', '7'] (.fin false 5 (-8)) :=
  Or.inl ⟨.none, [], ['5'], true, some (true, .minus, ['7']), rfl, (by intro c h; cases h),
    by unfold AllDigits; decide, Or.inr ⟨rfl, by simp⟩, (by intro h; cases h),
    ⟨by simp, by unfold AllDigits; decide⟩, by decide⟩

-- 5 hex_accepts / b64_accepts / b64_rt : the removeWs hypothesis
example : removeWs Env.ascii ['Q', 'Q', Char.ofNat 10, '=', ' ', '='] = b64Encode [65] ∧
    removeWs Env.ascii ['0', 'a', ' ', 'F', 'f'] = ['0', 'a', 'F', 'f'] := by decide

-- 6 sort_types_stable
example : typeKey ['i', 'n', 't'] ≤ typeKey ['s', 't', 'r'] ∧
    [['i', 'n', 't'], ['s', 't', 'r']].Sublist [['i', 'n', 't'], ['b', 'o', 'o', 'l'], ['s', 't', 'r']] := by
  decide

-- 7 sort_order_independent
example : [Ty.str, .float, .int].Perm [.int, .str, .float] := by decide

-- 8 deserialize_none
example : ∀ pos, ∀ t ∈ [Ty.int, Ty.bool], deserializeOne asciiCEnv pos t ['x'] {} = none := by
  intro pos t ht
  simp at ht
  rcases ht with rfl | rfl <;> (simp only [deserializeOne]; decide)

-- 9 type_converter_exact / type_converter_mro
example : Tables.registryTypes.contains ['b', 'o', 'o', 'l'] = true ∧
    Tables.registryTypes.contains ['P', 'l', 'a', 'i', 'n'] = false := by decide

-- 10 test_strict_decimal_sound
example : test asciiCEnv [' ', '1', '.', '5', '0'] [.decimal] true {} = true := by decide

-- 11 qname_accepts_bare
example : isNcName asciiCEnv ['a', '.', 'b'] = true := by decide

-- 12 enum_int_rt
example : [(1 : Int), 10, -5].Nodup := by decide

end Props.C05
