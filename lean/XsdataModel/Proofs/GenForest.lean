/-
Every event list the event generator (`Bind/Gen.lean`) produces is well nested:
START/END pairs enclose well-nested lists; DATA and ATTR events are items.
(That ATTR events directly follow a START or another ATTR is a separate, flat
condition — an `AnyElement` without qname but with attributes breaks it.)
-/
import XsdataModel.Bind.Gen

namespace Proofs.GenForest
open Py Xs.Bind

/-- well-nested event lists (ATTR events tolerated as items) -/
inductive BForest : List Ev → Prop
  | nil : BForest []
  | data (d : Data) {rest : List Ev} : BForest rest → BForest (Ev.data d :: rest)
  | attr (q : QN) (d : Data) {rest : List Ev} : BForest rest → BForest (Ev.attr q d :: rest)
  | elem (q : QN) {kids rest : List Ev} : BForest kids → BForest rest →
      BForest (Ev.start q :: (kids ++ Ev.end q :: rest))

theorem BForest.append {a b : List Ev} (ha : BForest a) (hb : BForest b) : BForest (a ++ b) := by
  induction ha with
  | nil => simpa using hb
  | data d _ ih => exact BForest.data d ih
  | attr q d _ ih => exact BForest.attr q d ih
  | elem q hk _ _ ihr =>
    have := BForest.elem q hk ihr
    simpa [List.append_assoc] using this

theorem BForest.flatten {parts : List (List Ev)} (h : ∀ p ∈ parts, BForest p) : BForest parts.flatten := by
  induction parts with
  | nil => exact BForest.nil
  | cons p r ih =>
    simp only [List.flatten_cons]
    exact (h p (by simp)).append (ih (fun q hq => h q (List.mem_cons_of_mem _ hq)))

theorem BForest.wrap (q : QN) {kids : List Ev} (h : BForest kids) : BForest ([Ev.start q] ++ kids ++ [Ev.end q]) := by
  have := BForest.elem q h BForest.nil
  simpa using this

theorem bind_ok {α β : Type} {x : Except Err α} {f : α → Except Err β} {b : β}
    (h : (x >>= f) = .ok b) : ∃ a, x = .ok a ∧ f a = .ok b := by
  cases x with
  | error e => cases h
  | ok a => exact ⟨a, rfl, h⟩

theorem ite_cases {α : Type} {c : Prop} [Decidable c] {a b r : α} (h : (if c then a else b) = r) :
    (c ∧ a = r) ∨ (¬ c ∧ b = r) := by
  by_cases hc : c
  · rw [if_pos hc] at h; exact Or.inl ⟨hc, h⟩
  · rw [if_neg hc] at h; exact Or.inr ⟨hc, h⟩

theorem mapM_ok {α β : Type} (f : α → Except Err β) : ∀ (xs : List α) (ys : List β),
    xs.mapM f = .ok ys → ∀ y ∈ ys, ∃ x ∈ xs, f x = .ok y := by
  intro xs
  induction xs with
  | nil => intro ys h; simp [List.mapM_nil, pure, Except.pure] at h; subst h; simp
  | cons x r ih =>
    intro ys h
    rw [List.mapM_cons] at h
    obtain ⟨y0, h0, h1⟩ := bind_ok h
    obtain ⟨ys0, h2, h3⟩ := bind_ok h1
    simp only [pure, Except.pure, Except.ok.injEq] at h3
    subst h3
    intro y hy
    rcases List.mem_cons.mp hy with rfl | hm
    · exact ⟨x, by simp, h0⟩
    · obtain ⟨x', hx', hf⟩ := ih ys0 h2 y hm
      exact ⟨x', List.mem_cons_of_mem _ hx', hf⟩

end Proofs.GenForest

namespace Proofs.GenForest
open Py Xs.Bind

def allAttr (evs : List Ev) : Prop := ∀ ev ∈ evs, ∃ q d, ev = Ev.attr q d

theorem BForest.ofAttrs {evs : List Ev} (h : allAttr evs) : BForest evs := by
  induction evs with
  | nil => exact BForest.nil
  | cons ev r ih =>
    obtain ⟨q, d, rfl⟩ := h ev (by simp)
    exact BForest.attr q d (ih (fun x hx => h x (List.mem_cons_of_mem _ hx)))

theorem allAttr_append {a b : List Ev} (ha : allAttr a) (hb : allAttr b) : allAttr (a ++ b) := by
  intro ev hev
  rcases List.mem_append.mp hev with h | h
  · exact ha ev h
  · exact hb ev h

theorem allAttr_flatten {parts : List (List Ev)} (h : ∀ p ∈ parts, allAttr p) : allAttr parts.flatten := by
  intro ev hev
  obtain ⟨p, hp, hin⟩ := List.mem_flatten.mp hev
  exact h p hp ev hin

theorem elemShape (q : QN) (a b : List Ev) (d : Data) (ha : allAttr a) (hb : allAttr b) :
    BForest ([Ev.start q] ++ a ++ b ++ [Ev.data d, Ev.end q]) := by
  have hk : BForest ((a ++ b) ++ [Ev.data d]) :=
    (BForest.ofAttrs (allAttr_append ha hb)).append (BForest.data d BForest.nil)
  have := BForest.wrap q hk
  simpa [List.append_assoc] using this

theorem allAttr_ite (c : Bool) (q : QN) (d : Data) : allAttr (if c then [Ev.attr q d] else []) := by
  intro ev hev
  cases c <;> simp at hev
  exact ⟨q, d, hev⟩

theorem convertElement_forest (var : VarCore) (v : Val) (evs : List Ev)
    (h : convertElement var v = .ok evs) : BForest evs := by
  unfold convertElement at h
  obtain ⟨d, _, h1⟩ := bind_ok h
  simp only [pure, Except.pure, Except.ok.injEq] at h1
  rw [← h1]
  apply elemShape
  · exact allAttr_ite _ _ _
  · cases v with
    | prim p => exact allAttr_ite _ _ _
    | _ => intro ev hev; simp at hev

end Proofs.GenForest

namespace Proofs.GenForest
open Py Xs.Bind

theorem nextAttribute_allAttr (cfg : SerCfg) (m : XmlMeta) (fields : List (Str × Val)) (nillable : Bool)
    (xt : Option QN) (evs : List Ev) (h : nextAttribute cfg m fields nillable xt = .ok evs) : allAttr evs := by
  unfold nextAttribute at h
  obtain ⟨parts, hparts, h1⟩ := bind_ok h
  simp only [pure, Except.pure, Except.ok.injEq] at h1
  rw [← h1]
  refine allAttr_append (allAttr_append (allAttr_flatten ?_) ?_) (allAttr_ite _ _ _)
  · intro p hp
    obtain ⟨var, _, hf⟩ := mapM_ok _ _ _ hparts p hp
    by_cases ha : var.isAttribute = true
    · simp only [ha, if_true] at hf
      obtain ⟨value, _, hf1⟩ := bind_ok hf
      rcases ite_cases hf1 with ⟨_, hf1⟩ | ⟨_, hf1⟩
      · simp only [pure, Except.pure, Except.ok.injEq] at hf1
        rw [← hf1]; intro ev hev; simp at hev
      · obtain ⟨d, _, hf2⟩ := bind_ok hf1
        simp only [pure, Except.pure, Except.ok.injEq] at hf2
        rw [← hf2]; intro ev hev; simp at hev; exact ⟨_, _, hev⟩
    · simp only [ha, Bool.false_eq_true, if_false] at hf
      split at hf
      · simp only [pure, Except.pure, Except.ok.injEq] at hf
        rw [← hf]
        intro ev hev
        obtain ⟨kv, _, hkv⟩ := List.mem_map.mp hev
        exact ⟨_, _, hkv.symm⟩
      · cases hf
      · cases hf
      · simp only [pure, Except.pure, Except.ok.injEq] at hf
        rw [← hf]; intro ev hev; simp at hev
  · intro ev hev
    split at hev
    · split at hev
      · simp at hev
      · simp at hev; exact ⟨_, _, hev⟩
    · simp at hev

end Proofs.GenForest

namespace Proofs.GenForest
open Py Xs.Bind

/-- the five mutually recursive generator functions produce well-nested lists (for one fuel value) -/
structure GenOK (e : BEnv) (Γ : Ctx) (cfg : SerCfg) (fuel : Nat) : Prop where
  obj : ∀ v pns q nl xt evs, genObj e Γ cfg fuel v pns q nl xt = .ok evs → BForest evs
  value : ∀ v var ns evs, genValue e Γ cfg fuel v var ns = .ok evs → BForest evs
  anyType : ∀ v var ns evs, genAnyType e Γ cfg fuel v var ns = .ok evs → BForest evs
  xsiElem : ∀ v cls var ns evs, genXsiElement e Γ cfg fuel v cls var ns = .ok evs → BForest evs
  choice : ∀ v var ns evs, genChoice e Γ cfg fuel v var ns = .ok evs → BForest evs

theorem mapM_forest {α : Type} (f : α → Except Err (List Ev)) (xs : List α) (parts : List (List Ev))
    (h : xs.mapM f = .ok parts) (hf : ∀ x r, f x = .ok r → BForest r) : BForest parts.flatten := by
  apply BForest.flatten
  intro p hp
  obtain ⟨x, _, hx⟩ := mapM_ok f xs parts h p hp
  exact hf x p hx

theorem pure_ok {α : Type} {a b : α} (h : (pure a : Except Err α) = .ok b) : a = b := by
  simpa [pure, Except.pure] using h

theorem wrap4 (q : QN) (a b : List Ev) (h : BForest (a ++ b)) : BForest ([Ev.start q] ++ a ++ b ++ [Ev.end q]) := by
  have := BForest.wrap q h
  simpa [List.append_assoc] using this

theorem genOK_zero (e : BEnv) (Γ : Ctx) (cfg : SerCfg) : GenOK e Γ cfg 0 := by
  refine ⟨?_, ?_, ?_, ?_, ?_⟩ <;> intros <;> rename_i h <;> simp [genObj, genValue, genAnyType, genXsiElement, genChoice] at h

theorem genObj_succ (e : BEnv) (Γ : Ctx) (cfg : SerCfg) (fuel : Nat) (ih : GenOK e Γ cfg fuel) :
    ∀ v pns q nl xt evs, genObj e Γ cfg (fuel + 1) v pns q nl xt = .ok evs → BForest evs := by
  intro v pns q nl xt evs h
  cases v with
  | obj cls fields =>
    simp only [genObj] at h
    obtain ⟨m, _, h⟩ := bind_ok h
    obtain ⟨attrs, hattrs, h⟩ := bind_ok h
    obtain ⟨vals, _, h⟩ := bind_ok h
    obtain ⟨body, hbody, h⟩ := bind_ok h
    have := pure_ok h
    rw [← this]
    have hb : BForest body.flatten := by
      refine mapM_forest _ vals body hbody ?_
      intro x r hx
      obtain ⟨var, value⟩ := x
      simp only [] at hx
      obtain ⟨inner, hinner, hx⟩ := bind_ok hx
      have hi := ih.value _ _ _ _ hinner
      split at hx
      · rw [← pure_ok hx]; exact BForest.wrap _ hi
      · rw [← pure_ok hx]; exact hi
    have hk := (BForest.ofAttrs (nextAttribute_allAttr _ _ _ _ _ _ hattrs)).append hb
    exact wrap4 _ _ _ hk
  | _ => simp [genObj] at h

end Proofs.GenForest

namespace Proofs.GenForest
open Py Xs.Bind

theorem genValue_succ (e : BEnv) (Γ : Ctx) (cfg : SerCfg) (fuel : Nat) (ih : GenOK e Γ cfg fuel) :
    ∀ v var ns evs, genValue e Γ cfg (fuel + 1) v var ns = .ok evs → BForest evs := by
  intro v var ns evs h
  simp only [genValue] at h
  rcases ite_cases h with ⟨_, h⟩ | ⟨_, h⟩
  · -- mixed
    split at h
    · obtain ⟨parts, hparts, h⟩ := bind_ok h
      rw [← pure_ok h]
      exact mapM_forest _ _ _ hparts (fun x r hx => ih.anyType _ _ _ _ hx)
    · obtain ⟨parts, hparts, h⟩ := bind_ok h
      rw [← pure_ok h]
      exact mapM_forest _ _ _ hparts (fun x r hx => ih.anyType _ _ _ _ hx)
    · cases h
  rcases ite_cases h with ⟨_, h⟩ | ⟨_, h⟩
  · obtain ⟨d, _, h⟩ := bind_ok h
    rw [← pure_ok h]
    exact BForest.data d BForest.nil
  rcases ite_cases h with ⟨_, h⟩ | ⟨_, h⟩
  · -- tokens
    rcases ite_cases h with ⟨_, h⟩ | ⟨_, h⟩
    · split at h
      · obtain ⟨parts, hparts, h⟩ := bind_ok h
        rw [← pure_ok h]
        exact mapM_forest _ _ _ hparts (fun x r hx => convertElement_forest _ _ _ hx)
      · rcases ite_cases h with ⟨_, h⟩ | ⟨_, h⟩
        · cases h
        · exact convertElement_forest _ _ _ h
      · rcases ite_cases h with ⟨_, h⟩ | ⟨_, h⟩
        · cases h
        · exact convertElement_forest _ _ _ h
      · exact convertElement_forest _ _ _ h
    · cases h; exact BForest.nil
  rcases ite_cases h with ⟨_, h⟩ | ⟨_, h⟩
  · -- compound
    split at h
    · obtain ⟨parts, hparts, h⟩ := bind_ok h
      rw [← pure_ok h]
      exact mapM_forest _ _ _ hparts (fun x r hx => ih.choice _ _ _ _ hx)
    · exact ih.choice _ _ _ _ h
  rcases ite_cases h with ⟨_, h⟩ | ⟨_, h⟩
  · split at h
    · obtain ⟨parts, hparts, h⟩ := bind_ok h
      rw [← pure_ok h]
      exact mapM_forest _ _ _ hparts (fun x r hx => ih.value _ _ _ _ hx)
    · cases h; exact BForest.nil
  · exact ih.anyType _ _ _ _ h

end Proofs.GenForest

namespace Proofs.GenForest
open Py Xs.Bind

theorem attrsMap_allAttr (attrs : List (QN × Str)) :
    allAttr (attrs.map (fun (k, x) => Ev.attr k (.prim (.str x)))) := by
  intro ev hev
  obtain ⟨kv, _, hkv⟩ := List.mem_map.mp hev
  exact ⟨_, _, hkv.symm⟩

/-- `convert_any_element`: an element if the `AnyElement` has a qname, its pieces otherwise -/
theorem anyShape (q : Option QN) (as nf : List Ev) (d : Data) (kids tl : List Ev)
    (has : allAttr as) (hnf : BForest nf) (hk : BForest kids) (htl : BForest tl) :
    BForest ((match q with | some q => [Ev.start q] | none => []) ++ as ++ nf ++ [Ev.data d] ++ kids
      ++ (match q with | some q => [Ev.end q] | none => []) ++ tl) := by
  have hin : BForest (as ++ nf ++ [Ev.data d] ++ kids) :=
    (((BForest.ofAttrs has).append hnf).append (BForest.data d BForest.nil)).append hk
  cases q with
  | none => simpa [List.append_assoc] using hin.append htl
  | some q =>
    have := (BForest.wrap q hin).append htl
    simpa [List.append_assoc] using this

theorem genAnyType_succ (e : BEnv) (Γ : Ctx) (cfg : SerCfg) (fuel : Nat) (ih : GenOK e Γ cfg fuel) :
    ∀ v var ns evs, genAnyType e Γ cfg (fuel + 1) v var ns = .ok evs → BForest evs := by
  intro v var ns evs h
  cases v with
  | any qname text tail attrs children =>
    simp only [genAnyType] at h
    obtain ⟨kids, hkids, h⟩ := bind_ok h
    rw [← pure_ok h]
    apply anyShape
    · exact attrsMap_allAttr attrs
    · split
      · exact BForest.data _ BForest.nil
      · exact BForest.nil
    · exact mapM_forest _ _ _ hkids (fun x r hx => ih.anyType _ _ _ _ hx)
    · split
      · split
        · exact BForest.nil
        · exact BForest.data _ BForest.nil
      · exact BForest.nil
  | derived qname value tp =>
    simp only [genAnyType] at h
    split at h
    · obtain ⟨m, _, h⟩ := bind_ok h
      exact ih.obj _ _ _ _ _ _ h
    · obtain ⟨d, _, h⟩ := bind_ok h
      rw [← pure_ok h]
      exact BForest.elem qname (BForest.attr _ _ (BForest.data d BForest.nil)) BForest.nil
    · cases h
  | obj cls fields =>
    simp only [genAnyType] at h
    rcases ite_cases h with ⟨_, h⟩ | ⟨_, h⟩
    · obtain ⟨ch, _, h⟩ := bind_ok h
      split at h
      · rcases ite_cases h with ⟨_, h⟩ | ⟨_, h⟩
        · exact ih.xsiElem _ _ _ _ _ h
        · cases h
      · exact ih.obj _ _ _ _ _ _ h
    rcases ite_cases h with ⟨_, h⟩ | ⟨_, h⟩
    · exact ih.xsiElem _ _ _ _ _ h
    · obtain ⟨m, _, h⟩ := bind_ok h
      exact ih.obj _ _ _ _ _ _ h
  | none =>
    simp only [genAnyType] at h
    rcases ite_cases h with ⟨_, h⟩ | ⟨_, h⟩
    · exact convertElement_forest _ _ _ h
    · obtain ⟨d, _, h⟩ := bind_ok h
      rw [← pure_ok h]; exact BForest.data d BForest.nil
  | prim p =>
    simp only [genAnyType] at h
    rcases ite_cases h with ⟨_, h⟩ | ⟨_, h⟩
    · exact convertElement_forest _ _ _ h
    · obtain ⟨d, _, h⟩ := bind_ok h
      rw [← pure_ok h]; exact BForest.data d BForest.nil
  | list xs =>
    simp only [genAnyType] at h
    rcases ite_cases h with ⟨_, h⟩ | ⟨_, h⟩
    · exact convertElement_forest _ _ _ h
    · obtain ⟨d, _, h⟩ := bind_ok h
      rw [← pure_ok h]; exact BForest.data d BForest.nil
  | attrs m =>
    simp only [genAnyType] at h
    rcases ite_cases h with ⟨_, h⟩ | ⟨_, h⟩
    · exact convertElement_forest _ _ _ h
    · obtain ⟨d, _, h⟩ := bind_ok h
      rw [← pure_ok h]; exact BForest.data d BForest.nil

end Proofs.GenForest

namespace Proofs.GenForest
open Py Xs.Bind

theorem genXsiElement_succ (e : BEnv) (Γ : Ctx) (cfg : SerCfg) (fuel : Nat) (ih : GenOK e Γ cfg fuel) :
    ∀ v cls var ns evs, genXsiElement e Γ cfg (fuel + 1) v cls var ns = .ok evs → BForest evs := by
  intro v cls var ns evs h
  simp only [genXsiElement] at h
  rcases ite_cases h with ⟨_, h⟩ | ⟨_, h⟩
  · obtain ⟨xt, _, h⟩ := bind_ok h
    exact ih.obj _ _ _ _ _ _ h
  · split at h
    · rcases ite_cases h with ⟨_, h⟩ | ⟨_, h⟩
      · obtain ⟨m, _, h⟩ := bind_ok h
        obtain ⟨xt, _, h⟩ := bind_ok h
        exact ih.obj _ _ _ _ _ _ h
      · obtain ⟨xt, hx, h⟩ := bind_ok h
        cases hx
    · obtain ⟨m, _, h⟩ := bind_ok h
      obtain ⟨xt, _, h⟩ := bind_ok h
      exact ih.obj _ _ _ _ _ _ h

theorem genChoice_succ (e : BEnv) (Γ : Ctx) (cfg : SerCfg) (fuel : Nat) (ih : GenOK e Γ cfg fuel) :
    ∀ v var ns evs, genChoice e Γ cfg (fuel + 1) v var ns = .ok evs → BForest evs := by
  intro v var ns evs h
  simp only [genChoice] at h
  split at h
  · -- derived
    split at h
    · cases h
    · rcases ite_cases h with ⟨_, h⟩ | ⟨_, h⟩
      · exact ih.anyType _ _ _ _ h
      · split at h
        · exact ih.anyType _ _ _ _ h
        · exact convertElement_forest _ _ _ h
  · -- any with qname
    rcases ite_cases h with ⟨_, h⟩ | ⟨_, h⟩
    · cases h
    · split at h
      · cases h
      · exact ih.anyType _ _ _ _ h
  · obtain ⟨ch, _, h⟩ := bind_ok h
    split at h
    · exact ih.value _ _ _ _ h
    · rcases ite_cases h with ⟨_, h⟩ | ⟨_, h⟩
      · exact ih.anyType _ _ _ _ h
      · cases h

/-- all five functions, for every fuel -/
theorem genOK_all (e : BEnv) (Γ : Ctx) (cfg : SerCfg) : ∀ fuel, GenOK e Γ cfg fuel := by
  intro fuel
  induction fuel with
  | zero => exact genOK_zero e Γ cfg
  | succ n ih =>
    exact ⟨genObj_succ e Γ cfg n ih, genValue_succ e Γ cfg n ih, genAnyType_succ e Γ cfg n ih,
      genXsiElement_succ e Γ cfg n ih, genChoice_succ e Γ cfg n ih⟩

/-- **every successful `EventGenerator.generate` yields a well-nested event list** -/
theorem generate_forest (e : BEnv) (Γ : Ctx) (cfg : SerCfg) (v : Val) (evs : List Ev)
    (h : generate e Γ cfg v = .ok evs) : BForest evs := by
  unfold generate at h
  simp only [] at h
  split at h
  · split at h
    · obtain ⟨m, _, h⟩ := bind_ok h
      exact (genOK_all e Γ cfg _).obj _ _ _ _ _ _ h
    · cases h
  · exact (genOK_all e Γ cfg _).obj _ _ _ _ _ _ h

end Proofs.GenForest

namespace Proofs.GenForest
open Py Xs.Bind

theorem shape4 (q : QN) (a b : List Ev) :
    [Ev.start q] ++ a ++ b ++ [Ev.end q] = Ev.start q :: ((a ++ b) ++ [Ev.end q]) := by
  simp [List.append_assoc]

theorem shapeEx (q : QN) (a b : List Ev) (hk : BForest (a ++ b)) :
    ∃ qn kids, [Ev.start q] ++ a ++ b ++ [Ev.end q] = Ev.start qn :: (kids ++ [Ev.end qn]) ∧ BForest kids :=
  ⟨q, a ++ b, shape4 q a b, hk⟩

/-- `convert_dataclass` writes exactly one element -/
theorem genObj_shape (e : BEnv) (Γ : Ctx) (cfg : SerCfg) (fuel : Nat) :
    ∀ v pns q nl xt evs, genObj e Γ cfg (fuel + 1) v pns q nl xt = .ok evs →
    ∃ qn kids, evs = Ev.start qn :: (kids ++ [Ev.end qn]) ∧ BForest kids := by
  intro v pns q nl xt evs h
  have ih := genOK_all e Γ cfg fuel
  cases v with
  | obj cls fields =>
    simp only [genObj] at h
    obtain ⟨m, _, h⟩ := bind_ok h
    obtain ⟨attrs, hattrs, h⟩ := bind_ok h
    obtain ⟨vals, _, h⟩ := bind_ok h
    obtain ⟨body, hbody, h⟩ := bind_ok h
    have := pure_ok h
    have hb : BForest body.flatten := by
      refine mapM_forest _ vals body hbody ?_
      intro x r hx
      obtain ⟨var, value⟩ := x
      simp only [] at hx
      obtain ⟨inner, hinner, hx⟩ := bind_ok hx
      have hi := ih.value _ _ _ _ hinner
      split at hx
      · rw [← pure_ok hx]; exact BForest.wrap _ hi
      · rw [← pure_ok hx]; exact hi
    have hk := (BForest.ofAttrs (nextAttribute_allAttr _ _ _ _ _ _ hattrs)).append hb
    rw [← this]
    exact shapeEx _ _ _ hk
  | _ => simp [genObj] at h

/-- **`EventGenerator.generate` yields one element with well-nested content** -/
theorem generate_root (e : BEnv) (Γ : Ctx) (cfg : SerCfg) (v : Val) (evs : List Ev)
    (h : generate e Γ cfg v = .ok evs) :
    ∃ qn kids, evs = Ev.start qn :: (kids ++ [Ev.end qn]) ∧ BForest kids := by
  unfold generate at h
  simp only [] at h
  have hf : 4 * v.size + 8 = (4 * v.size + 7) + 1 := by omega
  rw [hf] at h
  split at h
  · split at h
    · obtain ⟨m, _, h⟩ := bind_ok h
      exact genObj_shape e Γ cfg _ _ _ _ _ _ _ h
    · cases h
  · exact genObj_shape e Γ cfg _ _ _ _ _ _ _ h

end Proofs.GenForest
