import Driver.Proto
import Driver.OpsGen
import Driver.OpsGenAttrs
import XsdataModel.Gen.Derive
import XsdataModel.Gen.Attrs
import XsdataModel.Gen.Subst
import XsdataModel.Gen.Compound
import XsdataModel.Gen.TypeLookup
open Lean Proto Py Xs.Gen

namespace OpsGenDerive
open OpsGen OpsGenAttrs

def dOAttr (j : Json) : Except String OAttr := do
  pure { min := ← dNat (fld j "min"), max := ← dNat (fld j "max"), default := ← dOptS (fld j "default"),
         fixed := (getBool j "fixed").toOption.getD false }

def jOAttr (a : OAttr) : Json :=
  jObj [("min", jNat a.min), ("max", jNat a.max), ("default", jOpt jStr a.default), ("fixed", jBool a.fixed)]

def dNamed (j : Json) : Except String (List (Str × OAttr)) := do
  (← asArr j).mapM fun x => do pure (← asStr (fld x "name"), ← dOAttr x)

/-- the dataclass field of an element attr of string type (`Gen/Attrs`); a prohibited attr kept by
`prohibit_parent_attrs` is rendered `init=False, default=None` -/
def shape (a : OAttr) : Json :=
  if a.max = 0 then Json.str "prohibited" else
  jField (fieldOf (sanitize { isAttribute := false, min := a.min, max := a.max, default := a.default,
                              fixed := a.fixed, anyObj := false }))

def jShapes (xs : List (Str × OAttr)) : Json :=
  jList (fun (x : Str × OAttr) => Json.arr #[jStr x.1, shape x.2]) xs

def run (op : String) (a : Json) : Option (Except String Json) :=
  match op with
  | "gen.override" => some do
      let c ← dOAttr (fld a "child")
      let p ← dOAttr (fld a "parent")
      let (c', p') := validateOverride c p
      pure <| ok (jObj [("child", jOpt jOAttr c'), ("parent", jOAttr p')])
  | "gen.restrict_attrs" => some do
      let (d, b) := restrictClass (← dNamed (fld a "base")) (← dNamed (fld a "own"))
      let named (xs : List (Str × OAttr)) : Json :=
        jList (fun (x : Str × OAttr) => Json.arr #[jStr x.1, jOAttr x.2]) xs
      pure <| ok (jObj [("derived", named d), ("base", named b)])
  | "gen.restrict_fields" => some do
      let base ← dNamed (fld a "base")
      let (inherits, d, b) := restrictDerived base (← dNamed (fld a "own"))
      pure <| ok (jObj [("inherits", jBool inherits),
                        ("derived", jShapes (if inherits then derivedFields b d else d)), ("base", jShapes b)])
  | "gen.ext_fields" => some do
      -- extension: inherited fields, then the own fields, each class with its own occurrence products
      let pa ← dParticle (fld a "base")
      let pb ← dParticle (fld a "ext")
      pure <| ok (jList jSite (occurs (sites pa) ++ occurs (sites pb)))
  | "gen.subst_sites" => some do
      let pairs ← (← asArr (fld a "subs")).mapM fun j => match j with
        | .arr #[m, h] => do pure (← asStr m, ← asStr h)
        | _ => .error "bad substitution pair"
      let refs ← (← asArr (fld a "refs")).mapM asStr
      pure <| ok (jList jSite (substituteAll pairs refs (← sitesArg a)))
  | "gen.subst_fields" => some do
      let pairs ← (← asArr (fld a "subs")).mapM fun j => match j with
        | .arr #[m, h] => do pure (← asStr m, ← asStr h)
        | _ => .error "bad substitution pair"
      let refs ← (← asArr (fld a "refs")).mapM asStr
      -- CalculateAttributePaths, UpdateAttributesEffectiveChoice, AddAttributeSubstitutions, MergeAttributes
      let mem : Str → List Str := fun n => if refs.contains n then membersOf pairs (pairs.length + 1) n else []
      pure <| ok (jList jSite (occursSubst mem (sites (← dParticle (fld a "particle")))))
  | "gen.compound" => some do
      let ss ← sitesArg a
      pure <| ok (jList (fun (f : CField) => match f with
        | .plain s => jObj [("plain", jStr s.name)]
        | .compound c => jObj [("compound", jObj [("names", jList jStr c.names), ("min", jNat c.min),
            ("max", jNat c.max), ("sequence", jOpt jNat c.sequence)])]) (compoundFields ss))
  | "gen.find_dependency" => some do
      let dTag (j : Json) : Except String CTag := match j with
        | .str "Element" => pure .element | .str "ComplexType" => pure .complexType
        | .str "SimpleType" => pure .simpleType | .str "Attribute" => pure .attribute
        | _ => .error "bad tag"
      let cands ← (← asArr (fld a "cands")).mapM dTag
      let target ← match fld a "target" with
        | .null => pure (none : Option Nat)
        | j => (dNat j).map some
      pure <| ok (jOpt jNat (findDependency (← dTag (fld a "tag")) cands (fun i => target = some i)))
  | _ => none

end OpsGenDerive
